(* C17 -- scalar polynomial lemmas about a 3x3 matrix V with orthonormal columns
   (v_ik = row i, column k) that diagonalises the symmetric matrix (m_ij).
   Written by a script (build/C17/scratch/genpoly.py at authoring time); every
   proof is nsatz or ring on an explicit, minimal set of hypotheses. *)
From Coq Require Import Reals Nsatz Lra.
Open Scope R_scope.

Definition ortho6 (v00 v01 v02 v10 v11 v12 v20 v21 v22 : R) : Prop :=
  v00*v00+v10*v10+v20*v20 = 1 /\ v01*v01+v11*v11+v21*v21 = 1 /\ v02*v02+v12*v12+v22*v22 = 1 /\
  v00*v01+v10*v11+v20*v21 = 0 /\ v00*v02+v10*v12+v20*v22 = 0 /\ v01*v02+v11*v12+v21*v22 = 0.

Definition eig9 (m00 m01 m02 m11 m12 m22 w0 w1 w2 v00 v01 v02 v10 v11 v12 v20 v21 v22 : R) : Prop :=
  m00*v00+m01*v10+m02*v20 = v00*w0 /\ m00*v01+m01*v11+m02*v21 = v01*w1 /\
  m00*v02+m01*v12+m02*v22 = v02*w2 /\
  m01*v00+m11*v10+m12*v20 = v10*w0 /\ m01*v01+m11*v11+m12*v21 = v11*w1 /\
  m01*v02+m11*v12+m12*v22 = v12*w2 /\
  m02*v00+m12*v10+m22*v20 = v20*w0 /\ m02*v01+m12*v11+m22*v21 = v21*w1 /\
  m02*v02+m12*v12+m22*v22 = v22*w2.

Section Poly.
Variables v00 v01 v02 v10 v11 v12 v20 v21 v22 : R.
Variables m00 m01 m02 m11 m12 m22 w0 w1 w2 : R.

Lemma rowortho : ortho6 v00 v01 v02 v10 v11 v12 v20 v21 v22 ->
  ortho6 v00 v10 v20 v01 v11 v21 v02 v12 v22.
Proof. unfold ortho6. intros (o00 & o11 & o22 & o01 & o02 & o12). repeat split; nsatz. Qed.

Lemma ccA_00 (gp gq gr : R) : ortho6 v00 v01 v02 v10 v11 v12 v20 v21 v22 ->
  gp*v02*v02 + gq*v01*v01 + gr*(v12*v21 - v22*v11)*(v12*v21 - v22*v11) =
  gp*v02*v02 + gq*v01*v01 + gr*v00*v00.
Proof. unfold ortho6. intros (o00 & o11 & o22 & o01 & o02 & o12). nsatz. Qed.
Lemma ccA_01 (gp gq gr : R) : ortho6 v00 v01 v02 v10 v11 v12 v20 v21 v22 ->
  gp*v02*v12 + gq*v01*v11 + gr*(v12*v21 - v22*v11)*(v22*v01 - v02*v21) =
  gp*v02*v12 + gq*v01*v11 + gr*v00*v10.
Proof. unfold ortho6. intros (o00 & o11 & o22 & o01 & o02 & o12). nsatz. Qed.
Lemma ccA_02 (gp gq gr : R) : ortho6 v00 v01 v02 v10 v11 v12 v20 v21 v22 ->
  gp*v02*v22 + gq*v01*v21 + gr*(v12*v21 - v22*v11)*(v02*v11 - v12*v01) =
  gp*v02*v22 + gq*v01*v21 + gr*v00*v20.
Proof. unfold ortho6. intros (o00 & o11 & o22 & o01 & o02 & o12). nsatz. Qed.
Lemma ccA_10 (gp gq gr : R) : ortho6 v00 v01 v02 v10 v11 v12 v20 v21 v22 ->
  gp*v12*v02 + gq*v11*v01 + gr*(v22*v01 - v02*v21)*(v12*v21 - v22*v11) =
  gp*v12*v02 + gq*v11*v01 + gr*v10*v00.
Proof. unfold ortho6. intros (o00 & o11 & o22 & o01 & o02 & o12). nsatz. Qed.
Lemma ccA_11 (gp gq gr : R) : ortho6 v00 v01 v02 v10 v11 v12 v20 v21 v22 ->
  gp*v12*v12 + gq*v11*v11 + gr*(v22*v01 - v02*v21)*(v22*v01 - v02*v21) =
  gp*v12*v12 + gq*v11*v11 + gr*v10*v10.
Proof. unfold ortho6. intros (o00 & o11 & o22 & o01 & o02 & o12). nsatz. Qed.
Lemma ccA_12 (gp gq gr : R) : ortho6 v00 v01 v02 v10 v11 v12 v20 v21 v22 ->
  gp*v12*v22 + gq*v11*v21 + gr*(v22*v01 - v02*v21)*(v02*v11 - v12*v01) =
  gp*v12*v22 + gq*v11*v21 + gr*v10*v20.
Proof. unfold ortho6. intros (o00 & o11 & o22 & o01 & o02 & o12). nsatz. Qed.
Lemma ccA_20 (gp gq gr : R) : ortho6 v00 v01 v02 v10 v11 v12 v20 v21 v22 ->
  gp*v22*v02 + gq*v21*v01 + gr*(v02*v11 - v12*v01)*(v12*v21 - v22*v11) =
  gp*v22*v02 + gq*v21*v01 + gr*v20*v00.
Proof. unfold ortho6. intros (o00 & o11 & o22 & o01 & o02 & o12). nsatz. Qed.
Lemma ccA_21 (gp gq gr : R) : ortho6 v00 v01 v02 v10 v11 v12 v20 v21 v22 ->
  gp*v22*v12 + gq*v21*v11 + gr*(v02*v11 - v12*v01)*(v22*v01 - v02*v21) =
  gp*v22*v12 + gq*v21*v11 + gr*v20*v10.
Proof. unfold ortho6. intros (o00 & o11 & o22 & o01 & o02 & o12). nsatz. Qed.
Lemma ccA_22 (gp gq gr : R) : ortho6 v00 v01 v02 v10 v11 v12 v20 v21 v22 ->
  gp*v22*v22 + gq*v21*v21 + gr*(v02*v11 - v12*v01)*(v02*v11 - v12*v01) =
  gp*v22*v22 + gq*v21*v21 + gr*v20*v20.
Proof. unfold ortho6. intros (o00 & o11 & o22 & o01 & o02 & o12). nsatz. Qed.
Lemma frameA : ortho6 v00 v01 v02 v10 v11 v12 v20 v21 v22 ->
  (v12*v21 - v22*v11)*(v12*v21 - v22*v11) + (v22*v01 - v02*v21)*(v22*v01 - v02*v21) + (v02*v11 - v12*v01)*(v02*v11 - v12*v01) = 1 /\
  v02*(v12*v21 - v22*v11) + v12*(v22*v01 - v02*v21) + v22*(v02*v11 - v12*v01) = 0 /\
  v01*(v12*v21 - v22*v11) + v11*(v22*v01 - v02*v21) + v21*(v02*v11 - v12*v01) = 0 /\
  v02*(v11*(v02*v11 - v12*v01) - v21*(v22*v01 - v02*v21)) - v01*(v12*(v02*v11 - v12*v01) - v22*(v22*v01 - v02*v21)) + (v12*v21 - v22*v11)*(v12*v21 - v22*v11) = 1.
Proof. unfold ortho6. intros (o00 & o11 & o22 & o01 & o02 & o12). repeat split; nsatz. Qed.

Lemma ccB_00 (gp gq gr : R) : ortho6 v00 v01 v02 v10 v11 v12 v20 v21 v22 ->
  gp*v00*v00 + gq*v01*v01 + gr*(v10*v21 - v20*v11)*(v10*v21 - v20*v11) =
  gp*v00*v00 + gq*v01*v01 + gr*v02*v02.
Proof. unfold ortho6. intros (o00 & o11 & o22 & o01 & o02 & o12). nsatz. Qed.
Lemma ccB_01 (gp gq gr : R) : ortho6 v00 v01 v02 v10 v11 v12 v20 v21 v22 ->
  gp*v00*v10 + gq*v01*v11 + gr*(v10*v21 - v20*v11)*(v20*v01 - v00*v21) =
  gp*v00*v10 + gq*v01*v11 + gr*v02*v12.
Proof. unfold ortho6. intros (o00 & o11 & o22 & o01 & o02 & o12). nsatz. Qed.
Lemma ccB_02 (gp gq gr : R) : ortho6 v00 v01 v02 v10 v11 v12 v20 v21 v22 ->
  gp*v00*v20 + gq*v01*v21 + gr*(v10*v21 - v20*v11)*(v00*v11 - v10*v01) =
  gp*v00*v20 + gq*v01*v21 + gr*v02*v22.
Proof. unfold ortho6. intros (o00 & o11 & o22 & o01 & o02 & o12). nsatz. Qed.
Lemma ccB_10 (gp gq gr : R) : ortho6 v00 v01 v02 v10 v11 v12 v20 v21 v22 ->
  gp*v10*v00 + gq*v11*v01 + gr*(v20*v01 - v00*v21)*(v10*v21 - v20*v11) =
  gp*v10*v00 + gq*v11*v01 + gr*v12*v02.
Proof. unfold ortho6. intros (o00 & o11 & o22 & o01 & o02 & o12). nsatz. Qed.
Lemma ccB_11 (gp gq gr : R) : ortho6 v00 v01 v02 v10 v11 v12 v20 v21 v22 ->
  gp*v10*v10 + gq*v11*v11 + gr*(v20*v01 - v00*v21)*(v20*v01 - v00*v21) =
  gp*v10*v10 + gq*v11*v11 + gr*v12*v12.
Proof. unfold ortho6. intros (o00 & o11 & o22 & o01 & o02 & o12). nsatz. Qed.
Lemma ccB_12 (gp gq gr : R) : ortho6 v00 v01 v02 v10 v11 v12 v20 v21 v22 ->
  gp*v10*v20 + gq*v11*v21 + gr*(v20*v01 - v00*v21)*(v00*v11 - v10*v01) =
  gp*v10*v20 + gq*v11*v21 + gr*v12*v22.
Proof. unfold ortho6. intros (o00 & o11 & o22 & o01 & o02 & o12). nsatz. Qed.
Lemma ccB_20 (gp gq gr : R) : ortho6 v00 v01 v02 v10 v11 v12 v20 v21 v22 ->
  gp*v20*v00 + gq*v21*v01 + gr*(v00*v11 - v10*v01)*(v10*v21 - v20*v11) =
  gp*v20*v00 + gq*v21*v01 + gr*v22*v02.
Proof. unfold ortho6. intros (o00 & o11 & o22 & o01 & o02 & o12). nsatz. Qed.
Lemma ccB_21 (gp gq gr : R) : ortho6 v00 v01 v02 v10 v11 v12 v20 v21 v22 ->
  gp*v20*v10 + gq*v21*v11 + gr*(v00*v11 - v10*v01)*(v20*v01 - v00*v21) =
  gp*v20*v10 + gq*v21*v11 + gr*v22*v12.
Proof. unfold ortho6. intros (o00 & o11 & o22 & o01 & o02 & o12). nsatz. Qed.
Lemma ccB_22 (gp gq gr : R) : ortho6 v00 v01 v02 v10 v11 v12 v20 v21 v22 ->
  gp*v20*v20 + gq*v21*v21 + gr*(v00*v11 - v10*v01)*(v00*v11 - v10*v01) =
  gp*v20*v20 + gq*v21*v21 + gr*v22*v22.
Proof. unfold ortho6. intros (o00 & o11 & o22 & o01 & o02 & o12). nsatz. Qed.
Lemma frameB : ortho6 v00 v01 v02 v10 v11 v12 v20 v21 v22 ->
  (v10*v21 - v20*v11)*(v10*v21 - v20*v11) + (v20*v01 - v00*v21)*(v20*v01 - v00*v21) + (v00*v11 - v10*v01)*(v00*v11 - v10*v01) = 1 /\
  v00*(v10*v21 - v20*v11) + v10*(v20*v01 - v00*v21) + v20*(v00*v11 - v10*v01) = 0 /\
  v01*(v10*v21 - v20*v11) + v11*(v20*v01 - v00*v21) + v21*(v00*v11 - v10*v01) = 0 /\
  v00*(v11*(v00*v11 - v10*v01) - v21*(v20*v01 - v00*v21)) - v01*(v10*(v00*v11 - v10*v01) - v20*(v20*v01 - v00*v21)) + (v10*v21 - v20*v11)*(v10*v21 - v20*v11) = 1.
Proof. unfold ortho6. intros (o00 & o11 & o22 & o01 & o02 & o12). repeat split; nsatz. Qed.

Lemma spectral_00 : ortho6 v00 v01 v02 v10 v11 v12 v20 v21 v22 -> eig9 m00 m01 m02 m11 m12 m22 w0 w1 w2 v00 v01 v02 v10 v11 v12 v20 v21 v22 ->
  w0*v00*v00 + w1*v01*v01 + w2*v02*v02 = m00.
Proof. unfold ortho6, eig9. intros Ho (e00 & e01 & e02 & e10 & e11 & e12 & e20 & e21 & e22). destruct (rowortho Ho) as (r00 & r11 & r22 & r01 & r02 & r12).
  clear Ho. clear - e00 e01 e02 r00 r11 r22 r01 r02 r12. nsatz. Qed.
Lemma spectral_01 : ortho6 v00 v01 v02 v10 v11 v12 v20 v21 v22 -> eig9 m00 m01 m02 m11 m12 m22 w0 w1 w2 v00 v01 v02 v10 v11 v12 v20 v21 v22 ->
  w0*v00*v10 + w1*v01*v11 + w2*v02*v12 = m01.
Proof. unfold ortho6, eig9. intros Ho (e00 & e01 & e02 & e10 & e11 & e12 & e20 & e21 & e22). destruct (rowortho Ho) as (r00 & r11 & r22 & r01 & r02 & r12).
  clear Ho. clear - e00 e01 e02 r00 r11 r22 r01 r02 r12. nsatz. Qed.
Lemma spectral_02 : ortho6 v00 v01 v02 v10 v11 v12 v20 v21 v22 -> eig9 m00 m01 m02 m11 m12 m22 w0 w1 w2 v00 v01 v02 v10 v11 v12 v20 v21 v22 ->
  w0*v00*v20 + w1*v01*v21 + w2*v02*v22 = m02.
Proof. unfold ortho6, eig9. intros Ho (e00 & e01 & e02 & e10 & e11 & e12 & e20 & e21 & e22). destruct (rowortho Ho) as (r00 & r11 & r22 & r01 & r02 & r12).
  clear Ho. clear - e00 e01 e02 r00 r11 r22 r01 r02 r12. nsatz. Qed.
Lemma spectral_10 : ortho6 v00 v01 v02 v10 v11 v12 v20 v21 v22 -> eig9 m00 m01 m02 m11 m12 m22 w0 w1 w2 v00 v01 v02 v10 v11 v12 v20 v21 v22 ->
  w0*v10*v00 + w1*v11*v01 + w2*v12*v02 = m01.
Proof. unfold ortho6, eig9. intros Ho (e00 & e01 & e02 & e10 & e11 & e12 & e20 & e21 & e22). destruct (rowortho Ho) as (r00 & r11 & r22 & r01 & r02 & r12).
  clear Ho. clear - e10 e11 e12 r00 r11 r22 r01 r02 r12. nsatz. Qed.
Lemma spectral_11 : ortho6 v00 v01 v02 v10 v11 v12 v20 v21 v22 -> eig9 m00 m01 m02 m11 m12 m22 w0 w1 w2 v00 v01 v02 v10 v11 v12 v20 v21 v22 ->
  w0*v10*v10 + w1*v11*v11 + w2*v12*v12 = m11.
Proof. unfold ortho6, eig9. intros Ho (e00 & e01 & e02 & e10 & e11 & e12 & e20 & e21 & e22). destruct (rowortho Ho) as (r00 & r11 & r22 & r01 & r02 & r12).
  clear Ho. clear - e10 e11 e12 r00 r11 r22 r01 r02 r12. nsatz. Qed.
Lemma spectral_12 : ortho6 v00 v01 v02 v10 v11 v12 v20 v21 v22 -> eig9 m00 m01 m02 m11 m12 m22 w0 w1 w2 v00 v01 v02 v10 v11 v12 v20 v21 v22 ->
  w0*v10*v20 + w1*v11*v21 + w2*v12*v22 = m12.
Proof. unfold ortho6, eig9. intros Ho (e00 & e01 & e02 & e10 & e11 & e12 & e20 & e21 & e22). destruct (rowortho Ho) as (r00 & r11 & r22 & r01 & r02 & r12).
  clear Ho. clear - e10 e11 e12 r00 r11 r22 r01 r02 r12. nsatz. Qed.
Lemma spectral_20 : ortho6 v00 v01 v02 v10 v11 v12 v20 v21 v22 -> eig9 m00 m01 m02 m11 m12 m22 w0 w1 w2 v00 v01 v02 v10 v11 v12 v20 v21 v22 ->
  w0*v20*v00 + w1*v21*v01 + w2*v22*v02 = m02.
Proof. unfold ortho6, eig9. intros Ho (e00 & e01 & e02 & e10 & e11 & e12 & e20 & e21 & e22). destruct (rowortho Ho) as (r00 & r11 & r22 & r01 & r02 & r12).
  clear Ho. clear - e20 e21 e22 r00 r11 r22 r01 r02 r12. nsatz. Qed.
Lemma spectral_21 : ortho6 v00 v01 v02 v10 v11 v12 v20 v21 v22 -> eig9 m00 m01 m02 m11 m12 m22 w0 w1 w2 v00 v01 v02 v10 v11 v12 v20 v21 v22 ->
  w0*v20*v10 + w1*v21*v11 + w2*v22*v12 = m12.
Proof. unfold ortho6, eig9. intros Ho (e00 & e01 & e02 & e10 & e11 & e12 & e20 & e21 & e22). destruct (rowortho Ho) as (r00 & r11 & r22 & r01 & r02 & r12).
  clear Ho. clear - e20 e21 e22 r00 r11 r22 r01 r02 r12. nsatz. Qed.
Lemma spectral_22 : ortho6 v00 v01 v02 v10 v11 v12 v20 v21 v22 -> eig9 m00 m01 m02 m11 m12 m22 w0 w1 w2 v00 v01 v02 v10 v11 v12 v20 v21 v22 ->
  w0*v20*v20 + w1*v21*v21 + w2*v22*v22 = m22.
Proof. unfold ortho6, eig9. intros Ho (e00 & e01 & e02 & e10 & e11 & e12 & e20 & e21 & e22). destruct (rowortho Ho) as (r00 & r11 & r22 & r01 & r02 & r12).
  clear Ho. clear - e20 e21 e22 r00 r11 r22 r01 r02 r12. nsatz. Qed.
Lemma ceigA_0 : ortho6 v00 v01 v02 v10 v11 v12 v20 v21 v22 -> eig9 m00 m01 m02 m11 m12 m22 w0 w1 w2 v00 v01 v02 v10 v11 v12 v20 v21 v22 ->
  m00*(v12*v21 - v22*v11) + m01*(v22*v01 - v02*v21) + m02*(v02*v11 - v12*v01) = (v12*v21 - v22*v11)*w0.
Proof. unfold ortho6, eig9. intros (o00 & o11 & o22 & o01 & o02 & o12) (e00 & e01 & e02 & e10 & e11 & e12 & e20 & e21 & e22). nsatz. Qed.
Lemma ceigA_1 : ortho6 v00 v01 v02 v10 v11 v12 v20 v21 v22 -> eig9 m00 m01 m02 m11 m12 m22 w0 w1 w2 v00 v01 v02 v10 v11 v12 v20 v21 v22 ->
  m01*(v12*v21 - v22*v11) + m11*(v22*v01 - v02*v21) + m12*(v02*v11 - v12*v01) = (v22*v01 - v02*v21)*w0.
Proof. unfold ortho6, eig9. intros (o00 & o11 & o22 & o01 & o02 & o12) (e00 & e01 & e02 & e10 & e11 & e12 & e20 & e21 & e22). nsatz. Qed.
Lemma ceigA_2 : ortho6 v00 v01 v02 v10 v11 v12 v20 v21 v22 -> eig9 m00 m01 m02 m11 m12 m22 w0 w1 w2 v00 v01 v02 v10 v11 v12 v20 v21 v22 ->
  m02*(v12*v21 - v22*v11) + m12*(v22*v01 - v02*v21) + m22*(v02*v11 - v12*v01) = (v02*v11 - v12*v01)*w0.
Proof. unfold ortho6, eig9. intros (o00 & o11 & o22 & o01 & o02 & o12) (e00 & e01 & e02 & e10 & e11 & e12 & e20 & e21 & e22). nsatz. Qed.
Lemma inv_00 (r0 r1 r2 : R) : ortho6 v00 v01 v02 v10 v11 v12 v20 v21 v22 -> eig9 m00 m01 m02 m11 m12 m22 w0 w1 w2 v00 v01 v02 v10 v11 v12 v20 v21 v22 ->
  r0*(1+w0) = 1 -> r1*(1+w1) = 1 -> r2*(1+w2) = 1 ->
  (r0*v00*v00 + r1*v01*v01 + r2*v02*v02)*(1 + m00) + (r0*v00*v10 + r1*v01*v11 + r2*v02*v12)*m01 + (r0*v00*v20 + r1*v01*v21 + r2*v02*v22)*m02 = 1.
Proof. unfold ortho6, eig9. intros Ho (e00 & e01 & e02 & e10 & e11 & e12 & e20 & e21 & e22) i0 i1 i2. destruct (rowortho Ho) as (r00 & r11 & r22 & r01 & r02 & r12).
  clear Ho. clear - e00 e01 e02 r00 r11 r22 r01 r02 r12 i0 i1 i2. nsatz. Qed.
Lemma inv_01 (r0 r1 r2 : R) : ortho6 v00 v01 v02 v10 v11 v12 v20 v21 v22 -> eig9 m00 m01 m02 m11 m12 m22 w0 w1 w2 v00 v01 v02 v10 v11 v12 v20 v21 v22 ->
  r0*(1+w0) = 1 -> r1*(1+w1) = 1 -> r2*(1+w2) = 1 ->
  (r0*v00*v00 + r1*v01*v01 + r2*v02*v02)*m01 + (r0*v00*v10 + r1*v01*v11 + r2*v02*v12)*(1 + m11) + (r0*v00*v20 + r1*v01*v21 + r2*v02*v22)*m12 = 0.
Proof. unfold ortho6, eig9. intros Ho (e00 & e01 & e02 & e10 & e11 & e12 & e20 & e21 & e22) i0 i1 i2. destruct (rowortho Ho) as (r00 & r11 & r22 & r01 & r02 & r12).
  clear Ho. clear - e10 e11 e12 r00 r11 r22 r01 r02 r12 i0 i1 i2. nsatz. Qed.
Lemma inv_02 (r0 r1 r2 : R) : ortho6 v00 v01 v02 v10 v11 v12 v20 v21 v22 -> eig9 m00 m01 m02 m11 m12 m22 w0 w1 w2 v00 v01 v02 v10 v11 v12 v20 v21 v22 ->
  r0*(1+w0) = 1 -> r1*(1+w1) = 1 -> r2*(1+w2) = 1 ->
  (r0*v00*v00 + r1*v01*v01 + r2*v02*v02)*m02 + (r0*v00*v10 + r1*v01*v11 + r2*v02*v12)*m12 + (r0*v00*v20 + r1*v01*v21 + r2*v02*v22)*(1 + m22) = 0.
Proof. unfold ortho6, eig9. intros Ho (e00 & e01 & e02 & e10 & e11 & e12 & e20 & e21 & e22) i0 i1 i2. destruct (rowortho Ho) as (r00 & r11 & r22 & r01 & r02 & r12).
  clear Ho. clear - e20 e21 e22 r00 r11 r22 r01 r02 r12 i0 i1 i2. nsatz. Qed.
Lemma inv_10 (r0 r1 r2 : R) : ortho6 v00 v01 v02 v10 v11 v12 v20 v21 v22 -> eig9 m00 m01 m02 m11 m12 m22 w0 w1 w2 v00 v01 v02 v10 v11 v12 v20 v21 v22 ->
  r0*(1+w0) = 1 -> r1*(1+w1) = 1 -> r2*(1+w2) = 1 ->
  (r0*v10*v00 + r1*v11*v01 + r2*v12*v02)*(1 + m00) + (r0*v10*v10 + r1*v11*v11 + r2*v12*v12)*m01 + (r0*v10*v20 + r1*v11*v21 + r2*v12*v22)*m02 = 0.
Proof. unfold ortho6, eig9. intros Ho (e00 & e01 & e02 & e10 & e11 & e12 & e20 & e21 & e22) i0 i1 i2. destruct (rowortho Ho) as (r00 & r11 & r22 & r01 & r02 & r12).
  clear Ho. clear - e00 e01 e02 r00 r11 r22 r01 r02 r12 i0 i1 i2. nsatz. Qed.
Lemma inv_11 (r0 r1 r2 : R) : ortho6 v00 v01 v02 v10 v11 v12 v20 v21 v22 -> eig9 m00 m01 m02 m11 m12 m22 w0 w1 w2 v00 v01 v02 v10 v11 v12 v20 v21 v22 ->
  r0*(1+w0) = 1 -> r1*(1+w1) = 1 -> r2*(1+w2) = 1 ->
  (r0*v10*v00 + r1*v11*v01 + r2*v12*v02)*m01 + (r0*v10*v10 + r1*v11*v11 + r2*v12*v12)*(1 + m11) + (r0*v10*v20 + r1*v11*v21 + r2*v12*v22)*m12 = 1.
Proof. unfold ortho6, eig9. intros Ho (e00 & e01 & e02 & e10 & e11 & e12 & e20 & e21 & e22) i0 i1 i2. destruct (rowortho Ho) as (r00 & r11 & r22 & r01 & r02 & r12).
  clear Ho. clear - e10 e11 e12 r00 r11 r22 r01 r02 r12 i0 i1 i2. nsatz. Qed.
Lemma inv_12 (r0 r1 r2 : R) : ortho6 v00 v01 v02 v10 v11 v12 v20 v21 v22 -> eig9 m00 m01 m02 m11 m12 m22 w0 w1 w2 v00 v01 v02 v10 v11 v12 v20 v21 v22 ->
  r0*(1+w0) = 1 -> r1*(1+w1) = 1 -> r2*(1+w2) = 1 ->
  (r0*v10*v00 + r1*v11*v01 + r2*v12*v02)*m02 + (r0*v10*v10 + r1*v11*v11 + r2*v12*v12)*m12 + (r0*v10*v20 + r1*v11*v21 + r2*v12*v22)*(1 + m22) = 0.
Proof. unfold ortho6, eig9. intros Ho (e00 & e01 & e02 & e10 & e11 & e12 & e20 & e21 & e22) i0 i1 i2. destruct (rowortho Ho) as (r00 & r11 & r22 & r01 & r02 & r12).
  clear Ho. clear - e20 e21 e22 r00 r11 r22 r01 r02 r12 i0 i1 i2. nsatz. Qed.
Lemma inv_20 (r0 r1 r2 : R) : ortho6 v00 v01 v02 v10 v11 v12 v20 v21 v22 -> eig9 m00 m01 m02 m11 m12 m22 w0 w1 w2 v00 v01 v02 v10 v11 v12 v20 v21 v22 ->
  r0*(1+w0) = 1 -> r1*(1+w1) = 1 -> r2*(1+w2) = 1 ->
  (r0*v20*v00 + r1*v21*v01 + r2*v22*v02)*(1 + m00) + (r0*v20*v10 + r1*v21*v11 + r2*v22*v12)*m01 + (r0*v20*v20 + r1*v21*v21 + r2*v22*v22)*m02 = 0.
Proof. unfold ortho6, eig9. intros Ho (e00 & e01 & e02 & e10 & e11 & e12 & e20 & e21 & e22) i0 i1 i2. destruct (rowortho Ho) as (r00 & r11 & r22 & r01 & r02 & r12).
  clear Ho. clear - e00 e01 e02 r00 r11 r22 r01 r02 r12 i0 i1 i2. nsatz. Qed.
Lemma inv_21 (r0 r1 r2 : R) : ortho6 v00 v01 v02 v10 v11 v12 v20 v21 v22 -> eig9 m00 m01 m02 m11 m12 m22 w0 w1 w2 v00 v01 v02 v10 v11 v12 v20 v21 v22 ->
  r0*(1+w0) = 1 -> r1*(1+w1) = 1 -> r2*(1+w2) = 1 ->
  (r0*v20*v00 + r1*v21*v01 + r2*v22*v02)*m01 + (r0*v20*v10 + r1*v21*v11 + r2*v22*v12)*(1 + m11) + (r0*v20*v20 + r1*v21*v21 + r2*v22*v22)*m12 = 0.
Proof. unfold ortho6, eig9. intros Ho (e00 & e01 & e02 & e10 & e11 & e12 & e20 & e21 & e22) i0 i1 i2. destruct (rowortho Ho) as (r00 & r11 & r22 & r01 & r02 & r12).
  clear Ho. clear - e10 e11 e12 r00 r11 r22 r01 r02 r12 i0 i1 i2. nsatz. Qed.
Lemma inv_22 (r0 r1 r2 : R) : ortho6 v00 v01 v02 v10 v11 v12 v20 v21 v22 -> eig9 m00 m01 m02 m11 m12 m22 w0 w1 w2 v00 v01 v02 v10 v11 v12 v20 v21 v22 ->
  r0*(1+w0) = 1 -> r1*(1+w1) = 1 -> r2*(1+w2) = 1 ->
  (r0*v20*v00 + r1*v21*v01 + r2*v22*v02)*m02 + (r0*v20*v10 + r1*v21*v11 + r2*v22*v12)*m12 + (r0*v20*v20 + r1*v21*v21 + r2*v22*v22)*(1 + m22) = 1.
Proof. unfold ortho6, eig9. intros Ho (e00 & e01 & e02 & e10 & e11 & e12 & e20 & e21 & e22) i0 i1 i2. destruct (rowortho Ho) as (r00 & r11 & r22 & r01 & r02 & r12).
  clear Ho. clear - e20 e21 e22 r00 r11 r22 r01 r02 r12 i0 i1 i2. nsatz. Qed.
Lemma detshift : ortho6 v00 v01 v02 v10 v11 v12 v20 v21 v22 -> eig9 m00 m01 m02 m11 m12 m22 w0 w1 w2 v00 v01 v02 v10 v11 v12 v20 v21 v22 ->
  (1+m00)*((1+m11)*(1+m22)-m12*m12) - m01*(m01*(1+m22)-m12*m02) + m02*(m01*m12-(1+m11)*m02) = (1+w0)*(1+w1)*(1+w2).
Proof. unfold ortho6, eig9. intros (o00 & o11 & o22 & o01 & o02 & o12) (e00 & e01 & e02 & e10 & e11 & e12 & e20 & e21 & e22). nsatz. Qed.
End Poly.

Section Assoc.
Variables x00 x01 x02 x10 x11 x12 x20 x21 x22 y00 y01 y02 y10 y11 y12 y20 y21 y22 z00 z01 z02 z10 z11 z12 z20 z21 z22 : R.
Definition prodI (a00 a01 a02 a10 a11 a12 a20 a21 a22 b00 b01 b02 b10 b11 b12 b20 b21 b22 : R) : Prop :=
  a00*b00 + a01*b10 + a02*b20 = 1 /\
  a00*b01 + a01*b11 + a02*b21 = 0 /\
  a00*b02 + a01*b12 + a02*b22 = 0 /\
  a10*b00 + a11*b10 + a12*b20 = 0 /\
  a10*b01 + a11*b11 + a12*b21 = 1 /\
  a10*b02 + a11*b12 + a12*b22 = 0 /\
  a20*b00 + a21*b10 + a22*b20 = 0 /\
  a20*b01 + a21*b11 + a22*b21 = 0 /\
  a20*b02 + a21*b12 + a22*b22 = 1.
Lemma left_right_inverse : prodI x00 x01 x02 x10 x11 x12 x20 x21 x22 y00 y01 y02 y10 y11 y12 y20 y21 y22 -> prodI y00 y01 y02 y10 y11 y12 y20 y21 y22 z00 z01 z02 z10 z11 z12 z20 z21 z22 ->
  x00 = z00 /\ x01 = z01 /\ x02 = z02 /\ x10 = z10 /\ x11 = z11 /\ x12 = z12 /\ x20 = z20 /\ x21 = z21 /\ x22 = z22.
Proof. unfold prodI. intros (a00 & a01 & a02 & a10 & a11 & a12 & a20 & a21 & a22) (b00 & b01 & b02 & b10 & b11 & b12 & b20 & b21 & b22).
  repeat split; nsatz. Qed.
Lemma det_prodI : prodI x00 x01 x02 x10 x11 x12 x20 x21 x22 y00 y01 y02 y10 y11 y12 y20 y21 y22 -> (x00*(x11*x22 - x12*x21) - x01*(x10*x22 - x12*x20) + x02*(x10*x21 - x11*x20)) * (y00*(y11*y22 - y12*y21) - y01*(y10*y22 - y12*y20) + y02*(y10*y21 - y11*y20)) = 1.
Proof. unfold prodI. intros (a00 & a01 & a02 & a10 & a11 & a12 & a20 & a21 & a22).
  transitivity ((x00*y00 + x01*y10 + x02*y20)*((x10*y01 + x11*y11 + x12*y21)*(x20*y02 + x21*y12 + x22*y22) - (x10*y02 + x11*y12 + x12*y22)*(x20*y01 + x21*y11 + x22*y21)) - (x00*y01 + x01*y11 + x02*y21)*((x10*y00 + x11*y10 + x12*y20)*(x20*y02 + x21*y12 + x22*y22) - (x10*y02 + x11*y12 + x12*y22)*(x20*y00 + x21*y10 + x22*y20)) + (x00*y02 + x01*y12 + x02*y22)*((x10*y00 + x11*y10 + x12*y20)*(x20*y01 + x21*y11 + x22*y21) - (x10*y01 + x11*y11 + x12*y21)*(x20*y00 + x21*y10 + x22*y20))); [ring|].
  rewrite a00. rewrite a01. rewrite a02. rewrite a10. rewrite a11. rewrite a12. rewrite a20. rewrite a21. rewrite a22. ring. Qed.
End Assoc.
