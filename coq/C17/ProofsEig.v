(* C17 — proofs about principal components, reconstruction, strain inversion
   and the thermal-expansion converters.  The eigen-solver (LAPACK through
   numpy.linalg.eigh) is a Section variable with the hypothesis `eigh_spec`:
   ascending eigenvalues, orthonormal columns, M V = V diag w. *)
From Coq Require Import List ZArith Reals Bool Arith Lia Lra Nsatz.
Import ListNotations.
From FV.C17 Require Import Model ProofsSym ProofsPoly.
From FV.C17.gen Require Import TensorIdx.
Open Scope R_scope.

Definition I3 : mat R := [[1; 0; 0]; [0; 1; 0]; [0; 0; 1]].
Definition is33 (M : mat R) : Prop := length M = 3%nat /\ Forall (fun r => length r = 3%nat) M.
Definition sym33 (M : mat R) : Prop :=
  is33 M /\ forall i j, (i < 3)%nat -> (j < 3)%nat -> mget ROps M i j = mget ROps M j i.
Definition ent (M : mat R) (i j : nat) : R := mget ROps M i j.
Definition det3 (M : mat R) : R :=
  ent M 0 0 * (ent M 1 1 * ent M 2 2 - ent M 1 2 * ent M 2 1)
  - ent M 0 1 * (ent M 1 0 * ent M 2 2 - ent M 1 2 * ent M 2 0)
  + ent M 0 2 * (ent M 1 0 * ent M 2 1 - ent M 1 1 * ent M 2 0).
Definition madd (A B : mat R) : mat R := map2 (map2 Rplus) A B.

(* what numpy.linalg.eigh is trusted to return for a symmetric 3x3 matrix *)
Definition eigh_ok (M : mat R) (wV : vec R * mat R) : Prop :=
  let w := fst wV in let V := snd wV in
  length w = 3%nat /\ is33 V /\
  vget ROps w 0 <= vget ROps w 1 <= vget ROps w 2 /\
  mmul ROps (transpose ROps V) V = I3 /\
  mmul ROps M V = mmul ROps V (diag ROps w).

Definition smat (m00 m01 m02 m11 m12 m22 : R) : mat R :=
  [[m00; m01; m02]; [m01; m11; m12]; [m02; m12; m22]].

Lemma smat_sym33 m00 m01 m02 m11 m12 m22 : sym33 (smat m00 m01 m02 m11 m12 m22).
Proof.
  split; [split; [reflexivity|repeat constructor]|].
  intros i j Hi Hj.
  (destruct i as [|[|[|i]]]; [| | |lia]); (destruct j as [|[|[|j]]]; [| | |lia]); reflexivity.
Qed.

Ltac cbvR := cbv -[Rplus Rminus Rmult Ropp Rdiv Rinv IZR Rle Rlt Rge Rgt].
Ltac cbvR_in H := cbv -[Rplus Rminus Rmult Ropp Rdiv Rinv IZR Rle Rlt Rge Rgt] in H.

(* the same facts as 15 polynomial equations (ProofsPoly.ortho6 / eig9) *)
Lemma eigh_ok_explicit m00 m01 m02 m11 m12 m22 wV :
  eigh_ok (smat m00 m01 m02 m11 m12 m22) wV ->
  exists w0 w1 w2 v00 v01 v02 v10 v11 v12 v20 v21 v22,
    wV = ([w0; w1; w2], [[v00; v01; v02]; [v10; v11; v12]; [v20; v21; v22]]) /\
    w0 <= w1 <= w2 /\
    ortho6 v00 v01 v02 v10 v11 v12 v20 v21 v22 /\
    eig9 m00 m01 m02 m11 m12 m22 w0 w1 w2 v00 v01 v02 v10 v11 v12 v20 v21 v22.
Proof.
  destruct wV as [w V]. unfold eigh_ok. simpl fst. simpl snd.
  intros (Hw & (HV & HVr) & Hasc & Ho & He).
  destruct (length3_inv _ Hw) as (w0 & w1 & w2 & ->).
  destruct (length3_inv _ HV) as (r0 & r1 & r2 & ->).
  inversion HVr as [|? ? H0 HVr1]; subst. inversion HVr1 as [|? ? H1 HVr2]; subst.
  inversion HVr2 as [|? ? H2 _]; subst.
  destruct (length3_inv _ H0) as (v00 & v01 & v02 & ->).
  destruct (length3_inv _ H1) as (v10 & v11 & v12 & ->).
  destruct (length3_inv _ H2) as (v20 & v21 & v22 & ->).
  exists w0, w1, w2, v00, v01, v02, v10, v11, v12, v20, v21, v22.
  split; [reflexivity|]. split; [exact Hasc|].
  cbvR_in Ho. cbvR_in He.
  injection Ho as ? ? ? ? ? ? ? ? ?. injection He as ? ? ? ? ? ? ? ? ?.
  unfold ortho6, eig9. repeat split; lra.
Qed.

(* conversely: the 15 equations are exactly the hypothesis (non-vacuity: the
   hypothesis is satisfiable, e.g. by the identity for a diagonal matrix) *)
Example eigh_ok_diag : eigh_ok (smat 1 0 0 2 0 3) ([1; 2; 3], I3).
Proof.
  unfold eigh_ok, is33. simpl fst. simpl snd.
  split; [reflexivity|]. split; [split; [reflexivity|repeat constructor]|].
  split; [cbvR; lra|].
  split; cbvR; repeat (f_equal; try ring).
Qed.

Lemma a2m_smat (a : vec R) eng order :
  order_len_ok order ->
  exists m00 m01 m02 m11 m12 m22,
    convert_array2symmetric_matrix ROps a eng order = smat m00 m01 m02 m11 m12 m22.
Proof.
  intros Ho. destruct (a2m_explicit a eng order Ho) as (x0 & x1 & x2 & x3 & x4 & x5 & _ & E).
  rewrite E. destruct eng; unfold smat; repeat eexists.
Qed.

(* the matrix whose columns are the three returned directions *)
Definition dirs_matrix (dirs : vec R) : mat R :=
  stack_cols ROps [slice 0 3 dirs; slice 3 6 dirs; from 6 dirs].

(* close  E = g0*vi0*vj0 + g1*vi1*vj1 + g2*vi2*vj2  where E is the computed
   entry that uses the cross product in place of one column *)
Ltac by_ccA_then HO gp gq gr fin :=
  first [(etransitivity; [|etransitivity; [exact (ccA_00 _ _ _ _ _ _ _ _ _ gp gq gr HO)|]]; [ring|fin])
          |(etransitivity; [|etransitivity; [exact (ccA_01 _ _ _ _ _ _ _ _ _ gp gq gr HO)|]]; [ring|fin])
          |(etransitivity; [|etransitivity; [exact (ccA_02 _ _ _ _ _ _ _ _ _ gp gq gr HO)|]]; [ring|fin])
          |(etransitivity; [|etransitivity; [exact (ccA_10 _ _ _ _ _ _ _ _ _ gp gq gr HO)|]]; [ring|fin])
          |(etransitivity; [|etransitivity; [exact (ccA_11 _ _ _ _ _ _ _ _ _ gp gq gr HO)|]]; [ring|fin])
          |(etransitivity; [|etransitivity; [exact (ccA_12 _ _ _ _ _ _ _ _ _ gp gq gr HO)|]]; [ring|fin])
          |(etransitivity; [|etransitivity; [exact (ccA_20 _ _ _ _ _ _ _ _ _ gp gq gr HO)|]]; [ring|fin])
          |(etransitivity; [|etransitivity; [exact (ccA_21 _ _ _ _ _ _ _ _ _ gp gq gr HO)|]]; [ring|fin])
          |(etransitivity; [|etransitivity; [exact (ccA_22 _ _ _ _ _ _ _ _ _ gp gq gr HO)|]]; [ring|fin])].
Ltac by_ccB_then HO gp gq gr fin :=
  first [(etransitivity; [|etransitivity; [exact (ccB_00 _ _ _ _ _ _ _ _ _ gp gq gr HO)|]]; [ring|fin])
          |(etransitivity; [|etransitivity; [exact (ccB_01 _ _ _ _ _ _ _ _ _ gp gq gr HO)|]]; [ring|fin])
          |(etransitivity; [|etransitivity; [exact (ccB_02 _ _ _ _ _ _ _ _ _ gp gq gr HO)|]]; [ring|fin])
          |(etransitivity; [|etransitivity; [exact (ccB_10 _ _ _ _ _ _ _ _ _ gp gq gr HO)|]]; [ring|fin])
          |(etransitivity; [|etransitivity; [exact (ccB_11 _ _ _ _ _ _ _ _ _ gp gq gr HO)|]]; [ring|fin])
          |(etransitivity; [|etransitivity; [exact (ccB_12 _ _ _ _ _ _ _ _ _ gp gq gr HO)|]]; [ring|fin])
          |(etransitivity; [|etransitivity; [exact (ccB_20 _ _ _ _ _ _ _ _ _ gp gq gr HO)|]]; [ring|fin])
          |(etransitivity; [|etransitivity; [exact (ccB_21 _ _ _ _ _ _ _ _ _ gp gq gr HO)|]]; [ring|fin])
          |(etransitivity; [|etransitivity; [exact (ccB_22 _ _ _ _ _ _ _ _ _ gp gq gr HO)|]]; [ring|fin])].
Ltac by_ccA HO gp gq gr := by_ccA_then HO gp gq gr ltac:(ring).
Ltac by_ccB HO gp gq gr := by_ccB_then HO gp gq gr ltac:(ring).
Ltac spectral_rhs HO HE :=
  etransitivity;
  [|first [exact (spectral_00 _ _ _ _ _ _ _ _ _ _ _ _ _ _ _ _ _ _ HO HE)
          |exact (spectral_01 _ _ _ _ _ _ _ _ _ _ _ _ _ _ _ _ _ _ HO HE)
          |exact (spectral_02 _ _ _ _ _ _ _ _ _ _ _ _ _ _ _ _ _ _ HO HE)
          |exact (spectral_10 _ _ _ _ _ _ _ _ _ _ _ _ _ _ _ _ _ _ HO HE)
          |exact (spectral_11 _ _ _ _ _ _ _ _ _ _ _ _ _ _ _ _ _ _ HO HE)
          |exact (spectral_12 _ _ _ _ _ _ _ _ _ _ _ _ _ _ _ _ _ _ HO HE)
          |exact (spectral_20 _ _ _ _ _ _ _ _ _ _ _ _ _ _ _ _ _ _ HO HE)
          |exact (spectral_21 _ _ _ _ _ _ _ _ _ _ _ _ _ _ _ _ _ _ HO HE)
          |exact (spectral_22 _ _ _ _ _ _ _ _ _ _ _ _ _ _ _ _ _ _ HO HE)]].

Section Eig.
  Variable eigh : mat R -> vec R * mat R.
  Hypothesis eigh_spec : forall M, sym33 M -> eigh_ok M (eigh M).

  Lemma eigh_smat m00 m01 m02 m11 m12 m22 :
    exists w0 w1 w2 v00 v01 v02 v10 v11 v12 v20 v21 v22,
      eigh (smat m00 m01 m02 m11 m12 m22) =
        ([w0; w1; w2], [[v00; v01; v02]; [v10; v11; v12]; [v20; v21; v22]]) /\
      w0 <= w1 <= w2 /\
      ortho6 v00 v01 v02 v10 v11 v12 v20 v21 v22 /\
      eig9 m00 m01 m02 m11 m12 m22 w0 w1 w2 v00 v01 v02 v10 v11 v12 v20 v21 v22.
  Proof. apply eigh_ok_explicit. apply eigh_spec. apply smat_sym33. Qed.

  (* ---------------------------------------------------------------- *)
  (* principal components: descending values; the three directions are
     orthonormal, right-handed (det = +1), eigenvectors for the respective
     value; `vectors` are the directions scaled by their values *)
  Lemma principal_sorted_rh (a : vec R) eng order :
    order_len_ok order ->
    let M := convert_array2symmetric_matrix ROps a eng order in
    let '(vals, dirs, vecs) := calculate_principal_components ROps eigh a eng order in
    let D := dirs_matrix dirs in
    length vals = 3%nat /\ length dirs = 9%nat /\ length vecs = 9%nat /\
    (vget ROps vals 0 >= vget ROps vals 1 /\ vget ROps vals 1 >= vget ROps vals 2) /\
    mmul ROps (transpose ROps D) D = I3 /\
    det3 D = 1 /\
    mmul ROps M D = mmul ROps D (diag ROps vals) /\
    vecs = flatten (transpose ROps (mmul ROps D (diag ROps vals))).
  Proof.
    intros Ho. destruct (a2m_smat a eng order Ho) as (m00 & m01 & m02 & m11 & m12 & m22 & EM).
    destruct (eigh_smat m00 m01 m02 m11 m12 m22)
      as (w0 & w1 & w2 & v00 & v01 & v02 & v10 & v11 & v12 & v20 & v21 & v22 & EE & Hasc & HO & HE).
    unfold calculate_principal_components. cbv zeta. rewrite EM, EE.
    pose proof (frameA _ _ _ _ _ _ _ _ _ HO) as (F1 & F2 & F3 & F4).
    pose proof (ceigA_0 _ _ _ _ _ _ _ _ _ _ _ _ _ _ _ _ _ _ HO HE) as C0.
    pose proof (ceigA_1 _ _ _ _ _ _ _ _ _ _ _ _ _ _ _ _ _ _ HO HE) as C1.
    pose proof (ceigA_2 _ _ _ _ _ _ _ _ _ _ _ _ _ _ _ _ _ _ HO HE) as C2.
    destruct HO as (o00 & o11 & o22 & o01 & o02 & o12).
    destruct HE as (e00 & e01 & e02 & e10 & e11 & e12 & e20 & e21 & e22).
    cbvR.
    split; [reflexivity|]. split; [reflexivity|]. split; [reflexivity|].
    split; [lra|].
    split; [repeat (f_equal; try lra)|].
    split; [lra|].
    split; repeat (f_equal; try lra).
  Qed.

  (* ---------------------------------------------------------------- *)
  (* the returned values and directions rebuild the matrix, hence the array *)
  Lemma reconstruct_matrix (a : vec R) eng order :
    order_len_ok order ->
    let '(vals, dirs, vecs) := calculate_principal_components ROps eigh a eng order in
    calculate_symmetric_matrices_from_eigens ROps vals dirs =
      convert_array2symmetric_matrix ROps a eng order.
  Proof.
    intros Ho. destruct (a2m_smat a eng order Ho) as (m00 & m01 & m02 & m11 & m12 & m22 & EM).
    destruct (eigh_smat m00 m01 m02 m11 m12 m22)
      as (w0 & w1 & w2 & v00 & v01 & v02 & v10 & v11 & v12 & v20 & v21 & v22 & EE & Hasc & HO & HE).
    unfold calculate_principal_components. cbv zeta. rewrite EM, EE.
    cbvR.
    repeat match goal with |- _ :: _ = _ :: _ => f_equal end.
    all: spectral_rhs HO HE.
    all: by_ccA HO w2 w1 w0.
  Qed.

  Lemma reconstruct_array (a : vec R) eng order :
    order_len_ok order ->
    let '(vals, dirs, vecs) := calculate_principal_components ROps eigh a eng order in
    calculate_array_from_eigens ROps vals dirs eng = gather ROps a (order_of order).
  Proof.
    intros Ho. pose proof (reconstruct_matrix a eng order Ho) as H.
    destruct (calculate_principal_components ROps eigh a eng order) as [[vals dirs] vecs].
    unfold calculate_array_from_eigens. rewrite H.
    destruct (a2m_explicit a eng order Ho) as (x0 & x1 & x2 & x3 & x4 & x5 & G & E).
    rewrite E, G. destruct eng; rewrite m2a_explicit; simpl order_of; cbvR; [|reflexivity].
    repeat (f_equal; try field).
  Qed.

  (* ---------------------------------------------------------------- *)
  (* thermal expansion: global -> local -> global returns the six values *)
  Lemma lte_roundtrip (L : vec R) :
    length L = 6%nat ->
    let '(lte, orient) := convert_lte_global2local ROps eigh L in
    length lte = 3%nat /\ length orient = 9%nat /\
    convert_lte_local2global ROps lte orient = L.
  Proof.
    intros HL. destruct (length6_inv _ HL) as (l0 & l1 & l2 & l3 & l4 & l5 & ->).
    destruct (eigh_smat l0 (l3 / 2) (l5 / 2) l1 (l4 / 2) l2)
      as (w0 & w1 & w2 & v00 & v01 & v02 & v10 & v11 & v12 & v20 & v21 & v22 & EE & Hasc & HO & HE).
    unfold convert_lte_global2local. cbv zeta.
    match goal with |- context [eigh ?M] =>
      change M with (smat l0 (l3 / 2) (l5 / 2) l1 (l4 / 2) l2) end.
    rewrite EE. split; [reflexivity|]. split; [reflexivity|].
    cbvR.
    f_equal; [|f_equal; [|f_equal; [|f_equal; [|f_equal; [|f_equal]]]]].
    4: replace l3 with (l3 / 2 * 2) by field; f_equal.
    5: replace l4 with (l4 / 2 * 2) by field; f_equal.
    6: replace l5 with (l5 / 2 * 2) by field; f_equal.
    all: try reflexivity.
    all: spectral_rhs HO HE.
    all: by_ccB HO w0 w1 w2.
  Qed.

  (* ---------------------------------------------------------------- *)
  (* strain inversion: invert_strain a = the array of (I + A)^-1 - I *)
  Definition det_shift (m00 m01 m02 m11 m12 m22 : R) : R :=
    (1+m00)*((1+m11)*(1+m22)-m12*m12) - m01*(m01*(1+m22)-m12*m02) + m02*(m01*m12-(1+m11)*m02).

  Lemma invert_char (a : vec R) eng m00 m01 m02 m11 m12 m22 :
    convert_array2symmetric_matrix ROps a eng None = smat m00 m01 m02 m11 m12 m22 ->
    det_shift m00 m01 m02 m11 m12 m22 <> 0 ->
    exists n00 n01 n02 n11 n12 n22,
      invert_strain ROps eigh a eng =
        convert_symmetric_matrix2array ROps (smat n00 n01 n02 n11 n12 n22) eng None /\
      prodI (1+n00) n01 n02 n01 (1+n11) n12 n02 n12 (1+n22)
            (1+m00) m01 m02 m01 (1+m11) m12 m02 m12 (1+m22).
  Proof.
    intros EM Hdet.
    destruct (eigh_smat m00 m01 m02 m11 m12 m22)
      as (w0 & w1 & w2 & v00 & v01 & v02 & v10 & v11 & v12 & v20 & v21 & v22 & EE & Hasc & HO & HE).
    unfold det_shift in Hdet.
    rewrite (detshift _ _ _ _ _ _ _ _ _ _ _ _ _ _ _ _ _ _ HO HE) in Hdet.
    assert (1 + w0 <> 0 /\ 1 + w1 <> 0 /\ 1 + w2 <> 0) as (N0 & N1 & N2).
    { repeat split; intros Z; apply Hdet; rewrite Z; ring. }
    pose (r0 := / (1 + w0)). pose (r1 := / (1 + w1)). pose (r2 := / (1 + w2)).
    assert (r0 * (1 + w0) = 1) as i0 by (unfold r0; field; exact N0).
    assert (r1 * (1 + w1) = 1) as i1 by (unfold r1; field; exact N1).
    assert (r2 * (1 + w2) = 1) as i2 by (unfold r2; field; exact N2).
    exists (r0*v00*v00 + r1*v01*v01 + r2*v02*v02 - 1), (r0*v00*v10 + r1*v01*v11 + r2*v02*v12),
           (r0*v00*v20 + r1*v01*v21 + r2*v02*v22), (r0*v10*v10 + r1*v11*v11 + r2*v12*v12 - 1),
           (r0*v10*v20 + r1*v11*v21 + r2*v12*v22), (r0*v20*v20 + r1*v21*v21 + r2*v22*v22 - 1).
    split.
    - unfold invert_strain, calculate_principal_components. cbv zeta. rewrite EM, EE.
      destruct (rowortho _ _ _ _ _ _ _ _ _ HO) as (q00 & q11 & q22 & q01 & q02 & q12).
      assert (forall w, 1 / (1 + w) - 1 = / (1 + w) - 1) as Hdiv by (intros; unfold Rdiv; ring).
      destruct eng; cbvR; rewrite !Hdiv; fold r0 r1 r2;
        repeat match goal with |- _ :: _ = _ :: _ => f_equal end.
      all: try match goal with |- _ * 2 = _ * 2 => f_equal end.
      all: by_ccA_then HO (r2 - 1) (r1 - 1) (r0 - 1) ltac:(clear - q00 q11 q22 q01 q02 q12; nsatz).
    - unfold prodI. repeat split.
      all: first [(etransitivity; [|exact (inv_00 _ _ _ _ _ _ _ _ _ _ _ _ _ _ _ _ _ _ r0 r1 r2 HO HE i0 i1 i2)]; ring)
          |(etransitivity; [|exact (inv_01 _ _ _ _ _ _ _ _ _ _ _ _ _ _ _ _ _ _ r0 r1 r2 HO HE i0 i1 i2)]; ring)
          |(etransitivity; [|exact (inv_02 _ _ _ _ _ _ _ _ _ _ _ _ _ _ _ _ _ _ r0 r1 r2 HO HE i0 i1 i2)]; ring)
          |(etransitivity; [|exact (inv_10 _ _ _ _ _ _ _ _ _ _ _ _ _ _ _ _ _ _ r0 r1 r2 HO HE i0 i1 i2)]; ring)
          |(etransitivity; [|exact (inv_11 _ _ _ _ _ _ _ _ _ _ _ _ _ _ _ _ _ _ r0 r1 r2 HO HE i0 i1 i2)]; ring)
          |(etransitivity; [|exact (inv_12 _ _ _ _ _ _ _ _ _ _ _ _ _ _ _ _ _ _ r0 r1 r2 HO HE i0 i1 i2)]; ring)
          |(etransitivity; [|exact (inv_20 _ _ _ _ _ _ _ _ _ _ _ _ _ _ _ _ _ _ r0 r1 r2 HO HE i0 i1 i2)]; ring)
          |(etransitivity; [|exact (inv_21 _ _ _ _ _ _ _ _ _ _ _ _ _ _ _ _ _ _ r0 r1 r2 HO HE i0 i1 i2)]; ring)
          |(etransitivity; [|exact (inv_22 _ _ _ _ _ _ _ _ _ _ _ _ _ _ _ _ _ _ r0 r1 r2 HO HE i0 i1 i2)]; ring)].
  Qed.

  Theorem invert_strain_involutive_lemma (a : vec R) eng :
    length a = 6%nat ->
    (forall m00 m01 m02 m11 m12 m22,
        convert_array2symmetric_matrix ROps a eng None = smat m00 m01 m02 m11 m12 m22 ->
        det_shift m00 m01 m02 m11 m12 m22 <> 0) ->
    invert_strain ROps eigh (invert_strain ROps eigh a eng) eng = a.
  Proof.
    intros Ha Hdet.
    destruct (a2m_smat a eng None I) as (m00 & m01 & m02 & m11 & m12 & m22 & EM).
    specialize (Hdet _ _ _ _ _ _ EM).
    destruct (invert_char a eng _ _ _ _ _ _ EM Hdet) as (n00 & n01 & n02 & n11 & n12 & n22 & A2 & A4).
    assert (convert_array2symmetric_matrix ROps (invert_strain ROps eigh a eng) eng None =
            smat n00 n01 n02 n11 n12 n22) as A1.
    { rewrite A2. apply sym_roundtrip_matrix_default. }
    assert (det_shift n00 n01 n02 n11 n12 n22 <> 0) as Hdn.
    { pose proof (det_prodI _ _ _ _ _ _ _ _ _ _ _ _ _ _ _ _ _ _ A4) as P.
      intros Z. unfold det_shift in Z.
      assert (((1 + n00) * ((1 + n11) * (1 + n22) - n12 * n12) -
               n01 * (n01 * (1 + n22) - n12 * n02) + n02 * (n01 * n12 - (1 + n11) * n02)) *
              ((1 + m00) * ((1 + m11) * (1 + m22) - m12 * m12) -
               m01 * (m01 * (1 + m22) - m12 * m02) + m02 * (m01 * m12 - (1 + m11) * m02)) = 1) as P'
          by (etransitivity; [|exact P]; ring).
      rewrite Z in P'. lra. }
    destruct (invert_char _ eng _ _ _ _ _ _ A1 Hdn) as (p00 & p01 & p02 & p11 & p12 & p22 & B2 & B4).
    pose proof (left_right_inverse _ _ _ _ _ _ _ _ _ _ _ _ _ _ _ _ _ _ _ _ _ _ _ _ _ _ _ B4 A4)
      as (E00 & E01 & E02 & _ & E11 & E12 & _ & _ & E22).
    rewrite B2.
    replace p00 with m00 by lra. replace p11 with m11 by lra. replace p22 with m22 by lra.
    rewrite E01, E02, E12.
    unfold smat in EM |- *. rewrite <- EM.
    apply sym_roundtrip_default. exact Ha.
  Qed.
End Eig.

(* the premise "I + A is invertible" stated on the matrix itself *)
Theorem invert_strain_involutive eigh :
  (forall M, sym33 M -> eigh_ok M (eigh M)) ->
  forall (a : vec R) eng,
    length a = 6%nat ->
    det3 (madd I3 (convert_array2symmetric_matrix ROps a eng None)) <> 0 ->
    invert_strain ROps eigh (invert_strain ROps eigh a eng) eng = a.
Proof.
  intros Hs a eng Ha Hd. apply invert_strain_involutive_lemma; [exact Hs|exact Ha|].
  intros m00 m01 m02 m11 m12 m22 EM Z. apply Hd. rewrite EM.
  unfold det_shift in Z. cbvR. etransitivity; [|exact Z]. ring.
Qed.
