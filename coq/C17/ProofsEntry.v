(* C17 — align_nnz at the caller's level (AlignEntry.align_nnz_entry): proofs. *)
From Coq Require Import List ZArith QArith Reals Bool Arith Lia Lra Sorting.Sorted.
Import ListNotations.
From FV.C17 Require Import Model ProofsAlign ProofsPlace AlignEntry.
From FV.C17.gen Require Import AlignCfg.
Close Scope Q_scope.
Open Scope Z_scope.

(* ------------------------------------------------ the translated flat key *)
Lemma flat_key_is nr nc r c : flat_key nr nc r c = r * nc + c.
Proof. unfold flat_key. ring. Qed.

Definition in_range (nr nc : Z) (p : pos) : Prop := 0 <= fst p < nr /\ 0 <= snd p < nc.

Lemma rc_compare_eq p q : rc_compare p q = Eq -> p = q.
Proof.
  destruct p as [a b], q as [c d]. unfold rc_compare. simpl.
  destruct (Z.compare a c) eqn:E; try discriminate. intros H.
  apply Z.compare_eq in E. apply Z.compare_eq in H. subst. reflexivity.
Qed.

(* row-major order of the flat keys = (row, col) order, for columns in range *)
Lemma fk_compare nr nc p q : in_range nr nc p -> in_range nr nc q ->
  Z.compare (fk nr nc p) (fk nr nc q) = rc_compare p q.
Proof.
  destruct p as [a b], q as [c d]. unfold in_range, fk, rc_compare. simpl.
  rewrite !flat_key_is. intros [_ Hb] [_ Hd].
  destruct (Z.compare a c) eqn:E.
  - apply Z.compare_eq in E. subst. destruct (Z.compare b d) eqn:F.
    + apply Z.compare_eq in F. subst. apply Z.compare_refl.
    + rewrite Z.compare_lt_iff in *. lia.
    + rewrite Z.compare_gt_iff in *. lia.
  - rewrite Z.compare_lt_iff in *. nia.
  - rewrite Z.compare_gt_iff in *. nia.
Qed.

Lemma fk_inj nr nc p q : in_range nr nc p -> in_range nr nc q -> fk nr nc p = fk nr nc q -> p = q.
Proof.
  intros Hp Hq H. apply rc_compare_eq. rewrite <- (fk_compare nr nc p q Hp Hq), H. apply Z.compare_refl.
Qed.

(* ------------------------------------------------------ union of positions *)
Lemma rcinsert_In x y l : In x (rcinsert y l) <-> x = y \/ In x l.
Proof.
  induction l as [|z r IH]; simpl; [intuition|].
  destruct (rc_compare y z) eqn:E; simpl.
  - apply rc_compare_eq in E. subst. intuition.
  - intuition.
  - rewrite IH. intuition.
Qed.

Lemma rcunion_In x a b : In x (rcunion a b) <-> In x a \/ In x b.
Proof.
  unfold rcunion. induction a as [|y a IH]; simpl; [intuition|]. rewrite rcinsert_In, IH. intuition.
Qed.

Lemma rcinsert_keys nr nc x l : in_range nr nc x -> Forall (in_range nr nc) l ->
  map (fk nr nc) (rcinsert x l) = kinsert (fk nr nc x) (map (fk nr nc) l).
Proof.
  intros Hx. induction l as [|y r IH]; intros Hl; simpl; [reflexivity|].
  inversion Hl as [|? ? Hy Hr]; subst. rewrite (fk_compare nr nc x y Hx Hy).
  destruct (rc_compare x y); simpl; [reflexivity|reflexivity|]. rewrite IH by exact Hr. reflexivity.
Qed.

Lemma rcunion_range nr nc a b : Forall (in_range nr nc) a -> Forall (in_range nr nc) b ->
  Forall (in_range nr nc) (rcunion a b).
Proof.
  intros Ha Hb. apply Forall_forall. intros x Hx. apply rcunion_In in Hx.
  rewrite Forall_forall in Ha, Hb. destruct Hx; auto.
Qed.

Lemma rcunion_keys nr nc a b : Forall (in_range nr nc) a -> Forall (in_range nr nc) b ->
  map (fk nr nc) (rcunion a b) = kunion (map (fk nr nc) a) (map (fk nr nc) b).
Proof.
  intros Ha Hb. induction a as [|x a IH]; simpl; [reflexivity|].
  inversion Ha as [|? ? Hx Ha']; subst.
  change (fold_right rcinsert b a) with (rcunion a b).
  rewrite rcinsert_keys; [|exact Hx|apply rcunion_range; assumption].
  rewrite IH by exact Ha'. reflexivity.
Qed.

Definition wf_entries {T} (nr nc : Z) (E : entries T) : Prop := Forall (in_range nr nc) (positions E).

Lemma skeys_flat {T} nr nc (E : entries T) : skeys (flat nr nc E) = map (fk nr nc) (positions E).
Proof. unfold skeys, flat, positions. rewrite !map_map. reflexivity. Qed.

Lemma union_positions_fold {T} nr nc (Es : list (entries T)) : forall acc,
  Forall (wf_entries nr nc) Es -> Forall (in_range nr nc) acc ->
  let U := fold_left (fun acc E => rcunion (positions E) acc) Es acc in
  Forall (in_range nr nc) U /\
  (forall p, In p U <-> In p acc \/ exists E, In E Es /\ In p (positions E)) /\
  map (fk nr nc) U =
    fold_left (fun acc A => kunion (skeys A) acc) (map (flat nr nc) Es) (map (fk nr nc) acc).
Proof.
  induction Es as [|E Es IH]; intros acc HEs Hacc; simpl.
  - split; [exact Hacc|]. split; [|reflexivity]. intros p. split; [tauto|]. intros [H|(E & [] & _)]. exact H.
  - inversion HEs as [|? ? HE HEs']; subst.
    assert (Forall (in_range nr nc) (rcunion (positions E) acc)) as Hr by (apply rcunion_range; assumption).
    destruct (IH _ HEs' Hr) as (U1 & U2 & U3). split; [exact U1|]. split.
    + intros p. rewrite U2, rcunion_In. split.
      * intros [[H|H]|(E' & HE' & Hp)]; [right; exists E; split; [left; reflexivity|exact H]|left; exact H|].
        right. exists E'. split; [right; exact HE'|exact Hp].
      * intros [H|(E' & [HE'|HE'] & Hp)]; [left; right; exact H|subst; left; left; exact Hp|].
        right. exists E'. split; assumption.
    + rewrite U3. rewrite rcunion_keys by assumption. rewrite skeys_flat. reflexivity.
Qed.

Lemma union_positions_spec {T} nr nc (Es : list (entries T)) : Forall (wf_entries nr nc) Es ->
  let U := union_positions Es in
  Forall (in_range nr nc) U /\
  (forall p, In p U <-> exists E, In E Es /\ In p (positions E)) /\
  map (fk nr nc) U = union_pattern (map (flat nr nc) Es).
Proof.
  intros H. destruct (union_positions_fold nr nc Es [] H (Forall_nil _)) as (A & B & C).
  split; [exact A|]. split; [|exact C]. intros p. unfold union_positions. rewrite B. simpl. tauto.
Qed.

(* ------------------------------------------------------------ values *)
Open Scope R_scope.

Lemma pos_eqb_eq p q : pos_eqb p q = true <-> p = q.
Proof.
  destruct p as [a b], q as [c d]. unfold pos_eqb. simpl. rewrite andb_true_iff, !Z.eqb_eq.
  split; [intros [-> ->]; reflexivity|intros H; inversion H; auto].
Qed.

Lemma esum_flat nr nc (E : entries R) p : wf_entries nr nc E -> in_range nr nc p ->
  ssum ROps (flat nr nc E) (fk nr nc p) = esum ROps E p.
Proof.
  intros HE Hp. induction E as [|[q v] r IH]; simpl; [reflexivity|].
  inversion HE as [|? ? Hq Hr]; subst. specialize (IH Hr). simpl in Hq.
  destruct (pos_eqb p q) eqn:E1.
  - apply pos_eqb_eq in E1. subst q. rewrite Z.eqb_refl. rewrite IH. reflexivity.
  - destruct (Z.eqb (fk nr nc p) (fk nr nc q)) eqn:E2; [|exact IH].
    apply Z.eqb_eq in E2. apply (fk_inj nr nc p q Hp Hq) in E2. subst q.
    assert (pos_eqb p p = true) by (apply pos_eqb_eq; reflexivity). congruence.
Qed.

Lemma esum_notin (E : entries R) p : ~ In p (positions E) -> esum ROps E p = 0.
Proof.
  induction E as [|[q v] r IH]; simpl; intros H; [reflexivity|].
  destruct (pos_eqb p q) eqn:E1; [apply pos_eqb_eq in E1; subst; exfalso; apply H; left; reflexivity|].
  apply IH. intros Hin. apply H. right. exact Hin.
Qed.

Lemma eget_notin (E : entries R) p : ~ In p (positions E) -> eget ROps E p = 0.
Proof.
  induction E as [|[q v] r IH]; simpl; intros H; [reflexivity|].
  destruct (pos_eqb p q) eqn:E1; [apply pos_eqb_eq in E1; subst; exfalso; apply H; left; reflexivity|].
  apply IH. intros Hin. apply H. right. exact Hin.
Qed.

Lemma positions_combine (U : list pos) (d : list R) : length d = length U -> positions (combine U d) = U.
Proof.
  revert d. induction U as [|x r IH]; intros [|y d] H; try discriminate; [reflexivity|].
  unfold positions in *. simpl. f_equal. apply IH. simpl in H. lia.
Qed.

Lemma eget_combine (U : list pos) (d : list R) : NoDup U -> length d = length U ->
  forall j p, nth_error U j = Some p -> eget ROps (combine U d) p = nth j d 0.
Proof.
  revert d. induction U as [|x r IH]; intros d Hnd Hl j p Hj; [destruct j; discriminate|].
  destruct d as [|y d]; [discriminate|]. inversion Hnd as [|? ? Hn Hr]; subst. simpl.
  destruct j as [|j]; simpl in Hj.
  - inversion Hj; subst. assert (pos_eqb p p = true) as -> by (apply pos_eqb_eq; reflexivity). reflexivity.
  - destruct (pos_eqb p x) eqn:E.
    + apply pos_eqb_eq in E. subst. exfalso. apply Hn. eapply nth_error_In. exact Hj.
    + simpl. apply IH; [exact Hr|simpl in Hl; lia|exact Hj].
Qed.

Lemma NoDup_of_map {A B} (f : A -> B) l : NoDup (map f l) -> NoDup l.
Proof.
  induction l as [|x r IH]; simpl; intros H; [constructor|].
  inversion H as [|? ? Hn Hr]; subst. constructor; [|apply IH; exact Hr].
  intros Hin. apply Hn. apply in_map. exact Hin.
Qed.

(* the CSR branch: every output on the union of the stored positions (row-major
   order), every position carrying the sum of what the input stores there *)
Theorem align_core_values nr nc (Es : list (entries R)) : Forall (wf_entries nr nc) Es ->
  let U := union_positions Es in
  asc (map (fk nr nc) U) /\ Forall (in_range nr nc) U /\
  (forall p, In p U <-> exists E, In E Es /\ In p (positions E)) /\
  exists As, align_core ROps nr nc Es = Some As /\ length As = length Es /\
    forall i E A, nth_error Es i = Some E -> nth_error As i = Some A ->
      positions A = U /\ forall p, eget ROps A p = esum ROps E p.
Proof.
  intros Hwf U. destruct (union_positions_spec nr nc Es Hwf) as (Hr & Hin & Hk). fold U in Hr, Hin, Hk.
  destruct (union_pattern_spec (map (flat nr nc) Es)) as [Hasc _]. rewrite <- Hk in Hasc.
  set (keys := map (fk nr nc) U) in *.
  assert (NoDup U) as HndU by (apply (NoDup_of_map (fk nr nc)); apply asc_NoDup; exact Hasc).
  split; [exact Hasc|]. split; [exact Hr|]. split; [exact Hin|].
  assert (forall E, In E Es -> exists d, place_rc ROps nr nc U E = Some (combine U d) /\
            length d = length U /\
            forall j key, nth_error keys j = Some key -> nth j d 0 = ssum ROps (flat nr nc E) key) as Hp.
  { intros E HE.
    assert (forall k, In k (skeys (flat nr nc E)) -> In k keys) as Hsub.
    { intros k Hk'. rewrite skeys_flat in Hk'. apply in_map_iff in Hk'. destruct Hk' as (p & <- & Hp).
      apply in_map. apply Hin. exists E. split; assumption. }
    destruct (add_at_spec (map (fun kv => (searchsorted (fst kv) keys, snd kv)) (flat nr nc E))
                          (zeros ROps (length keys))) as (d & E1 & L & N).
    { intros iv Hiv. apply in_map_iff in Hiv. destruct Hiv as ([k v] & <- & Hkv). simpl.
      unfold zeros. rewrite repeat_length. apply nth_error_Some.
      rewrite (searchsorted_index k keys Hasc); [discriminate|].
      apply Hsub. unfold skeys. apply in_map_iff. exists (k, v). split; [reflexivity|exact Hkv]. }
    exists d. unfold place_rc. fold keys. rewrite E1. split; [reflexivity|].
    unfold zeros in L. rewrite repeat_length in L. unfold keys in L at 1. rewrite map_length in L.
    split; [exact L|].
    intros j key Hj. rewrite N, nth_zeros. rewrite (acc_at_ssum keys (flat nr nc E) j key Hasc Hsub Hj). lra. }
  exists (map (fun E => match place_rc ROps nr nc U E with Some A => A | None => [] end) Es).
  split.
  { unfold align_core. fold U. apply all_some_map. intros E HE. destruct (Hp E HE) as (d & -> & _). reflexivity. }
  split; [apply map_length|].
  intros i E A HE HA. rewrite nth_error_map, HE in HA. inversion HA; subst A. clear HA.
  assert (In E Es) as HEin by (eapply nth_error_In; exact HE).
  destruct (Hp E HEin) as (d & -> & L & N).
  split; [apply positions_combine; exact L|].
  assert (wf_entries nr nc E) as HwE by (rewrite Forall_forall in Hwf; apply Hwf; exact HEin).
  intros p. destruct (in_dec (fun a b : pos => ltac:(decide equality; apply Z.eq_dec)) p U) as [HpU|HpU].
  - destruct (In_nth_error _ _ HpU) as [j Hj].
    rewrite (eget_combine U d HndU L j p Hj).
    assert (nth_error keys j = Some (fk nr nc p)) as Hkj by (unfold keys; rewrite nth_error_map, Hj; reflexivity).
    rewrite (N j _ Hkj). apply esum_flat; [exact HwE|].
    rewrite Forall_forall in Hr. apply Hr. exact HpU.
  - rewrite eget_notin by (rewrite positions_combine by exact L; exact HpU).
    symmetry. apply esum_notin. intros Hm. apply HpU. apply Hin. exists E. split; assumption.
Qed.

(* ------------------------------------------------------------ coo.tocsr() *)
Lemma cins_esum p v (l : entries R) q :
  esum ROps (cins ROps p v l) q = (if pos_eqb q p then v else 0) + esum ROps l q.
Proof.
  induction l as [|[q' w] r IH]; simpl.
  - destruct (pos_eqb q p); lra.
  - destruct (rc_compare p q') eqn:E; simpl.
    + apply rc_compare_eq in E. subst q'. destruct (pos_eqb q p); lra.
    + destruct (pos_eqb q p), (pos_eqb q q'); lra.
    + rewrite IH. destruct (pos_eqb q p), (pos_eqb q q'); lra.
Qed.

Lemma cins_positions p v (l : entries R) x :
  In x (positions (cins ROps p v l)) <-> x = p \/ In x (positions l).
Proof.
  unfold positions. induction l as [|[q' w] r IH]; simpl; [intuition|].
  destruct (rc_compare p q') eqn:E; simpl.
  - apply rc_compare_eq in E. subst. intuition.
  - intuition.
  - rewrite IH. intuition.
Qed.

Lemma tocsr_fold (E : entries R) : forall acc,
  let C := fold_left (fun acc e => cins ROps (fst e) (snd e) acc) E acc in
  (forall q, esum ROps C q = esum ROps acc q + esum ROps E q) /\
  (forall x, In x (positions C) <-> In x (positions acc) \/ In x (positions E)).
Proof.
  induction E as [|[p v] r IH]; intros acc; simpl.
  - split; [intros; lra|intros; tauto].
  - destruct (IH (cins ROps p v acc)) as [A B]. split.
    + intros q. rewrite A, cins_esum. destruct (pos_eqb q p); lra.
    + intros x. rewrite B, cins_positions. intuition.
Qed.

Lemma tocsr_spec (E : entries R) :
  (forall q, esum ROps (tocsr ROps E) q = esum ROps E q) /\
  (forall x, In x (positions (tocsr ROps E)) <-> In x (positions E)).
Proof.
  destruct (tocsr_fold E []) as [A B]. split.
  - intros q. unfold tocsr. rewrite A. simpl. lra.
  - intros x. unfold tocsr. rewrite B. simpl. tauto.
Qed.

Lemma as_csr_spec (M : spm R) :
  (forall q, esum ROps (as_csr ROps M) q = esum ROps (sp_ent M) q) /\
  (forall x, In x (positions (as_csr ROps M)) <-> In x (positions (sp_ent M))).
Proof. unfold as_csr. destruct (sp_fmt M); [split; intros; tauto|apply tocsr_spec]. Qed.

(* --------------------------------------------------------- the entry point *)
Definition wf_spm (M : spm R) : Prop :=
  wf_entries (fst (sp_shape M)) (snd (sp_shape M)) (sp_ent M).

Lemma all_csr_as_csr (Ms : list (spm R)) : forallb is_csr Ms = true -> map sp_ent Ms = map (as_csr ROps) Ms.
Proof.
  intros H. apply map_ext_in. intros M HM. rewrite forallb_forall in H. specialize (H M HM).
  unfold is_csr in H. unfold as_csr. destruct (sp_fmt M); [reflexivity|discriminate].
Qed.

Lemma shape_eqb_eq a b : shape_eqb a b = true <-> a = b.
Proof.
  destruct a as [x y], b as [z w]. unfold shape_eqb. simpl. rewrite andb_true_iff, !Z.eqb_eq.
  split; [intros [-> ->]; reflexivity|intros H; inversion H; auto].
Qed.

(* FULL STATEMENT for the caller's matrices: any formats (CSR as stored, also
   non-canonical; COO), one common shape, stored positions inside the shape. *)
Theorem align_nnz_entry_values (M0 : spm R) (Ms' : list (spm R)) :
  let Ms := M0 :: Ms' in
  Forall wf_spm Ms -> (forall M, In M Ms -> sp_shape M = sp_shape M0) ->
  let nr := fst (sp_shape M0) in let nc := snd (sp_shape M0) in
  exists As U, align_nnz_entry ROps Ms = inl As /\ length As = length Ms /\
    asc (map (fk nr nc) U) /\
    (forall p, In p U <-> exists M, In M Ms /\ In p (positions (sp_ent M))) /\
    forall i M A, nth_error Ms i = Some M -> nth_error As i = Some A ->
      sp_fmt A = CSR /\ sp_shape A = sp_shape M0 /\ positions (sp_ent A) = U /\
      forall p, eget ROps (sp_ent A) p = esum ROps (sp_ent M) p.
Proof.
  intros Ms Hwf Hsh nr nc.
  assert (forallb (fun M => shape_eqb (sp_shape M) (sp_shape M0)) Ms = true) as Hs.
  { apply forallb_forall. intros M HM. apply shape_eqb_eq. apply Hsh. exact HM. }
  set (Es := map (as_csr ROps) Ms).
  assert (Forall (wf_entries nr nc) Es) as HwE.
  { apply Forall_forall. intros E HE. unfold Es in HE. apply in_map_iff in HE. destruct HE as (M & <- & HM).
    rewrite Forall_forall in Hwf. pose proof (Hwf M HM) as HwM. unfold wf_spm in HwM.
    rewrite (Hsh M HM) in HwM. fold nr nc in HwM. unfold wf_entries in *.
    apply Forall_forall. intros x Hx. apply (proj2 (as_csr_spec M)) in Hx.
    rewrite Forall_forall in HwM. apply HwM. exact Hx. }
  destruct (align_core_values nr nc Es HwE) as (Hasc & _ & Hin & As & EA & LA & HA).
  exists (map (mk_spm CSR (nr, nc)) As), (union_positions Es).
  split.
  { unfold align_nnz_entry. unfold Ms. cbv iota. fold Ms. rewrite Hs. fold nr nc.
    assert ((if forallb is_csr Ms then map sp_ent Ms else map (as_csr ROps) Ms) = Es) as ->.
    { destruct (forallb is_csr Ms) eqn:Ec; [apply all_csr_as_csr; exact Ec|reflexivity]. }
    rewrite EA. reflexivity. }
  split; [rewrite map_length, LA; unfold Es; apply map_length|].
  split; [exact Hasc|]. split.
  { intros p. rewrite Hin. split.
    - intros (E & HE & Hp). unfold Es in HE. apply in_map_iff in HE. destruct HE as (M & <- & HM).
      exists M. split; [exact HM|]. apply (proj2 (as_csr_spec M)). exact Hp.
    - intros (M & HM & Hp). exists (as_csr ROps M). split; [unfold Es; apply in_map; exact HM|].
      apply (proj2 (as_csr_spec M)). exact Hp. }
  intros i M A HM HAi. rewrite nth_error_map in HAi.
  destruct (nth_error As i) as [A'|] eqn:EAi; [|discriminate]. inversion HAi; subst A. simpl.
  assert (nth_error Es i = Some (as_csr ROps M)) as HEi by (unfold Es; rewrite nth_error_map, HM; reflexivity).
  destruct (HA i _ A' HEi EAi) as [P V]. split; [reflexivity|]. split; [destruct (sp_shape M0); reflexivity|].
  split; [exact P|]. intros p. rewrite V. apply (proj1 (as_csr_spec M)).
Qed.

Theorem align_nnz_entry_shape_mismatch (M0 : spm R) (Ms' : list (spm R)) :
  (exists M, In M (M0 :: Ms') /\ sp_shape M <> sp_shape M0) ->
  align_nnz_entry ROps (M0 :: Ms') = inr EValue.
Proof.
  intros (M & HM & Hne). unfold align_nnz_entry.
  destruct (forallb (fun M1 => shape_eqb (sp_shape M1) (sp_shape M0)) (M0 :: Ms')) eqn:E; [|reflexivity].
  rewrite forallb_forall in E. specialize (E M HM). apply shape_eqb_eq in E. contradiction.
Qed.

(* non-vacuity: a COO matrix with a duplicated entry next to a non-canonical CSR one, 2 x 3 *)
Example align_entry_example :
  align_nnz_entry QOps
    [mk_spm COO (2, 3)%Z [((1, 2)%Z, 1%Q); ((0, 1)%Z, 5%Q); ((1, 2)%Z, 3%Q)];
     mk_spm CSR (2, 3)%Z [((0, 2)%Z, 7%Q); ((0, 0)%Z, 2%Q)]] =
  inl [mk_spm CSR (2, 3)%Z [((0, 0)%Z, 0%Q); ((0, 1)%Z, 5%Q); ((0, 2)%Z, 0%Q); ((1, 2)%Z, 4%Q)];
       mk_spm CSR (2, 3)%Z [((0, 0)%Z, 2%Q); ((0, 1)%Z, 0%Q); ((0, 2)%Z, 7%Q); ((1, 2)%Z, 0%Q)]].
Proof. vm_compute. reflexivity. Qed.

Example wf_spm_example :
  Forall wf_spm [mk_spm COO (2, 3)%Z [((1, 2)%Z, 1); ((0, 1)%Z, 5); ((1, 2)%Z, 3)];
                 mk_spm CSR (2, 3)%Z [((0, 2)%Z, 7); ((0, 0)%Z, 2)]].
Proof. repeat constructor; unfold in_range; simpl; lia. Qed.
