(* C17 — align_nnz as of /repo 0213dd3 (Model.align_nnz: values placed on the
   ascending union pattern with searchsorted / np.add.at).  For EVERY list of
   matrices in ANY storage (unsorted keys, duplicated keys, stored zeros): one
   output per input, all on the ascending union pattern, every key carrying
   the sum of what the input stores under it (= the stored value for
   canonical inputs).  Real arithmetic; in binary64 nothing is computed on the
   values except the accumulation of duplicated entries, and the bit-exact
   stream of the harness pins that. *)
From Coq Require Import List ZArith QArith Reals Bool Arith Lia Lra Sorting.Sorted.
Import ListNotations.
From FV.C17 Require Import Model ProofsAlign.
Close Scope Q_scope.
Open Scope R_scope.

(* ------------------------------------------------------- union pattern *)
Lemma union_fold (Ms : list (smatrix R)) : forall acc, asc acc ->
  let u := fold_left (fun acc A => kunion (skeys A) acc) Ms acc in
  asc u /\ forall k, In k u <-> In k acc \/ exists M, In M Ms /\ In k (skeys M).
Proof.
  induction Ms as [|A Ms IH]; intros acc Hacc; simpl.
  - split; [exact Hacc|]. intros k. split; [tauto|]. intros [H|(M & [] & _)]. exact H.
  - destruct (IH (kunion (skeys A) acc) (kunion_asc _ _ Hacc)) as [U1 U2]. split; [exact U1|].
    intros k. rewrite U2, kunion_In. split.
    + intros [[H|H]|(M & HM & Hk)];
        [right; exists A; split; [left; reflexivity|exact H]|left; exact H|].
      right. exists M. split; [right; exact HM|exact Hk].
    + intros [H|(M & [HM|HM] & Hk)]; [left; right; exact H|subst; left; left; exact Hk|].
      right. exists M. split; assumption.
Qed.

Lemma union_pattern_spec (Ms : list (smatrix R)) :
  asc (union_pattern Ms) /\
  forall k, In k (union_pattern Ms) <-> exists M, In M Ms /\ In k (skeys M).
Proof.
  destruct (union_fold Ms [] (SSorted_nil _)) as [A B]. split; [exact A|].
  intros k. unfold union_pattern. rewrite B. simpl. tauto.
Qed.

(* ---------------------------------------------------------- searchsorted *)
Lemma searchsorted_index k keys : asc keys -> In k keys ->
  nth_error keys (searchsorted k keys) = Some k.
Proof.
  unfold asc. induction keys as [|x r IH]; intros Ha Hin; [contradiction|].
  apply StronglySorted_inv in Ha. destruct Ha as [Hr Hx]. simpl.
  destruct (Z.ltb x k) eqn:E.
  - apply Z.ltb_lt in E. destruct Hin as [->|Hin]; [lia|]. simpl. apply IH; assumption.
  - apply Z.ltb_ge in E. destruct Hin as [->|Hin]; [reflexivity|].
    rewrite Forall_forall in Hx. specialize (Hx k Hin). lia.
Qed.

(* ----------------------------------------------------------------- add.at *)
Fixpoint acc_at (l : list (nat * R)) (j : nat) : R :=
  match l with
  | [] => 0
  | (i, v) :: r => if Nat.eqb i j then v + acc_at r j else acc_at r j
  end.

Lemma upd_spec (d : list R) i f : (i < length d)%nat ->
  exists d', upd d i f = Some d' /\ length d' = length d /\
    forall j, nth j d' 0 = if Nat.eqb i j then f (nth i d 0) else nth j d 0.
Proof.
  revert i. induction d as [|x r IH]; intros i Hi; simpl in Hi; [lia|].
  destruct i as [|i]; simpl.
  - eexists. split; [reflexivity|]. split; [reflexivity|]. intros [|j]; reflexivity.
  - destruct (IH i) as (r' & E & L & N); [lia|]. rewrite E. eexists. split; [reflexivity|].
    split; [simpl; lia|]. intros [|j]; simpl; [reflexivity|]. apply N.
Qed.

Lemma add_at_spec (l : list (nat * R)) : forall d,
  (forall iv, In iv l -> (fst iv < length d)%nat) ->
  exists d', add_at ROps d l = Some d' /\ length d' = length d /\
    forall j, nth j d' 0 = nth j d 0 + acc_at l j.
Proof.
  unfold add_at. induction l as [|[i v] l IH]; intros d H; simpl.
  - exists d. split; [reflexivity|]. split; [reflexivity|]. intros j. lra.
  - destruct (upd_spec d i (fun x => x + v)) as (d1 & E1 & L1 & N1);
      [apply (H (i, v)); left; reflexivity|].
    change (add ROps) with Rplus. rewrite E1.
    destruct (IH d1) as (d' & E & L & N).
    { intros iv Hiv. rewrite L1. apply H. right. exact Hiv. }
    exists d'. split; [exact E|]. split; [lia|]. intros j. rewrite N, N1.
    destruct (Nat.eqb i j) eqn:Eij; [apply Nat.eqb_eq in Eij; subst; lra|lra].
Qed.

Lemma nth_zeros n j : nth j (zeros ROps n) 0 = 0.
Proof. unfold zeros. simpl. revert j. induction n; intros [|j]; simpl; auto. Qed.

(* ------------------------------------------------------------------ ssum *)
Lemma ssum_notin (A : smatrix R) k : ~ In k (skeys A) -> ssum ROps A k = 0.
Proof.
  induction A as [|[k' v] r IH]; simpl; intros H; [reflexivity|].
  destruct (Z.eqb k k') eqn:E; [apply Z.eqb_eq in E; subst; exfalso; apply H; left; reflexivity|].
  apply IH. intros Hin. apply H. right. exact Hin.
Qed.

Lemma ssum_sget (A : smatrix R) k : NoDup (skeys A) -> ssum ROps A k = sget ROps A k.
Proof.
  induction A as [|[k' v] r IH]; simpl; intros H; [reflexivity|].
  inversion H as [|? ? Hn Hr]; subst. destruct (Z.eqb k k') eqn:E; [|apply IH; exact Hr].
  apply Z.eqb_eq in E. subst. rewrite (ssum_notin r k' Hn). change (add ROps v 0) with (v + 0). lra.
Qed.

(* what add.at accumulates at position j is what the matrix stores under keys[j] *)
Lemma acc_at_ssum keys (A : smatrix R) j key :
  asc keys -> (forall k, In k (skeys A) -> In k keys) -> nth_error keys j = Some key ->
  acc_at (map (fun kv => (searchsorted (fst kv) keys, snd kv)) A) j = ssum ROps A key.
Proof.
  intros Ha Hsub Hj. induction A as [|[k v] r IH]; simpl; [reflexivity|].
  assert (forall k0, In k0 (skeys r) -> In k0 keys) as Hsub' by (intros k0 H0; apply Hsub; right; exact H0).
  specialize (IH Hsub'). pose proof (searchsorted_index k keys Ha (Hsub k (or_introl eq_refl))) as Hs.
  destruct (Nat.eqb (searchsorted k keys) j) eqn:E.
  - apply Nat.eqb_eq in E. rewrite E in Hs. rewrite Hj in Hs. inversion Hs; subst k.
    rewrite Z.eqb_refl. rewrite IH. reflexivity.
  - apply Nat.eqb_neq in E. destruct (Z.eqb key k) eqn:Ek; [|exact IH].
    apply Z.eqb_eq in Ek. subst k. exfalso. apply E.
    pose proof (asc_NoDup _ Ha) as Hnd. rewrite NoDup_nth_error in Hnd. apply Hnd.
    + apply nth_error_Some. congruence.
    + rewrite Hs, Hj. reflexivity.
Qed.

Lemma sget_combine keys (d : list R) : NoDup keys -> length d = length keys ->
  forall j key, nth_error keys j = Some key -> sget ROps (combine keys d) key = nth j d 0.
Proof.
  revert d. induction keys as [|x r IH]; intros d Hnd Hl j key Hj; [destruct j; discriminate|].
  destruct d as [|y d]; [discriminate|]. inversion Hnd as [|? ? Hn Hr]; subst. simpl.
  destruct j as [|j]; simpl in Hj.
  - inversion Hj; subst. rewrite Z.eqb_refl. reflexivity.
  - destruct (Z.eqb key x) eqn:E.
    + apply Z.eqb_eq in E. subst. exfalso. apply Hn. eapply nth_error_In. exact Hj.
    + simpl. apply IH; [exact Hr|simpl in Hl; lia|exact Hj].
Qed.

Lemma skeys_combine keys (d : list R) : length d = length keys -> skeys (combine keys d) = keys.
Proof.
  revert d. induction keys as [|x r IH]; intros [|y d] H; try discriminate; [reflexivity|].
  unfold skeys in *. simpl. f_equal. apply IH. simpl in H. lia.
Qed.

(* ------------------------------------------------------------ the theorem *)
Theorem align_nnz_values (Ms : list (smatrix R)) :
  exists As, align_nnz ROps Ms = Some As /\ length As = length Ms /\
    forall i M A, nth_error Ms i = Some M -> nth_error As i = Some A ->
      swf A /\
      (forall key, In key (skeys A) <-> exists M', In M' Ms /\ In key (skeys M')) /\
      (forall key, sget ROps A key = ssum ROps M key) /\
      (NoDup (skeys M) -> forall key, sget ROps A key = sget ROps M key).
Proof.
  unfold align_nnz. set (keys := union_pattern Ms).
  destruct (union_pattern_spec Ms) as [Hasc Hk]. fold keys in Hasc, Hk.
  assert (forall M, In M Ms -> exists d, place ROps keys M = Some (combine keys d) /\
            length d = length keys /\
            forall j key, nth_error keys j = Some key -> nth j d 0 = ssum ROps M key) as Hp.
  { intros M HM.
    assert (forall k, In k (skeys M) -> In k keys) as Hsub.
    { intros k Hin. apply Hk. exists M. split; assumption. }
    destruct (add_at_spec (map (fun kv => (searchsorted (fst kv) keys, snd kv)) M)
                          (zeros ROps (length keys))) as (d & E & L & N).
    { intros iv Hiv. apply in_map_iff in Hiv. destruct Hiv as ([k v] & <- & Hkv). simpl.
      unfold zeros. rewrite repeat_length. apply nth_error_Some.
      rewrite (searchsorted_index k keys Hasc); [discriminate|].
      apply Hsub. unfold skeys. apply in_map_iff. exists (k, v). split; [reflexivity|exact Hkv]. }
    exists d. unfold place. rewrite E. split; [reflexivity|].
    unfold zeros in L. rewrite repeat_length in L. split; [exact L|].
    intros j key Hj. rewrite N, nth_zeros. rewrite (acc_at_ssum keys M j key Hasc Hsub Hj). lra. }
  assert (exists g : smatrix R -> smatrix R,
            (forall M, In M Ms -> place ROps keys M = Some (g M)) /\
            (forall M, In M Ms -> exists d, g M = combine keys d /\ length d = length keys /\
               forall j key, nth_error keys j = Some key -> nth j d 0 = ssum ROps M key))
    as (g & G1 & G2).
  { exists (fun M => match place ROps keys M with Some A => A | None => [] end). split.
    - intros M HM. destruct (Hp M HM) as (d & E & _). rewrite E. reflexivity.
    - intros M HM. destruct (Hp M HM) as (d & E & L & N). exists d. rewrite E. auto. }
  exists (map g Ms). split; [apply all_some_map; exact G1|]. split; [apply map_length|].
  intros i M A HM HA. rewrite nth_error_map, HM in HA. inversion HA; subst A. clear HA.
  destruct (G2 M (nth_error_In _ _ HM)) as (d & E & L & N). rewrite E.
  assert (forall key, sget ROps (combine keys d) key = ssum ROps M key) as Hv.
  { intros key. destruct (in_dec Z.eq_dec key keys) as [Hin|Hin].
    - destruct (In_nth_error _ _ Hin) as [j Hj].
      rewrite (sget_combine keys d (asc_NoDup _ Hasc) L j key Hj). apply N. exact Hj.
    - rewrite sget_notin by (rewrite skeys_combine by exact L; exact Hin).
      symmetry. apply ssum_notin. intros Hm. apply Hin. apply Hk. exists M.
      split; [eapply nth_error_In; exact HM|exact Hm]. }
  unfold swf. rewrite skeys_combine by exact L.
  split; [exact Hasc|]. split; [exact Hk|]. split; [exact Hv|].
  intros Hnd key. rewrite Hv. apply ssum_sget. exact Hnd.
Qed.

Example align_example_noncanonical :
  align_nnz QOps [[(2%Z, 1%Q); (0%Z, 5%Q); (2%Z, 3%Q)]; [(1%Z, 7%Q)]] =
  Some [[(0%Z, 5%Q); (1%Z, 0%Q); (2%Z, 4%Q)]; [(0%Z, 0%Q); (1%Z, 7%Q); (2%Z, 0%Q)]].
Proof. vm_compute. reflexivity. Qed.
