(* C17 — per-element binding of the thermal-expansion conversion: with rows
   attached by id the per-row round trip is a per-ELEMENT round trip; with
   positional attachment to a differently ordered id list it is not. *)
From Coq Require Import List ZArith Bool Arith Lia.
Import ListNotations.
From FV.C17 Require Import Model.

Lemma tlookup_attach_by_id {X Y} (f : X -> Y) e (t : table X) i :
  tlookup i (attach true e f t) = option_map f (tlookup i t).
Proof.
  unfold attach. induction t as [|[j x] r IH]; simpl; [reflexivity|].
  destruct (Z.eqb i j); [reflexivity|exact IH].
Qed.

Lemma tlookup_In {X} (t : table X) i x : tlookup i t = Some x -> In x (map snd t).
Proof.
  induction t as [|[j y] r IH]; simpl; intros H; [discriminate|].
  destruct (Z.eqb i j); [inversion H; left; reflexivity|right; apply IH; exact H].
Qed.

Theorem roundtrip_by_id {X Y} (P : X -> Prop) (f : X -> Y) (g : Y -> X) e e' (t : table X) :
  (forall x, P x -> g (f x) = x) -> Forall P (map snd t) ->
  forall i, tlookup i (attach true e' g (attach true e f t)) = tlookup i t.
Proof.
  intros Hgf HP i. rewrite !tlookup_attach_by_id.
  destruct (tlookup i t) as [x|] eqn:E; simpl; [|reflexivity].
  rewrite Hgf; [reflexivity|]. rewrite Forall_forall in HP. apply HP. eapply tlookup_In. exact E.
Qed.

Theorem roundtrip_positional_refuted :
  exists (f g : nat -> nat) (t : table nat) (e : list Z),
    (forall x, g (f x) = x) /\ NoDup (map fst t) /\
    (forall i, In i e <-> In i (map fst t)) /\ NoDup e /\
    exists i, tlookup i (attach false e g (attach false e f t)) <> tlookup i t.
Proof.
  exists (fun x => x), (fun x => x), [(10%Z, 1); (30%Z, 3)], [30%Z; 10%Z].
  split; [reflexivity|]. split; [repeat constructor; simpl; intuition discriminate|].
  split; [intros i; simpl; tauto|]. split; [repeat constructor; simpl; intuition discriminate|].
  exists 10%Z. vm_compute. discriminate.
Qed.
