(* C17 — tensor helpers: the small "per batch item" NumPy vocabulary that the
   translated functions of gen/TensorIdx.v are written in.  Definitions only.

   A NumPy array of shape (n, k) is modelled per batch item as `vec T = list T`
   (length k), one of shape (n, 3, 3) as `mat T = list (list T)` (list of rows);
   the batch dimension is `map` (every translated function treats the rows of
   the batch independently; the translator refuses anything that does not).
   Numbers are polymorphic in `Ops T`: theorems over R, execution over Q. *)
From Coq Require Import List ZArith QArith Qreduction Reals Bool Arith.
Import ListNotations.

Record Ops (T : Type) := mkOps {
  zero : T; one : T;
  add : T -> T -> T; mul : T -> T -> T; sub : T -> T -> T; opp : T -> T;
  div : T -> T -> T;
  of_Z : Z -> T;
  leb : T -> T -> bool;
  eqb : T -> T -> bool }.
Arguments zero {T}. Arguments one {T}. Arguments add {T}. Arguments mul {T}.
Arguments sub {T}. Arguments opp {T}. Arguments div {T}. Arguments of_Z {T}.
Arguments leb {T}. Arguments eqb {T}.

Definition ROps : Ops R := {|
  zero := 0%R; one := 1%R; add := Rplus; mul := Rmult; sub := Rminus; opp := Ropp;
  div := Rdiv; of_Z := IZR;
  leb := fun x y => if Rle_dec x y then true else false;
  eqb := fun x y => if Req_EM_T x y then true else false |}.

Definition QOps : Ops Q := {|
  zero := 0%Q; one := 1%Q;
  add := fun x y => Qred (Qplus x y); mul := fun x y => Qred (Qmult x y);
  sub := fun x y => Qred (Qminus x y); opp := Qopp;
  div := fun x y => Qred (Qdiv x y); of_Z := inject_Z;
  leb := Qle_bool; eqb := Qeq_bool |}.

Definition vec (T : Type) := list T.
Definition mat (T : Type) := list (list T).

Section Vocabulary.
  Context {T : Type} (O : Ops T).

  (* ---- rank 1 ---- *)
  Definition vget (v : vec T) (k : nat) : T := nth k v (zero O).
  (* X[:, idx]  (fancy indexing: a copy) *)
  Definition gather (v : vec T) (idx : list nat) : vec T := map (vget v) idx.
  (* X[:, a:b] ; X[:, a:] *)
  Definition slice (a b : nat) (v : vec T) : vec T := firstn (b - a) (skipn a v).
  Definition from (a : nat) (v : vec T) : vec T := skipn a v.
  (* X[:, a:] = w *)
  Definition set_from (a : nat) (v w : vec T) : vec T := firstn a v ++ w.
  Definition zeros (n : nat) : vec T := repeat (zero O) n.
  Definition vmap (f : T -> T) (v : vec T) : vec T := map f v.
  Fixpoint vsum (v : vec T) : T :=
    match v with [] => zero O | x :: r => add O x (vsum r) end.
  Fixpoint map2 {A B C} (f : A -> B -> C) (a : list A) (b : list B) : list C :=
    match a, b with x :: a', y :: b' => f x y :: map2 f a' b' | _, _ => [] end.
  Definition dot (u v : vec T) : T := vsum (map2 (mul O) u v).
  Definition cross (u v : vec T) : vec T :=
    [ sub O (mul O (vget u 1) (vget v 2)) (mul O (vget u 2) (vget v 1));
      sub O (mul O (vget u 2) (vget v 0)) (mul O (vget u 0) (vget v 2));
      sub O (mul O (vget u 0) (vget v 1)) (mul O (vget u 1) (vget v 0)) ].

  (* ---- rank 2 ---- *)
  Definition mget (m : mat T) (i j : nat) : T := vget (nth i m []) j.
  Definition col (k : nat) (m : mat T) : vec T := map (fun r => vget r k) m.
  Definition tabulate {A} (n : nat) (f : nat -> A) : list A := map f (seq 0 n).
  (* np.reshape(v, (-1, r, c)) and np.reshape(m, (-1, r*c)) *)
  Definition reshape (r c : nat) (v : vec T) : mat T :=
    tabulate r (fun i => slice (i * c) (i * c + c) v).
  Definition flatten (m : mat T) : vec T := concat m.
  (* np.transpose(m, (0, 2, 1)) ; the column count is that of the first row *)
  Definition ncols (m : mat T) : nat := length (hd [] m).
  Definition transpose (m : mat T) : mat T := tabulate (ncols m) (fun k => col k m).
  (* np.stack([v0, v1, ...], axis=1) : rows ; axis=2 : columns *)
  Definition stack_rows (vs : list (vec T)) : mat T := vs.
  Definition stack_cols (vs : list (vec T)) : mat T := transpose vs.
  (* A @ B for (r x n) (n x c) *)
  Definition mmul (a b : mat T) : mat T :=
    map (fun ra => tabulate (ncols b) (fun k => dot ra (col k b))) a.
  Definition diag (v : vec T) : mat T :=
    tabulate (length v) (fun i => tabulate (length v) (fun j =>
      if Nat.eqb i j then vget v i else zero O)).
  (* m[:, :, ::-1] *)
  Definition rev_cols (m : mat T) : mat T := map (@rev T) m.
  (* m[:, :, k] = v *)
  Definition set_col (k : nat) (m : mat T) (v : vec T) : mat T :=
    map2 (fun r x => firstn k r ++ x :: skipn (S k) r) m v.
  Definition mmap (f : T -> T) (m : mat T) : mat T := map (map f) m.
End Vocabulary.

(* ---- permutations of component positions ---- *)
Fixpoint index_of (x : nat) (l : list nat) : nat :=
  match l with
  | [] => 0
  | y :: r => if Nat.eqb x y then 0 else S (index_of x r)
  end.
Fixpoint nodupb (l : list nat) : bool :=
  match l with [] => true | x :: r => negb (existsb (Nat.eqb x) r) && nodupb r end.
(* `order` is a permutation of 0..n-1 *)
Definition is_perm (n : nat) (l : list nat) : bool :=
  Nat.eqb (length l) n && forallb (fun x => Nat.ltb x n) l && nodupb l.
(* the inverse permutation (what np.argsort(order) returns) *)
Definition inv_perm (n : nat) (l : list nat) : list nat :=
  map (fun j => index_of j l) (seq 0 n).

(* ---- comparison helpers for the correspondence (run over Q only) ---- *)
Definition Qabs' (x : Q) : Q := if Qle_bool 0 x then x else Qopp x.
Definition q_close (tol x y : Q) : bool := Qle_bool (Qabs' (x - y)) tol.
Fixpoint all2 {A B} (f : A -> B -> bool) (a : list A) (b : list B) : bool :=
  match a, b with
  | [], [] => true
  | x :: a', y :: b' => f x y && all2 f a' b'
  | _, _ => false
  end.
Definition vec_eq (a b : vec Q) : bool := all2 Qeq_bool a b.
Definition vec_close (tol : Q) (a b : vec Q) : bool := all2 (q_close tol) a b.
Definition mat_eq (a b : mat Q) : bool := all2 vec_eq a b.
Definition mat_close (tol : Q) (a b : mat Q) : bool := all2 (vec_close tol) a b.

(* ---- sparse matrices (align_nnz; hand model, tie = correspondence) ----
   A scipy CSR matrix in canonical form (sorted indices, no duplicates) is the
   list of its STORED entries (flat key = row * ncols + col, value) in storage
   order = ascending key; stored zeros are entries like any other. *)
Definition smatrix (T : Type) := list (Z * T).
Definition skeys {T} (A : smatrix T) : list Z := map fst A.
Definition svals {T} (A : smatrix T) : list T := map snd A.
Fixpoint sget {T} (O : Ops T) (A : smatrix T) (k : Z) : T :=
  match A with
  | [] => zero O
  | (k', v) :: r => if Z.eqb k k' then v else sget O r k
  end.
Fixpoint ascending (l : list Z) : bool :=
  match l with
  | x :: ((y :: _) as r) => Z.ltb x y && ascending r
  | _ => true
  end.
(* well formed: keys strictly ascending and inside the (flattened) shape *)
Definition swfb {T} (size : Z) (A : smatrix T) : bool :=
  ascending (skeys A) && forallb (fun k => Z.leb 0 k && Z.ltb k size) (skeys A).

(* sorted union of key lists: insertion of each key of `a` into `b` (ascending) *)
Fixpoint kinsert (x : Z) (l : list Z) : list Z :=
  match l with
  | [] => [x]
  | y :: r => match Z.compare x y with
              | Lt => x :: l
              | Eq => l
              | Gt => y :: kinsert x r
              end
  end.
Definition kunion (a b : list Z) : list Z := fold_right kinsert b a.

Section Sparse.
  Context {T : Type} (O : Ops T).
  Definition nz (kv : Z * T) : bool := negb (eqb O (snd kv) (zero O)).
  (* scipy csr + csr (csr_binop_csr_canonical with plus): union of the two
     patterns, values added, and every entry whose RESULT is zero dropped *)
  Definition sadd (A B : smatrix T) : smatrix T :=
    filter nz (map (fun k => (k, add O (sget O A k) (sget O B k))) (kunion (skeys A) (skeys B))).
  (* csr_matrix((ones(len(s.data)) * D, s.indices, s.indptr)) *)
  Definition spattern (D : T) (A : smatrix T) : smatrix T := map (fun kv => (fst kv, D)) A.
  Definition tmin (x y : T) : T := if leb O x y then x else y.
  Definition tabs (x : T) : T := if leb O (zero O) x then x else opp O x.
  (* np.min(s): over the stored values and, unless every position is stored, 0 *)
  Definition smin (size : Z) (A : smatrix T) : T :=
    let vs := if Z.ltb (Z.of_nat (length A)) size then zero O :: svals A else svals A in
    match vs with [] => zero O | x :: r => fold_left tmin r x end.
  Definition gmin (size : Z) (Ms : list (smatrix T)) : T :=
    match map (smin size) Ms with [] => zero O | x :: r => fold_left tmin r x end.
  (* dummy_scale = |min| * 2 + 1 *)
  Definition dummy_scale (size : Z) (Ms : list (smatrix T)) : T :=
    add O (mul O (tabs (gmin size Ms)) (of_Z O 2)) (of_Z O 1).
  Definition dummy_csr (D : T) (Ms : list (smatrix T)) : smatrix T :=
    fold_left (fun acc A => sadd acc (spattern D A)) Ms [].
  (* a_s.data - dummy_array is positional: both must have the same length *)
  Definition reduce (added dummy : smatrix T) : option (smatrix T) :=
    if Nat.eqb (length added) (length dummy)
    then Some (combine (skeys dummy) (map2 (sub O) (svals added) (svals dummy)))
    else None.
  Fixpoint all_some {A} (l : list (option A)) : option (list A) :=
    match l with
    | [] => Some []
    | None :: _ => None
    | Some x :: r => match all_some r with Some r' => Some (x :: r') | None => None end
    end.
  (* femio's algorithm BEFORE /repo 0213dd3 (kept for the record; see notes) *)
  Definition align_nnz_by_dummy (size : Z) (Ms : list (smatrix T)) : option (list (smatrix T)) :=
    let D := dummy_scale size Ms in
    let dummy := dummy_csr D Ms in
    all_some (map (fun A => reduce (sadd A dummy) dummy) Ms).

  (* ---- align_nnz as of /repo 0213dd3: values PLACED on the union pattern ----
     An input matrix is the list of its stored (flat key, value) pairs in
     STORAGE order: any order, duplicated keys allowed (non-canonical CSR). *)
  (* the sum of everything stored under key k (= sget for distinct keys) *)
  Fixpoint ssum (A : smatrix T) (k : Z) : T :=
    match A with
    | [] => zero O
    | (k', v) :: r => if Z.eqb k k' then add O v (ssum r k) else ssum r k
    end.
  (* union_csr after sort_indices(): only its pattern is used by the code; the
     sums of ones are >= 1, so scipy's dropping of zero sums never fires and
     the pattern is the ascending union of the stored keys *)
  Definition union_pattern (Ms : list (smatrix T)) : list Z :=
    fold_left (fun acc A => kunion (skeys A) acc) Ms [].
  (* np.searchsorted(keys, k) (side='left') on ascending keys *)
  Fixpoint searchsorted (k : Z) (keys : list Z) : nat :=
    match keys with
    | [] => 0%nat
    | x :: r => if Z.ltb x k then S (searchsorted k r) else 0%nat
    end.
  (* data[i] = f data[i]; an index past the end is an IndexError *)
  Fixpoint upd (d : list T) (i : nat) (f : T -> T) : option (list T) :=
    match d, i with
    | [], _ => None
    | x :: r, 0%nat => Some (f x :: r)
    | x :: r, S j => match upd r j f with Some r' => Some (x :: r') | None => None end
    end.
  (* np.add.at(data, idx, vals): unbuffered, repeated indices accumulate *)
  Definition add_at (d : list T) (ivs : list (nat * T)) : option (list T) :=
    fold_left (fun acc iv => match acc with
                             | Some d' => upd d' (fst iv) (fun x => add O x (snd iv))
                             | None => None
                             end) ivs (Some d).
  Definition place (keys : list Z) (A : smatrix T) : option (smatrix T) :=
    match add_at (zeros O (length keys))
                 (map (fun kv => (searchsorted (fst kv) keys, snd kv)) A) with
    | Some d => Some (combine keys d)
    | None => None
    end.
  Definition align_nnz (Ms : list (smatrix T)) : option (list (smatrix T)) :=
    let keys := union_pattern Ms in
    all_some (map (place keys) Ms).
End Sparse.

Definition smat_eq (A B : smatrix Q) : bool :=
  all2 (fun x y => Z.eqb (fst x) (fst y) && Qeq_bool (snd x) (snd y)) A B.

(* ---- id-keyed elemental tables: where the rows a method computes are attached ----
   convert_lte_* read the rows of an elemental attribute (in that attribute's own
   order), compute one output row per input row and store them with update_data:
   attached to the ids of the attribute they came from (by id), or positionally
   to the mesh's element ids (self.elements.ids, whose order may differ). *)
Definition table (X : Type) := list (Z * X).
Fixpoint tlookup {X} (i : Z) (t : table X) : option X :=
  match t with
  | [] => None
  | (j, x) :: r => if Z.eqb i j then Some x else tlookup i r
  end.
Definition attach {X Y} (by_id : bool) (element_ids : list Z) (f : X -> Y) (t : table X) : table Y :=
  if by_id then map (fun ir => (fst ir, f (snd ir))) t
  else combine element_ids (map (fun ir => f (snd ir)) t).
