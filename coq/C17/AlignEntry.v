(* C17 — align_nnz at the level of the caller: scipy matrices given by format,
   shape and stored (row, col, value) entries; the shape check, the format
   dispatch (`.tocsr()` of non-CSR inputs), the flat key `rows * n_col + indices`
   (TRANSLATED: gen/AlignCfg.flat_key), the union pattern taken from the summed
   pattern matrices after sort_indices() (lexicographic (row, col) order),
   np.searchsorted on the flat keys and np.add.at.  Definitions only. *)
From Coq Require Import List ZArith Bool.
Import ListNotations.
From FV.C17 Require Import Model.
From FV.C17.gen Require Import AlignCfg.

Definition pos := (Z * Z)%type.
Definition entries (T : Type) := list (pos * T).
Definition positions {T} (E : entries T) : list pos := map fst E.
Definition pos_eqb (p q : pos) : bool := Z.eqb (fst p) (fst q) && Z.eqb (snd p) (snd q).

(* (row, col) order of canonical CSR storage *)
Definition rc_compare (a b : pos) : comparison :=
  match Z.compare (fst a) (fst b) with Eq => Z.compare (snd a) (snd b) | o => o end.
Fixpoint rcinsert (x : pos) (l : list pos) : list pos :=
  match l with
  | [] => [x]
  | y :: r => match rc_compare x y with
              | Lt => x :: l
              | Eq => l
              | Gt => y :: rcinsert x r
              end
  end.
Definition rcunion (a b : list pos) : list pos := fold_right rcinsert b a.
(* union_csr = sum of the ones-patterns, then sort_indices(): the stored positions
   of all inputs, once each, in (row, col) order (sums of ones never cancel) *)
Definition union_positions {T} (Es : list (entries T)) : list pos :=
  fold_left (fun acc E => rcunion (positions E) acc) Es [].

Definition fk (nr nc : Z) (p : pos) : Z := flat_key nr nc (fst p) (snd p).
(* flat_keys(csr): one key per stored entry, in storage order *)
Definition flat {T} (nr nc : Z) (E : entries T) : smatrix T :=
  map (fun e => (fk nr nc (fst e), snd e)) E.

Inductive fmt := CSR | COO.
Inductive err := EIndex | EValue.
Record spm (T : Type) := mk_spm { sp_fmt : fmt; sp_shape : Z * Z; sp_ent : entries T }.
Arguments mk_spm {T}. Arguments sp_fmt {T}. Arguments sp_shape {T}. Arguments sp_ent {T}.

Section Entry.
  Context {T : Type} (O : Ops T).
  (* the value of the matrix at a position: the sum of what is stored there *)
  Fixpoint esum (E : entries T) (p : pos) : T :=
    match E with
    | [] => zero O
    | (q, v) :: r => if pos_eqb p q then add O v (esum r p) else esum r p
    end.
  (* the first entry stored at a position *)
  Fixpoint eget (E : entries T) (p : pos) : T :=
    match E with
    | [] => zero O
    | (q, v) :: r => if pos_eqb p q then v else eget r p
    end.
  Definition place_rc (nr nc : Z) (U : list pos) (E : entries T) : option (entries T) :=
    let keys := map (fk nr nc) U in
    match add_at O (zeros O (length keys))
                 (map (fun kv => (searchsorted (fst kv) keys, snd kv)) (flat nr nc E)) with
    | Some d => Some (combine U d)
    | None => None
    end.
  (* the CSR branch *)
  Definition align_core (nr nc : Z) (Es : list (entries T)) : option (list (entries T)) :=
    let U := union_positions Es in all_some (map (place_rc nr nc U) Es).
  (* coo.tocsr(): (row, col) order, duplicated entries summed *)
  Fixpoint cins (p : pos) (v : T) (l : entries T) : entries T :=
    match l with
    | [] => [(p, v)]
    | (q, w) :: r => match rc_compare p q with
                     | Lt => (p, v) :: l
                     | Eq => (q, add O w v) :: r
                     | Gt => (q, w) :: cins p v r
                     end
    end.
  Definition tocsr (E : entries T) : entries T :=
    fold_left (fun acc e => cins (fst e) (snd e) acc) E [].
  (* s.tocsr(): a CSR matrix is returned as it is *)
  Definition as_csr (M : spm T) : entries T :=
    match sp_fmt M with CSR => sp_ent M | COO => tocsr (sp_ent M) end.
  Definition is_csr (M : spm T) : bool := match sp_fmt M with CSR => true | COO => false end.
  Definition shape_eqb (a b : Z * Z) : bool := Z.eqb (fst a) (fst b) && Z.eqb (snd a) (snd b).

  Definition align_nnz_entry (Ms : list (spm T)) : list (spm T) + err :=
    match Ms with
    | [] => inr EIndex                                   (* shapes[0] of an empty array *)
    | M0 :: _ =>
      if forallb (fun M => shape_eqb (sp_shape M) (sp_shape M0)) Ms then
        let nr := fst (sp_shape M0) in
        let nc := snd (sp_shape M0) in
        (* not all CSR: align_nnz([s.tocsr() for s in sparses]) *)
        let Es := if forallb is_csr Ms then map sp_ent Ms else map as_csr Ms in
        match align_core nr nc Es with
        | Some As => inl (map (mk_spm CSR (nr, nc)) As)
        | None => inr EIndex
        end
      else inr EValue                                    (* "Inputs should have the same shape" *)
    end.
End Entry.
