(* C17 — tensor helpers are mutually inverse and reconstruct their input.
   Statements only.  gen/TensorIdx.v is regenerated from /repo on every run
   (femio/functions.py, femio/signal_processor.py); all theorems below are
   about those translated definitions, instantiated at the reals (ROps).
   numpy.linalg.eigh enters as the universally quantified `eigh` with the
   premise `forall M, sym33 M -> eigh_ok M (eigh M)` (ascending eigenvalues,
   orthonormal columns, M V = V diag w); nothing else is assumed about it, in
   particular no genericity: repeated and zero eigenvalues are covered. *)
From Coq Require Import String List Reals.
Import ListNotations.
From Coq Require Import ZArith.
From FV.C17 Require Import Model ProofsSym ProofsPoly ProofsEig ProofsAlign ProofsPlace ProofsBind AlignEntry ProofsEntry ProofsIdem AlignDtype.
From FV.C17.gen Require Import TensorIdx AlignCfg.
Open Scope R_scope.

(* ---- array <-> symmetric matrix ---- *)
Theorem C17_sym_roundtrip :
  forall (a : vec R) (order : list nat) (eng : bool),
    length a = 6%nat -> is_perm 6 order = true ->
    convert_symmetric_matrix2array ROps
      (convert_array2symmetric_matrix ROps a eng (Some order)) eng (Some (inv_perm 6 order)) = a.
Proof. exact sym_roundtrip. Qed.

Theorem C17_sym_roundtrip_default_order :
  forall (a : vec R) (eng : bool), length a = 6%nat ->
    convert_symmetric_matrix2array ROps (convert_array2symmetric_matrix ROps a eng None) eng None = a.
Proof. exact sym_roundtrip_default. Qed.

Theorem C17_sym_roundtrip_matrix :
  forall (m00 m01 m02 m11 m12 m22 : R) (order : list nat) (eng : bool),
    is_perm 6 order = true ->
    let M := [[m00; m01; m02]; [m01; m11; m12]; [m02; m12; m22]] in
    convert_array2symmetric_matrix ROps
      (convert_symmetric_matrix2array ROps M eng (Some order)) eng (Some (inv_perm 6 order)) = M.
Proof. exact sym_roundtrip_matrix. Qed.

(* the inverse order handed to the second call is itself a legal order *)
Theorem C17_inverse_order_is_an_order :
  forall order, is_perm 6 order = true -> is_perm 6 (inv_perm 6 order) = true.
Proof. exact (inv_perm_is_perm 6). Qed.

Theorem C17_a2m_symmetric :
  forall (a : vec R) eng order, order_len_ok order ->
    let M := convert_array2symmetric_matrix ROps a eng order in
    length M = 3%nat /\ Forall (fun r => length r = 3%nat) M /\
    forall i j, (i < 3)%nat -> (j < 3)%nat -> mget ROps M i j = mget ROps M j i.
Proof. exact a2m_symmetric. Qed.

(* which component lands where: [11, 22, 33, 12, 23, 31], shears halved iff eng *)
Theorem C17_a2m_entries :
  forall (a : vec R) eng order, order_len_ok order ->
    let M := convert_array2symmetric_matrix ROps a eng order in
    let c k := vget ROps a (nth k (order_of order) 0%nat) in
    let h x := if eng then x / 2 else x in
    mget ROps M 0 0 = c 0%nat /\ mget ROps M 1 1 = c 1%nat /\ mget ROps M 2 2 = c 2%nat /\
    mget ROps M 0 1 = h (c 3%nat) /\ mget ROps M 1 2 = h (c 4%nat) /\ mget ROps M 0 2 = h (c 5%nat).
Proof. exact a2m_entries. Qed.

(* ---- principal components ---- *)
Theorem C17_principal_sorted_rh :
  forall eigh, (forall M, sym33 M -> eigh_ok M (eigh M)) ->
  forall (a : vec R) eng order, order_len_ok order ->
    let M := convert_array2symmetric_matrix ROps a eng order in
    let '(vals, dirs, vecs) := calculate_principal_components ROps eigh a eng order in
    let D := dirs_matrix dirs in
    length vals = 3%nat /\ length dirs = 9%nat /\ length vecs = 9%nat /\
    (vget ROps vals 0 >= vget ROps vals 1 /\ vget ROps vals 1 >= vget ROps vals 2) /\
    mmul ROps (transpose ROps D) D = I3 /\
    det3 D = 1 /\
    mmul ROps M D = mmul ROps D (diag ROps vals) /\
    vecs = flatten (transpose ROps (mmul ROps D (diag ROps vals))).
Proof. exact principal_sorted_rh. Qed.

Theorem C17_reconstruct_matrix :
  forall eigh, (forall M, sym33 M -> eigh_ok M (eigh M)) ->
  forall (a : vec R) eng order, order_len_ok order ->
    let '(vals, dirs, vecs) := calculate_principal_components ROps eigh a eng order in
    calculate_symmetric_matrices_from_eigens ROps vals dirs =
      convert_array2symmetric_matrix ROps a eng order.
Proof. exact reconstruct_matrix. Qed.

Theorem C17_reconstruct_array :
  forall eigh, (forall M, sym33 M -> eigh_ok M (eigh M)) ->
  forall (a : vec R) eng order, order_len_ok order ->
    let '(vals, dirs, vecs) := calculate_principal_components ROps eigh a eng order in
    calculate_array_from_eigens ROps vals dirs eng = gather ROps a (order_of order).
Proof. exact reconstruct_array. Qed.

(* ---- strain inversion ---- *)
Theorem C17_invert_strain_involutive :
  forall eigh, (forall M, sym33 M -> eigh_ok M (eigh M)) ->
  forall (a : vec R) eng, length a = 6%nat ->
    det3 (madd I3 (convert_array2symmetric_matrix ROps a eng None)) <> 0 ->
    invert_strain ROps eigh (invert_strain ROps eigh a eng) eng = a.
Proof. exact invert_strain_involutive. Qed.

(* ---- thermal expansion, global -> local -> global ---- *)
Theorem C17_lte_roundtrip :
  forall eigh, (forall M, sym33 M -> eigh_ok M (eigh M)) ->
  forall (L : vec R), length L = 6%nat ->
    let '(lte, orient) := convert_lte_global2local ROps eigh L in
    length lte = 3%nat /\ length orient = 9%nat /\
    convert_lte_local2global ROps lte orient = L.
Proof. exact lte_roundtrip. Qed.

(* the attributes the first method writes are the ones the second reads, and
   vice versa (names resolved through config.DICT_ALIASES by the translator) *)
Theorem C17_lte_names_link :
  convert_lte_global2local_writes = convert_lte_local2global_reads /\
  convert_lte_local2global_writes = convert_lte_global2local_reads.
Proof. split; reflexivity. Qed.

(* ---- thermal expansion per ELEMENT: the values are per element id ----
   `*_bound_by_id` are translated from the tree under test: do the two methods
   attach the rows they compute to the ids of the attribute the rows were computed
   from (update_data(ids_of_that_attribute, ...), other attributes read through
   filter_with_ids(those ids)), or positionally to self.elements.ids.
   FULL STATEMENT: for every elemental table T of expansion tensors (any id order,
   any order of self.elements.ids), global -> local -> global returns, for every
   element id, that element's tensor.  Proved when both methods bind by id;
   refuted for positional attachment (already for identity row functions). *)
Theorem C17_lte_roundtrip_per_element :
  andb convert_lte_global2local_bound_by_id convert_lte_local2global_bound_by_id = true ->
  forall eigh, (forall M, sym33 M -> eigh_ok M (eigh M)) ->
  forall (T : table (vec R)) (e e' : list Z), Forall (fun L => length L = 6%nat) (map snd T) ->
  forall i,
    tlookup i (attach true e' (fun lo => convert_lte_local2global ROps (fst lo) (snd lo))
                 (attach true e (convert_lte_global2local ROps eigh) T)) = tlookup i T.
Proof.
  intros _ eigh Hs T e e' HT i.
  apply (roundtrip_by_id (fun L => length L = 6%nat)); [|exact HT].
  intros L HL. pose proof (lte_roundtrip eigh Hs L HL) as H.
  destruct (convert_lte_global2local ROps eigh L) as [l o]. apply H.
Qed.

Theorem C17_lte_positional_binding_refuted :
  andb convert_lte_global2local_bound_by_id convert_lte_local2global_bound_by_id = false ->
  exists (f g : nat -> nat) (t : table nat) (e : list Z),
    (forall x, g (f x) = x) /\ NoDup (map fst t) /\
    (forall i, In i e <-> In i (map fst t)) /\ NoDup e /\
    exists i, tlookup i (attach false e g (attach false e f t)) <> tlookup i t.
Proof. intros _. exact roundtrip_positional_refuted. Qed.

(* ---- sparse alignment ----
   Model.align_nnz mirrors femio's align_nnz as of /repo 0213dd3 (hand model;
   tie = correspondence): ascending union pattern, searchsorted, np.add.at.
   For EVERY list of matrices in ANY storage (unsorted keys, duplicated keys,
   stored zeros, any signs; no premise): it succeeds, returns one matrix per
   input, all on the same ascending pattern = the union of the stored
   patterns, and every key (stored or not) carries the sum of what the input
   stores under it - i.e. exactly the stored value when the input's keys are
   distinct (canonical CSR): the exact-arithmetic specification. *)
Theorem C17_align_nnz_values :
  forall (Ms : list (smatrix R)),
  exists As, align_nnz ROps Ms = Some As /\ length As = length Ms /\
    forall i M A, nth_error Ms i = Some M -> nth_error As i = Some A ->
      swf A /\
      (forall key, In key (skeys A) <-> exists M', In M' Ms /\ In key (skeys M')) /\
      (forall key, sget ROps A key = ssum ROps M key) /\
      (NoDup (skeys M) -> forall key, sget ROps A key = sget ROps M key).
Proof. exact align_nnz_values. Qed.

(* ---- sparse alignment at the caller's level (AlignEntry.align_nnz_entry) ----
   The matrices as the caller hands them over: format (CSR as stored - unsorted
   indices and duplicated entries allowed - or COO), shape, stored (row, col, value)
   entries.  Modelled: the shape check, the dispatch (`.tocsr()` when not all inputs
   are CSR), the flat key (gen/AlignCfg.flat_key, TRANSLATED from the expression the
   source hands to np.searchsorted), the union pattern in (row, col) order,
   searchsorted on the flat keys and np.add.at.
   FULL STATEMENT: for every non-empty list of matrices of one shape whose stored
   positions lie inside the shape: the call succeeds, one CSR output per input, all
   of that shape and on the same pattern U = the union of the stored positions in
   row-major order, and every position (stored or not) carries the value of the input
   matrix there (the sum of what it stores at that position). *)
Theorem C17_align_nnz_entry_values :
  forall (M0 : spm R) (Ms' : list (spm R)),
  let Ms := M0 :: Ms' in
  Forall wf_spm Ms -> (forall M, In M Ms -> sp_shape M = sp_shape M0) ->
  let nr := fst (sp_shape M0) in let nc := snd (sp_shape M0) in
  exists As U, align_nnz_entry ROps Ms = inl As /\ length As = length Ms /\
    asc (map (fk nr nc) U) /\
    (forall p, In p U <-> exists M, In M Ms /\ In p (positions (sp_ent M))) /\
    forall i M A, nth_error Ms i = Some M -> nth_error As i = Some A ->
      sp_fmt A = CSR /\ sp_shape A = sp_shape M0 /\ positions (sp_ent A) = U /\
      forall p, eget ROps (sp_ent A) p = esum ROps (sp_ent M) p.
Proof. exact align_nnz_entry_values. Qed.

(* aligning matrices that are already aligned changes nothing: the returned matrices
   are a fixed point of align_nnz (same format, shape, pattern, storage order and
   stored values) - "returns the original values" at the level of the storage *)
Theorem C17_align_nnz_entry_idempotent :
  forall (M0 : spm R) (Ms' : list (spm R)) (As : list (spm R)),
  let Ms := M0 :: Ms' in
  Forall wf_spm Ms -> (forall M, In M Ms -> sp_shape M = sp_shape M0) ->
  align_nnz_entry ROps Ms = inl As ->
  align_nnz_entry ROps As = inl As.
Proof. exact align_nnz_entry_idempotent. Qed.

(* different shapes: ValueError, nothing is returned *)
Theorem C17_align_nnz_entry_shape_mismatch :
  forall (M0 : spm R) (Ms' : list (spm R)),
  (exists M, In M (M0 :: Ms') /\ sp_shape M <> sp_shape M0) ->
  align_nnz_entry ROps (M0 :: Ms') = inr EValue.
Proof. exact align_nnz_entry_shape_mismatch. Qed.

(* the translated key expression orders the stored positions of a matrix exactly as
   (row, col) does (hence it is injective on them): what searchsorted relies on *)
Theorem C17_align_nnz_flat_key_order :
  forall nr nc p q, in_range nr nc p -> in_range nr nc q ->
    Z.compare (fk nr nc p) (fk nr nc q) = rc_compare p q.
Proof. exact fk_compare. Qed.

(* the decisions of align_nnz the model relies on, as read from the source *)
Theorem C17_align_nnz_decisions :
  keys_are_int64 = true /\ union_indices_sorted = true /\ values_accumulated_with_add_at = true /\
  shapes_checked = true /\ non_csr_inputs_converted_with_tocsr = true.
Proof. repeat split; reflexivity. Qed.

(* the loop over the inputs and the construction of the result, as read from the source:
   data = np.zeros(len(union keys)), one csr_matrix((data, union.indices, union.indptr),
   shape=union.shape) appended per input in input order, that list returned - what
   AlignEntry.align_core / align_nnz_entry model by `map (place_rc .. U)` and `mk_spm CSR` *)
Theorem C17_align_nnz_result_construction :
  data_zero_initialised_on_union = true /\ outputs_on_union_pattern = true /\
  one_output_per_input_in_order = true.
Proof. repeat split; reflexivity. Qed.

(* dtype of the returned data (translated expression `result_dtype`): float64 data is stored
   unconverted, and every int32 / float32 / float64 value is a value of the dtype it is stored
   in (nothing is rounded on the way into the result; int64 -> float64 beyond 2^53 is outside
   the property's float inputs) *)
Theorem C17_align_nnz_result_dtype :
  result_dtype F64 = F64 /\
  forall d, d <> I64 -> embeds_exactly d (result_dtype d) = true.
Proof. split; [reflexivity|]. intros d H. destruct d; try reflexivity; congruence. Qed.

(* ---- no in-place write reaches a caller-owned array (translator's
        conservative alias summary; object identity itself is checked by the
        correspondence only) ---- *)
Theorem C17_no_inplace_write_on_caller_arrays : mutated_caller_arrays = [].
Proof. reflexivity. Qed.

(* ---- non-vacuity ---- *)
Example C17_example_order : is_perm 6 [5; 3; 1; 0; 2; 4]%nat = true /\
                            inv_perm 6 [5; 3; 1; 0; 2; 4]%nat = [3; 2; 4; 1; 5; 0]%nat.
Proof. split; reflexivity. Qed.
Example C17_align_premise_satisfiable :
  Forall swf [[(0%Z, 1); (2%Z, -3)]; [(1%Z, 5); (2%Z, 0)]].
Proof. exact align_example. Qed.
Example C17_align_entry_premise_satisfiable :
  Forall wf_spm [mk_spm COO (2, 3)%Z [((1, 2)%Z, 1); ((0, 1)%Z, 5); ((1, 2)%Z, 3)];
                 mk_spm CSR (2, 3)%Z [((0, 2)%Z, 7); ((0, 0)%Z, 2)]].
Proof. exact wf_spm_example. Qed.
Example C17_eigh_premise_satisfiable : eigh_ok (smat 1 0 0 2 0 3) ([1; 2; 3], I3).
Proof. exact eigh_ok_diag. Qed.
