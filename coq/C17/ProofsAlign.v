(* C17 — align_nnz (hand model Model.align_nnz of the scipy operations):
   the aligned matrices share the union pattern and keep every value.
   Exact (real) arithmetic; see notes for the floating-point caveat of (s+D)-D. *)
From Coq Require Import List ZArith Reals Bool Arith Lia Lra Sorting.Sorted.
Import ListNotations.
From FV.C17 Require Import Model.
Open Scope R_scope.

Definition asc (l : list Z) : Prop := StronglySorted Z.lt l.
Definition swf (A : smatrix R) : Prop := asc (skeys A).

(* ------------------------------------------------------------ key lists *)
Lemma ascending_asc l : ascending l = true -> asc l.
Proof.
  intros H. apply Sorted_StronglySorted; [intros x y z; apply Z.lt_trans|].
  induction l as [|x [|y r] IH]; [constructor|repeat constructor|].
  simpl in H. apply andb_true_iff in H. destruct H as [H1 H2].
  constructor; [apply IH; exact H2|]. constructor. apply Z.ltb_lt. exact H1.
Qed.

Lemma kinsert_In k x l : In k (kinsert x l) <-> k = x \/ In k l.
Proof.
  induction l as [|y r IH]; simpl; [intuition|].
  destruct (Z.compare x y) eqn:C; simpl.
  - apply Z.compare_eq in C. subst. intuition.
  - intuition.
  - rewrite IH. intuition.
Qed.

Lemma kinsert_asc x l : asc l -> asc (kinsert x l).
Proof.
  unfold asc. induction l as [|y r IH]; simpl; intros H.
  - repeat constructor.
  - apply StronglySorted_inv in H. destruct H as [Hr Hy].
    destruct (Z.compare x y) eqn:C.
    + constructor; assumption.
    + apply Z.compare_lt_iff in C. constructor; [constructor; assumption|].
      constructor; [exact C|]. eapply Forall_impl; [|exact Hy]. intros a Ha. simpl in Ha. eapply Z.lt_trans; eassumption.
    + apply Z.compare_gt_iff in C. constructor; [apply IH; exact Hr|].
      apply Forall_forall. intros a Ha. apply kinsert_In in Ha. destruct Ha as [->|Ha]; [exact C|].
      rewrite Forall_forall in Hy. apply Hy. exact Ha.
Qed.

Lemma kunion_In k a b : In k (kunion a b) <-> In k a \/ In k b.
Proof.
  unfold kunion. induction a as [|x a IH]; simpl; [intuition|].
  rewrite kinsert_In, IH. intuition.
Qed.

Lemma kunion_asc a b : asc b -> asc (kunion a b).
Proof.
  unfold kunion. intros H. induction a as [|x a IH]; simpl; [exact H|]. apply kinsert_asc. exact IH.
Qed.

Lemma asc_NoDup l : asc l -> NoDup l.
Proof.
  unfold asc. induction l as [|x r IH]; intros H; [constructor|].
  apply StronglySorted_inv in H. destruct H as [Hr Hx]. constructor; [|apply IH; exact Hr].
  intros Hin. rewrite Forall_forall in Hx. specialize (Hx x Hin). lia.
Qed.

(* two ascending lists with the same elements are equal *)
Lemma asc_ext l1 : forall l2, asc l1 -> asc l2 -> (forall k, In k l1 <-> In k l2) -> l1 = l2.
Proof.
  unfold asc. induction l1 as [|x l1 IH]; intros [|y l2] H1 H2 E.
  - reflexivity.
  - exfalso. apply (proj2 (E y)). left. reflexivity.
  - exfalso. apply (proj1 (E x)). left. reflexivity.
  - apply StronglySorted_inv in H1. destruct H1 as [A1 F1].
    apply StronglySorted_inv in H2. destruct H2 as [A2 F2].
    rewrite Forall_forall in F1, F2.
    assert (x = y) as ->.
    { destruct (proj1 (E x) (or_introl eq_refl)) as [e|Hx]; [symmetry; exact e|].
      destruct (proj2 (E y) (or_introl eq_refl)) as [e|Hy]; [exact e|].
      specialize (F1 y Hy). specialize (F2 x Hx). lia. }
    f_equal. apply IH; [exact A1|exact A2|]. intros k. split; intros Hk.
    + destruct (proj1 (E k) (or_intror Hk)) as [e|Hk2]; [|exact Hk2].
      subst k. specialize (F1 y Hk). lia.
    + destruct (proj2 (E k) (or_intror Hk)) as [e|Hk2]; [|exact Hk2].
      subst k. specialize (F2 y Hk). lia.
Qed.

(* ----------------------------------------------------------------- sget *)
Lemma sget_notin (A : smatrix R) k : ~ In k (skeys A) -> sget ROps A k = 0.
Proof.
  induction A as [|[k' v] r IH]; simpl; intros H; [reflexivity|].
  destruct (Z.eqb k k') eqn:E; [apply Z.eqb_eq in E; subst; exfalso; apply H; left; reflexivity|].
  apply IH. intros Hin. apply H. right. exact Hin.
Qed.

Lemma sget_in (A : smatrix R) k : In k (skeys A) -> In (k, sget ROps A k) A.
Proof.
  induction A as [|[k' v] r IH]; simpl; intros H; [contradiction|].
  destruct (Z.eqb k k') eqn:E; [apply Z.eqb_eq in E; subst; left; reflexivity|].
  destruct H as [H|H]; [subst; rewrite Z.eqb_refl in E; discriminate|]. right. apply IH. exact H.
Qed.

Lemma sget_tab (f : Z -> R) ks k :
  sget ROps (map (fun k => (k, f k)) ks) k = if in_dec Z.eq_dec k ks then f k else 0.
Proof.
  induction ks as [|x r IH]; simpl; [reflexivity|].
  destruct (Z.eqb k x) eqn:E.
  - apply Z.eqb_eq in E. subst. destruct (Z.eq_dec x x); [reflexivity|congruence].
  - apply Z.eqb_neq in E. destruct (Z.eq_dec x k); [congruence|]. rewrite IH.
    destruct (in_dec Z.eq_dec k r); reflexivity.
Qed.

Lemma skeys_tab (f : Z -> R) ks : skeys (map (fun k => (k, f k)) ks) = ks.
Proof. unfold skeys. rewrite map_map. simpl. apply map_id. Qed.

(* a matrix with distinct keys is the table of its own lookup function *)
Lemma tab_sget (A : smatrix R) : NoDup (skeys A) -> map (fun k => (k, sget ROps A k)) (skeys A) = A.
Proof.
  induction A as [|[k v] r IH]; simpl; intros H; [reflexivity|].
  inversion H as [|? ? Hn Hr]; subst. rewrite Z.eqb_refl. f_equal.
  rewrite <- (IH Hr) at 2. apply map_ext_in. intros a Ha.
  destruct (Z.eqb a k) eqn:E; [apply Z.eqb_eq in E; subst; contradiction|reflexivity].
Qed.

(* ----------------------------------------------------------------- sadd *)
Lemma nz_true (kv : Z * R) : snd kv <> 0 -> nz ROps kv = true.
Proof.
  intros H. unfold nz. simpl. destruct (Req_EM_T (snd kv) 0); [contradiction|reflexivity].
Qed.

Lemma filter_all {A} (f : A -> bool) l : (forall x, In x l -> f x = true) -> filter f l = l.
Proof.
  induction l as [|x r IH]; simpl; intros H; [reflexivity|].
  rewrite (H x (or_introl eq_refl)). f_equal. apply IH. intros y Hy. apply H. right. exact Hy.
Qed.

(* when no sum vanishes, csr + csr is the table of the sums over the union pattern *)
Lemma sadd_no_cancel (A B : smatrix R) :
  (forall k, In k (kunion (skeys A) (skeys B)) -> sget ROps A k + sget ROps B k <> 0) ->
  sadd ROps A B = map (fun k => (k, sget ROps A k + sget ROps B k)) (kunion (skeys A) (skeys B)).
Proof.
  intros H. unfold sadd. apply filter_all. intros [k v] Hin. apply nz_true. simpl.
  apply in_map_iff in Hin. destruct Hin as (k' & E & Hk). inversion E; subst. apply H. exact Hk.
Qed.

(* ------------------------------------------------------------- the dummy *)
Definition ge_all (D : R) (A : smatrix R) : Prop := forall kv, In kv A -> snd kv >= D.

Lemma sget_ge D (A : smatrix R) k : ge_all D A -> In k (skeys A) -> sget ROps A k >= D.
Proof. intros H Hin. apply (H (k, sget ROps A k)). apply sget_in. exact Hin. Qed.

Lemma spattern_keys D (A : smatrix R) : skeys (spattern D A) = skeys A.
Proof. unfold skeys, spattern. rewrite map_map. reflexivity. Qed.

Lemma spattern_get D (A : smatrix R) k : In k (skeys A) -> sget ROps (spattern D A) k = D.
Proof.
  induction A as [|[k' v] r IH]; simpl; intros H; [contradiction|].
  destruct (Z.eqb k k') eqn:E; [reflexivity|].
  destruct H as [H|H]; [subst; rewrite Z.eqb_refl in E; discriminate|]. apply IH. exact H.
Qed.

Lemma dummy_step D (acc A : smatrix R) :
  D > 0 -> ge_all D acc -> asc (skeys A) ->
  let acc' := sadd ROps acc (spattern D A) in
  asc (skeys acc') /\ ge_all D acc' /\
  (forall k, In k (skeys acc') <-> In k (skeys acc) \/ In k (skeys A)).
Proof.
  intros HD Hge HA acc'.
  assert (forall k, In k (kunion (skeys acc) (skeys (spattern D A))) ->
                    sget ROps acc k + sget ROps (spattern D A) k >= D) as Hsum.
  { intros k Hk. apply kunion_In in Hk. rewrite spattern_keys in Hk.
    destruct (in_dec Z.eq_dec k (skeys acc)) as [Ha|Ha];
      destruct (in_dec Z.eq_dec k (skeys A)) as [Hb|Hb].
    - pose proof (sget_ge D acc k Hge Ha). rewrite (spattern_get D A k Hb). lra.
    - pose proof (sget_ge D acc k Hge Ha).
      rewrite (sget_notin (spattern D A) k) by (rewrite spattern_keys; exact Hb). lra.
    - rewrite (sget_notin acc k Ha), (spattern_get D A k Hb). lra.
    - tauto. }
  assert (acc' = map (fun k => (k, sget ROps acc k + sget ROps (spattern D A) k))
                     (kunion (skeys acc) (skeys (spattern D A)))) as E.
  { apply sadd_no_cancel. intros k Hk. specialize (Hsum k Hk). lra. }
  rewrite E. rewrite skeys_tab. split; [apply kunion_asc; rewrite spattern_keys; exact HA|]. split.
  - intros kv Hin. apply in_map_iff in Hin. destruct Hin as (k & <- & Hk). simpl. apply Hsum. exact Hk.
  - intros k. rewrite kunion_In, spattern_keys. reflexivity.
Qed.

Lemma dummy_fold D (Ms : list (smatrix R)) : D > 0 -> Forall swf Ms ->
  forall acc, asc (skeys acc) -> ge_all D acc ->
  let d := fold_left (fun acc A => sadd ROps acc (spattern D A)) Ms acc in
  asc (skeys d) /\ ge_all D d /\
  (forall k, In k (skeys d) <-> In k (skeys acc) \/ exists M, In M Ms /\ In k (skeys M)).
Proof.
  intros HD HF. induction HF as [|A Ms HA HF IH]; intros acc Hasc Hge; simpl.
  - split; [exact Hasc|]. split; [exact Hge|]. intros k. split; [tauto|].
    intros [H|(M & [] & _)]. exact H.
  - destruct (dummy_step D acc A HD Hge HA) as (S1 & S2 & S3).
    destruct (IH _ S1 S2) as (T1 & T2 & T3). split; [exact T1|]. split; [exact T2|].
    intros k. rewrite T3, S3. split.
    + intros [[H|H]|(M & HM & Hk)]; [left; exact H|right; exists A; split; [left; reflexivity|exact H]|].
      right. exists M. split; [right; exact HM|exact Hk].
    + intros [H|(M & [HM|HM] & Hk)]; [left; left; exact H|subst; left; right; exact Hk|].
      right. exists M. split; assumption.
Qed.

(* ------------------------------------------------------------ the minimum *)
Lemma tmin_le x y : tmin ROps x y <= x /\ tmin ROps x y <= y.
Proof. unfold tmin. simpl. destruct (Rle_dec x y); lra. Qed.

Lemma fold_tmin_le l : forall x, fold_left (tmin ROps) l x <= x /\
                                 forall y, In y l -> fold_left (tmin ROps) l x <= y.
Proof.
  induction l as [|a l IH]; intros x; simpl; [split; [lra|contradiction]|].
  destruct (IH (tmin ROps x a)) as [A B]. destruct (tmin_le x a) as [C D]. split; [lra|].
  intros y [->|Hy]; [lra|apply B; exact Hy].
Qed.

Lemma smin_le size (A : smatrix R) kv : In kv A -> smin ROps size A <= snd kv.
Proof.
  intros Hin. unfold smin.
  assert (In (snd kv) (svals A)) as Hv by (unfold svals; apply in_map; exact Hin).
  destruct (Z.ltb (Z.of_nat (length A)) size).
  - destruct (fold_tmin_le (svals A) (zero ROps)) as [_ B]. apply B. exact Hv.
  - destruct (svals A) as [|x r] eqn:E; [contradiction|].
    destruct (fold_tmin_le r x) as [A1 B]. destruct Hv as [<-|Hv]; [exact A1|apply B; exact Hv].
Qed.

Lemma gmin_le size (Ms : list (smatrix R)) M kv :
  In M Ms -> In kv M -> gmin ROps size Ms <= snd kv.
Proof.
  intros HM Hkv. unfold gmin.
  assert (In (smin ROps size M) (map (smin ROps size) Ms)) as Hs by (apply in_map; exact HM).
  pose proof (smin_le size M kv Hkv) as L.
  destruct (map (smin ROps size) Ms) as [|x r] eqn:E; [contradiction|].
  destruct (fold_tmin_le r x) as [A B]. destruct Hs as [e|Hs]; [rewrite <- e in L; lra|].
  specialize (B _ Hs). lra.
Qed.

Lemma dummy_scale_pos size Ms :
  let g := gmin ROps size Ms in let D := dummy_scale ROps size Ms in
  D >= 1 /\ g + D >= 1.
Proof.
  unfold dummy_scale, tabs. simpl. destruct (Rle_dec 0 (gmin ROps size Ms)); split; lra.
Qed.

(* --------------------------------------------------------------- reduce *)
Lemma map2_map {A} (f g : A -> R) (l : list A) :
  map2 Rminus (map f l) (map g l) = map (fun k => f k - g k) l.
Proof. induction l as [|x r IH]; simpl; [reflexivity|]. rewrite IH. reflexivity. Qed.

Lemma combine_tab {A B} (f : A -> B) (l : list A) : combine l (map f l) = map (fun k => (k, f k)) l.
Proof. induction l as [|x r IH]; simpl; [reflexivity|]. rewrite IH. reflexivity. Qed.

Lemma all_some_map {A B} (f : A -> option B) (g : A -> B) l :
  (forall x, In x l -> f x = Some (g x)) -> all_some (map f l) = Some (map g l).
Proof.
  induction l as [|x r IH]; simpl; intros H; [reflexivity|].
  rewrite (H x (or_introl eq_refl)), IH; [reflexivity|]. intros y Hy. apply H. right. exact Hy.
Qed.

(* ------------------------------------------------------------ the theorem *)
Theorem align_nnz_by_dummy_values (size : Z) (Ms : list (smatrix R)) :
  Forall swf Ms ->
  exists As, align_nnz_by_dummy ROps size Ms = Some As /\ length As = length Ms /\
    forall i M A, nth_error Ms i = Some M -> nth_error As i = Some A ->
      swf A /\
      (forall key, In key (skeys A) <-> exists M', In M' Ms /\ In key (skeys M')) /\
      (forall key, sget ROps A key = sget ROps M key).
Proof.
  intros HF. unfold align_nnz_by_dummy.
  set (D := dummy_scale ROps size Ms). set (d := dummy_csr ROps D Ms).
  destruct (dummy_scale_pos size Ms) as [HD1 HgD]. fold D in HD1, HgD.
  assert (D > 0) as HD by lra.
  destruct (dummy_fold D Ms HD HF [] (SSorted_nil _) (fun kv H => match H with end))
    as (Hasc & Hge & Hkeys). fold (dummy_csr ROps D Ms) in Hasc, Hge, Hkeys. fold d in Hasc, Hge, Hkeys.
  assert (forall k, In k (skeys d) <-> exists M, In M Ms /\ In k (skeys M)) as Hk.
  { intros k. rewrite Hkeys. simpl. tauto. }
  pose (res := fun M : smatrix R => map (fun k => (k, sget ROps M k)) (skeys d)).
  assert (forall M, In M Ms -> reduce ROps (sadd ROps M d) d = Some (res M)) as Hred.
  { intros M HM. rewrite Forall_forall in HF. pose proof (HF M HM) as HMs.
    assert (kunion (skeys M) (skeys d) = skeys d) as EU.
    { apply asc_ext; [apply kunion_asc; exact Hasc|exact Hasc|].
      intros k. rewrite kunion_In. split; [|tauto]. intros [H|H]; [|exact H].
      apply Hk. exists M. split; assumption. }
    assert (sadd ROps M d = map (fun k => (k, sget ROps M k + sget ROps d k)) (skeys d)) as ES.
    { rewrite <- EU. apply sadd_no_cancel. intros k Hin. rewrite EU in Hin.
      pose proof (sget_ge D d k Hge Hin) as G.
      destruct (in_dec Z.eq_dec k (skeys M)) as [Hm|Hm].
      - pose proof (gmin_le size Ms M _ HM (sget_in M k Hm)) as L. simpl in L. lra.
      - rewrite (sget_notin M k Hm). lra. }
    unfold reduce. rewrite ES. rewrite map_length. unfold skeys at 1. rewrite map_length.
    rewrite Nat.eqb_refl. f_equal. unfold svals. rewrite map_map. simpl.
    rewrite <- (tab_sget d (asc_NoDup _ Hasc)) at 3. rewrite map_map. simpl.
    change (sub ROps) with Rminus. rewrite map2_map. rewrite combine_tab. unfold res.
    apply map_ext. intros k. f_equal. ring. }
  exists (map res Ms). split; [apply all_some_map; exact Hred|]. split; [apply map_length|].
  intros i M A HM HA. rewrite nth_error_map, HM in HA. inversion HA; subst A. clear HA.
  unfold res. unfold swf. rewrite skeys_tab. split; [exact Hasc|]. split; [exact Hk|].
  intros key. rewrite sget_tab. destruct (in_dec Z.eq_dec key (skeys d)) as [Hin|Hin]; [reflexivity|].
  symmetry. apply sget_notin. intros Hm. apply Hin. apply Hk. exists M.
  split; [eapply nth_error_In; exact HM|exact Hm].
Qed.

(* boolean well-formedness (as checked on the correspondence inputs) implies swf *)
Lemma swfb_swf size (A : smatrix R) : swfb size A = true -> swf A.
Proof. unfold swfb, swf. intros H. apply andb_true_iff in H. apply ascending_asc. apply H. Qed.

Example align_example :
  Forall swf [[(0%Z, 1); (2%Z, -3)]; [(1%Z, 5); (2%Z, 0)]].
Proof. repeat constructor. Qed.
