(* C17 — the data dtypes align_nnz can meet and numpy's promotion on them (hand model
   of np.result_type restricted to these four; tie: correspondence on the dtype of the
   returned data).  Definitions only. *)
Inductive dtype := I32 | I64 | F32 | F64.
Definition dtype_eqb (a b : dtype) : bool :=
  match a, b with I32, I32 | I64, I64 | F32, F32 | F64, F64 => true | _, _ => false end.
(* np.result_type(a, b) *)
Definition result_type (a b : dtype) : dtype :=
  match a, b with
  | F64, _ | _, F64 => F64
  | I64, F32 | F32, I64 | I32, F32 | F32, I32 => F64
  | F32, F32 => F32
  | I64, _ | _, I64 => I64
  | I32, I32 => I32
  end.
Definition is_inexact (d : dtype) : bool := match d with F32 | F64 => true | _ => false end.
(* every value of `a` is a value of `b` (24- resp. 53-bit significands) *)
Definition embeds_exactly (a b : dtype) : bool :=
  match a, b with
  | I32, I32 | I32, I64 | I32, F64 | I64, I64 | F32, F32 | F32, F64 | F64, F64 => true
  | _, _ => false
  end.
