(* C17 — align_nnz (caller's level) is idempotent: aligning matrices that are
   already aligned returns exactly the same stored matrices (format, shape,
   pattern, stored values, storage order). *)
From Coq Require Import List ZArith QArith Reals Bool Arith Lia Lra Sorting.Sorted.
Import ListNotations.
From FV.C17 Require Import Model ProofsAlign ProofsPlace AlignEntry ProofsEntry.
From FV.C17.gen Require Import AlignCfg.
Set Default Timeout 120.
Close Scope Q_scope.
Open Scope R_scope.

Lemma nth_error_ext' {A} (l l' : list A) : (forall i, nth_error l i = nth_error l' i) -> l = l'.
Proof.
  revert l'. induction l as [|x r IH]; intros [|y r'] H; try reflexivity.
  - specialize (H 0%nat). discriminate.
  - specialize (H 0%nat). discriminate.
  - pose proof (H 0%nat) as H0. simpl in H0. inversion H0; subst. f_equal. apply IH.
    intros i. exact (H (S i)).
Qed.

Lemma esum_eget (E : entries R) p : NoDup (positions E) -> esum ROps E p = eget ROps E p.
Proof.
  induction E as [|[q v] r IH]; simpl; intros H; [reflexivity|].
  inversion H as [|? ? Hn Hr]; subst. destruct (pos_eqb p q) eqn:E1; [|apply IH; exact Hr].
  apply pos_eqb_eq in E1. subst. rewrite (esum_notin r q Hn). change (add ROps v 0) with (v + 0). lra.
Qed.

Lemma entries_ext (A : entries R) : forall B, positions A = positions B -> NoDup (positions A) ->
  (forall p, eget ROps A p = eget ROps B p) -> A = B.
Proof.
  induction A as [|[p v] r IH]; intros [|[q w] r'] HP Hnd Hv; try discriminate; [reflexivity|].
  simpl in HP. inversion HP as [[Hpq Hr]]. subst q. inversion Hnd as [|? ? Hn Hnd']; subst.
  pose proof (Hv p) as Hp. simpl in Hp.
  assert (pos_eqb p p = true) as Epp by (apply pos_eqb_eq; reflexivity). rewrite Epp in Hp. subst w.
  f_equal. apply IH; [exact Hr|exact Hnd'|].
  intros x. destruct (pos_eqb x p) eqn:E.
  - apply pos_eqb_eq in E. subst x. rewrite (eget_notin r p Hn).
    rewrite eget_notin; [reflexivity|]. fold (positions r'). rewrite <- Hr. exact Hn.
  - pose proof (Hv x) as Hx. simpl in Hx. rewrite E in Hx. exact Hx.
Qed.

Lemma map_inj_on {A B} (f : A -> B) (l : list A) : forall l',
  (forall x y, In x l -> In y l' -> f x = f y -> x = y) -> map f l = map f l' -> l = l'.
Proof.
  induction l as [|x r IH]; intros [|y r'] Hi Hm; try discriminate; [reflexivity|].
  simpl in Hm. inversion Hm as [[Hxy Hr]]. f_equal.
  - apply Hi; [left; reflexivity|left; reflexivity|exact Hxy].
  - apply IH; [|exact Hr]. intros a b Ha Hb. apply Hi; right; assumption.
Qed.

Theorem align_nnz_entry_idempotent (M0 : spm R) (Ms' : list (spm R)) (As : list (spm R)) :
  let Ms := M0 :: Ms' in
  Forall wf_spm Ms -> (forall M, In M Ms -> sp_shape M = sp_shape M0) ->
  align_nnz_entry ROps Ms = inl As ->
  align_nnz_entry ROps As = inl As.
Proof.
  intros Ms Hwf Hsh HAs. subst Ms.
  destruct (align_nnz_entry_values M0 Ms' Hwf Hsh) as (As0 & U & E0 & L0 & Hasc & HU & HA).
  rewrite HAs in E0. inversion E0; subst As0. clear E0.
  set (nr := fst (sp_shape M0)) in *. set (nc := snd (sp_shape M0)) in *.
  (* the stored positions are inside the shape *)
  assert (Forall (in_range nr nc) U) as HrU.
  { apply Forall_forall. intros p Hp. apply HU in Hp. destruct Hp as (M & HM & Hp).
    rewrite Forall_forall in Hwf. pose proof (Hwf M HM) as Hw. unfold wf_spm, wf_entries in Hw.
    rewrite (Hsh M HM) in Hw. rewrite Forall_forall in Hw. apply Hw. exact Hp. }
  assert (forall A, In A As -> sp_fmt A = CSR /\ sp_shape A = sp_shape M0 /\ positions (sp_ent A) = U /\
            exists M, forall p, eget ROps (sp_ent A) p = esum ROps (sp_ent M) p) as HAll.
  { intros A HIn. destruct (In_nth_error _ _ HIn) as [i Hi].
    assert (i < length (M0 :: Ms'))%nat as Hlt by (rewrite <- L0; apply nth_error_Some; congruence).
    destruct (nth_error (M0 :: Ms') i) as [M|] eqn:EM; [|apply nth_error_None in EM; lia].
    destruct (HA i M A EM Hi) as (F & S & P & V). repeat split; try assumption. exists M. exact V. }
  destruct As as [|A0 As']; [simpl in L0; discriminate|].
  assert (Forall wf_spm (A0 :: As')) as Hwf2.
  { apply Forall_forall. intros A HIn. destruct (HAll A HIn) as (_ & S & P & _).
    unfold wf_spm, wf_entries. rewrite S, P. exact HrU. }
  destruct (HAll A0 (or_introl eq_refl)) as (F0 & S0 & P0 & _).
  assert (forall A, In A (A0 :: As') -> sp_shape A = sp_shape A0) as Hsh2.
  { intros A HIn. destruct (HAll A HIn) as (_ & S & _). rewrite S, S0. reflexivity. }
  destruct (align_nnz_entry_values A0 As' Hwf2 Hsh2) as (As2 & U2 & E2 & L2 & Hasc2 & HU2 & HA2).
  rewrite S0 in Hasc2, HA2. fold nr nc in Hasc2.
  rewrite E2. f_equal.
  (* the second union pattern is the first *)
  assert (forall p, In p U2 <-> In p U) as Hmem.
  { intros p. rewrite HU2. split.
    - intros (A & HIn & Hp). destruct (HAll A HIn) as (_ & _ & P & _). rewrite P in Hp. exact Hp.
    - intros Hp. exists A0. split; [left; reflexivity|]. rewrite P0. exact Hp. }
  assert (U2 = U) as HUU.
  { apply (map_inj_on (fk nr nc)).
    - intros x y Hx Hy. rewrite Forall_forall in HrU. apply fk_inj; apply HrU; [apply Hmem; exact Hx|exact Hy].
    - apply asc_ext; [exact Hasc2|exact Hasc|]. intros k. rewrite !in_map_iff. split.
      + intros (p & <- & Hp). exists p. split; [reflexivity|apply Hmem; exact Hp].
      + intros (p & <- & Hp). exists p. split; [reflexivity|apply Hmem; exact Hp]. }
  assert (NoDup U) as HndU by (apply (NoDup_of_map (fk nr nc)); apply asc_NoDup; exact Hasc).
  apply nth_error_ext'. intros i.
  destruct (nth_error (A0 :: As') i) as [A|] eqn:EA.
  - assert (i < length As2)%nat as Hlt by (rewrite L2; apply nth_error_Some; congruence).
    destruct (nth_error As2 i) as [A2|] eqn:EA2; [|apply nth_error_None in EA2; lia].
    destruct (HA2 i A A2 EA EA2) as (F2 & S2 & P2 & V2).
    destruct (HAll A (nth_error_In _ _ EA)) as (F & S & P & _).
    f_equal. destruct A2 as [f2 s2 e2], A as [f s e]. simpl in *. subst f2 f s2 s. f_equal.
    apply entries_ext; [rewrite P2, P; exact HUU|rewrite P2, HUU; exact HndU|].
    intros p. rewrite V2. apply esum_eget. rewrite P. exact HndU.
  - apply nth_error_None in EA. apply nth_error_None. rewrite L2. exact EA.
Qed.

(* non-vacuity: a run of the model whose result is re-aligned to itself *)
Example align_idem_example :
  let Ms := [mk_spm COO (2, 3)%Z [((1, 2)%Z, 1%Q); ((0, 1)%Z, 5%Q); ((1, 2)%Z, 3%Q)];
             mk_spm CSR (2, 3)%Z [((0, 2)%Z, 7%Q); ((0, 0)%Z, 2%Q)]] in
  match align_nnz_entry QOps Ms with
  | inl As => align_nnz_entry QOps As = inl As /\ length As = 2%nat
  | inr _ => False
  end.
Proof. vm_compute. split; reflexivity. Qed.
