(* C17 — proofs about the array <-> symmetric-matrix converters
   (gen/TensorIdx.v: convert_array2symmetric_matrix / convert_symmetric_matrix2array). *)
From Coq Require Import List ZArith Reals Bool Arith Lia Lra.
Import ListNotations.
From FV.C17 Require Import Model.
From FV.C17.gen Require Import TensorIdx.

(* ------------------------------------------------------------------ lists *)
Lemma gather_length {T} (O : Ops T) (a : vec T) idx : length (gather O a idx) = length idx.
Proof. unfold gather. apply map_length. Qed.

Lemma vget_gather {T} (O : Ops T) (a : vec T) idx j :
  j < length idx -> vget O (gather O a idx) j = vget O a (nth j idx 0).
Proof.
  intros H. unfold vget, gather.
  rewrite (nth_indep _ (zero O) (nth (nth (length idx) idx 0) a (zero O))) by (rewrite map_length; exact H).
  rewrite nth_overflow with (n := length idx) by lia.
  change (nth 0 a (zero O)) with ((fun k => nth k a (zero O)) 0).
  rewrite map_nth. reflexivity.
Qed.

Lemma gather_gather {T} (O : Ops T) (a : vec T) idx jdx :
  Forall (fun j => j < length idx) jdx ->
  gather O (gather O a idx) jdx = gather O a (map (fun j => nth j idx 0) jdx).
Proof.
  intros H. unfold gather at 1 3. rewrite map_map. apply map_ext_in.
  intros j Hj. rewrite Forall_forall in H. apply vget_gather. apply H. exact Hj.
Qed.

Lemma gather_seq {T} (O : Ops T) (a : vec T) : gather O a (seq 0 (length a)) = a.
Proof.
  apply nth_ext with (d := zero O) (d' := zero O).
  - rewrite gather_length, seq_length. reflexivity.
  - intros n Hn. rewrite gather_length, seq_length in Hn.
    change (nth n (gather O a (seq 0 (length a))) (zero O))
      with (vget O (gather O a (seq 0 (length a))) n).
    rewrite vget_gather by (rewrite seq_length; exact Hn).
    rewrite seq_nth by exact Hn. reflexivity.
Qed.

(* --------------------------------------------------------- permutations *)
Lemma nodupb_NoDup l : nodupb l = true -> NoDup l.
Proof.
  induction l as [|x r IH]; simpl; intros H; [constructor|].
  apply andb_true_iff in H. destruct H as [H1 H2]. constructor; [|apply IH; exact H2].
  intros Hin. apply negb_true_iff in H1.
  assert (existsb (Nat.eqb x) r = true) as E.
  { apply existsb_exists. exists x. split; [exact Hin|apply Nat.eqb_refl]. }
  congruence.
Qed.

Lemma is_perm_spec n l : is_perm n l = true ->
  length l = n /\ Forall (fun x => x < n) l /\ NoDup l.
Proof.
  unfold is_perm. intros H.
  apply andb_true_iff in H. destruct H as [H H3].
  apply andb_true_iff in H. destruct H as [H1 H2].
  split; [apply Nat.eqb_eq; exact H1|]. split; [|apply nodupb_NoDup; exact H3].
  apply Forall_forall. intros x Hx. rewrite forallb_forall in H2.
  apply Nat.ltb_lt. apply H2. exact Hx.
Qed.

(* pigeonhole: a duplicate-free list of n numbers below n contains all of them *)
Lemma is_perm_complete n l : is_perm n l = true -> forall j, j < n -> In j l.
Proof.
  intros H j Hj. destruct (is_perm_spec _ _ H) as (Hlen & Hlt & Hnd).
  assert (incl (seq 0 n) l) as Hincl.
  { apply NoDup_length_incl; [exact Hnd|rewrite seq_length; lia|].
    intros x Hx. rewrite Forall_forall in Hlt. apply in_seq. specialize (Hlt x Hx). lia. }
  apply Hincl. apply in_seq. lia.
Qed.

Lemma nth_index_of j l : In j l -> nth (index_of j l) l 0 = j /\ index_of j l < length l.
Proof.
  induction l as [|y r IH]; simpl; intros H; [contradiction|].
  destruct (Nat.eqb j y) eqn:E.
  - apply Nat.eqb_eq in E. subst. split; [reflexivity|lia].
  - destruct H as [H|H]; [subst; rewrite Nat.eqb_refl in E; discriminate|].
    destruct (IH H) as [A B]. split; [exact A|lia].
Qed.

Lemma inv_perm_right n l : is_perm n l = true ->
  map (fun j => nth j l 0) (inv_perm n l) = seq 0 n.
Proof.
  intros H. unfold inv_perm. rewrite map_map.
  rewrite <- (map_id (seq 0 n)) at 2. apply map_ext_in.
  intros j Hj. apply in_seq in Hj.
  apply (nth_index_of j l). apply (is_perm_complete n); [exact H|lia].
Qed.

Lemma inv_perm_in_range n l : is_perm n l = true ->
  Forall (fun j => j < length l) (inv_perm n l).
Proof.
  intros H. unfold inv_perm. apply Forall_forall. intros x Hx.
  apply in_map_iff in Hx. destruct Hx as (j & <- & Hj). apply in_seq in Hj.
  apply (nth_index_of j l). apply (is_perm_complete n); [exact H|lia].
Qed.

(* the inverse of a permutation is a permutation (so the theorem's second
   `order` argument is itself a legal argument of the function) *)
Lemma NoDup_nodupb l : NoDup l -> nodupb l = true.
Proof.
  induction 1 as [|x r Hx Hr IH]; simpl; [reflexivity|].
  rewrite IH, andb_true_r. apply negb_true_iff.
  destruct (existsb (Nat.eqb x) r) eqn:E; [|reflexivity].
  apply existsb_exists in E. destruct E as (y & Hy & Hxy).
  apply Nat.eqb_eq in Hxy. subst. contradiction.
Qed.

Lemma inv_perm_is_perm n l : is_perm n l = true -> is_perm n (inv_perm n l) = true.
Proof.
  intros H. destruct (is_perm_spec _ _ H) as (Hlen & _ & _).
  unfold is_perm. apply andb_true_iff. split; [apply andb_true_iff; split|].
  - apply Nat.eqb_eq. unfold inv_perm. rewrite map_length, seq_length. reflexivity.
  - apply forallb_forall. intros x Hx. apply Nat.ltb_lt.
    pose proof (inv_perm_in_range n l H) as F. rewrite Forall_forall in F.
    rewrite <- Hlen. apply F. exact Hx.
  - apply NoDup_nodupb. apply (NoDup_map_inv (fun j => nth j l 0)).
    rewrite inv_perm_right by exact H. apply seq_NoDup.
Qed.

(* gather through a permutation and back through its inverse *)
Lemma gather_perm_inv {T} (O : Ops T) n (a : vec T) order :
  length a = n -> is_perm n order = true ->
  gather O (gather O a order) (inv_perm n order) = a.
Proof.
  intros Ha H. rewrite gather_gather by (apply inv_perm_in_range; exact H).
  rewrite inv_perm_right by exact H. subst n. apply gather_seq.
Qed.

(* ------------------------------------------------------- explicit lists *)
Ltac explicit_list l H :=
  repeat (destruct l as [|? l]; [try discriminate H; try reflexivity|]; simpl in H);
  try discriminate H.

Lemma length6_inv {A} (l : list A) : length l = 6 ->
  exists x0 x1 x2 x3 x4 x5, l = [x0; x1; x2; x3; x4; x5].
Proof.
  intros H. destruct l as [|x0 [|x1 [|x2 [|x3 [|x4 [|x5 [|]]]]]]]; try discriminate H.
  repeat eexists.
Qed.

Lemma length3_inv {A} (l : list A) : length l = 3 -> exists x0 x1 x2, l = [x0; x1; x2].
Proof.
  intros H. destruct l as [|x0 [|x1 [|x2 [|]]]]; try discriminate H. repeat eexists.
Qed.

Definition order_len_ok (order : option (list nat)) : Prop :=
  match order with None => True | Some l => length l = 6 end.
Definition order_of (order : option (list nat)) : list nat :=
  match order with None => [0; 1; 2; 3; 4; 5] | Some l => l end.

Ltac unR := cbv [ROps zero one add mul sub opp div of_Z].

(* the translated function, as one explicit matrix of the six (re-ordered,
   possibly halved) components: this is where the translated index list
   [0,3,5,3,1,4,5,4,2] is consumed *)
Lemma a2m_explicit (a : vec R) eng order :
  order_len_ok order ->
  exists x0 x1 x2 x3 x4 x5,
    gather ROps a (order_of order) = [x0; x1; x2; x3; x4; x5] /\
    convert_array2symmetric_matrix ROps a eng order =
      if eng then [[x0; x3 / 2; x5 / 2]; [x3 / 2; x1; x4 / 2]; [x5 / 2; x4 / 2; x2]]%R
      else [[x0; x3; x5]; [x3; x1; x4]; [x5; x4; x2]].
Proof.
  intros Ho.
  assert (length (gather ROps a (order_of order)) = 6) as Hl.
  { rewrite gather_length. destruct order; [exact Ho|reflexivity]. }
  destruct (length6_inv _ Hl) as (x0 & x1 & x2 & x3 & x4 & x5 & E).
  exists x0, x1, x2, x3, x4, x5. split; [exact E|].
  unfold convert_array2symmetric_matrix.
  replace (match order with Some o_ => o_ | None => [0; 1; 2; 3; 4; 5] end) with (order_of order)
    by (destruct order; reflexivity).
  cbv zeta. rewrite E. destruct eng; reflexivity.
Qed.

(* m2a on an explicit matrix: consumes the translated list [0,4,8,1,5,2] *)
Lemma m2a_explicit (m00 m01 m02 m10 m11 m12 m20 m21 m22 : R) eng order :
  convert_symmetric_matrix2array ROps [[m00; m01; m02]; [m10; m11; m12]; [m20; m21; m22]] eng order =
  gather ROps (if eng then [m00; m11; m22; m01 * 2; m12 * 2; m02 * 2]%R
               else [m00; m11; m22; m01; m12; m02]) (order_of order).
Proof.
  unfold convert_symmetric_matrix2array.
  replace (match order with Some o_ => o_ | None => [0; 1; 2; 3; 4; 5] end) with (order_of order)
    by (destruct order; reflexivity).
  cbv zeta. destruct eng; reflexivity.
Qed.

(* ------------------------------------------------------------ theorems *)
(* a2m always returns a symmetric 3x3 matrix *)
Lemma a2m_symmetric (a : vec R) eng order :
  order_len_ok order ->
  let M := convert_array2symmetric_matrix ROps a eng order in
  length M = 3 /\ Forall (fun r => length r = 3) M /\
  forall i j, i < 3 -> j < 3 -> mget ROps M i j = mget ROps M j i.
Proof.
  intros Ho. destruct (a2m_explicit a eng order Ho) as (x0 & x1 & x2 & x3 & x4 & x5 & _ & E).
  cbv zeta. rewrite E.
  destruct eng; (split; [reflexivity|]; split; [repeat constructor|]);
    intros i j Hi Hj;
    (destruct i as [|[|[|i]]]; [| | |lia]);
    (destruct j as [|[|[|j]]]; [| | |lia]); reflexivity.
Qed.

(* entries of the matrix in terms of the caller's array: component order[k]
   of `a` lands on the diagonal (k<3) / the two mirrored off-diagonal places *)
Lemma a2m_entries (a : vec R) eng order :
  order_len_ok order ->
  let M := convert_array2symmetric_matrix ROps a eng order in
  let c k := vget ROps a (nth k (order_of order) 0) in
  let h x := if eng then (x / 2)%R else x in
  mget ROps M 0 0 = c 0 /\ mget ROps M 1 1 = c 1 /\ mget ROps M 2 2 = c 2 /\
  mget ROps M 0 1 = h (c 3) /\ mget ROps M 1 2 = h (c 4) /\ mget ROps M 0 2 = h (c 5).
Proof.
  intros Ho. destruct (a2m_explicit a eng order Ho) as (x0 & x1 & x2 & x3 & x4 & x5 & G & E).
  assert (length (order_of order) = 6) as Hl by (destruct order; [exact Ho|reflexivity]).
  cbv zeta. rewrite E.
  assert (forall k, k < 6 -> vget ROps a (nth k (order_of order) 0) =
                             vget ROps [x0; x1; x2; x3; x4; x5] k) as Hk.
  { intros k Hk. rewrite <- G. symmetry. apply vget_gather. lia. }
  rewrite !Hk by lia. destruct eng; repeat split; reflexivity.
Qed.

(* round trip: array -> matrix -> array with the inverse order is the identity,
   for EVERY permutation `order` and both engineering-shear settings *)
Lemma sym_roundtrip (a : vec R) (order : list nat) (eng : bool) :
  length a = 6 -> is_perm 6 order = true ->
  convert_symmetric_matrix2array ROps
    (convert_array2symmetric_matrix ROps a eng (Some order)) eng (Some (inv_perm 6 order)) = a.
Proof.
  intros Ha Hp. destruct (is_perm_spec _ _ Hp) as (Hlen & _ & _).
  destruct (a2m_explicit a eng (Some order) Hlen) as (x0 & x1 & x2 & x3 & x4 & x5 & G & E).
  rewrite E. simpl order_of in G.
  rewrite <- (gather_perm_inv ROps 6 a order Ha Hp). rewrite G.
  destruct eng; rewrite m2a_explicit; simpl order_of; [|reflexivity].
  f_equal. repeat (f_equal; try (unR; field)).
Qed.

(* default order on both sides *)
Lemma sym_roundtrip_default (a : vec R) (eng : bool) :
  length a = 6 ->
  convert_symmetric_matrix2array ROps
    (convert_array2symmetric_matrix ROps a eng None) eng None = a.
Proof.
  intros Ha. destruct (length6_inv _ Ha) as (x0 & x1 & x2 & x3 & x4 & x5 & ->).
  destruct eng; cbv -[Rplus Rminus Rmult Ropp Rdiv Rinv IZR]; [|reflexivity].
  repeat (f_equal; try field).
Qed.

(* the other composition: matrix -> array -> matrix, for symmetric matrices *)
Lemma sym_roundtrip_matrix (m00 m01 m02 m11 m12 m22 : R) (order : list nat) (eng : bool) :
  is_perm 6 order = true ->
  let M := [[m00; m01; m02]; [m01; m11; m12]; [m02; m12; m22]] in
  convert_array2symmetric_matrix ROps
    (convert_symmetric_matrix2array ROps M eng (Some order)) eng (Some (inv_perm 6 order)) = M.
Proof.
  intros Hp M. subst M. rewrite m2a_explicit. simpl order_of.
  pose proof (inv_perm_is_perm _ _ Hp) as Hq. destruct (is_perm_spec _ _ Hq) as (Hl & _ & _).
  destruct (a2m_explicit
              (gather ROps (if eng then [m00; m11; m22; m01 * 2; m12 * 2; m02 * 2]%R
                            else [m00; m11; m22; m01; m12; m02]) order)
              eng (Some (inv_perm 6 order)) Hl) as (x0 & x1 & x2 & x3 & x4 & x5 & G & E).
  rewrite E. simpl order_of in G.
  rewrite gather_perm_inv in G by (try exact Hp; destruct eng; reflexivity).
  destruct eng; inversion G; subst; [|reflexivity].
  repeat (f_equal; try (unR; field)).
Qed.

Lemma sym_roundtrip_matrix_default (m00 m01 m02 m11 m12 m22 : R) (eng : bool) :
  let M := [[m00; m01; m02]; [m01; m11; m12]; [m02; m12; m22]] in
  convert_array2symmetric_matrix ROps (convert_symmetric_matrix2array ROps M eng None) eng None = M.
Proof.
  destruct eng; cbv -[Rplus Rminus Rmult Ropp Rdiv Rinv IZR]; [|reflexivity].
  repeat (f_equal; try field).
Qed.
