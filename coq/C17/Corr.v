(* C17 — executable comparisons used by the correspondence check (run with
   vm_compute over Q on the inputs/outputs of the implementation). *)
From Coq Require Import List ZArith QArith Bool Arith.
Import ListNotations.
From FV.C17 Require Import Model AlignEntry AlignDtype.
From FV.C17.gen Require Import TensorIdx AlignCfg.

Fixpoint nat_list_eqb (a b : list nat) : bool :=
  match a, b with
  | [], [] => true
  | x :: a', y :: b' => Nat.eqb x y && nat_list_eqb a' b'
  | _, _ => false
  end.

(* a -> matrix (exact), matrix -> array with the inverse order (exact); the
   inverse order the harness computed with numpy.argsort equals inv_perm *)
Definition chk_sym (a : vec Q) (order : option (list nat)) (inv_impl : option (list nat))
           (eng : bool) (m : mat Q) (b : vec Q) : bool :=
  mat_eq (convert_array2symmetric_matrix QOps a eng order) m &&
  vec_eq (convert_symmetric_matrix2array QOps m eng (option_map (inv_perm 6) order)) b &&
  match order, inv_impl with
  | Some o, Some i => is_perm 6 o && nat_list_eqb (inv_perm 6 o) i
  | None, None => true
  | _, _ => false
  end.

(* the eigen-solver of the model = the decomposition LAPACK returned to femio,
   provided the model hands it exactly the matrix femio handed to LAPACK
   (otherwise an empty result, which makes every comparison below fail) *)
Definition ceigh (min_ : mat Q) (w : vec Q) (v : mat Q) : mat Q -> vec Q * mat Q :=
  fun M => if mat_eq M min_ then (w, v) else ([], []).

Definition chk_pc (tol : Q) (a : vec Q) (eng : bool) (order : option (list nat))
           (min_ : mat Q) (w : vec Q) (v : mat Q)
           (vals dirs vecs : vec Q) (mats : mat Q) (rebuilt : vec Q) : bool :=
  let '(mv, md, mvec) := calculate_principal_components QOps (ceigh min_ w v) a eng order in
  vec_eq mv vals && vec_eq (firstn 6 md) (firstn 6 dirs) &&
  vec_close tol (skipn 6 md) (skipn 6 dirs) && vec_close tol mvec vecs &&
  mat_close tol (calculate_symmetric_matrices_from_eigens QOps vals dirs) mats &&
  vec_close tol (calculate_array_from_eigens QOps vals dirs eng) rebuilt.

Definition chk_inv (tol : Q) (a : vec Q) (eng : bool) (min_ : mat Q) (w : vec Q) (v : mat Q)
           (b : vec Q) : bool :=
  vec_close tol (invert_strain QOps (ceigh min_ w v) a eng) b.

Definition chk_lte (tol : Q) (a : vec Q) (min_ : mat Q) (w : vec Q) (v : mat Q)
           (lte orient full : vec Q) : bool :=
  let '(l, o) := convert_lte_global2local QOps (ceigh min_ w v) a in
  vec_eq l lte && vec_eq o orient &&
  vec_close tol (convert_lte_local2global QOps lte orient) full.

(* inputs in storage order (any order, duplicates allowed); outputs as read
   back in canonical order; exact comparison *)
Definition chk_align (Ms outs : list (smatrix Q)) : bool :=
  match align_nnz QOps Ms with
  | Some As => all2 smat_eq As outs
  | None => false
  end.

Definition chk_l2g (tol : Q) (lte orient full : vec Q) : bool :=
  vec_close tol (convert_lte_local2global QOps lte orient) full.

(* align_nnz at the caller's level: the matrices as handed to femio (format, shape,
   stored (row, col, value) entries in storage order) against what femio returned
   (stored entries of each returned CSR matrix in storage order, its shape), or the
   exception it raised; the model computes the flat keys (translated expression),
   the .tocsr() of COO inputs and the union pattern itself; exact comparison *)
Definition ent_eq (A B : entries Q) : bool :=
  all2 (fun x y => pos_eqb (fst x) (fst y) && Qeq_bool (snd x) (snd y)) A B.
Definition fmt_eqb (a b : fmt) : bool :=
  match a, b with CSR, CSR => true | COO, COO => true | _, _ => false end.
Definition err_eqb (a b : err) : bool :=
  match a, b with EIndex, EIndex => true | EValue, EValue => true | _, _ => false end.
Definition spm_eq (A B : spm Q) : bool :=
  fmt_eqb (sp_fmt A) (sp_fmt B) && shape_eqb (sp_shape A) (sp_shape B) && ent_eq (sp_ent A) (sp_ent B).
Definition chk_align_entry (Ms : list (spm Q)) (impl : list (spm Q) + err) : bool :=
  match align_nnz_entry QOps Ms, impl with
  | inl As, inl outs => all2 spm_eq As outs
  | inr e, inr e' => err_eqb e e'
  | _, _ => false
  end.

(* the matrices femio returned are a fixed point of the model (C17_align_nnz_entry_idempotent
   evaluated on the implementation's own outputs) *)
Definition chk_align_idem (outs : list (spm Q)) : bool :=
  match align_nnz_entry QOps outs with
  | inl As => all2 spm_eq As outs
  | inr _ => false
  end.

(* dtype of the data of every returned matrix = the translated expression on the dtype of
   the corresponding input's data *)
Definition chk_align_dtype (ins outs : list dtype) : bool :=
  all2 (fun d o => dtype_eqb (result_dtype d) o) ins outs.
