(* C06 — legacy VTK export describes the same mesh.  Statements only.
   gen/VtkTables.v (type table, ELEMENT_TYPES order, tet2 index lists, rank
   bound) is regenerated from /repo on every run; Model.to_vtk is the hand
   model of FEMData.to_meshio checked against femio + meshio.read by the
   correspondence.  VTK's conventions (cell type names, quadratic-tetra edge
   order) and femio/FrontISTR's tet2 edge order are stated definitions (S) in
   Model.v. *)
From Coq Require Import String List ZArith Bool Arith Permutation.
Import ListNotations.
From FV.C06 Require Import Model Proofs Spec Refine.
From FV.C06.gen Require Import VtkTables.
Open Scope string_scope.

(* id -> storage position *)
Theorem C06_pos_correct :
  forall (P V : Type) (m : mesh P V) id,
    (forall k, pos id (node_ids m) = Some k -> exists p, nth_error (nodes m) k = Some (id, p)) /\
    (In id (node_ids m) -> exists k, pos id (node_ids m) = Some k) /\
    (nodupZ (node_ids m) = true ->
     forall k p, nth_error (nodes m) k = Some (id, p) -> pos id (node_ids m) = Some k).
Proof.
  intros P V m id. split; [|split].
  - intros k H. apply pos_sound in H. unfold node_ids in H. apply nth_error_map_fst. exact H.
  - apply pos_complete.
  - intros Hn k p H. apply pos_unique; [apply nodupZ_NoDup; exact Hn|].
    unfold node_ids. rewrite nth_error_map, H. reflexivity.
Qed.

(* points in storage order; for every element (eid, t, conn) of every block
   there is a cell, at the element's position within the block of VTK type
   `table t`, whose k-th point is the storage position of the node whose id is
   (vtk_perm t conn)[k] *)
Theorem C06_vtk_cells :
  forall (P V : Type) (m : mesh P V) pts cells pd,
    to_vtk m = Some (pts, cells, pd) ->
    nodupS (map fst (blocks m)) = true ->
    pts = map snd (nodes m) /\
    forall t els, In (t, els) (blocks m) -> In t element_types ->
      exists vt cs, lookup t femio_to_meshio = Some vt /\ In (vt, cs) cells /\
        length cs = length els /\
        forall i eid conn, nth_error els i = Some (eid, conn) ->
          exists c pc, nth_error cs i = Some c /\ vtk_perm t conn = Some pc /\
            length c = length pc /\
            forall k id, nth_error pc k = Some id ->
              exists q p, nth_error c k = Some q /\ nth_error (nodes m) q = Some (id, p) /\
                          nth_error pts q = Some p.
Proof. exact vtk_cells. Qed.

(* exactly one cell block per element block, in ELEMENT_TYPES order, with as many cells *)
Theorem C06_vtk_blocks :
  forall (P V : Type) (m : mesh P V) pts cells pd,
    to_vtk m = Some (pts, cells, pd) ->
    mapM (fun tb => lookup (fst tb) femio_to_meshio) (items (blocks m)) = Some (map fst cells) /\
    map (fun c => length (snd c)) cells = map (fun tb => length (snd tb)) (items (blocks m)).
Proof. exact vtk_blocks. Qed.

(* the export is defined on every well-formed mesh of the eight types *)
Theorem C06_export_total :
  forall (P V : Type) (m : mesh P V), wf m = true -> exists out, to_vtk m = Some out.
Proof. exact to_vtk_total. Qed.

Theorem C06_type_table_injective :
  nodupS (map fst femio_to_meshio) = true /\ nodupS (map snd femio_to_meshio) = true.
Proof. exact type_table_injective. Qed.

Theorem C06_type_table_matches_vtk :
  forallb (fun tv => match lookup (fst tv) femio_to_meshio with
                     | Some x => String.eqb x (snd tv) | None => false end) vtk_name = true /\
  forallb (fun ta => mem (fst ta) element_types) arity = true /\ nodupS element_types = true.
Proof. split; [exact type_table_matches_vtk|exact supported_types_are_ordered]. Qed.

Theorem C06_tet2_perms_inverse :
  forall (A : Type) (c : list A), length c = 10%nat ->
    (exists d, take tet2_to_meshio c = Some d /\ take tet2_from_meshio d = Some c) /\
    (exists d, take tet2_from_meshio c = Some d /\ take tet2_to_meshio d = Some c).
Proof. exact @tet2_perms_inverse. Qed.

Theorem C06_tet2_perm_matches_vtk_edges :
  (export_permuted_types = ["tet2"] /\ import_permuted_types = ["tetra10"] /\
   lookup "tet2" femio_to_meshio = Some "tetra10") /\
  length tet2_to_meshio = 10%nat /\
  forallb (fun p => Nat.eqb (nth p tet2_to_meshio 99) p) [0; 1; 2; 3]%nat = true /\
  forallb (fun e =>
             let k := nth (4 + e) tet2_to_meshio 99 in
             Nat.leb 4 k && Nat.ltb k 10 &&
             same_edge (nth (k - 4) femio_tet2_edges (9, 9)%nat) (nth e vtk_tet10_edges (8, 8)%nat))
          [0; 1; 2; 3; 4; 5]%nat = true.
Proof. split; [exact tet2_perm_only_tet2|exact tet2_perm_matches_vtk_edges]. Qed.

(* every nodal variable of rank <= 2 is point data, and nothing else is *)
Theorem C06_point_data_complete :
  forall (P V : Type) (m : mesh P V) pts cells pd,
    to_vtk m = Some (pts, cells, pd) ->
    (forall v, In v (nodal m) -> (v_rank v <= 2)%nat ->
       exists rows, In (v_name v, rows) pd /\
         (point_data_by_id = false -> rows = v_rows v) /\
         (point_data_by_id = true ->
            forall k id p, nth_error (nodes m) k = Some (id, p) ->
              exists row, nth_error rows k = Some row /\ var_value v id = Some row)) /\
    (forall name rows, In (name, rows) pd ->
       exists v, In v (nodal m) /\ v_name v = name /\ (v_rank v <= 2)%nat /\
                 (point_data_by_id = false -> rows = v_rows v)).
Proof. exact point_data_complete. Qed.

(* FULL STATEMENT: point k carries the value the variable holds for the node
   stored at k, whatever the variable's own id order.  `point_data_by_id` is
   translated from the tree under test (does FEMData.to_meshio hand the node ids
   to FEMAttributes.to_meshio or not):
     - by id      : the full statement holds  (C06_point_data_by_node), provided the rows are the
                    variable's CURRENT values (`point_data_current_values`, also translated: an
                    export through attribute.loc[...] reads the pandas frame, which in-place
                    edits of attribute.data leave stale - then Model.to_vtk, a function of the
                    current values, is not what the code computes after such an edit and the
                    history stream of the correspondence reports it);
     - positional : it holds only for variables stored in the nodes' order
                    (C06_point_data_by_node_partial) and is refuted otherwise
                    (C06_point_data_by_node_refuted, replayed on femio). *)
Theorem C06_point_data_by_node :
  point_data_by_id = true -> point_data_current_values = true ->
  forall (P V : Type) (m : mesh P V) pts cells pd, to_vtk m = Some (pts, cells, pd) ->
  forall v, In v (nodal m) -> (v_rank v <= 2)%nat ->
    exists rows, In (v_name v, rows) pd /\
      forall k id p, nth_error (nodes m) k = Some (id, p) ->
        exists row, nth_error rows k = Some row /\ var_value v id = Some row.
Proof.
  intros Hb _ P V m pts cells pd H v Hv Hr.
  destruct (proj1 (point_data_complete P V m pts cells pd H) v Hv Hr) as (rows & Hin & _ & Hid).
  exists rows. split; [exact Hin|exact (Hid Hb)].
Qed.

Theorem C06_point_data_by_node_partial :
  forall (P V : Type) (m : mesh P V) (v : variable V) k id p,
    NoDup (node_ids m) -> v_ids v = node_ids m ->
    nth_error (nodes m) k = Some (id, p) ->
    nth_error (v_rows v) k = var_value v id.
Proof. exact point_data_aligned. Qed.

Definition witness : mesh nat Z :=
  mkmesh [(10%Z, 0%nat); (3%Z, 1%nat)] [("line", [(1%Z, [10%Z; 3%Z])])]
         [mkvar "t" 2 [3%Z; 10%Z] [[3%Z]; [10%Z]]].

Theorem C06_point_data_by_node_refuted :
  point_data_by_id = false ->
  exists (m : mesh nat Z) v k id p,
    wf m = true /\ In v (nodal m) /\ (v_rank v <= 2)%nat /\
    (forall i, In i (v_ids v) <-> In i (node_ids m)) /\ nodupZ (v_ids v) = true /\
    nth_error (nodes m) k = Some (id, p) /\
    (exists pts cells pd rows, to_vtk m = Some (pts, cells, pd) /\ In (v_name v, rows) pd /\
       nth_error rows k <> var_value v id).
Proof.
  intros Hb.
  exists witness, (mkvar "t" 2 [3%Z; 10%Z] [[3%Z]; [10%Z]]), 0%nat, 10%Z, 0%nat.
  split; [vm_compute; reflexivity|]. split; [left; reflexivity|]. split; [simpl; auto|].
  split; [intros i; simpl; tauto|]. split; [reflexivity|]. split; [reflexivity|].
  eexists _, _, _, [[3%Z]; [10%Z]].
  split; [unfold to_vtk, to_point_data; rewrite Hb; vm_compute; reflexivity|].
  split; [left; reflexivity|]. vm_compute. discriminate.
Qed.

(* non-vacuity: a mixed mesh with unsorted, non-contiguous ids is well formed *)
Example C06_wf_example :
  wf (mkmesh (P := Z) (V := Z)
        [(10, 0); (3, 1); (77, 2); (5, 3); (42, 4); (8, 5); (100, 6); (2, 7); (9, 8); (61, 9)]%Z
        [("tet2", [(5, [10; 3; 77; 5; 42; 8; 100; 2; 9; 61])]); ("line", [(30, [9; 61])]);
         ("hex", [(11, [10; 3; 77; 5; 42; 8; 100; 2])])]%Z []) = true.
Proof. vm_compute. reflexivity. Qed.

(* ------------------------------------------------------------------ round 5: refinement *)
(* REFINEMENT.  Spec.spec_cells is the abstract statement of the export: per element block (in
   ELEMENT_TYPES order) the VTK type name and per element the COORDINATES of the nodes it names
   (looked up by node id in the mesh as a finite map), in VTK node order - no storage position
   occurs in it.  What a reader obtains by resolving every cell corner through the file's own
   point list (Spec.decode_cells) is exactly that, for every mesh on which the export succeeds. *)
Theorem C06_cells_refine_spec :
  forall (P V : Type) (m : mesh P V) pts cells pd,
    to_vtk m = Some (pts, cells, pd) -> spec_cells m = Some (decode_cells pts cells).
Proof. exact cells_refine. Qed.

(* every corner of every exported cell indexes an existing point *)
Theorem C06_cells_in_range :
  forall (P V : Type) (m : mesh P V) pts cells pd,
    to_vtk m = Some (pts, cells, pd) ->
    forall vt cs c q, In (vt, cs) cells -> In c cs -> In q c -> (q < length pts)%nat.
Proof. exact cells_in_range. Qed.

(* the storage order of the nodes is irrelevant to the mesh the file describes: two meshes with
   the same elements whose node tables are permutations of one another (distinct ids) export
   cells that resolve to the same coordinates, block by block, element by element, corner by
   corner *)
Theorem C06_storage_order_irrelevant :
  forall (P V : Type) (m m' : mesh P V) pts cells pd pts' cells' pd',
    Permutation (nodes m) (nodes m') -> NoDup (node_ids m) -> blocks m = blocks m' ->
    to_vtk m = Some (pts, cells, pd) -> to_vtk m' = Some (pts', cells', pd') ->
    decode_cells pts cells = decode_cells pts' cells'.
Proof. exact storage_order_irrelevant. Qed.

(* REFINEMENT of the point data (by-id export): the (point, row) pairs of a variable are, node by
   node, the node's coordinates with the value the variable holds for that node's id *)
Theorem C06_point_data_refines_spec :
  forall (P V : Type) (m : mesh P V) pts cells pd,
    point_data_by_id = true -> point_data_current_values = true ->
    to_vtk m = Some (pts, cells, pd) ->
    forall v, In v (nodal m) -> (v_rank v <= 2)%nat ->
      exists rows, In (v_name v, rows) pd /\ length rows = length pts /\
        map (fun pr => (fst pr, Some (snd pr))) (decode_rows pts rows) = spec_rows (nodes m) v.
Proof. intros P V m pts cells pd Hb _. exact (point_data_refines P V m pts cells pd Hb). Qed.

(* ... hence independent of the storage order of the nodes and of the variable's own id order *)
Theorem C06_point_data_order_irrelevant :
  forall (P V : Type) (m m' : mesh P V) pts cells pd pts' cells' pd',
    point_data_by_id = true -> point_data_current_values = true ->
    Permutation (nodes m) (nodes m') -> nodal m = nodal m' ->
    to_vtk m = Some (pts, cells, pd) -> to_vtk m' = Some (pts', cells', pd') ->
    forall v, In v (nodal m) -> (v_rank v <= 2)%nat ->
      exists rows rows', In (v_name v, rows) pd /\ In (v_name v, rows') pd' /\
        Permutation (decode_rows pts rows) (decode_rows pts' rows').
Proof.
  intros P V m m' pts cells pd pts' cells' pd' Hb _.
  exact (point_data_order_irrelevant P V m m' pts cells pd pts' cells' pd' Hb).
Qed.

(* non-vacuity: a mixed mesh (tet2 + line, unsorted sparse ids, a variable stored in another id
   order) exports; its decoded cells are the expected coordinates; the same mesh with the node
   table stored in another order exports different indices but the same decoded cells *)
Definition ex_nodes : list (Z * Z) :=
  [(10, 100); (3, 30); (77, 770); (5, 50); (42, 420); (8, 80); (100, 1000); (2, 20); (9, 90); (61, 610)]%Z.
Definition ex_mesh (ns : list (Z * Z)) : mesh Z Z :=
  mkmesh ns [("tet2", [(5, [10; 3; 77; 5; 42; 8; 100; 2; 9; 61])]); ("line", [(30, [9; 61])])]%Z
         [mkvar "t" 2 (rev (map fst ex_nodes)) (map (fun n => [fst n]) (rev ex_nodes))].
Example C06_refine_example :
  wf (ex_mesh ex_nodes) = true /\ wf (ex_mesh (rev ex_nodes)) = true /\
  (exists pts cells pd pts' cells' pd',
     to_vtk (ex_mesh ex_nodes) = Some (pts, cells, pd) /\
     to_vtk (ex_mesh (rev ex_nodes)) = Some (pts', cells', pd') /\
     cells <> cells' /\
     decode_cells pts cells = decode_cells pts' cells' /\
     decode_cells pts cells =
       [("line", [[Some 90; Some 610]]);
        ("tetra10", [[Some 100; Some 30; Some 770; Some 50; Some 1000; Some 420; Some 80;
                      Some 20; Some 90; Some 610]])]%Z /\
     In ("t", map (fun n => [fst n]) ex_nodes) pd /\
     In ("t", map (fun n => [fst n]) (rev ex_nodes)) pd').
Proof.
  split; [vm_compute; reflexivity|]. split; [vm_compute; reflexivity|].
  do 6 eexists. split; [vm_compute; reflexivity|]. split; [vm_compute; reflexivity|].
  split; [vm_compute; discriminate|]. split; [vm_compute; reflexivity|].
  split; [vm_compute; reflexivity|]. split; vm_compute; left; reflexivity.
Qed.
