(* C06 — the reader's view of the exported file and the abstract specification of the
   export (a finite map  node id -> coordinates,  no storage positions).  Definitions only. *)
From Coq Require Import String List ZArith Bool Arith.
Import ListNotations.
From FV.C06 Require Import Model.
From FV.C06.gen Require Import VtkTables.
Open Scope string_scope.

(* what a reader of the file sees of the cells: every corner resolved to the point it indexes
   (None = the index is outside the point list) *)
Definition decode_cells {P} (pts : list P) (cells : list (string * list (list nat)))
  : list (string * list (list (option P))) :=
  map (fun b => (fst b, map (map (nth_error pts)) (snd b))) cells.

(* the mesh as a finite map: coordinates of the node with a given id *)
Fixpoint coord_of {P} (id : Z) (ns : list (Z * P)) : option P :=
  match ns with
  | [] => None
  | (j, p) :: r => if Z.eqb id j then Some p else coord_of id r
  end.

(* SPECIFICATION of the cells of the export: for every element block (ELEMENT_TYPES order) the
   VTK type name and, per element, the coordinates of the nodes it names, in VTK node order *)
Definition spec_block {P} (ns : list (Z * P)) (tb : string * list (Z * list Z))
  : option (string * list (list (option P))) :=
  match lookup (fst tb) femio_to_meshio with
  | None => None
  | Some vt =>
      match mapM (fun e => vtk_perm (fst tb) (snd e)) (snd tb) with
      | None => None
      | Some pcs => Some (vt, map (map (fun id => coord_of id ns)) pcs)
      end
  end.
Definition spec_cells {P V} (m : mesh P V) : option (list (string * list (list (option P)))) :=
  mapM (spec_block (nodes m)) (items (blocks m)).

(* what a reader sees of one point-data array: (point, row) pairs *)
Definition decode_rows {P V} (pts : list P) (rows : list (list V)) : list (P * list V) :=
  combine pts rows.
(* SPECIFICATION of one exported variable: for every node (any order) its coordinates with the
   value the variable holds for that node's id *)
Definition spec_rows {P V} (ns : list (Z * P)) (v : variable V) : list (P * option (list V)) :=
  map (fun n => (snd n, var_value v (fst n))) ns.
