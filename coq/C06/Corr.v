(* C06 — executable comparison of Model.to_vtk with what meshio read back. *)
From Coq Require Import String List ZArith QArith Bool Arith.
Import ListNotations.
From FV.C06 Require Import Model.
From FV.C06.gen Require Import VtkTables.
Open Scope string_scope.

Fixpoint all2 {A B} (f : A -> B -> bool) (a : list A) (b : list B) : bool :=
  match a, b with
  | [], [] => true
  | x :: a', y :: b' => f x y && all2 f a' b'
  | _, _ => false
  end.
Definition qrow_eq (a b : list Q) : bool := all2 Qeq_bool a b.
(* meshio's VTK writer squeezes (n,1) to (n,) and pads 2-vectors with a zero
   third component; everything else is written as given *)
Definition row_agree (model impl : list Q) : bool :=
  qrow_eq model impl || (Nat.eqb (length model) 2 && qrow_eq (model ++ [0%Q]) impl).
Definition cell_eq (a b : list nat) : bool := all2 Nat.eqb a b.
Definition block_eq (a b : string * list (list nat)) : bool :=
  String.eqb (fst a) (fst b) && all2 cell_eq (snd a) (snd b).
Definition pd_agree (model impl : list (string * list (list Q))) : bool :=
  Nat.eqb (length model) (length impl) &&
  forallb (fun nm => match lookup (fst nm) impl with
                     | Some rows => all2 row_agree (snd nm) rows
                     | None => false
                     end) model.
Definition chk_vtk (m : mesh (list Q) Q) (pts : list (list Q))
           (cells : list (string * list (list nat))) (pd : list (string * list (list Q))) : bool :=
  match to_vtk m with
  | None => false
  | Some (p, c, d) => all2 qrow_eq p pts && all2 block_eq c cells && pd_agree d pd
  end.
Definition chk_raises (m : mesh (list Q) Q) : bool :=
  match to_vtk m with None => true | Some _ => false end.

(* translator validation: the generated tables, evaluated here, against what the Python objects
   of the tree under test are at run time (config dict, ELEMENT_TYPES, the per-type node
   re-ordering of _to_meshio / _from_meshio on an index row, which ranks reach the point data) *)
Definition zrow_eq (a b : list Z) : bool := all2 Z.eqb a b.
Definition chk_tables (tbl : list (string * string)) (ets : list string)
           (exp imp : list (string * list Z * list Z)) (ranks : list (nat * bool)) : bool :=
  all2 (fun a b => String.eqb (fst a) (fst b) && String.eqb (snd a) (snd b)) femio_to_meshio tbl &&
  all2 String.eqb element_types ets &&
  forallb (fun x => match vtk_perm (fst (fst x)) (snd (fst x)) with
                    | Some d => zrow_eq d (snd x) | None => false end) exp &&
  forallb (fun x => match femio_perm (fst (fst x)) (snd (fst x)) with
                    | Some d => zrow_eq d (snd x) | None => false end) imp &&
  forallb (fun rb => Bool.eqb (Nat.ltb (fst rb) point_data_rank_bound) (snd rb)) ranks.
