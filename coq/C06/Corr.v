(* C06 — executable comparison of Model.to_vtk with what meshio read back. *)
From Coq Require Import String List ZArith QArith Bool Arith.
Import ListNotations.
From FV.C06 Require Import Model.
Open Scope string_scope.

Fixpoint all2 {A B} (f : A -> B -> bool) (a : list A) (b : list B) : bool :=
  match a, b with
  | [], [] => true
  | x :: a', y :: b' => f x y && all2 f a' b'
  | _, _ => false
  end.
Definition qrow_eq (a b : list Q) : bool := all2 Qeq_bool a b.
(* meshio's VTK writer squeezes (n,1) to (n,) and pads 2-vectors with a zero
   third component; everything else is written as given *)
Definition row_agree (model impl : list Q) : bool :=
  qrow_eq model impl || (Nat.eqb (length model) 2 && qrow_eq (model ++ [0%Q]) impl).
Definition cell_eq (a b : list nat) : bool := all2 Nat.eqb a b.
Definition block_eq (a b : string * list (list nat)) : bool :=
  String.eqb (fst a) (fst b) && all2 cell_eq (snd a) (snd b).
Definition pd_agree (model impl : list (string * list (list Q))) : bool :=
  Nat.eqb (length model) (length impl) &&
  forallb (fun nm => match lookup (fst nm) impl with
                     | Some rows => all2 row_agree (snd nm) rows
                     | None => false
                     end) model.
Definition chk_vtk (m : mesh (list Q) Q) (pts : list (list Q))
           (cells : list (string * list (list nat))) (pd : list (string * list (list Q))) : bool :=
  match to_vtk m with
  | None => false
  | Some (p, c, d) => all2 qrow_eq p pts && all2 block_eq c cells && pd_agree d pd
  end.
Definition chk_raises (m : mesh (list Q) Q) : bool :=
  match to_vtk m with None => true | Some _ => false end.
