(* C06 — proofs about the VTK export model. *)
From Coq Require Import String List ZArith Bool Arith Lia.
Import ListNotations.
From FV.C06 Require Import Model.
From FV.C06.gen Require Import VtkTables.
Open Scope string_scope.

(* ------------------------------------------------------------------ mapM *)
Lemma mapM_nth {A B} (f : A -> option B) l ys :
  mapM f l = Some ys ->
  length ys = length l /\
  forall i x, nth_error l i = Some x -> exists y, nth_error ys i = Some y /\ f x = Some y.
Proof.
  revert ys. induction l as [|a l IH]; simpl; intros ys H.
  - inversion H; subst. split; [reflexivity|]. intros [|i] x Hx; discriminate.
  - destruct (f a) as [y|] eqn:Ea; [|discriminate].
    destruct (mapM f l) as [ys'|] eqn:El; [|discriminate].
    inversion H; subst. destruct (IH ys' eq_refl) as [L N]. split; [simpl; lia|].
    intros [|i] x Hx; simpl in *.
    + inversion Hx; subst. exists y. split; [reflexivity|exact Ea].
    + apply N. exact Hx.
Qed.

Lemma mapM_total {A B} (f : A -> option B) l :
  (forall x, In x l -> exists y, f x = Some y) -> exists ys, mapM f l = Some ys.
Proof.
  induction l as [|a l IH]; simpl; intros H; [eexists; reflexivity|].
  destruct (H a (or_introl eq_refl)) as [y Ey]. rewrite Ey.
  destruct IH as [ys Eys]; [intros x Hx; apply H; right; exact Hx|].
  rewrite Eys. eexists; reflexivity.
Qed.

(* ------------------------------------------------------------------- pos *)
Lemma pos_sound i ids k : pos i ids = Some k -> nth_error ids k = Some i.
Proof.
  revert k. induction ids as [|j r IH]; simpl; intros k H; [discriminate|].
  destruct (Z.eqb i j) eqn:E.
  - inversion H; subst. apply Z.eqb_eq in E. subst. reflexivity.
  - destruct (pos i r) as [k'|]; [|discriminate]. inversion H; subst. simpl. apply IH. reflexivity.
Qed.

Lemma pos_first i ids k : pos i ids = Some k -> forall k', (k' < k)%nat -> nth_error ids k' <> Some i.
Proof.
  revert k. induction ids as [|j r IH]; simpl; intros k H; [discriminate|].
  destruct (Z.eqb i j) eqn:E.
  - inversion H; subst. intros k' Hk. lia.
  - destruct (pos i r) as [k0|] eqn:Ep; [|discriminate]. inversion H; subst.
    intros [|k'] Hk; simpl.
    + intros X. inversion X; subst. rewrite Z.eqb_refl in E. discriminate.
    + apply (IH k0 eq_refl). lia.
Qed.

Lemma pos_complete i ids : In i ids -> exists k, pos i ids = Some k.
Proof.
  induction ids as [|j r IH]; simpl; intros H; [contradiction|].
  destruct (Z.eqb i j) eqn:E; [eexists; reflexivity|].
  destruct H as [H|H]; [subst; rewrite Z.eqb_refl in E; discriminate|].
  destruct (IH H) as [k Ek]. rewrite Ek. eexists; reflexivity.
Qed.

Lemma nodupZ_NoDup l : nodupZ l = true -> NoDup l.
Proof.
  induction l as [|x r IH]; simpl; intros H; [constructor|].
  apply andb_true_iff in H. destruct H as [H1 H2]. constructor; [|apply IH; exact H2].
  intros Hin. apply negb_true_iff in H1.
  assert (existsb (Z.eqb x) r = true) as E.
  { apply existsb_exists. exists x. split; [exact Hin|apply Z.eqb_refl]. }
  congruence.
Qed.

(* with distinct ids the position is THE position of the id *)
Lemma pos_unique ids k i : NoDup ids -> nth_error ids k = Some i -> pos i ids = Some k.
Proof.
  revert k. induction ids as [|j r IH]; intros k Hnd H; [destruct k; discriminate|].
  inversion Hnd as [|? ? Hnotin Hnd']; subst. simpl.
  destruct k as [|k]; simpl in H.
  - inversion H; subst. rewrite Z.eqb_refl. reflexivity.
  - destruct (Z.eqb i j) eqn:E.
    + apply Z.eqb_eq in E. subst. exfalso. apply Hnotin. eapply nth_error_In. exact H.
    + rewrite (IH k Hnd' H). reflexivity.
Qed.

Lemma nth_error_map_fst {A B} (l : list (A * B)) k a :
  nth_error (map fst l) k = Some a -> exists b, nth_error l k = Some (a, b).
Proof.
  revert k. induction l as [|[x y] l IH]; intros [|k] H; simpl in *; try discriminate.
  - inversion H; subst. eexists; reflexivity.
  - apply IH. exact H.
Qed.

(* ---------------------------------------------------------------- lookup *)
Lemma lookup_In {B} k (t : list (string * B)) v : lookup k t = Some v -> In (k, v) t.
Proof.
  induction t as [|[k' v'] r IH]; simpl; intros H; [discriminate|].
  destruct (String.eqb k k') eqn:E.
  - apply String.eqb_eq in E. inversion H; subst. left. reflexivity.
  - right. apply IH. exact H.
Qed.

Lemma nodupS_lookup {B} k v (t : list (string * B)) :
  nodupS (map fst t) = true -> In (k, v) t -> lookup k t = Some v.
Proof.
  induction t as [|[k' v'] r IH]; simpl; intros Hn H; [contradiction|].
  apply andb_true_iff in Hn. destruct Hn as [Hn1 Hn2].
  destruct H as [H|H].
  - inversion H; subst. rewrite String.eqb_refl. reflexivity.
  - destruct (String.eqb k k') eqn:E; [|apply IH; assumption].
    apply String.eqb_eq in E. subst. exfalso.
    apply negb_true_iff in Hn1. unfold mem in Hn1.
    assert (existsb (String.eqb k') (map fst r) = true) as X.
    { apply existsb_exists. exists k'. split; [|apply String.eqb_refl].
      apply in_map_iff. exists (k', v). split; [reflexivity|exact H]. }
    congruence.
Qed.

(* ------------------------------------------------------------------ items *)
Lemma items_In bs t els : In (t, els) (items bs) <-> In t element_types /\ lookup t bs = Some els.
Proof.
  unfold items. rewrite in_flat_map. split.
  - intros (t' & Ht & H). destruct (lookup t' bs) as [e|] eqn:E; [|contradiction].
    simpl in H. destruct H as [H|[]]. inversion H; subst. split; assumption.
  - intros (Ht & H). exists t. split; [exact Ht|]. rewrite H. left. reflexivity.
Qed.

Section Cells.
  Variables P V : Type.
  Implicit Types m : mesh P V.

  (* every connectivity entry of the exported cell is the storage position of
     the node whose id the (re-ordered) element lists at that place *)
  Lemma cell_of_spec m t conn c :
    cell_of (node_ids m) t conn = Some c ->
    exists pc, vtk_perm t conn = Some pc /\ length c = length pc /\
      forall k id, nth_error pc k = Some id ->
        exists q p, nth_error c k = Some q /\ nth_error (nodes m) q = Some (id, p) /\
                    (forall q', (q' < q)%nat -> forall p', nth_error (nodes m) q' <> Some (id, p')).
  Proof.
    unfold cell_of. destruct (vtk_perm t conn) as [pc|]; [|discriminate]. intros H.
    exists pc. split; [reflexivity|]. destruct (mapM_nth _ _ _ H) as [L N]. split; [exact L|].
    intros k id Hk. destruct (N k id Hk) as (q & Hq & Hp). exists q.
    pose proof (pos_sound _ _ _ Hp) as Hs. unfold node_ids in Hs.
    destruct (nth_error_map_fst _ _ _ Hs) as [p Hnp]. exists p. split; [exact Hq|]. split; [exact Hnp|].
    intros q' Hlt p' X. apply (pos_first _ _ _ Hp q' Hlt). unfold node_ids.
    rewrite nth_error_map, X. reflexivity.
  Qed.

  Lemma vtk_cells m pts cells pd :
    to_vtk m = Some (pts, cells, pd) ->
    nodupS (map fst (blocks m)) = true ->
    pts = map snd (nodes m) /\
    forall t els, In (t, els) (blocks m) -> In t element_types ->
      exists vt cs, lookup t femio_to_meshio = Some vt /\ In (vt, cs) cells /\
        length cs = length els /\
        forall i eid conn, nth_error els i = Some (eid, conn) ->
          exists c pc, nth_error cs i = Some c /\ vtk_perm t conn = Some pc /\
            length c = length pc /\
            forall k id, nth_error pc k = Some id ->
              exists q p, nth_error c k = Some q /\ nth_error (nodes m) q = Some (id, p) /\
                          nth_error pts q = Some p.
  Proof.
    unfold to_vtk. destruct (to_cells m) as [cs0|] eqn:Ec; [|discriminate].
    destruct (to_point_data m) as [pd0|]; [|discriminate].
    intros H Hnd. inversion H; subst. split; [reflexivity|].
    intros t els Hin Ht.
    assert (In (t, els) (items (blocks m))) as Hit.
    { apply items_In. split; [exact Ht|]. apply nodupS_lookup; assumption. }
    unfold to_cells in Ec. destruct (mapM_nth _ _ _ Ec) as [_ N].
    destruct (In_nth_error _ _ Hit) as [n Hn].
    destruct (N n _ Hn) as (y & Hy & Hb). unfold block_cells in Hb. cbn [fst snd] in Hb.
    destruct (lookup t femio_to_meshio) as [vt|]; [|discriminate].
    destruct (mapM (fun e => cell_of (node_ids m) t (snd e)) els) as [cs|] eqn:Em; [|discriminate].
    inversion Hb; subst. exists vt, cs. split; [reflexivity|].
    split; [eapply nth_error_In; exact Hy|].
    destruct (mapM_nth _ _ _ Em) as [L N2]. split; [exact L|].
    intros i eid conn Hi. destruct (N2 i _ Hi) as (c & Hc & Hcell). simpl in Hcell.
    destruct (cell_of_spec m t conn c Hcell) as (pc & Hpc & Hl & Hk).
    exists c, pc. split; [exact Hc|]. split; [exact Hpc|]. split; [exact Hl|].
    intros k id Hid. destruct (Hk k id Hid) as (q & p & A & B & _).
    exists q, p. split; [exact A|]. split; [exact B|].
    rewrite nth_error_map, B. reflexivity.
  Qed.

  (* one cell block per element block, in ELEMENT_TYPES order, nothing else *)
  Lemma vtk_blocks m pts cells pd :
    to_vtk m = Some (pts, cells, pd) ->
    mapM (fun tb => lookup (fst tb) femio_to_meshio) (items (blocks m)) = Some (map fst cells) /\
    map (fun c => length (snd c)) cells = map (fun tb => length (snd tb)) (items (blocks m)).
  Proof.
    unfold to_vtk. destruct (to_cells m) as [cs0|] eqn:Ec; [|discriminate].
    destruct (to_point_data m) as [pd0|]; [|discriminate].
    intros H. inversion H; subst. clear H. unfold to_cells in Ec.
    revert cells Ec. generalize (items (blocks m)) as its.
    induction its as [|tb its IH]; intros cells Ec.
    - inversion Ec; subst. split; reflexivity.
    - cbn [mapM] in Ec. unfold block_cells at 1 in Ec. cbn [mapM map].
      destruct (lookup (fst tb) femio_to_meshio) as [vt|]; [|discriminate].
      destruct (mapM (fun e => cell_of (node_ids m) (fst tb) (snd e)) (snd tb)) as [cs|] eqn:Em;
        [|discriminate].
      destruct (mapM (block_cells (node_ids m)) its) as [rest|] eqn:Er; [|discriminate].
      inversion Ec; subst. destruct (IH rest eq_refl) as [A B]. cbn [map fst snd]. rewrite A.
      split; [reflexivity|]. f_equal; [|exact B]. apply (mapM_nth _ _ _ Em).
  Qed.

  (* the export succeeds on every well-formed mesh *)
  Lemma to_vtk_total m : wf m = true -> exists out, to_vtk m = Some out.
  Proof.
    unfold wf. intros H. apply andb_true_iff in H. destruct H as [H Hv].
    apply andb_true_iff in H. destruct H as [H Hb].
    apply andb_true_iff in H. destruct H as [Hn Hs].
    unfold to_vtk.
    assert (exists pd, to_point_data m = Some pd) as [pd Epd].
    { unfold to_point_data. apply mapM_total. intros v Hin. apply filter_In in Hin.
      destruct Hin as [Hin _]. destruct point_data_by_id; [|eexists; reflexivity].
      rewrite forallb_forall in Hv. specialize (Hv v Hin). apply andb_true_iff in Hv.
      destruct Hv as [Hl Hc]. apply Nat.eqb_eq in Hl.
      assert (exists rows, mapM (var_value v) (node_ids m) = Some rows) as [rows Er];
        [|rewrite Er; eexists; reflexivity].
      apply mapM_total. intros i Hi. rewrite forallb_forall in Hc. specialize (Hc i Hi).
      apply existsb_exists in Hc. destruct Hc as (j & Hj & Eij). apply Z.eqb_eq in Eij. subst j.
      destruct (pos_complete _ _ Hj) as [k Ek]. unfold var_value. rewrite Ek.
      apply pos_sound in Ek.
      assert (k < length (v_rows v))%nat as Hk.
      { rewrite Hl. apply nth_error_Some. congruence. }
      apply nth_error_Some in Hk. destruct (nth_error (v_rows v) k); [eexists; reflexivity|congruence]. }
    rewrite Epd.
    assert (exists cs, to_cells m = Some cs) as [cs E]; [|rewrite E; eexists; reflexivity].
    unfold to_cells. apply mapM_total. intros [t els] Hin.
    apply items_In in Hin. destruct Hin as [Ht Hl]. apply lookup_In in Hl.
    rewrite forallb_forall in Hb. specialize (Hb _ Hl). cbn [fst snd] in Hb.
    destruct (lookup t arity) as [n|] eqn:Ea; [|discriminate].
    assert (exists vt, lookup t femio_to_meshio = Some vt) as [vt Evt].
    { apply lookup_In in Ea. simpl in Ea.
      repeat (destruct Ea as [Ea|Ea]; [inversion Ea; subst; eexists; reflexivity|]). contradiction. }
    unfold block_cells. cbn [fst snd]. rewrite Evt.
    assert (exists cs, mapM (fun e => cell_of (node_ids m) t (snd e)) els = Some cs) as [cs Ecs];
      [|rewrite Ecs; eexists; reflexivity].
    apply mapM_total. intros [eid conn] He. rewrite forallb_forall in Hb. specialize (Hb _ He).
    simpl in Hb. apply andb_true_iff in Hb. destruct Hb as [Hlen Hids]. simpl.
    unfold cell_of.
    assert (exists pc, vtk_perm t conn = Some pc /\ forall i, In i pc -> In i conn) as (pc & Epc & Hsub).
    { unfold vtk_perm. destruct (mem t export_permuted_types) eqn:Em.
      - apply Nat.eqb_eq in Hlen.
        assert (t = "tet2") as ->.
        { apply lookup_In in Ea. simpl in Ea.
          repeat (destruct Ea as [Ea|Ea];
                  [inversion Ea; subst; try reflexivity; vm_compute in Em; discriminate Em|]).
          contradiction. }
        assert (n = 10%nat) as Hn10 by (vm_compute in Ea; congruence). rewrite Hn10 in Hlen.
        destruct conn as [|c0 [|c1 [|c2 [|c3 [|c4 [|c5 [|c6 [|c7 [|c8 [|c9 [|]]]]]]]]]]];
          try discriminate Hlen.
        eexists. split; [vm_compute; reflexivity|].
        intros i Hi. simpl in Hi. simpl. tauto.
      - exists conn. split; [reflexivity|tauto]. }
    rewrite Epc. apply mapM_total. intros i Hi. apply pos_complete.
    rewrite forallb_forall in Hids. specialize (Hids i (Hsub i Hi)).
    apply existsb_exists in Hids. destruct Hids as (j & Hj & Eij). apply Z.eqb_eq in Eij. subst. exact Hj.
  Qed.

  (* ----------------------------------------------------------- point data *)
  (* every nodal variable of rank <= 2 is point data and nothing else is; its
     rows are the stored rows (positional export) or the values looked up by
     node id (by-id export) *)
  Lemma point_data_complete m pts cells pd :
    to_vtk m = Some (pts, cells, pd) ->
    (forall v, In v (nodal m) -> (v_rank v <= 2)%nat ->
       exists rows, In (v_name v, rows) pd /\
         (point_data_by_id = false -> rows = v_rows v) /\
         (point_data_by_id = true ->
            forall k id p, nth_error (nodes m) k = Some (id, p) ->
              exists row, nth_error rows k = Some row /\ var_value v id = Some row)) /\
    (forall name rows, In (name, rows) pd ->
       exists v, In v (nodal m) /\ v_name v = name /\ (v_rank v <= 2)%nat /\
                 (point_data_by_id = false -> rows = v_rows v)).
  Proof.
    unfold to_vtk. destruct (to_cells m); [|discriminate].
    destruct (to_point_data m) as [pd0|] eqn:Ep; [|discriminate].
    intros H. inversion H; subst. clear H.
    unfold to_point_data in Ep. destruct (mapM_nth _ _ _ Ep) as [L N]. split.
    - intros v Hv Hr.
      assert (In v (filter (fun v => Nat.ltb (v_rank v) point_data_rank_bound) (nodal m))) as Hf.
      { apply filter_In. split; [exact Hv|]. apply Nat.ltb_lt. unfold point_data_rank_bound. lia. }
      destruct (In_nth_error _ _ Hf) as [n Hn]. destruct (N n v Hn) as (y & Hy & Ey).
      destruct point_data_by_id eqn:Eb.
      + destruct (mapM (var_value v) (node_ids m)) as [rows|] eqn:Er; [|discriminate].
        inversion Ey; subst. exists rows. split; [eapply nth_error_In; exact Hy|].
        split; [discriminate|]. intros _ k id p Hk.
        destruct (mapM_nth _ _ _ Er) as [_ N2]. apply (N2 k id).
        unfold node_ids. rewrite nth_error_map, Hk. reflexivity.
      + inversion Ey; subst. exists (v_rows v). split; [eapply nth_error_In; exact Hy|].
        split; [reflexivity|discriminate].
    - intros name rows Hin. destruct (In_nth_error _ _ Hin) as [n Hn].
      assert (n < length (filter (fun v => Nat.ltb (v_rank v) point_data_rank_bound) (nodal m)))%nat as Hlt.
      { rewrite <- L. apply nth_error_Some. congruence. }
      apply nth_error_Some in Hlt.
      destruct (nth_error (filter (fun v => Nat.ltb (v_rank v) point_data_rank_bound) (nodal m)) n)
        as [v|] eqn:Ev; [|congruence].
      destruct (N n v Ev) as (y & Hy & Ey). rewrite Hn in Hy. inversion Hy; subst y.
      apply nth_error_In in Ev. apply filter_In in Ev. destruct Ev as [Hv Hr].
      apply Nat.ltb_lt in Hr. unfold point_data_rank_bound in Hr.
      exists v. split; [exact Hv|].
      destruct point_data_by_id.
      + destruct (mapM (var_value v) (node_ids m)); [|discriminate]. inversion Ey; subst.
        repeat split; try lia; try discriminate.
      + inversion Ey; subst. repeat split; try lia; try reflexivity.
  Qed.

  (* when the variable is stored in the nodes' order, point k carries the value of node k *)
  Lemma point_data_aligned m (v : variable V) k id p :
    NoDup (node_ids m) -> v_ids v = node_ids m ->
    nth_error (nodes m) k = Some (id, p) ->
    nth_error (v_rows v) k = var_value v id.
  Proof.
    intros Hnd Hal Hk. unfold var_value. rewrite Hal.
    assert (nth_error (node_ids m) k = Some id) as Hi.
    { unfold node_ids. rewrite nth_error_map, Hk. reflexivity. }
    rewrite (pos_unique _ _ _ Hnd Hi). reflexivity.
  Qed.
End Cells.

(* --------------------------------------------------------- finite tables *)
Lemma type_table_injective :
  nodupS (map fst femio_to_meshio) = true /\ nodupS (map snd femio_to_meshio) = true.
Proof. split; vm_compute; reflexivity. Qed.

Lemma type_table_matches_vtk :
  forallb (fun tv => match lookup (fst tv) femio_to_meshio with
                     | Some x => String.eqb x (snd tv) | None => false end) vtk_name = true.
Proof. vm_compute. reflexivity. Qed.

Lemma supported_types_are_ordered :
  forallb (fun ta => mem (fst ta) element_types) arity = true /\ nodupS element_types = true.
Proof. split; vm_compute; reflexivity. Qed.

Lemma tet2_perms_inverse {A} (c : list A) : length c = 10%nat ->
  (exists d, take tet2_to_meshio c = Some d /\ take tet2_from_meshio d = Some c) /\
  (exists d, take tet2_from_meshio c = Some d /\ take tet2_to_meshio d = Some c).
Proof.
  intros H.
  destruct c as [|c0 [|c1 [|c2 [|c3 [|c4 [|c5 [|c6 [|c7 [|c8 [|c9 [|]]]]]]]]]]]; try discriminate H.
  split; eexists; split; vm_compute; reflexivity.
Qed.

Lemma tet2_perm_only_tet2 :
  export_permuted_types = ["tet2"] /\ import_permuted_types = ["tetra10"] /\
  lookup "tet2" femio_to_meshio = Some "tetra10".
Proof. repeat split; vm_compute; reflexivity. Qed.

(* VTK position p receives femio's local node tet2_to_meshio[p]: corners stay,
   and the mid-edge node moved to position 4+e lies on VTK's edge e *)
Lemma tet2_perm_matches_vtk_edges :
  length tet2_to_meshio = 10%nat /\
  forallb (fun p => Nat.eqb (nth p tet2_to_meshio 99) p) [0; 1; 2; 3]%nat = true /\
  forallb (fun e =>
             let k := nth (4 + e) tet2_to_meshio 99 in
             Nat.leb 4 k && Nat.ltb k 10 &&
             same_edge (nth (k - 4) femio_tet2_edges (9, 9)%nat) (nth e vtk_tet10_edges (8, 8)%nat))
          [0; 1; 2; 3; 4; 5]%nat = true.
Proof. repeat split; vm_compute; reflexivity. Qed.
