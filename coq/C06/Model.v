(* C06 — legacy VTK export through meshio: hand model (H) of
     FEMData.to_meshio / FEMElementalAttribute.to_meshio, _to_meshio, _to_indices /
     FEMAttribute.ids2indices / FEMAttributes.to_meshio (nodal branch),
   over the tables and index lists translated (T) from the tree under test
   (gen/VtkTables.v).  Definitions only. *)
From Coq Require Import String List ZArith Bool Arith.
Import ListNotations.
From FV.C06.gen Require Import VtkTables.
Open Scope string_scope.

Fixpoint mapM {A B} (f : A -> option B) (l : list A) : option (list B) :=
  match l with
  | [] => Some []
  | x :: r => match f x, mapM f r with
              | Some y, Some ys => Some (y :: ys)
              | _, _ => None
              end
  end.

Fixpoint lookup {B} (k : string) (t : list (string * B)) : option B :=
  match t with
  | [] => None
  | (k', v) :: r => if String.eqb k k' then Some v else lookup k r
  end.

(* FEMAttribute.ids2indices: id -> storage position (id2index.loc[id]) *)
Fixpoint pos (i : Z) (ids : list Z) : option nat :=
  match ids with
  | [] => None
  | j :: r => if Z.eqb i j then Some 0 else option_map S (pos i r)
  end.

(* data[:, idx] on one row; a missing column is an IndexError *)
Definition take {A} (idx : list nat) (c : list A) : option (list A) :=
  mapM (fun k => nth_error c k) idx.

Definition mem (s : string) (l : list string) : bool := existsb (String.eqb s) l.

(* FEMElementalAttribute._to_meshio *)
Definition vtk_perm {A} (t : string) (c : list A) : option (list A) :=
  if mem t export_permuted_types then take tet2_to_meshio c else Some c.
(* FEMElementalAttribute._from_meshio (node order only) *)
Definition femio_perm {A} (vt : string) (c : list A) : option (list A) :=
  if mem vt import_permuted_types then take tet2_from_meshio c else Some c.

Section Mesh.
  Variables P V : Type.

  (* a nodal variable: name, len(data.shape), its own ids, its rows (storage order) *)
  Record variable := mkvar {
    v_name : string; v_rank : nat; v_ids : list Z; v_rows : list (list V) }.
  (* nodes in storage order; element blocks as the dict the caller built
     (any insertion order): type -> [(element id, connectivity as node ids)] *)
  Record mesh := mkmesh {
    nodes : list (Z * P);
    blocks : list (string * list (Z * list Z));
    nodal : list variable }.

  Definition node_ids (m : mesh) : list Z := map fst (nodes m).

  Definition cell_of (ids : list Z) (t : string) (conn : list Z) : option (list nat) :=
    match vtk_perm t conn with
    | None => None
    | Some c => mapM (fun i => pos i ids) c
    end.

  Definition block_cells (ids : list Z) (tb : string * list (Z * list Z))
    : option (string * list (list nat)) :=
    match lookup (fst tb) femio_to_meshio with
    | None => None                                   (* KeyError *)
    | Some vt =>
        match mapM (fun e => cell_of ids (fst tb) (snd e)) (snd tb) with
        | None => None
        | Some cs => Some (vt, cs)
        end
    end.

  (* FEMElementalAttribute.items(): ELEMENT_TYPES filtered by membership *)
  Definition items (bs : list (string * list (Z * list Z))) : list (string * list (Z * list Z)) :=
    flat_map (fun t => match lookup t bs with Some els => [(t, els)] | None => [] end)
             element_types.

  Definition to_cells (m : mesh) : option (list (string * list (list nat))) :=
    mapM (block_cells (node_ids m)) (items (blocks m)).

  (* the value a variable holds for node id (attribute.loc[id]) *)
  Definition var_value (v : variable) (id : Z) : option (list V) :=
    match pos id (v_ids v) with Some k => nth_error (v_rows v) k | None => None end.

  (* FEMAttributes.to_meshio, nodal branch: rank filter; rows as stored
     (positional) or looked up by node id, whichever the tree under test does *)
  Definition to_point_data (m : mesh) : option (list (string * list (list V))) :=
    mapM (fun v =>
            if point_data_by_id
            then match mapM (var_value v) (node_ids m) with
                 | Some rows => Some (v_name v, rows)
                 | None => None                               (* KeyError *)
                 end
            else Some (v_name v, v_rows v))
         (filter (fun v => Nat.ltb (v_rank v) point_data_rank_bound) (nodal m)).

  Definition to_vtk (m : mesh)
    : option (list P * list (string * list (list nat)) * list (string * list (list V))) :=
    match to_cells m, to_point_data m with
    | Some cs, Some pd => Some (map snd (nodes m), cs, pd)
    | _, _ => None
    end.
End Mesh.
Arguments mkvar {V}. Arguments mkmesh {P V}.
Arguments v_name {V}. Arguments v_rank {V}. Arguments v_ids {V}. Arguments v_rows {V}.
Arguments nodes {P V}. Arguments blocks {P V}. Arguments nodal {P V}.
Arguments node_ids {P V}. Arguments to_cells {P V}. Arguments to_point_data {P V}.
Arguments to_vtk {P V}. Arguments var_value {V}.

(* ---- stated conventions (S) ---- *)
(* number of nodes of the eight element types of the property *)
Definition arity : list (string * nat) :=
  [("line", 2); ("tri", 3); ("quad", 4); ("tet", 4); ("tet2", 10); ("pyr", 5); ("prism", 6); ("hex", 8)].
(* meshio's name of the VTK cell type each of them must be exported as
   (VTK_LINE 3, VTK_TRIANGLE 5, VTK_QUAD 9, VTK_TETRA 10, VTK_QUADRATIC_TETRA 24,
    VTK_PYRAMID 14, VTK_WEDGE 13, VTK_HEXAHEDRON 12) *)
Definition vtk_name : list (string * string) :=
  [("line", "line"); ("tri", "triangle"); ("quad", "quad"); ("tet", "tetra"); ("tet2", "tetra10");
   ("pyr", "pyramid"); ("prism", "wedge"); ("hex", "hexahedron")].
(* VTK_QUADRATIC_TETRA: point 4+e is the mid-point of edge e *)
Definition vtk_tet10_edges : list (nat * nat) := [(0, 1); (1, 2); (2, 0); (0, 3); (1, 3); (2, 3)]%nat.
(* femio = FrontISTR type 342 (1-based: 5 on 2-3, 6 on 3-1, 7 on 1-2, 8 on 1-4, 9 on 2-4,
   10 on 3-4): local node 4+e is the mid-point of edge e *)
Definition femio_tet2_edges : list (nat * nat) := [(1, 2); (2, 0); (0, 1); (0, 3); (1, 3); (2, 3)]%nat.
Definition same_edge (a b : nat * nat) : bool :=
  (Nat.eqb (fst a) (fst b) && Nat.eqb (snd a) (snd b)) ||
  (Nat.eqb (fst a) (snd b) && Nat.eqb (snd a) (fst b)).

(* ---- well-formedness (boolean) ---- *)
Fixpoint nodupZ (l : list Z) : bool :=
  match l with [] => true | x :: r => negb (existsb (Z.eqb x) r) && nodupZ r end.
Fixpoint nodupS (l : list string) : bool :=
  match l with [] => true | x :: r => negb (mem x r) && nodupS r end.
Definition wf {P V} (m : mesh P V) : bool :=
  nodupZ (node_ids m) && nodupS (map fst (blocks m)) &&
  forallb (fun tb =>
    match lookup (fst tb) arity with
    | None => false
    | Some n => forallb (fun e => Nat.eqb (length (snd e)) n &&
                                  forallb (fun i => existsb (Z.eqb i) (node_ids m)) (snd e)) (snd tb)
    end) (blocks m) &&
  forallb (fun v => Nat.eqb (length (v_rows v)) (length (v_ids v)) &&
                    forallb (fun i => existsb (Z.eqb i) (v_ids v)) (node_ids m)) (nodal m).
