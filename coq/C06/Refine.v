(* C06 — refinement: the exported cells, as a reader resolves them, are the abstract
   specification Spec.spec_cells (ids -> coordinates); consequently the storage order of the
   nodes is irrelevant to what the file describes. *)
From Coq Require Import String List ZArith Bool Arith Lia Permutation.
Import ListNotations.
From FV.C06 Require Import Model Proofs Spec.
From FV.C06.gen Require Import VtkTables.
Open Scope string_scope.

Lemma mapM_compose {A B C} (f : A -> option B) (f' : A -> option C) (g : B -> C) l ys :
  mapM f l = Some ys ->
  (forall x y, In x l -> f x = Some y -> f' x = Some (g y)) ->
  mapM f' l = Some (map g ys).
Proof.
  revert ys. induction l as [|x l IH]; intros ys H Hx.
  - inversion H. reflexivity.
  - cbn [mapM] in *. destruct (f x) as [y|] eqn:E; [|discriminate].
    destruct (mapM f l) as [ys'|]; [|discriminate]. inversion H; subst.
    rewrite (Hx x y (or_introl eq_refl) E), (IH ys' eq_refl); [reflexivity|].
    intros x0 y0 Hin. apply Hx. right. exact Hin.
Qed.

Lemma mapM_ext_in {A B} (f g : A -> option B) l :
  (forall x, In x l -> f x = g x) -> mapM f l = mapM g l.
Proof.
  induction l as [|x l IH]; intros H; [reflexivity|]. cbn [mapM].
  rewrite (H x (or_introl eq_refl)), IH; [reflexivity|]. intros y Hy. apply H. right. exact Hy.
Qed.

(* the position found for an id indexes that id's coordinates in the exported point list *)
Lemma pos_coord {P} (ns : list (Z * P)) id q :
  pos id (map fst ns) = Some q -> nth_error (map snd ns) q = coord_of id ns /\ coord_of id ns <> None.
Proof.
  revert q. induction ns as [|[j p] ns IH]; intros q H; [discriminate|].
  cbn [map fst snd pos coord_of] in *. destruct (Z.eqb id j).
  - inversion H; subst. split; [reflexivity|discriminate].
  - destruct (pos id (map fst ns)) as [q'|]; [|discriminate]. inversion H; subst.
    cbn [nth_error]. apply IH. reflexivity.
Qed.

Section Refine.
  Variables P V : Type.
  Implicit Types m : mesh P V.

  Lemma cell_refines (ns : list (Z * P)) t conn c :
    cell_of (map fst ns) t conn = Some c ->
    exists pc, vtk_perm t conn = Some pc /\
      map (nth_error (map snd ns)) c = map (fun id => coord_of id ns) pc /\
      Forall (fun id => coord_of id ns <> None) pc.
  Proof.
    unfold cell_of. destruct (vtk_perm t conn) as [pc|]; [|discriminate]. intros H.
    exists pc. split; [reflexivity|]. revert c H.
    induction pc as [|id pc IH]; intros c H.
    - inversion H. split; [reflexivity|constructor].
    - cbn [mapM] in H. destruct (pos id (map fst ns)) as [q|] eqn:E; [|discriminate].
      destruct (mapM (fun i => pos i (map fst ns)) pc) as [c'|]; [|discriminate].
      inversion H; subst. destruct (IH c' eq_refl) as [A B]. destruct (pos_coord ns id q E) as [X Y].
      cbn [map]. rewrite X, A. split; [reflexivity|constructor; assumption].
  Qed.

  Lemma block_refines (ns : list (Z * P)) tb b :
    block_cells (map fst ns) tb = Some b ->
    spec_block ns tb = Some (fst b, map (map (nth_error (map snd ns))) (snd b)).
  Proof.
    unfold block_cells, spec_block. destruct (lookup (fst tb) femio_to_meshio) as [vt|]; [|discriminate].
    destruct (mapM (fun e => cell_of (map fst ns) (fst tb) (snd e)) (snd tb)) as [cs|] eqn:E; [|discriminate].
    intros H. inversion H; subst. cbn [fst snd]. clear H.
    assert (exists pcs, mapM (fun e => vtk_perm (fst tb) (snd e)) (snd tb) = Some pcs /\
                        map (map (fun id => coord_of id ns)) pcs = map (map (nth_error (map snd ns))) cs)
      as (pcs & E1 & E2).
    { revert cs E. generalize (snd tb) as els. induction els as [|e els IH]; intros cs E.
      - inversion E. exists []. split; reflexivity.
      - cbn [mapM] in E. destruct (cell_of (map fst ns) (fst tb) (snd e)) as [c|] eqn:Ec; [|discriminate].
        destruct (mapM (fun e0 => cell_of (map fst ns) (fst tb) (snd e0)) els) as [cs'|]; [|discriminate].
        inversion E; subst. destruct (IH cs' eq_refl) as (pcs & A & B).
        destruct (cell_refines ns _ _ _ Ec) as (pc & Hp & Hm & _).
        exists (pc :: pcs). cbn [mapM map]. rewrite Hp, A, B, Hm. split; reflexivity. }
    rewrite E1, E2. reflexivity.
  Qed.

  (* REFINEMENT: the cells of the file, with every corner resolved through the file's own
     point list, are exactly the specification (type names and coordinates by node id) *)
  Theorem cells_refine m pts cells pd :
    to_vtk m = Some (pts, cells, pd) -> spec_cells m = Some (decode_cells pts cells).
  Proof.
    unfold to_vtk. destruct (to_cells m) as [cs|] eqn:Ec; [|discriminate].
    destruct (to_point_data m); [|discriminate]. intros H. inversion H; subst. clear H.
    unfold spec_cells, decode_cells. unfold to_cells, node_ids in Ec.
    apply (mapM_compose _ _ (fun b => (fst b, map (map (nth_error (map snd (nodes m)))) (snd b))) _ _ Ec).
    intros tb b _ Hb. apply block_refines. exact Hb.
  Qed.

  (* no corner of any exported cell points outside the point list *)
  Theorem cells_in_range m pts cells pd :
    to_vtk m = Some (pts, cells, pd) ->
    forall vt cs c q, In (vt, cs) cells -> In c cs -> In q c -> (q < length pts)%nat.
  Proof.
    unfold to_vtk. destruct (to_cells m) as [cs0|] eqn:Ec; [|discriminate].
    destruct (to_point_data m); [|discriminate]. intros H. inversion H; subst. clear H.
    intros vt cs c q Hb Hc Hq. unfold to_cells in Ec. destruct (mapM_nth _ _ _ Ec) as [L N].
    destruct (In_nth_error _ _ Hb) as [n Hn].
    assert (n < length (items (blocks m)))%nat as Hlt by (rewrite <- L; apply nth_error_Some; congruence).
    apply nth_error_Some in Hlt. destruct (nth_error (items (blocks m)) n) as [tb|] eqn:Etb; [|congruence].
    destruct (N n tb Etb) as (y & Hy & Hbc). rewrite Hn in Hy. inversion Hy; subst y.
    unfold block_cells in Hbc. destruct (lookup (fst tb) femio_to_meshio); [|discriminate].
    destruct (mapM (fun e => cell_of (node_ids m) (fst tb) (snd e)) (snd tb)) as [cs'|] eqn:Em; [|discriminate].
    inversion Hbc; subst. destruct (mapM_nth _ _ _ Em) as [L2 N2].
    destruct (In_nth_error _ _ Hc) as [i Hi].
    assert (i < length (snd tb))%nat as Hlt2 by (rewrite <- L2; apply nth_error_Some; congruence).
    apply nth_error_Some in Hlt2. destruct (nth_error (snd tb) i) as [e|] eqn:Ee; [|congruence].
    destruct (N2 i e Ee) as (c' & Hc' & Hcell). rewrite Hi in Hc'. inversion Hc'; subst c'.
    unfold cell_of in Hcell. destruct (vtk_perm (fst tb) (snd e)) as [pc|]; [|discriminate].
    destruct (mapM_nth _ _ _ Hcell) as [L3 N3]. destruct (In_nth_error _ _ Hq) as [k Hk].
    assert (k < length pc)%nat as Hlt3 by (rewrite <- L3; apply nth_error_Some; congruence).
    apply nth_error_Some in Hlt3. destruct (nth_error pc k) as [id|] eqn:Eid; [|congruence].
    destruct (N3 k id Eid) as (q' & Hq' & Hpos). rewrite Hk in Hq'. inversion Hq'; subst q'.
    apply pos_sound in Hpos. rewrite map_length. unfold node_ids in Hpos.
    rewrite <- (map_length fst). apply nth_error_Some. congruence.
  Qed.

  (* ---- the storage order of the nodes is irrelevant ---- *)
  Lemma coord_of_In (ns : list (Z * P)) id p :
    NoDup (map fst ns) -> (coord_of id ns = Some p <-> In (id, p) ns).
  Proof.
    induction ns as [|[j q] ns IH]; intros Hnd.
    - split; [discriminate|intros []].
    - cbn [map fst] in Hnd. inversion Hnd as [|? ? Hnot Hnd']; subst. cbn [coord_of].
      destruct (Z.eqb id j) eqn:E.
      + apply Z.eqb_eq in E. subst j. split.
        * intros H. inversion H; subst. left. reflexivity.
        * intros [H|H]; [inversion H; reflexivity|]. exfalso. apply Hnot.
          apply (in_map fst) in H. exact H.
      + apply Z.eqb_neq in E. rewrite (IH Hnd'). split.
        * intros H. right. exact H.
        * intros [H|H]; [inversion H; subst; congruence|exact H].
  Qed.

  Lemma coord_of_perm (ns ns' : list (Z * P)) id :
    Permutation ns ns' -> NoDup (map fst ns) -> coord_of id ns = coord_of id ns'.
  Proof.
    intros Hp Hnd.
    assert (NoDup (map fst ns')) as Hnd' by (eapply Permutation_NoDup; [apply Permutation_map; exact Hp|exact Hnd]).
    destruct (coord_of id ns) as [p|] eqn:E.
    - apply (coord_of_In ns id p Hnd) in E. symmetry. apply (coord_of_In ns' id p Hnd').
      eapply Permutation_in; eassumption.
    - destruct (coord_of id ns') as [p'|] eqn:E'; [|reflexivity].
      apply (coord_of_In ns' id p' Hnd') in E'.
      assert (In (id, p') ns) as Hin by (eapply Permutation_in; [apply Permutation_sym; exact Hp|exact E']).
      apply (coord_of_In ns id p' Hnd) in Hin. congruence.
  Qed.

  Lemma spec_cells_perm m m' :
    Permutation (nodes m) (nodes m') -> NoDup (node_ids m) -> blocks m = blocks m' ->
    spec_cells m = spec_cells m'.
  Proof.
    intros Hp Hnd Hb. unfold spec_cells. rewrite <- Hb. apply mapM_ext_in. intros tb _.
    unfold spec_block. destruct (lookup (fst tb) femio_to_meshio); [|reflexivity].
    destruct (mapM (fun e => vtk_perm (fst tb) (snd e)) (snd tb)) as [pcs|]; [|reflexivity].
    do 2 f_equal. apply map_ext. intros pc. apply map_ext. intros id.
    apply coord_of_perm; assumption.
  Qed.

  Theorem storage_order_irrelevant m m' pts cells pd pts' cells' pd' :
    Permutation (nodes m) (nodes m') -> NoDup (node_ids m) -> blocks m = blocks m' ->
    to_vtk m = Some (pts, cells, pd) -> to_vtk m' = Some (pts', cells', pd') ->
    decode_cells pts cells = decode_cells pts' cells'.
  Proof.
    intros Hp Hnd Hb H H'. apply cells_refine in H. apply cells_refine in H'.
    rewrite (spec_cells_perm m m' Hp Hnd Hb) in H. congruence.
  Qed.
End Refine.

(* ------------------------------------------------------------------ point data *)
Lemma rows_refine {P V} (f : Z -> option (list V)) (ns : list (Z * P)) rows :
  mapM f (map fst ns) = Some rows ->
  map (fun pr => (fst pr, Some (snd pr))) (combine (map snd ns) rows) =
  map (fun n => (snd n, f (fst n))) ns.
Proof.
  revert rows. induction ns as [|[j p] ns IH]; intros rows H.
  - reflexivity.
  - cbn [map fst snd mapM] in *. destruct (f j) as [r|] eqn:E; [|discriminate].
    destruct (mapM f (map fst ns)) as [rs|]; [|discriminate]. inversion H; subst.
    cbn [combine map fst snd]. rewrite (IH rs eq_refl). reflexivity.
Qed.

Lemma map_some_inj {P V} (a b : list (P * list V)) :
  map (fun pr => (fst pr, Some (snd pr))) a = map (fun pr => (fst pr, Some (snd pr))) b -> a = b.
Proof.
  revert b. induction a as [|[p r] a IH]; intros [|[p' r'] b] H; try discriminate; [reflexivity|].
  cbn [map fst snd] in H. inversion H; subst. f_equal. apply IH. assumption.
Qed.

Section RefinePD.
  Variables P V : Type.
  Implicit Types m : mesh P V.

  (* REFINEMENT (by-id export): the (point, row) pairs a reader sees for a variable are the
     specification: every node's coordinates with the value the variable holds for its id *)
  Theorem point_data_refines m pts cells pd :
    point_data_by_id = true ->
    to_vtk m = Some (pts, cells, pd) ->
    forall v, In v (nodal m) -> (v_rank v <= 2)%nat ->
      exists rows, In (v_name v, rows) pd /\ length rows = length pts /\
        map (fun pr => (fst pr, Some (snd pr))) (decode_rows pts rows) = spec_rows (nodes m) v.
  Proof.
    intros Hb. unfold to_vtk. destruct (to_cells m); [|discriminate].
    destruct (to_point_data m) as [pd0|] eqn:Ep; [|discriminate].
    intros H. inversion H; subst. clear H. intros v Hv Hr.
    unfold to_point_data in Ep. rewrite Hb in Ep. destruct (mapM_nth _ _ _ Ep) as [_ N].
    assert (In v (filter (fun v => Nat.ltb (v_rank v) point_data_rank_bound) (nodal m))) as Hf.
    { apply filter_In. split; [exact Hv|]. apply Nat.ltb_lt. unfold point_data_rank_bound. lia. }
    destruct (In_nth_error _ _ Hf) as [n Hn]. destruct (N n v Hn) as (y & Hy & Ey).
    destruct (mapM (var_value v) (node_ids m)) as [rows|] eqn:Er; [|discriminate].
    inversion Ey; subst. exists rows. split; [eapply nth_error_In; exact Hy|].
    split.
    - destruct (mapM_nth _ _ _ Er) as [L _]. rewrite L. unfold node_ids. rewrite !map_length. reflexivity.
    - unfold decode_rows, spec_rows. apply rows_refine. exact Er.
  Qed.

  (* the storage order of the nodes (and with it the alignment of any variable) is irrelevant:
     the same (point, row) pairs, permuted exactly as the nodes are *)
  Theorem point_data_order_irrelevant m m' pts cells pd pts' cells' pd' :
    point_data_by_id = true ->
    Permutation (nodes m) (nodes m') -> nodal m = nodal m' ->
    to_vtk m = Some (pts, cells, pd) -> to_vtk m' = Some (pts', cells', pd') ->
    forall v, In v (nodal m) -> (v_rank v <= 2)%nat ->
      exists rows rows', In (v_name v, rows) pd /\ In (v_name v, rows') pd' /\
        Permutation (decode_rows pts rows) (decode_rows pts' rows').
  Proof.
    intros Hb Hp Hn H H' v Hv Hr.
    destruct (point_data_refines m _ _ _ Hb H v Hv Hr) as (rows & Hin & _ & E).
    assert (In v (nodal m')) as Hv' by (rewrite <- Hn; exact Hv).
    destruct (point_data_refines m' _ _ _ Hb H' v Hv' Hr) as (rows' & Hin' & _ & E').
    exists rows, rows'. split; [exact Hin|]. split; [exact Hin'|].
    assert (Permutation (spec_rows (nodes m) v) (spec_rows (nodes m') v)) as Hs
      by (unfold spec_rows; apply Permutation_map; exact Hp).
    rewrite <- E, <- E' in Hs. apply Permutation_map_inv in Hs. destruct Hs as (l3 & E3 & P3).
    apply map_some_inj in E3. subst l3. apply Permutation_sym. exact P3.
  Qed.
End RefinePD.
