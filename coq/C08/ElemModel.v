(* C08 — FEMElementalAttribute as a dict {type name -> block}: the layer between
   the Python dict the caller hands in and the index-level model of Model.v
   (`blocks`, `update_self`, `efilter`, `egenerate`).  Definitions only.

   Modelled code (femio/fem_elemental_attribute.py): ELEMENT_TYPES (the table
   itself is regenerated from the source into gen/ElemTypes.v by
   translate/c08_types.py), `_validate_keys`, dict `update`, `keys` / `items`
   (blocks listed in ELEMENT_TYPES order, whatever the insertion order),
   `_update_self` with the type *names* it stores in `types` / `ids_types`,
   `dict_type_ids`, `filter_with_ids`, `generate_elemental_attribute`. *)
From Coq Require Import ZArith List Bool Arith String.
Import ListNotations.
From FV.C08 Require Import Table Model.

Fixpoint mem_str (t : string) (l : list string) : bool :=
  match l with [] => false | x :: r => String.eqb t x || mem_str t r end.

Fixpoint nodup_str (l : list string) : bool :=
  match l with [] => true | x :: r => negb (mem_str x r) && nodup_str r end.

Section Named.
Context {V : Type}.
Variable ts : list string.        (* FEMElementalAttribute.ELEMENT_TYPES *)

(* the dict: (key, block) in insertion order, keys distinct *)
Definition edict := list (string * table V).

Fixpoint dget (t : string) (d : edict) : option (table V) :=
  match d with
  | [] => None
  | (k, b) :: r => if String.eqb t k then Some b else dget t r
  end.

(* dict.__setitem__: an existing key keeps its place, a new key is appended *)
Fixpoint dset (k : string) (b : table V) (d : edict) : edict :=
  match d with
  | [] => [(k, b)]
  | (k', b') :: r => if String.eqb k k' then (k, b) :: r else (k', b') :: dset k b r
  end.

(* dict.update(new) *)
Definition dupdate (d new : edict) : edict :=
  fold_left (fun acc kb => dset (fst kb) (snd kb) acc) new d.

(* _validate_keys: a key outside ELEMENT_TYPES raises when the dict has several
   entries, and is renamed 'unknown' when it is the only one *)
Definition validate_keys (d : edict) : option edict :=
  if forallb (fun kb => mem_str (fst kb) ts) d then Some d
  else match d with
       | [(_, b)] => Some [("unknown"%string, b)]
       | _ => None
       end.

(* items(): [(t, self[t]) for t in self.ELEMENT_TYPES if t in self] *)
Definition items (d : edict) : edict :=
  flat_map (fun t => match dget t d with Some b => [(t, b)] | None => [] end) ts.

Definition keys (d : edict) : list string := map fst (items d).

(* the same with the position of the type in ELEMENT_TYPES as the key: the
   `blocks` of Model.v *)
Fixpoint items_from (k : nat) (l : list string) (d : edict) : @blocks V :=
  match l with
  | [] => []
  | t :: r => (match dget t d with Some b => [(k, b)] | None => [] end) ++ items_from (S k) r d
  end.

Definition to_blocks (d : edict) : @blocks V := items_from 0 ts d.

Definition type_name (k : nat) : string := nth k ts ""%string.

Definition name_blocks {W} (bs : list (nat * table W)) : list (string * table W) :=
  map (fun kb => (type_name (fst kb), snd kb)) bs.

(* the flattened summary as the code stores it: `types` holds the key of the
   block the element comes from *)
Record nsummary := {
  n_ids : list Z; n_data : list V; n_types : list string; n_id2index : list (Z * nat)
}.

Definition name_summary (s : @summary V) : nsummary :=
  {| n_ids := s_ids s; n_data := s_data s; n_types := map type_name (s_types s);
     n_id2index := s_id2index s |}.

(* _update_self on the dict *)
Definition update_self_named (d : edict) : option nsummary :=
  option_map name_summary (update_self (to_blocks d)).

(* dict_type_ids = {key: value.ids for key, value in self.items()} *)
Definition dict_type_ids (d : edict) : list (string * list Z) :=
  map (fun kb => (fst kb, ids (snd kb))) (items d).

(* filter_with_ids(l): the dict of the result, as its items() *)
Definition efilter_named (d : edict) (l : list Z) : edict :=
  name_blocks (efilter (to_blocks d) l).

(* FEMElementalAttribute(name, d0) followed by .update(u) for every u: None = raises *)
Definition build (d0 : edict) (upds : list edict) : option edict :=
  match validate_keys d0 with
  | None => None
  | Some v =>
      fold_left (fun acc u => match acc with
                              | None => None
                              | Some d => option_map (dupdate d) (validate_keys u)
                              end) upds (Some (dupdate [] v))
  end.

End Named.

(* every element of every block, tagged with the key of its block *)
Definition kflatten {K V} (bs : list (K * table V)) : table (K * V) :=
  flat_map (fun b => map (fun iv => (fst iv, (fst b, snd iv))) (snd b)) bs.

Definition nzip3 {V} (s : @nsummary V) : table (string * V) :=
  combine (n_ids s) (combine (n_types s) (n_data s)).
