(* C08 — an attribute is one id-keyed table whichever way it is accessed.
   Statements only.  gen/AttrCfg.v is regenerated from /repo on every run. *)
From Coq Require Import String.
From Coq Require Import ZArith List Bool Arith Permutation Sorted.
Import ListNotations.
From FV.C08 Require Import Table Model Proofs ElemModel ElemProofs Renumber RenumberProofs.
From FV.C08.gen Require Import AttrCfg ElemTypes.

(* a freshly constructed attribute (distinct ids) is one table *)
Theorem C08_inv_init : forall (V : Type) l (rows : list V) gen tsf a,
  NoDup l -> mk_attr l rows gen tsf = Some a -> Inv a.
Proof. intros V. exact (@inv_init V). Qed.

(* every public update keeps the representations equal when every refresh is
   in place (cfg_ok) ... *)
Theorem C08_inv_step : forall (V : Type) c (a : attr V) o,
  cfg_ok c = true -> Inv a -> op_wf a o = true -> Inv (step_total c a o).
Proof. intros V. exact (@inv_step V). Qed.

(* ... and, whatever the configuration, every update that does not depend on
   a missing refresh does (safe_op is decided per operation and state) *)
Theorem C08_inv_step_safe : forall (V : Type) c (a : attr V) o,
  Inv a -> op_wf a o = true -> safe_op c a o = true -> Inv (step_total c a o).
Proof. intros V. exact (@inv_step_safe V). Qed.

(* every finite sequence of public updates *)
Theorem C08_inv_reachable : forall (V : Type) c, cfg_ok c = true ->
  forall (os : list (op V)) a, Inv a -> ops_wf c a os = true -> Inv (run c a os).
Proof. intros V. exact (@inv_reachable V). Qed.

Theorem C08_inv_reachable_safe : forall (V : Type) c (os : list (op V)) a,
  Inv a -> ops_wf c a os = true -> ops_safe c a os = true -> Inv (run c a os).
Proof. intros V. exact (@inv_reachable_safe V). Qed.

(* under the invariant every read path describes the table (ids[k], data[k]) *)
Theorem C08_views_agree : forall (V : Type) c (a : attr V) k i v, Inv a ->
  nth_error (ids_view a) k = Some i ->
  (exists d, data_view a = Some d /\ nth_error d k = Some v) ->
     nth_error (frame_view a) k = Some (i, v)
  /\ lookup i (frame_view a) = Some v
  /\ slice c a (ByIds [i]) = Some [(i, v)]
  /\ slice c a (ById1 i) = Some [(i, v)]
  /\ slice c a (ByPos [k]) = Some [(i, v)]
  /\ (scalar_key_uses_label c = true -> slice c a (ByPos1 k) = Some [(i, v)])
  /\ getitem c a [i] = Some [v]
  /\ filter_with_ids a [i] = Some [(i, v)]
  /\ (forall m, id2index a = Some m -> ids2indices a [i] = Some [k]).
Proof. intros V. exact (@views_agree V). Qed.

Theorem C08_lookup_is_positional : forall (V : Type) (a : attr V) i v,
  Inv a -> lookup i (frame_view a) = Some v ->
  exists k d, nth_error (ids_view a) k = Some i /\ data_view a = Some d /\ nth_error d k = Some v.
Proof. intros V. exact (@lookup_is_positional V). Qed.

Theorem C08_selection_reads_agree : forall (V : Type) c (a : attr V) l d,
  Inv a -> data_view a = Some d ->
  let t := combine (ids_view a) d in
     slice c a (ByIds l) = select_ids l t
  /\ getitem c a l = option_map vals (select_ids l t)
  /\ filter_with_ids a l = select_ids l t
  /\ (forall ks, ids2indices a l = Some ks -> slice c a (ByPos ks) = select_ids l t)
  /\ (forall r, select_ids l t = Some r ->
        ids r = l /\ forall i, In i l -> lookup i r = lookup i t).
Proof. intros V. exact (@selection_reads_agree V). Qed.

(* collection-level filter (FEMAttributes.filter_with_ids) = member-wise filter by id *)
Theorem C08_collection_filter_memberwise : forall (V : Type) (ms : list (attr V)) l rs,
  cfilter ms l = Some rs ->
  Forall2 (fun a r => filter_with_ids a l = Some r /\ ids r = l /\
                      forall i, In i l -> lookup i r = lookup i (frame_view a)) ms rs.
Proof. intros V. exact (@cfilter_memberwise V). Qed.

Theorem C08_collection_filter_defined : forall (V : Type) (ms : list (attr V)) l,
  (exists rs, cfilter ms l = Some rs) <-> (forall a, In a ms -> forall i, In i l -> In i (ids_view a)).
Proof. intros V. exact (@cfilter_defined V). Qed.

(* what the row updates write *)
Theorem C08_slice_write_exact : forall (V : Type) c (a : attr V) l rows a',
  Inv a -> NoDup l -> step c a (SliceWrite (ByIds l) rows) = Some a' ->
  ids (frame a') = ids (frame a) /\
  forall i, lookup i (frame a') =
            match lookup i (combine l rows) with Some v => Some v | None => lookup i (frame a) end.
Proof. intros V. exact (@slice_write_exact V). Qed.

Theorem C08_update_exact : forall (V : Type) c (a : attr V) new a',
  Inv a -> NoDup (ids new) -> step c a (Update new) = Some a' ->
  (forall i, lookup i (frame a') =
             match lookup i new with Some v => Some v | None => lookup i (frame a) end)
  /\ (ids new <> ids (frame a) -> StronglySorted Z.lt (ids (frame a'))).
Proof. intros V. exact (@update_exact V). Qed.

(* mixed element collections (FEMElementalAttribute._update_self) *)
Theorem C08_summary_sorted_complete : forall (V : Type) (bs : @blocks V) s,
  update_self bs = Some s ->
     Permutation (flatten bs) (zip3 s)
  /\ NoDup (s_ids s)
  /\ (length bs <> 1%nat -> StronglySorted Z.lt (s_ids s))
  /\ s_id2index s = enumerate (s_ids s)
  /\ length (s_types s) = length (s_ids s) /\ length (s_data s) = length (s_ids s).
Proof. intros V. exact (@summary_sorted_complete V). Qed.

Theorem C08_summary_consistent : forall (V : Type) (bs : @blocks V) s k i t v,
  update_self bs = Some s ->
  nth_error (s_ids s) k = Some i -> nth_error (s_types s) k = Some t ->
  nth_error (s_data s) k = Some v ->
     lookup i (s_id2index s) = Some k
  /\ (exists b, In (t, b) bs /\ In (i, v) b)
  /\ (forall k', nth_error (s_ids s) k' = Some i -> k' = k).
Proof. intros V. exact (@summary_consistent V). Qed.

Theorem C08_summary_complete : forall (V : Type) (bs : @blocks V) s t b i v,
  update_self bs = Some s -> In (t, b) bs -> In (i, v) b ->
  exists k, nth_error (s_ids s) k = Some i /\ nth_error (s_types s) k = Some t
            /\ nth_error (s_data s) k = Some v.
Proof. intros V. exact (@summary_complete V). Qed.

(* generate_elemental_attribute: values stay bound to the ids they were handed
   in with, each in the block of its element's type; blocks ascending by id *)
Theorem C08_generate_elemental_attribute : forall (V W : Type) (bs : list (nat * table W)) (tbl : table V) i t v,
  (In (i, (t, v)) (flatten (egenerate bs tbl)) <->
   lookup i tbl = Some v /\ exists c, In (i, (t, c)) (flatten bs))
  /\ Forall (fun b => StronglySorted Z.lt (ids (snd b))) (egenerate bs tbl).
Proof. intros. split; [apply egenerate_In | apply egenerate_sorted]. Qed.

(* filter_with_ids of a collection: exactly the requested elements that exist,
   each with its own type and connectivity, each exactly once, every block in
   the order requested *)
Theorem C08_collection_filter_exact : forall (V : Type) (bs : @blocks V) l,
  NoDup (ids (flatten bs)) ->
     (forall i t v, In (i, (t, v)) (flatten (efilter bs l)) <-> In i l /\ In (i, (t, v)) (flatten bs))
  /\ (NoDup l -> NoDup (map fst bs) -> NoDup (ids (flatten (efilter bs l))))
  /\ (forall t b, In (t, b) (efilter bs l) ->
        ids b = filter (fun i => match lookup i (flatten bs) with
                                 | Some (t', _) => Nat.eqb t' t | None => false end)
                       (filter (fun i => memZ i (ids (flatten bs))) l)).
Proof.
  intros V bs l ND. split; [intros; apply efilter_In; exact ND|].
  split; [apply efilter_nodup|apply efilter_block_order].
Qed.

(* ---- the collection as a dict {type name -> block} (ElemModel.v) ---- *)
(* keys()/items() list every block of the dict exactly once, provided the table
   of type names has no duplicate and the keys are in it *)
Theorem C08_items_list_every_block_once : forall (V : Type) ts (d : @edict V),
  NoDup ts -> NoDup (map fst d) -> (forall k, In k (map fst d) -> In k ts) ->
  Permutation (items ts d) d /\ NoDup (keys ts d).
Proof. intros V. exact (@items_perm V). Qed.

(* _validate_keys: what it lets through, and when it raises *)
Theorem C08_validate_keys : forall (V : Type) ts (d d' : @edict V),
  validate_keys ts d = Some d' -> In "unknown"%string ts ->
     (forall k, In k (map fst d') -> In k ts)
  /\ map snd d' = map snd d
  /\ (NoDup (map fst d) -> NoDup (map fst d'))
  /\ ((forall k, In k (map fst d) -> In k ts) -> d' = d).
Proof. intros V. exact (@validate_keys_spec V). Qed.

Theorem C08_validate_keys_raises : forall (V : Type) ts (d : @edict V),
  validate_keys ts d = None <->
  (exists k, In k (map fst d) /\ ~ In k ts) /\ (List.length d <> 1)%nat.
Proof. intros V. exact (@validate_keys_raises V). Qed.

(* dict.update(new): keys stay distinct, blocks of `new` replace / are added *)
Theorem C08_dict_update : forall (V : Type) (new d : @edict V),
  NoDup (map fst d) ->
     NoDup (map fst (dupdate d new))
  /\ (forall k, In k (map fst (dupdate d new)) <-> In k (map fst d) \/ In k (map fst new))
  /\ (NoDup (map fst new) -> forall t,
        dget t (dupdate d new) = match dget t new with Some b => Some b | None => dget t d end).
Proof. intros V. exact (@dupdate_spec V). Qed.

(* _update_self on the dict: every element of every block exactly once, under
   the *name* of its block; ascending when there are several blocks *)
Theorem C08_named_summary_sorted_complete : forall (V : Type) ts (d : @edict V) s,
  NoDup ts -> NoDup (map fst d) -> (forall k, In k (map fst d) -> In k ts) ->
  update_self_named ts d = Some s ->
     Permutation (kflatten d) (nzip3 s)
  /\ NoDup (n_ids s)
  /\ (List.length d <> 1%nat -> StronglySorted Z.lt (n_ids s))
  /\ n_id2index s = enumerate (n_ids s)
  /\ List.length (n_types s) = List.length (n_ids s) /\ List.length (n_data s) = List.length (n_ids s).
Proof. intros V. exact (@named_summary_sorted_complete V). Qed.

Theorem C08_named_summary_consistent : forall (V : Type) ts (d : @edict V) s k i t v,
  NoDup ts -> NoDup (map fst d) -> (forall k, In k (map fst d) -> In k ts) ->
  update_self_named ts d = Some s ->
  nth_error (n_ids s) k = Some i -> nth_error (n_types s) k = Some t ->
  nth_error (n_data s) k = Some v ->
     lookup i (n_id2index s) = Some k
  /\ (exists b, dget t d = Some b /\ In (i, v) b)
  /\ (forall k', nth_error (n_ids s) k' = Some i -> k' = k).
Proof. intros V. exact (@named_summary_consistent V). Qed.

Theorem C08_named_summary_complete : forall (V : Type) ts (d : @edict V) s t b i v,
  NoDup ts -> NoDup (map fst d) -> (forall k, In k (map fst d) -> In k ts) ->
  update_self_named ts d = Some s -> In (t, b) d -> In (i, v) b ->
  exists k, nth_error (n_ids s) k = Some i /\ nth_error (n_types s) k = Some t
            /\ nth_error (n_data s) k = Some v.
Proof. intros V. exact (@named_summary_complete V). Qed.

Theorem C08_dict_type_ids : forall (V : Type) ts (d : @edict V) t l,
  NoDup ts -> NoDup (map fst d) -> (forall k, In k (map fst d) -> In k ts) ->
  (In (t, l) (dict_type_ids ts d) <-> exists b, In (t, b) d /\ l = ids b).
Proof. intros V. exact (@dict_type_ids_spec V). Qed.

(* the table of the tree under test (regenerated from its source) *)
Theorem C08_element_types_table : NoDup element_types /\ In "unknown"%string element_types.
Proof. split; [apply nodup_str_NoDup|apply mem_str_In]; vm_compute; reflexivity. Qed.

(* ... hence, for the tree under test: whatever dict the caller constructs the
   collection from and whatever dicts are merged in afterwards, the summary
   lists every element of every block exactly once under a type name that is
   a key of the collection *)
Theorem C08_collection_tree_decided : forall (V : Type) (d0 : @edict V) upds d s,
  build element_types d0 upds = Some d -> update_self_named element_types d = Some s ->
     NoDup (map fst d) /\ (forall k, In k (map fst d) -> In k element_types)
  /\ Permutation (items element_types d) d
  /\ Permutation (kflatten d) (nzip3 s)
  /\ NoDup (n_ids s)
  /\ (List.length d <> 1%nat -> StronglySorted Z.lt (n_ids s))
  /\ n_id2index s = enumerate (n_ids s)
  /\ (forall k i t v, nth_error (n_ids s) k = Some i -> nth_error (n_types s) k = Some t ->
        nth_error (n_data s) k = Some v ->
        lookup i (n_id2index s) = Some k /\ exists b, dget t d = Some b /\ In (i, v) b).
Proof.
  intros V d0 upds d s B U. destruct C08_element_types_table as [Nts Unk].
  destruct (build_ok element_types d0 upds d Unk B) as [Nd Sub].
  destruct (named_summary_sorted_complete element_types d s Nts Nd Sub U) as [P [N [S [E _]]]].
  repeat split; auto.
  - apply (items_perm element_types d Nts Nd Sub).
  - destruct (named_summary_consistent element_types d s k i t v Nts Nd Sub U H H0 H1) as [A _]. exact A.
  - destruct (named_summary_consistent element_types d s k i t v Nts Nd Sub U H H0 H1) as [_ [A _]]. exact A.
Qed.

(* filter_with_ids of the collection of the tree under test: the result holds
   exactly the requested elements that exist, each under the key of its block
   with its own connectivity (no element of any type is dropped or retyped) *)
Theorem C08_collection_filter_tree_decided : forall (V : Type) (d0 : @edict V) upds d s l i t v,
  build element_types d0 upds = Some d -> update_self_named element_types d = Some s ->
  (In (i, (t, v)) (kflatten (efilter_named element_types d l)) <-> In i l /\ In (i, (t, v)) (kflatten d)).
Proof.
  intros V d0 upds d s l i t v B U. destruct C08_element_types_table as [Nts Unk].
  destruct (build_ok element_types d0 upds d Unk B) as [Nd Sub].
  apply (efilter_named_In element_types d s l i t v Nts Nd Sub U).
Qed.

(* non-vacuity: blocks handed in out of table order with interleaved, unsorted,
   large ids, one of them a ragged 'polyhedron' block, then an update *)
Example C08_collection_nonvacuous :
  let d0 : @edict (list Z) :=
    [("polyhedron"%string, [(40, [11; 3; 7; 5; 2]); (12, [13; 17; 19; 23; 29; 31])]);
     ("tet"%string, [(33, [11; 3; 7; 5]); (2000000000000, [3; 7; 5; 2])])]%Z in
  let u : @edict (list Z) := [("hex"%string, [(25, [1; 2; 3; 4; 5; 6; 7; 8])])]%Z in
  exists d s, build element_types d0 [u] = Some d /\ update_self_named element_types d = Some s /\
    n_ids s = [12; 25; 33; 40; 2000000000000]%Z /\
    n_types s = ["polyhedron"; "hex"; "tet"; "polyhedron"; "tet"]%string /\
    keys element_types d = ["tet"; "hex"; "polyhedron"]%string /\
    validate_keys element_types (("pt"%string, []) :: d0) = None /\
    efilter_named element_types d [40; 8; 25]%Z =
      [("hex"%string, [(25, [1; 2; 3; 4; 5; 6; 7; 8])]); ("polyhedron"%string, [(40, [11; 3; 7; 5; 2])])]%Z.
Proof. do 2 eexists. vm_compute. repeat split; reflexivity. Qed.

(* ---- colliding element ids: `_unique_element_ids` + `_update_self` again (Renumber.v) ---- *)
(* the summary is defined exactly for distinct element ids *)
Theorem C08_summary_defined_iff_distinct : forall (V : Type) (bs : @blocks V),
  (exists s, update_self bs = Some s) <-> NoDup (ids (flatten bs)).
Proof. intros V. exact (@update_self_defined V). Qed.

(* one renumbering round: block j keeps its type and rows and has its ids
   shifted by the number of elements in the blocks before it; after k rounds
   by k times that amount *)
Theorem C08_renumber_rounds : forall (V : Type) k (bs : @blocks V),
     map fst (iter_r k bs) = map fst bs
  /\ map (fun b => vals (snd b)) (iter_r k bs) = map (fun b => vals (snd b)) bs
  /\ (forall j t b, nth_error bs j = Some (t, b) ->
        nth_error (iter_r k bs) j = Some (t, shift (Z.of_nat k * size_before j bs) b)).
Proof.
  intros V k bs. destruct (iter_r_shape k bs) as [A [B _]]. split; [exact A|]. split; [exact B|].
  apply iter_r_nth.
Qed.

(* the fuelled `_update_self`: what it returns is the summary of the blocks
   renumbered the least number of times that makes the ids distinct - so that
   summary lists every element of the renumbered blocks exactly once,
   ascending, with id2index = enumerate; with read-only ids (pandas 3) nothing
   is renumbered: the call raises unless the ids are distinct already *)
Theorem C08_duplicate_ids_branch : forall (V : Type) w n (bs bs' : @blocks V) s,
  update_self_fuel w n bs = Some (s, bs') ->
  exists k, (k <= n)%nat /\ bs' = iter_r k bs
    /\ (forall k', (k' < k)%nat -> ~ NoDup (ids (flatten (iter_r k' bs))))
    /\ (w = false -> k = 0%nat)
    /\ Permutation (flatten bs') (zip3 s) /\ NoDup (s_ids s)
    /\ (List.length bs' <> 1%nat -> StronglySorted Z.lt (s_ids s))
    /\ s_id2index s = enumerate (s_ids s).
Proof.
  intros V w n bs bs' s H. destruct (update_self_fuel_sound w n bs bs' s H) as [k [Hk [E [U [W Hmin]]]]].
  destruct (summary_sorted_complete bs' s U) as [P [N [S [I _]]]].
  exists k. split; [exact Hk|]. split; [exact E|]. split.
  - intros k' Hk' ND. apply (update_self_defined (iter_r k' bs)) in ND. destruct ND as [s' Hs'].
    rewrite (Hmin k' Hk') in Hs'. discriminate.
  - repeat split; auto.
Qed.

Theorem C08_duplicate_ids_readonly : forall (V : Type) n (bs : @blocks V),
  update_self_fuel false n bs = option_map (fun s => (s, bs)) (update_self bs).
Proof. intros V. exact (@update_self_fuel_readonly V). Qed.

(* non-vacuity: tet [1;3] and hex [1;2] collide; with writable ids two rounds
   give hex [5;6] (one round gives [3;4], which still collides); read-only: raises *)
Example C08_duplicate_ids_nonvacuous :
  let bs : @blocks (list Z) := [(8%nat, [(1, [1;2;3;4]); (3, [2;3;4;5])]); (14%nat, [(1, [1]); (2, [2])])]%Z in
  update_self bs = None /\
  option_map (fun r => (s_ids (fst r), map (fun b => ids (snd b)) (snd r))) (update_self_fuel true 5 bs)
    = Some ([1; 3; 5; 6], [[1; 3]; [5; 6]])%Z /\
  update_self_fuel false 5 bs = None.
Proof. vm_compute. repeat split; reflexivity. Qed.

(* a missing refresh is a violation: one-step witnesses computed by the model *)
Theorem C08_inv_step_refuted : forall c,
  parent_refreshes_data c && overwrite_uses_setter c && frame_setter_refreshes_id2index c
    && ids_setter_refreshes_id2index c = false ->
  let '(a, o) := witness c in
  Inv a /\ op_wf a o = true /\ ~ Inv (step_total c a o).
Proof. exact inv_step_refuted. Qed.

Theorem C08_iloc_scalar_refuted : forall c, scalar_key_uses_label c = false ->
  let a : attr Z := {| frame := [(5%Z, 7%Z); (0%Z, 8%Z)]; dat := View; shape_len := 2;
                       id2index := None; ts := false |} in
  Inv a /\ slice c a (ByPos1 0) = Some [(0%Z, 7%Z)] /\ lookup 0%Z (frame_view a) = Some 8%Z
  /\ option_map frame (step c a (SliceWrite (ByPos1 0) [9%Z])) = Some [(5%Z, 7%Z); (0%Z, 9%Z)].
Proof. exact iloc_scalar_refuted. Qed.

(* the tree under test (configuration regenerated from its source): either
   every history keeps the invariant and the scalar-key read agrees, or the
   model exhibits the history / read that does not *)
Theorem C08_tree_decided :
  if cfg_ok AttrCfg.cfg
  then (forall (V : Type) (os : list (op V)) a, Inv a -> ops_wf cfg a os = true -> Inv (run cfg a os))
  else (exists (a : attr Z) o, Inv a /\ op_wf a o = true /\ ~ Inv (step_total cfg a o))
       \/ (exists (a : attr Z) k i v, Inv a /\ nth_error (frame a) k = Some (i, v)
                                     /\ slice cfg a (ByPos1 k) <> Some [(i, v)]).
Proof.
  destruct (cfg_ok cfg) eqn:E.
  - intros V. apply inv_reachable. exact E.
  - unfold cfg_ok in E. apply andb_false_iff in E. destruct E as [E|E].
    + left. pose proof (inv_step_refuted cfg E) as H. destruct (witness cfg) as [a o]. eauto.
    + right. destruct (iloc_scalar_refuted cfg E) as [I [S _]].
      eexists. exists 0%nat, 5%Z, 7%Z. split; [exact I|]. split; [reflexivity|].
      rewrite S. discriminate.
Qed.

(* non-vacuity: a three-row attribute with unsorted sparse ids satisfies the
   hypotheses, and a history using every operation is in the model's domain *)
Example C08_nonvacuous :
  exists a : attr Z, mk_attr [30; 10; 2000000000000]%Z [1; 2; 3]%Z true false = Some a /\ Inv a /\
  ops_wf cfg a [SetData [4; 5; 6]%Z; Update [(10, 7); (5, 8)]%Z; SliceWrite (ByIds [5; 30]%Z) [9; 9]%Z;
                SetIds [1; 2; 3; 4]%Z; SetFrame [(8, 1); (6, 2); (7, 3); (9, 4)]%Z;
                Overwrite [0; 0; 0; 0]%Z; SetAttr [1; 1; 1; 1]%Z; OverwriteIds [(3, 3)]%Z] = true.
Proof.
  eexists. split; [reflexivity|]. split; [|vm_compute; reflexivity].
  apply (inv_init [30; 10; 2000000000000]%Z [1; 2; 3]%Z true false); [|reflexivity].
  apply nodupZ_NoDup. reflexivity.
Qed.

Print Assumptions C08_inv_reachable.
Print Assumptions C08_views_agree.
Print Assumptions C08_summary_sorted_complete.
Print Assumptions C08_tree_decided.
Print Assumptions C08_collection_tree_decided.
Print Assumptions C08_collection_filter_exact.
Print Assumptions C08_collection_filter_tree_decided.
Print Assumptions C08_duplicate_ids_branch.
