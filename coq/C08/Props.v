(* C08 — an attribute is one id-keyed table whichever way it is accessed.
   Statements only.  gen/AttrCfg.v is regenerated from /repo on every run. *)
From Coq Require Import ZArith List Bool Arith Permutation Sorted.
Import ListNotations.
From FV.C08 Require Import Table Model Proofs.
From FV.C08.gen Require Import AttrCfg.

(* a freshly constructed attribute (distinct ids) is one table *)
Theorem C08_inv_init : forall (V : Type) l (rows : list V) gen tsf a,
  NoDup l -> mk_attr l rows gen tsf = Some a -> Inv a.
Proof. intros V. exact (@inv_init V). Qed.

(* every public update keeps the representations equal when every refresh is
   in place (cfg_ok) ... *)
Theorem C08_inv_step : forall (V : Type) c (a : attr V) o,
  cfg_ok c = true -> Inv a -> op_wf a o = true -> Inv (step_total c a o).
Proof. intros V. exact (@inv_step V). Qed.

(* ... and, whatever the configuration, every update that does not depend on
   a missing refresh does (safe_op is decided per operation and state) *)
Theorem C08_inv_step_safe : forall (V : Type) c (a : attr V) o,
  Inv a -> op_wf a o = true -> safe_op c a o = true -> Inv (step_total c a o).
Proof. intros V. exact (@inv_step_safe V). Qed.

(* every finite sequence of public updates *)
Theorem C08_inv_reachable : forall (V : Type) c, cfg_ok c = true ->
  forall (os : list (op V)) a, Inv a -> ops_wf c a os = true -> Inv (run c a os).
Proof. intros V. exact (@inv_reachable V). Qed.

Theorem C08_inv_reachable_safe : forall (V : Type) c (os : list (op V)) a,
  Inv a -> ops_wf c a os = true -> ops_safe c a os = true -> Inv (run c a os).
Proof. intros V. exact (@inv_reachable_safe V). Qed.

(* under the invariant every read path describes the table (ids[k], data[k]) *)
Theorem C08_views_agree : forall (V : Type) c (a : attr V) k i v, Inv a ->
  nth_error (ids_view a) k = Some i ->
  (exists d, data_view a = Some d /\ nth_error d k = Some v) ->
     nth_error (frame_view a) k = Some (i, v)
  /\ lookup i (frame_view a) = Some v
  /\ slice c a (ByIds [i]) = Some [(i, v)]
  /\ slice c a (ById1 i) = Some [(i, v)]
  /\ slice c a (ByPos [k]) = Some [(i, v)]
  /\ (scalar_key_uses_label c = true -> slice c a (ByPos1 k) = Some [(i, v)])
  /\ getitem c a [i] = Some [v]
  /\ filter_with_ids a [i] = Some [(i, v)]
  /\ (forall m, id2index a = Some m -> ids2indices a [i] = Some [k]).
Proof. intros V. exact (@views_agree V). Qed.

Theorem C08_lookup_is_positional : forall (V : Type) (a : attr V) i v,
  Inv a -> lookup i (frame_view a) = Some v ->
  exists k d, nth_error (ids_view a) k = Some i /\ data_view a = Some d /\ nth_error d k = Some v.
Proof. intros V. exact (@lookup_is_positional V). Qed.

Theorem C08_selection_reads_agree : forall (V : Type) c (a : attr V) l d,
  Inv a -> data_view a = Some d ->
  let t := combine (ids_view a) d in
     slice c a (ByIds l) = select_ids l t
  /\ getitem c a l = option_map vals (select_ids l t)
  /\ filter_with_ids a l = select_ids l t
  /\ (forall ks, ids2indices a l = Some ks -> slice c a (ByPos ks) = select_ids l t)
  /\ (forall r, select_ids l t = Some r ->
        ids r = l /\ forall i, In i l -> lookup i r = lookup i t).
Proof. intros V. exact (@selection_reads_agree V). Qed.

(* collection-level filter (FEMAttributes.filter_with_ids) = member-wise filter by id *)
Theorem C08_collection_filter_memberwise : forall (V : Type) (ms : list (attr V)) l rs,
  cfilter ms l = Some rs ->
  Forall2 (fun a r => filter_with_ids a l = Some r /\ ids r = l /\
                      forall i, In i l -> lookup i r = lookup i (frame_view a)) ms rs.
Proof. intros V. exact (@cfilter_memberwise V). Qed.

Theorem C08_collection_filter_defined : forall (V : Type) (ms : list (attr V)) l,
  (exists rs, cfilter ms l = Some rs) <-> (forall a, In a ms -> forall i, In i l -> In i (ids_view a)).
Proof. intros V. exact (@cfilter_defined V). Qed.

(* what the row updates write *)
Theorem C08_slice_write_exact : forall (V : Type) c (a : attr V) l rows a',
  Inv a -> NoDup l -> step c a (SliceWrite (ByIds l) rows) = Some a' ->
  ids (frame a') = ids (frame a) /\
  forall i, lookup i (frame a') =
            match lookup i (combine l rows) with Some v => Some v | None => lookup i (frame a) end.
Proof. intros V. exact (@slice_write_exact V). Qed.

Theorem C08_update_exact : forall (V : Type) c (a : attr V) new a',
  Inv a -> NoDup (ids new) -> step c a (Update new) = Some a' ->
  (forall i, lookup i (frame a') =
             match lookup i new with Some v => Some v | None => lookup i (frame a) end)
  /\ (ids new <> ids (frame a) -> StronglySorted Z.lt (ids (frame a'))).
Proof. intros V. exact (@update_exact V). Qed.

(* mixed element collections (FEMElementalAttribute._update_self) *)
Theorem C08_summary_sorted_complete : forall (V : Type) (bs : @blocks V) s,
  update_self bs = Some s ->
     Permutation (flatten bs) (zip3 s)
  /\ NoDup (s_ids s)
  /\ (length bs <> 1%nat -> StronglySorted Z.lt (s_ids s))
  /\ s_id2index s = enumerate (s_ids s)
  /\ length (s_types s) = length (s_ids s) /\ length (s_data s) = length (s_ids s).
Proof. intros V. exact (@summary_sorted_complete V). Qed.

Theorem C08_summary_consistent : forall (V : Type) (bs : @blocks V) s k i t v,
  update_self bs = Some s ->
  nth_error (s_ids s) k = Some i -> nth_error (s_types s) k = Some t ->
  nth_error (s_data s) k = Some v ->
     lookup i (s_id2index s) = Some k
  /\ (exists b, In (t, b) bs /\ In (i, v) b)
  /\ (forall k', nth_error (s_ids s) k' = Some i -> k' = k).
Proof. intros V. exact (@summary_consistent V). Qed.

Theorem C08_summary_complete : forall (V : Type) (bs : @blocks V) s t b i v,
  update_self bs = Some s -> In (t, b) bs -> In (i, v) b ->
  exists k, nth_error (s_ids s) k = Some i /\ nth_error (s_types s) k = Some t
            /\ nth_error (s_data s) k = Some v.
Proof. intros V. exact (@summary_complete V). Qed.

(* generate_elemental_attribute: values stay bound to the ids they were handed
   in with, each in the block of its element's type; blocks ascending by id *)
Theorem C08_generate_elemental_attribute : forall (V W : Type) (bs : list (nat * table W)) (tbl : table V) i t v,
  (In (i, (t, v)) (flatten (egenerate bs tbl)) <->
   lookup i tbl = Some v /\ exists c, In (i, (t, c)) (flatten bs))
  /\ Forall (fun b => StronglySorted Z.lt (ids (snd b))) (egenerate bs tbl).
Proof. intros. split; [apply egenerate_In | apply egenerate_sorted]. Qed.

(* a missing refresh is a violation: one-step witnesses computed by the model *)
Theorem C08_inv_step_refuted : forall c,
  parent_refreshes_data c && overwrite_uses_setter c && frame_setter_refreshes_id2index c
    && ids_setter_refreshes_id2index c = false ->
  let '(a, o) := witness c in
  Inv a /\ op_wf a o = true /\ ~ Inv (step_total c a o).
Proof. exact inv_step_refuted. Qed.

Theorem C08_iloc_scalar_refuted : forall c, scalar_key_uses_label c = false ->
  let a : attr Z := {| frame := [(5%Z, 7%Z); (0%Z, 8%Z)]; dat := View; shape_len := 2;
                       id2index := None; ts := false |} in
  Inv a /\ slice c a (ByPos1 0) = Some [(0%Z, 7%Z)] /\ lookup 0%Z (frame_view a) = Some 8%Z
  /\ option_map frame (step c a (SliceWrite (ByPos1 0) [9%Z])) = Some [(5%Z, 7%Z); (0%Z, 9%Z)].
Proof. exact iloc_scalar_refuted. Qed.

(* the tree under test (configuration regenerated from its source): either
   every history keeps the invariant and the scalar-key read agrees, or the
   model exhibits the history / read that does not *)
Theorem C08_tree_decided :
  if cfg_ok AttrCfg.cfg
  then (forall (V : Type) (os : list (op V)) a, Inv a -> ops_wf cfg a os = true -> Inv (run cfg a os))
  else (exists (a : attr Z) o, Inv a /\ op_wf a o = true /\ ~ Inv (step_total cfg a o))
       \/ (exists (a : attr Z) k i v, Inv a /\ nth_error (frame a) k = Some (i, v)
                                     /\ slice cfg a (ByPos1 k) <> Some [(i, v)]).
Proof.
  destruct (cfg_ok cfg) eqn:E.
  - intros V. apply inv_reachable. exact E.
  - unfold cfg_ok in E. apply andb_false_iff in E. destruct E as [E|E].
    + left. pose proof (inv_step_refuted cfg E) as H. destruct (witness cfg) as [a o]. eauto.
    + right. destruct (iloc_scalar_refuted cfg E) as [I [S _]].
      eexists. exists 0%nat, 5%Z, 7%Z. split; [exact I|]. split; [reflexivity|].
      rewrite S. discriminate.
Qed.

(* non-vacuity: a three-row attribute with unsorted sparse ids satisfies the
   hypotheses, and a history using every operation is in the model's domain *)
Example C08_nonvacuous :
  exists a : attr Z, mk_attr [30; 10; 2000000000000]%Z [1; 2; 3]%Z true false = Some a /\ Inv a /\
  ops_wf cfg a [SetData [4; 5; 6]%Z; Update [(10, 7); (5, 8)]%Z; SliceWrite (ByIds [5; 30]%Z) [9; 9]%Z;
                SetIds [1; 2; 3; 4]%Z; SetFrame [(8, 1); (6, 2); (7, 3); (9, 4)]%Z;
                Overwrite [0; 0; 0; 0]%Z; SetAttr [1; 1; 1; 1]%Z; OverwriteIds [(3, 3)]%Z] = true.
Proof.
  eexists. split; [reflexivity|]. split; [|vm_compute; reflexivity].
  apply (inv_init [30; 10; 2000000000000]%Z [1; 2; 3]%Z true false); [|reflexivity].
  apply nodupZ_NoDup. reflexivity.
Qed.

Print Assumptions C08_inv_reachable.
Print Assumptions C08_views_agree.
Print Assumptions C08_summary_sorted_complete.
Print Assumptions C08_tree_decided.
