(* C08 — proofs about the duplicate-id branch (Renumber.v). *)
From Coq Require Import ZArith List Bool Arith Permutation Sorted Lia.
Import ListNotations.
From FV.C08 Require Import Table Model Proofs Renumber.
Set Default Timeout 120.
Local Open Scope Z_scope.

Section RenumberProofs.
Context {V : Type}.

Lemma shift_vals off (b : table V) : vals (shift off b) = vals b.
Proof. unfold shift, vals. rewrite map_map. reflexivity. Qed.

Lemma shift_ids off (b : table V) : ids (shift off b) = map (fun i => i + off) (ids b).
Proof. unfold shift, ids. rewrite !map_map. reflexivity. Qed.

Lemma shift_length off (b : table V) : length (shift off b) = length b.
Proof. unfold shift. apply map_length. Qed.

Lemma shift_0 (b : table V) : shift 0 b = b.
Proof.
  unfold shift. induction b as [|[i v] r IH]; simpl; [reflexivity|]. rewrite IH, Z.add_0_r. reflexivity.
Qed.

Lemma shift_shift a c (b : table V) : shift a (shift c b) = shift (c + a) b.
Proof.
  unfold shift. rewrite map_map. apply map_ext. intros [i v]. simpl. rewrite Z.add_assoc. reflexivity.
Qed.

(* renumbering keeps the block structure: same types in the same order, same
   rows, same sizes *)
Lemma renumber_from_shape off (bs : @blocks V) :
  map fst (renumber_from off bs) = map fst bs /\
  map (fun b => vals (snd b)) (renumber_from off bs) = map (fun b => vals (snd b)) bs /\
  map (fun b => length (snd b)) (renumber_from off bs) = map (fun b => length (snd b)) bs.
Proof.
  revert off. induction bs as [|[t b] r IH]; intros off; simpl; [auto|].
  destruct (IH (off + Z.of_nat (length b))) as [A [B C]].
  rewrite A, B, C, shift_vals, shift_length. auto.
Qed.

Definition size_before (j : nat) (bs : @blocks V) : Z :=
  Z.of_nat (length (flat_map (fun b => snd b) (firstn j bs))).

(* block j is shifted by the offset plus the number of elements in the blocks before it *)
Lemma renumber_from_nth off (bs : @blocks V) j t b :
  nth_error bs j = Some (t, b) ->
  nth_error (renumber_from off bs) j = Some (t, shift (off + size_before j bs) b).
Proof.
  revert off j. induction bs as [|[t0 b0] r IH]; intros off j; [destruct j; discriminate|].
  destruct j; simpl.
  - intros H; inversion H; subst. unfold size_before. simpl. rewrite Z.add_0_r. reflexivity.
  - intros H. rewrite (IH _ _ H). unfold size_before. simpl. rewrite app_length, Nat2Z.inj_add.
    f_equal. f_equal. f_equal. lia.
Qed.

Lemma iter_r_shape k : forall (bs : @blocks V),
  map fst (iter_r k bs) = map fst bs /\
  map (fun b => vals (snd b)) (iter_r k bs) = map (fun b => vals (snd b)) bs /\
  map (fun b => length (snd b)) (iter_r k bs) = map (fun b => length (snd b)) bs.
Proof.
  induction k as [|k IH]; intros bs; simpl; [auto|].
  destruct (IH (renumber bs)) as [A [B C]]. destruct (renumber_from_shape 0 bs) as [A' [B' C']].
  unfold renumber in *. rewrite A, B, C. auto.
Qed.

Lemma size_before_shape j (bs bs' : @blocks V) :
  map (fun b => length (snd b)) bs' = map (fun b => length (snd b)) bs ->
  size_before j bs' = size_before j bs.
Proof.
  unfold size_before. intros H. f_equal. revert bs' j H.
  induction bs as [|x r IH]; intros [|y r'] j H; try discriminate; [reflexivity|].
  simpl in H. inversion H. destruct j; simpl; [reflexivity|]. rewrite !app_length. f_equal; auto.
Qed.

(* after k rounds block j has been shifted k times by the same amount *)
Lemma iter_r_nth k : forall (bs : @blocks V) j t b,
  nth_error bs j = Some (t, b) ->
  nth_error (iter_r k bs) j = Some (t, shift (Z.of_nat k * size_before j bs) b).
Proof.
  induction k as [|k IH]; intros bs j t b H.
  - simpl. rewrite H, shift_0. reflexivity.
  - simpl iter_r. pose proof (renumber_from_nth 0 bs j t b H) as H1. fold (renumber bs) in H1.
    rewrite (IH _ _ _ _ H1). f_equal. f_equal.
    rewrite (size_before_shape j bs (renumber bs)) by apply renumber_from_shape.
    rewrite shift_shift. f_equal. rewrite Nat2Z.inj_succ. lia.
Qed.

(* what the fuelled _update_self returns *)
Theorem update_self_fuel_sound w n : forall (bs bs' : @blocks V) s,
  update_self_fuel w n bs = Some (s, bs') ->
  exists k, (k <= n)%nat /\ bs' = iter_r k bs /\ update_self bs' = Some s /\
            (w = false -> k = 0%nat) /\
            (forall k', (k' < k)%nat -> update_self (iter_r k' bs) = None).
Proof.
  assert (Z0 : forall (bs : @blocks V) s m, update_self bs = Some s ->
            exists k, (k <= m)%nat /\ bs = iter_r k bs /\ update_self bs = Some s /\
                      (w = false -> k = 0%nat) /\
                      (forall k', (k' < k)%nat -> update_self (iter_r k' bs) = None)).
  { intros bs s m U. exists 0%nat. split; [lia|]. split; [reflexivity|]. split; [exact U|].
    split; [reflexivity|]. intros k' Hk. exfalso. lia. }
  induction n as [|n IH]; intros bs bs' s H; simpl in H.
  - destruct (update_self bs) eqn:U.
    + inversion H; subst. apply Z0. exact U.
    + destruct w; discriminate.
  - destruct (update_self bs) eqn:U.
    + inversion H; subst. apply Z0. exact U.
    + destruct w; [|discriminate]. destruct (IH _ _ _ H) as [k [Hk [E [U' [_ Hmin]]]]].
      exists (S k). split; [lia|]. split; [exact E|]. split; [exact U'|]. split; [discriminate|].
      intros k' Hk'. destruct k'; simpl; [exact U|]. apply Hmin. lia.
Qed.

(* read-only ids (pandas 3): the branch raises, i.e. the summary exists iff
   the ids are distinct, and nothing is renumbered *)
Theorem update_self_fuel_readonly n (bs : @blocks V) :
  update_self_fuel false n bs = option_map (fun s => (s, bs)) (update_self bs).
Proof. destruct n; simpl; destruct (update_self bs); reflexivity. Qed.

Theorem update_self_defined (bs : @blocks V) :
  (exists s, update_self bs = Some s) <-> NoDup (ids (flatten bs)).
Proof.
  unfold update_self. destruct (nodupZ (ids (flatten bs))) eqn:E; simpl.
  - split; [intros _; apply nodupZ_NoDup; exact E|eauto].
  - split; [intros [s H]; discriminate|]. intros H. apply nodupZ_NoDup in H. congruence.
Qed.

End RenumberProofs.
