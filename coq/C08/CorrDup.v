(* C08 — correspondence evaluator for collections whose blocks have colliding
   element ids (the `_unique_element_ids` branch).  Definitions only. *)
From Coq Require Import String.
From Coq Require Import ZArith List Bool Arith.
Import ListNotations.
From FV.C08 Require Import Table Model ElemModel Renumber Corr.
From FV.C08.gen Require Import ElemTypes.

Record dobs := {
  d_raised : bool;                         (* the constructor raised *)
  d_ids : list Z; d_types : list string; d_data : list row;   (* the summary *)
  d_block_ids : list (string * list Z)     (* ids of the caller's blocks afterwards, items() order *)
}.

(* writable: does `block.ids += offset` work in the environment at hand (probed by the harness) *)
Definition check_dup (writable : bool) (fuel : nat) (d0 : @edict row) (o : dobs) : list nat :=
  match build element_types d0 [] with
  | None => [98%nat]
  | Some d =>
    match update_self_fuel writable fuel (to_blocks element_types d) with
    | None => if d_raised o then [] else [90%nat]
    | Some (s0, bs') =>
      if d_raised o then [90%nat] else
      let s := name_summary element_types s0 in
      (if zs_eqb (n_ids s) (d_ids o) then [] else [1%nat]) ++
      (if strs_eqb (n_types s) (d_types o) then [] else [2%nat]) ++
      (if rows_eqb (n_data s) (d_data o) then [] else [3%nat]) ++
      (if list_eqb' (fun a b => String.eqb (fst a) (fst b) && zs_eqb (snd a) (snd b))
            (map (fun kb => (type_name element_types (fst kb), ids (snd kb))) bs') (d_block_ids o)
       then [] else [4%nat])
    end
  end.
