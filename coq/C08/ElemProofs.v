(* C08 — proofs about the dict layer of FEMElementalAttribute (ElemModel.v) and
   about filter_with_ids of a collection (Model.efilter). *)
From Coq Require Import String.
From Coq Require Import ZArith List Bool Arith Permutation Sorted Lia.
Import ListNotations.
From FV.C08 Require Import Table Model Proofs ElemModel.

Lemma mem_str_In t l : mem_str t l = true <-> In t l.
Proof.
  induction l as [|x r IH]; simpl; [intuition discriminate|].
  rewrite orb_true_iff, IH, String.eqb_eq. intuition congruence.
Qed.

Lemma nodup_str_NoDup l : nodup_str l = true <-> NoDup l.
Proof.
  induction l as [|x r IH]; simpl.
  - split; [constructor|reflexivity].
  - rewrite andb_true_iff, negb_true_iff, IH. split.
    + intros [H1 H2]. constructor; auto. intros H. apply mem_str_In in H. congruence.
    + intros H. inversion H; subst. split; auto.
      destruct (mem_str x r) eqn:E; auto. apply mem_str_In in E. contradiction.
Qed.

Section NamedProofs.
Context {V : Type}.
Variable ts : list string.
Local Notation edict := (@edict V).

(* ------------------------------------------------------------- the dict *)
Lemma dget_In t b (d : edict) : dget t d = Some b -> In (t, b) d.
Proof.
  induction d as [|[k b'] r IH]; simpl; [discriminate|].
  destruct (String.eqb t k) eqn:E.
  - apply String.eqb_eq in E. intros H; inversion H; subst. auto.
  - auto.
Qed.

Lemma In_dget t b (d : edict) : NoDup (map fst d) -> In (t, b) d -> dget t d = Some b.
Proof.
  induction d as [|[k b'] r IH]; simpl; [intros _ []|].
  intros ND [H|H]; inversion ND; subst.
  - inversion H; subst. rewrite String.eqb_refl. reflexivity.
  - destruct (String.eqb t k) eqn:E; auto.
    apply String.eqb_eq in E. subst. exfalso. apply H2. apply in_map_iff. exists (k, b). auto.
Qed.

Lemma items_In t b (d : edict) : In (t, b) (items ts d) <-> In t ts /\ dget t d = Some b.
Proof.
  unfold items. rewrite in_flat_map. split.
  - intros [t' [Ht H]]. destruct (dget t' d) eqn:E; [|destruct H].
    destruct H as [H|[]]. inversion H; subst. auto.
  - intros [Ht H]. exists t. split; auto. rewrite H. simpl; auto.
Qed.

Lemma keys_filter (d : edict) :
  keys ts d = filter (fun t => match dget t d with Some _ => true | None => false end) ts.
Proof.
  unfold keys, items. induction ts as [|t r IH]; simpl; [reflexivity|].
  rewrite map_app, IH. destruct (dget t d); reflexivity.
Qed.

Lemma NoDup_fst_NoDup {A B} (l : list (A * B)) : NoDup (map fst l) -> NoDup l.
Proof.
  induction l as [|x r IH]; simpl; intros H; [constructor|]. inversion H; subst.
  constructor; auto. intros Hin. apply H2. apply in_map. exact Hin.
Qed.

(* items() lists every block of the dict exactly once: this needs the table to
   be duplicate free and the keys to be in the table (_validate_keys) *)
Theorem items_perm (d : edict) :
  NoDup ts -> NoDup (map fst d) -> (forall k, In k (map fst d) -> In k ts) ->
  Permutation (items ts d) d /\ NoDup (keys ts d).
Proof.
  intros Nts Nd Sub.
  assert (NK : NoDup (keys ts d)) by (rewrite keys_filter; apply NoDup_filter; exact Nts).
  split; auto. apply NoDup_Permutation.
  - apply NoDup_fst_NoDup. exact NK.
  - apply NoDup_fst_NoDup. exact Nd.
  - intros [t b]. rewrite items_In. split.
    + intros [_ H]. apply dget_In. exact H.
    + intros H. split; [apply Sub; apply in_map_iff; exists (t, b); auto|apply In_dget; auto].
Qed.

(* what _validate_keys lets through *)
Theorem validate_keys_spec (d d' : edict) :
  validate_keys ts d = Some d' -> In "unknown"%string ts ->
     (forall k, In k (map fst d') -> In k ts)
  /\ map snd d' = map snd d
  /\ (NoDup (map fst d) -> NoDup (map fst d'))
  /\ ((forall k, In k (map fst d) -> In k ts) -> d' = d).
Proof.
  unfold validate_keys. intros H U.
  destruct (forallb (fun kb => mem_str (fst kb) ts) d) eqn:E.
  - inversion H; subst. rewrite forallb_forall in E. repeat split; auto.
    intros k Hk. apply in_map_iff in Hk. destruct Hk as [[k' b] [Ek Hk]]. simpl in Ek; subst.
    apply mem_str_In. apply (E _ Hk).
  - destruct d as [|[k b] [|x r]]; try discriminate. inversion H; subst. repeat split.
    + intros k' [Hk|[]]. subst. exact U.
    + intros _. simpl. constructor; [intros []|constructor].
    + intros Sub. simpl in E. rewrite andb_true_r in E.
      assert (mem_str k ts = true) by (apply mem_str_In; apply Sub; simpl; auto). congruence.
Qed.

(* validate_keys raises exactly when several blocks are handed in and one of
   their keys is not in the table *)
Theorem validate_keys_raises (d : edict) :
  validate_keys ts d = None <->
  (exists k, In k (map fst d) /\ ~ In k ts) /\ (List.length d <> 1)%nat.
Proof.
  unfold validate_keys. destruct (forallb (fun kb => mem_str (fst kb) ts) d) eqn:E.
  - split; [discriminate|]. intros [[k [Hk Hn]] _]. exfalso. apply Hn.
    rewrite forallb_forall in E. apply in_map_iff in Hk. destruct Hk as [[k' b] [Ek Hk]].
    simpl in Ek; subst. apply mem_str_In. apply (E _ Hk).
  - assert (Hex : exists k, In k (map fst d) /\ ~ In k ts).
    { clear - E. induction d as [|[k b] r IH]; simpl in *; [discriminate|].
      apply andb_false_iff in E. destruct E as [E|E].
      - exists k. split; auto. intros H. apply mem_str_In in H. congruence.
      - destruct (IH E) as [k' [H1 H2]]. exists k'. auto. }
    destruct d as [|[k b] [|x r]]; simpl.
    + discriminate.
    + split; [discriminate|]. intros [_ H]. congruence.
    + split; [intros _; split; [exact Hex|simpl; discriminate]|reflexivity].
Qed.

(* dict.update: keys stay distinct; the new block is found under its key *)
Lemma dset_keys k b (d : edict) :
  forall k', In k' (map fst (dset k b d)) <-> k' = k \/ In k' (map fst d).
Proof.
  induction d as [|[k0 b0] r IH]; simpl; intros k'; [intuition|].
  destruct (String.eqb k k0) eqn:E; simpl.
  - apply String.eqb_eq in E. subst. intuition.
  - rewrite IH. intuition.
Qed.

Lemma dset_NoDup k b (d : edict) : NoDup (map fst d) -> NoDup (map fst (dset k b d)).
Proof.
  induction d as [|[k0 b0] r IH]; simpl; intros H.
  - constructor; [intros []|constructor].
  - inversion H; subst. destruct (String.eqb k k0) eqn:E; simpl.
    + apply String.eqb_eq in E. subst. constructor; auto.
    + constructor; auto. rewrite dset_keys. intros [H1|H1]; [|contradiction].
      subst. rewrite String.eqb_refl in E. discriminate.
Qed.

Lemma dget_dset k b (d : edict) t :
  dget t (dset k b d) = if String.eqb t k then Some b else dget t d.
Proof.
  induction d as [|[k0 b0] r IH]; simpl.
  - reflexivity.
  - destruct (String.eqb k k0) eqn:E; simpl.
    + apply String.eqb_eq in E. subst. destruct (String.eqb t k0); reflexivity.
    + rewrite IH. destruct (String.eqb t k0) eqn:E0; auto.
      destruct (String.eqb t k) eqn:E1; auto.
      apply String.eqb_eq in E0, E1. subst. rewrite String.eqb_refl in E. discriminate.
Qed.

Theorem dupdate_spec (new d : edict) :
  NoDup (map fst d) ->
     NoDup (map fst (dupdate d new))
  /\ (forall k, In k (map fst (dupdate d new)) <-> In k (map fst d) \/ In k (map fst new))
  /\ (NoDup (map fst new) -> forall t,
        dget t (dupdate d new) = match dget t new with Some b => Some b | None => dget t d end).
Proof.
  unfold dupdate. revert d. induction new as [|[k b] r IH]; simpl; intros d Nd.
  - split; [exact Nd|]. split; [intros k; tauto|]. intros _ t. reflexivity.
  - destruct (IH (dset k b d) (dset_NoDup k b d Nd)) as [A [B C]]. split; [exact A|]. split.
    + intros k'. rewrite B, dset_keys. intuition.
    + intros Nn t. inversion Nn; subst. rewrite (C H2 t), dget_dset.
      destruct (String.eqb t k) eqn:E1; [|destruct (dget t r); reflexivity].
      destruct (dget t r) eqn:E; [|reflexivity].
      apply String.eqb_eq in E1. subst. exfalso. apply H1.
      apply dget_In in E. apply in_map_iff. exists (k, t0). auto.
Qed.

(* -------------------------------------- names <-> positions in the table *)
Lemma items_from_names pre l (d : edict) :
  map (fun kb => (nth (fst kb) (pre ++ l) ""%string, snd kb)) (items_from (length pre) l d)
  = flat_map (fun t => match dget t d with Some b => [(t, b)] | None => [] end) l.
Proof.
  revert pre. induction l as [|t r IH]; intros pre; simpl; [reflexivity|].
  rewrite map_app. f_equal.
  - destruct (dget t d); simpl; [|reflexivity]. rewrite app_nth2, Nat.sub_diag; [reflexivity|lia].
  - specialize (IH (pre ++ [t])). rewrite <- app_assoc in IH. simpl in IH.
    rewrite app_length in IH. simpl in IH. rewrite Nat.add_1_r in IH. exact IH.
Qed.

Lemma to_blocks_names (d : edict) : name_blocks ts (to_blocks ts d) = items ts d.
Proof. exact (items_from_names [] ts d). Qed.

Lemma kflatten_blocks (bs : @blocks V) : kflatten bs = flatten bs.
Proof. reflexivity. Qed.

Definition rename (x : Z * (nat * V)) : Z * (string * V) :=
  (fst x, (type_name ts (fst (snd x)), snd (snd x))).

Lemma kflatten_names (bs : @blocks V) : map rename (flatten bs) = kflatten (name_blocks ts bs).
Proof.
  unfold flatten, kflatten, name_blocks. induction bs as [|[k b] r IH]; simpl; [reflexivity|].
  rewrite map_app, IH. f_equal. rewrite map_map. reflexivity.
Qed.

Lemma nzip3_names (s : @summary V) :
  length (s_types s) = length (s_ids s) -> length (s_data s) = length (s_ids s) ->
  nzip3 (name_summary ts s) = map rename (zip3 s).
Proof.
  unfold nzip3, zip3, name_summary; simpl.
  generalize (s_ids s) (s_types s) (s_data s).
  induction l as [|i l IH]; intros [|t l0] [|v l1]; simpl; try discriminate; try reflexivity.
  intros H1 H2. rewrite IH by congruence. reflexivity.
Qed.

Lemma kflatten_In {K} (bs : list (K * table V)) i t v :
  In (i, (t, v)) (kflatten bs) <-> exists b, In (t, b) bs /\ In (i, v) b.
Proof.
  unfold kflatten. rewrite in_flat_map. split.
  - intros [[t' b] [Hb H]]. simpl in H. apply in_map_iff in H. destruct H as [[j w] [E Hw]].
    simpl in E. inversion E; subst. eauto.
  - intros [b [Hb H]]. exists (t, b). split; auto. simpl. apply in_map_iff. exists (i, v). auto.
Qed.

Lemma kflatten_perm {K} (a b : list (K * table V)) :
  Permutation a b -> Permutation (kflatten a) (kflatten b).
Proof. intros P. unfold kflatten. apply Permutation_flat_map. exact P. Qed.

Lemma nth_error_combine3 {A B C} (la : list A) (lb : list B) (lc : list C) k a b c :
  nth_error la k = Some a -> nth_error lb k = Some b -> nth_error lc k = Some c ->
  nth_error (combine la (combine lb lc)) k = Some (a, (b, c)).
Proof.
  revert lb lc k. induction la as [|x la IH]; intros [|y lb] [|z lc] [|k]; simpl; try discriminate.
  - intros A1 B1 C1; inversion A1; inversion B1; inversion C1; subst; reflexivity.
  - apply IH.
Qed.

Lemma nth_error_combine3_inv {A B C} (la : list A) (lb : list B) (lc : list C) k a b c :
  nth_error (combine la (combine lb lc)) k = Some (a, (b, c)) ->
  nth_error la k = Some a /\ nth_error lb k = Some b /\ nth_error lc k = Some c.
Proof.
  revert lb lc k. induction la as [|x la IH]; intros lb lc k; [destruct k; discriminate|].
  destruct lb as [|y lb]; [destruct k; discriminate|].
  destruct lc as [|z lc]; [destruct k; discriminate|].
  destruct k; simpl.
  - intros E; inversion E; subst; auto.
  - apply IH.
Qed.

(* _update_self on a dict with distinct, valid keys: every element of every
   block of the dict is listed exactly once under the key of its block,
   ascending by id when there are several blocks *)
Theorem named_summary_sorted_complete (d : edict) (s : @nsummary V) :
  NoDup ts -> NoDup (map fst d) -> (forall k, In k (map fst d) -> In k ts) ->
  update_self_named ts d = Some s ->
     Permutation (kflatten d) (nzip3 s)
  /\ NoDup (n_ids s)
  /\ (List.length d <> 1%nat -> StronglySorted Z.lt (n_ids s))
  /\ n_id2index s = enumerate (n_ids s)
  /\ length (n_types s) = length (n_ids s) /\ length (n_data s) = length (n_ids s).
Proof.
  intros Nts Nd Sub H. unfold update_self_named in H.
  destruct (update_self (to_blocks ts d)) as [s0|] eqn:U; [|discriminate].
  simpl in H. inversion H; subst; clear H.
  destruct (summary_sorted_complete _ _ U) as [P [ND [Srt [E [L1 L2]]]]].
  destruct (items_perm d Nts Nd Sub) as [PI _].
  repeat split; simpl; auto.
  - rewrite nzip3_names by assumption.
    eapply Permutation_trans; [|apply Permutation_map; exact P].
    rewrite kflatten_names, to_blocks_names. apply kflatten_perm. apply Permutation_sym. exact PI.
  - intros Hl. apply Srt. intros Hb. apply Hl.
    rewrite <- (Permutation_length PI), <- to_blocks_names. unfold name_blocks. rewrite map_length. exact Hb.
  - rewrite map_length. exact L1.
Qed.

(* position k of the summary holds (i, t, v)  =>  t is a key of the dict, the
   block under t holds (i, v), the id->position map sends i to k, and i is
   listed nowhere else *)
Theorem named_summary_consistent (d : edict) (s : @nsummary V) k i t v :
  NoDup ts -> NoDup (map fst d) -> (forall k, In k (map fst d) -> In k ts) ->
  update_self_named ts d = Some s ->
  nth_error (n_ids s) k = Some i -> nth_error (n_types s) k = Some t ->
  nth_error (n_data s) k = Some v ->
     lookup i (n_id2index s) = Some k
  /\ (exists b, dget t d = Some b /\ In (i, v) b)
  /\ (forall k', nth_error (n_ids s) k' = Some i -> k' = k).
Proof.
  intros Nts Nd Sub H Hi Ht Hv.
  destruct (named_summary_sorted_complete d s Nts Nd Sub H) as [P [ND [_ [E _]]]].
  repeat split.
  - rewrite E, lookup_enumerate. apply nth_pos; auto.
  - assert (Hin : In (i, (t, v)) (kflatten d)).
    { eapply Permutation_in; [apply Permutation_sym; exact P|].
      eapply nth_error_In with (n := k). apply nth_error_combine3; assumption. }
    apply kflatten_In in Hin. destruct Hin as [b [Hb Hv']]. exists b. split; auto.
    apply In_dget; auto.
  - intros k' Hk'. apply nth_pos in Hk'; auto. apply nth_pos in Hi; auto. congruence.
Qed.

(* conversely every element of every block of the dict is listed, under the
   key of its block *)
Theorem named_summary_complete (d : edict) (s : @nsummary V) t b i v :
  NoDup ts -> NoDup (map fst d) -> (forall k, In k (map fst d) -> In k ts) ->
  update_self_named ts d = Some s -> In (t, b) d -> In (i, v) b ->
  exists k, nth_error (n_ids s) k = Some i /\ nth_error (n_types s) k = Some t
            /\ nth_error (n_data s) k = Some v.
Proof.
  intros Nts Nd Sub H Hb Hv.
  destruct (named_summary_sorted_complete d s Nts Nd Sub H) as [P _].
  assert (Hin : In (i, (t, v)) (nzip3 s)).
  { eapply Permutation_in; [exact P|]. apply kflatten_In. eauto. }
  destruct (In_nth_error _ _ Hin) as [k Hk]. exists k.
  apply nth_error_combine3_inv. exact Hk.
Qed.

(* dict_type_ids: one entry per block of the dict, key -> the ids of that block *)
Theorem dict_type_ids_spec (d : edict) t l :
  NoDup ts -> NoDup (map fst d) -> (forall k, In k (map fst d) -> In k ts) ->
  (In (t, l) (dict_type_ids ts d) <-> exists b, In (t, b) d /\ l = ids b).
Proof.
  intros Nts Nd Sub. unfold dict_type_ids. rewrite in_map_iff.
  destruct (items_perm d Nts Nd Sub) as [P _]. split.
  - intros [[t' b] [E Hb]]. simpl in E. inversion E; subst. exists b. split; auto.
    eapply Permutation_in; [exact P|exact Hb].
  - intros [b [Hb E]]. subst. exists (t, b). split; auto.
    eapply Permutation_in; [apply Permutation_sym; exact P|exact Hb].
Qed.

(* FEMElementalAttribute(name, d0) followed by any number of .update(u): the
   dict keeps distinct keys, all of them in the table *)
Definition dict_ok (d : edict) : Prop :=
  NoDup (map fst d) /\ forall k, In k (map fst d) -> In k ts.

Lemma build_step_ok (a : edict) u d :
  In "unknown"%string ts -> dict_ok a ->
  option_map (dupdate a) (validate_keys ts u) = Some d -> dict_ok d.
Proof.
  intros U [Na Sa] H. destruct (validate_keys ts u) as [v|] eqn:E; [|discriminate].
  simpl in H. inversion H; subst; clear H.
  destruct (validate_keys_spec u v E U) as [Sv _].
  destruct (dupdate_spec v a Na) as [A [B _]]. split; auto.
  intros k Hk. apply B in Hk. destruct Hk; auto.
Qed.

Theorem build_ok (d0 : edict) upds d :
  In "unknown"%string ts -> build ts d0 upds = Some d -> dict_ok d.
Proof.
  intros U. unfold build. destruct (validate_keys ts d0) as [v|] eqn:E; [|discriminate].
  assert (H0 : dict_ok (dupdate [] v)).
  { apply (build_step_ok [] d0); auto; [split; [constructor|intros k []]|rewrite E; reflexivity]. }
  revert H0. generalize (dupdate [] v). clear E v d0.
  induction upds as [|u r IH]; simpl; intros a Ha H.
  - inversion H; subst. exact Ha.
  - destruct (option_map (dupdate a) (validate_keys ts u)) as [a'|] eqn:E.
    + apply (IH a'); auto. apply (build_step_ok a u); auto.
    + exfalso. clear - H. induction r as [|x r IHr]; simpl in H; [discriminate|auto].
Qed.

End NamedProofs.

(* --------------------------------------------- filter_with_ids (efilter) *)
Section Filter.
Context {V : Type}.

Definition epick (flat : table (nat * V)) (t : nat) (i : Z) : table V :=
  match lookup i flat with
  | Some (t', v) => if Nat.eqb t' t then [(i, v)] else []
  | None => []
  end.

Lemma epick_In flat t l i v :
  In (i, v) (flat_map (epick flat t) l) <-> In i l /\ lookup i flat = Some (t, v).
Proof.
  rewrite in_flat_map. unfold epick. split.
  - intros [j [Hj H]]. destruct (lookup j flat) as [[t' w]|] eqn:L; [|destruct H].
    destruct (Nat.eqb t' t) eqn:E; [|destruct H]. apply Nat.eqb_eq in E. subst.
    destruct H as [H|[]]. inversion H; subst. auto.
  - intros [Hi L]. exists i. split; auto. rewrite L, Nat.eqb_refl. simpl; auto.
Qed.

Lemma efilter_unfold (bs : @blocks V) l :
  efilter bs l =
  filter (fun b => negb (Nat.eqb (length (snd b)) 0))
    (map (fun b => (fst b, flat_map (epick (flatten bs) (fst b))
                             (filter (fun i => memZ i (ids (flatten bs))) l))) bs).
Proof. reflexivity. Qed.

(* the filtered collection holds exactly the requested elements that exist,
   each with its own type and connectivity *)
Theorem efilter_In (bs : @blocks V) l i t v :
  NoDup (ids (flatten bs)) ->
  (In (i, (t, v)) (flatten (efilter bs l)) <-> In i l /\ In (i, (t, v)) (flatten bs)).
Proof.
  intros ND. rewrite efilter_unfold. set (flat := flatten bs).
  set (present := filter (fun i => memZ i (ids flat)) l).
  rewrite flatten_In. split.
  - intros [b [Hb Hv]]. apply filter_In in Hb. destruct Hb as [Hb _].
    apply in_map_iff in Hb. destruct Hb as [[t0 b0] [E Hb0]]. simpl in E. inversion E; subst; clear E.
    apply epick_In in Hv. destruct Hv as [Hi L]. unfold present in Hi. apply filter_In in Hi.
    split; [tauto|]. apply lookup_In. exact L.
  - intros [Hi Hin]. assert (L : lookup i flat = Some (t, v)) by (apply In_lookup; auto).
    assert (Hp : In i present).
    { unfold present. apply filter_In. split; auto. apply memZ_In. apply in_map_iff.
      exists (i, (t, v)). auto. }
    assert (Hv : In (i, v) (flat_map (epick flat t) present)) by (apply epick_In; auto).
    unfold flat in Hin. apply flatten_In in Hin. destruct Hin as [b0 [Hb0 _]].
    exists (flat_map (epick flat t) present). split; auto.
    apply filter_In. split.
    + apply in_map_iff. exists (t, b0). auto.
    + simpl. apply negb_true_iff, Nat.eqb_neq. intros Hl. apply length_zero_iff_nil in Hl.
      rewrite Hl in Hv. destruct Hv.
Qed.

Lemma epick_ids flat t l : ids (flat_map (epick flat t) l) =
  filter (fun i => match lookup i flat with Some (t', _) => Nat.eqb t' t | None => false end) l.
Proof.
  induction l as [|i l IH]; simpl; [reflexivity|]. unfold ids in *. rewrite map_app, IH.
  unfold epick. destruct (lookup i flat) as [[t' w]|]; [|reflexivity].
  destruct (Nat.eqb t' t); reflexivity.
Qed.

Lemma flatten_filter_nonempty (bs : @blocks V) :
  flatten (filter (fun b => negb (Nat.eqb (length (snd b)) 0)) bs) = flatten bs.
Proof.
  unfold flatten. induction bs as [|[t b] r IH]; simpl; [reflexivity|].
  destruct b as [|x b]; simpl; [exact IH|]. rewrite IH. reflexivity.
Qed.

Lemma NoDup_app_disj {A} (l1 l2 : list A) : NoDup l1 -> NoDup l2 ->
  (forall x, In x l1 -> In x l2 -> False) -> NoDup (l1 ++ l2).
Proof.
  induction l1 as [|x r IH]; simpl; intros N1 N2 D; auto. inversion N1; subst.
  constructor.
  - rewrite in_app_iff. intros [H|H]; [contradiction|]. apply (D x); auto.
  - apply IH; auto. intros y Hy. apply (D y). auto.
Qed.

(* each requested element is listed exactly once in the result (so the
   summary of the filtered collection is defined), every block in the order
   requested *)
Theorem efilter_nodup (bs : @blocks V) l :
  NoDup l -> NoDup (map fst bs) -> NoDup (ids (flatten (efilter bs l))).
Proof.
  intros Nl Nb. rewrite efilter_unfold, flatten_filter_nonempty.
  set (flat := flatten bs). set (present := filter (fun i => memZ i (ids flat)) l).
  assert (Np : NoDup present) by (apply NoDup_filter; exact Nl).
  clearbody flat present. clear Nl l.
  induction bs as [|[t b] r IH]; simpl; [constructor|].
  unfold flatten in *. simpl. unfold ids in *. rewrite map_app. inversion Nb; subst.
  apply NoDup_app_disj.
  - rewrite map_map. simpl. change (NoDup (ids (flat_map (epick flat t) present))).
    rewrite epick_ids. apply NoDup_filter. exact Np.
  - apply IH. exact H2.
  - intros i H1' H2'. rewrite map_map in H1'. simpl in H1'.
    change (In i (ids (flat_map (epick flat t) present))) in H1'. rewrite epick_ids in H1'.
    apply filter_In in H1'. destruct H1' as [_ T1].
    apply in_map_iff in H2'. destruct H2' as [[j [t2 v2]] [E H2']]. simpl in E. subst j.
    apply in_flat_map in H2'. destruct H2' as [[t3 b3] [Hb3 Hx]]. simpl in Hx.
    apply in_map_iff in Hx. destruct Hx as [[j w] [E Hw]]. simpl in E. inversion E; subst; clear E.
    apply in_map_iff in Hb3. destruct Hb3 as [[t4 b4] [E Hb4]]. simpl in E. inversion E; subst; clear E.
    apply epick_In in Hw. destruct Hw as [_ L]. rewrite L in T1. apply Nat.eqb_eq in T1. subst.
    apply H1. apply in_map_iff. exists (t, b4). auto.
Qed.

Theorem efilter_block_order (bs : @blocks V) l t b :
  In (t, b) (efilter bs l) ->
  ids b = filter (fun i => match lookup i (flatten bs) with
                           | Some (t', _) => Nat.eqb t' t | None => false end)
                 (filter (fun i => memZ i (ids (flatten bs))) l).
Proof.
  rewrite efilter_unfold. intros H. apply filter_In in H. destruct H as [H _].
  apply in_map_iff in H. destruct H as [[t0 b0] [E _]]. simpl in E. inversion E; subst.
  apply epick_ids.
Qed.

End Filter.

(* ------------------------------- filter_with_ids on the dict of named blocks *)
Section FilterNamed.
Context {V : Type}.
Variable ts : list string.

Lemma update_self_nodup (bs : @blocks V) s : update_self bs = Some s -> NoDup (ids (flatten bs)).
Proof.
  unfold update_self. destruct (nodupZ (ids (flatten bs))) eqn:E; simpl; [|discriminate].
  intros _. apply nodupZ_NoDup. exact E.
Qed.

Lemma In_rename (X : table (nat * V)) i t v :
  In (i, (t, v)) (map (rename ts) X) <-> exists k, t = type_name ts k /\ In (i, (k, v)) X.
Proof.
  rewrite in_map_iff. unfold rename. split.
  - intros [[j [k w]] [E H]]. simpl in E. inversion E; subst. exists k. auto.
  - intros [k [E H]]. subst. exists (i, (k, v)). auto.
Qed.

(* filter_with_ids on the dict: the result holds exactly the requested
   elements that exist, each under the key of its block with its own row *)
Theorem efilter_named_In (d : @edict V) (s : @nsummary V) l i t v :
  NoDup ts -> NoDup (map fst d) -> (forall k, In k (map fst d) -> In k ts) ->
  update_self_named ts d = Some s ->
  (In (i, (t, v)) (kflatten (efilter_named ts d l)) <-> In i l /\ In (i, (t, v)) (kflatten d)).
Proof.
  intros Nts Nd Sub U. unfold update_self_named in U.
  destruct (update_self (to_blocks ts d)) as [s0|] eqn:U0; [|discriminate].
  pose proof (update_self_nodup _ _ U0) as ND.
  destruct (items_perm ts d Nts Nd Sub) as [PI _].
  assert (KD : forall x, In x (kflatten d) <-> In x (map (rename ts) (flatten (to_blocks ts d)))).
  { intros x. rewrite kflatten_names, to_blocks_names. split; apply Permutation_in; apply kflatten_perm;
      [apply Permutation_sym; exact PI|exact PI]. }
  unfold efilter_named. rewrite <- kflatten_names, In_rename, KD, In_rename. split.
  - intros [k [E H]]. apply efilter_In in H; auto. destruct H as [Hl H]. split; auto. exists k. auto.
  - intros [Hl [k [E H]]]. exists k. split; auto. apply efilter_In; auto.
Qed.

End FilterNamed.
