(* C08 — correspondence evaluator: runs the model on a recorded history and
   compares every read path with what the implementation returned.
   Rows are flattened lists of integers (V := list Z).  Definitions only. *)
From Coq Require Import ZArith List Bool Arith.
Import ListNotations.
From FV.C08 Require Import Table Model.

Definition row := list Z.

Fixpoint row_eqb (a b : row) : bool :=
  match a, b with
  | [], [] => true
  | x :: a', y :: b' => Z.eqb x y && row_eqb a' b'
  | _, _ => false
  end.

Fixpoint list_eqb' {A} (eqb : A -> A -> bool) (a b : list A) : bool :=
  match a, b with
  | [], [] => true
  | x :: a', y :: b' => eqb x y && list_eqb' eqb a' b'
  | _, _ => false
  end.

Definition opt_eqb {A} (eqb : A -> A -> bool) (a b : option A) : bool :=
  match a, b with
  | None, None => true
  | Some x, Some y => eqb x y
  | _, _ => false
  end.

Definition ent_eqb (a b : Z * row) := Z.eqb (fst a) (fst b) && row_eqb (snd a) (snd b).
Definition table_eqb := list_eqb' ent_eqb.
Definition rows_eqb := list_eqb' row_eqb.
Definition zs_eqb := list_eqb' Z.eqb.
Definition nats_eqb := list_eqb' Nat.eqb.

(* what the implementation returned after one step; None = the read raised *)
Record obs := {
  o_raised : bool;                     (* the update itself raised *)
  o_ids : list Z;                      (* a.ids *)
  o_data : option (list row);          (* a.data *)
  o_frame : table row;                 (* a.data_frame: index, values *)
  o_q : list Z;  o_q1 : Z;             (* ids asked for *)
  o_ks : list nat;  o_k1 : nat;        (* positions asked for *)
  o_loc : option (table row);          (* a.loc[q]: ids, data of the slice *)
  o_loc1 : option (table row);         (* a.loc[q1] *)
  o_iloc : option (table row);         (* a.iloc[ks] *)
  o_iloc1 : option (table row);        (* a.iloc[k1] *)
  o_getitem : option (list row);       (* a[q] *)
  o_filter : option (table row);       (* a.filter_with_ids(q) *)
  o_i2i : option (list nat);           (* a.ids2indices(q) *)
  o_cq : list Z;                       (* ids asked of the collection {x, other members} *)
  o_cfilter : option (list (table row));   (* FEMAttributes.filter_with_ids(cq): ids, data per member *)
  o_cextract : option (list (list row))    (* FEMAttributes.extract_dict(cq) *)
}.

(* codes of the read paths that differ *)
Definition tables_eqb := list_eqb' table_eqb.
Definition rowss_eqb := list_eqb' rows_eqb.

Definition compare (c : cfg) (others : list (attr row)) (a : attr row) (o : obs) : list nat :=
  (if zs_eqb (ids_view a) (o_ids o) then [] else [1%nat]) ++
  (if opt_eqb rows_eqb (data_view a) (o_data o) then [] else [2%nat]) ++
  (if table_eqb (frame_view a) (o_frame o) then [] else [3%nat]) ++
  (if opt_eqb table_eqb (slice c a (ByIds (o_q o))) (o_loc o) then [] else [4%nat]) ++
  (if opt_eqb table_eqb (slice c a (ById1 (o_q1 o))) (o_loc1 o) then [] else [5%nat]) ++
  (if opt_eqb table_eqb (slice c a (ByPos (o_ks o))) (o_iloc o) then [] else [6%nat]) ++
  (if opt_eqb table_eqb (slice c a (ByPos1 (o_k1 o))) (o_iloc1 o) then [] else [7%nat]) ++
  (if opt_eqb rows_eqb (getitem c a (o_q o)) (o_getitem o) then [] else [8%nat]) ++
  (if opt_eqb table_eqb (filter_with_ids a (o_q o)) (o_filter o) then [] else [9%nat]) ++
  (if opt_eqb nats_eqb (ids2indices a (o_q o)) (o_i2i o) then [] else [10%nat]) ++
  (if opt_eqb tables_eqb (cfilter (a :: others) (o_cq o)) (o_cfilter o) then [] else [11%nat]) ++
  (if opt_eqb rowss_eqb (cextract c (a :: others) (o_cq o)) (o_cextract o) then [] else [12%nat]).

(* run the history; failure code = 100 * step index + path code; path code 0 =
   raise/no-raise differs, 99 = the operation is outside the model's domain
   (a harness error) *)
Fixpoint check_steps (c : cfg) (others : list (attr row)) (a : attr row) (n : nat)
         (steps : list (op row * obs)) : list nat :=
  match steps with
  | [] => []
  | (o, ob) :: r =>
      if negb (op_wf a o) then [(100 * n + 99)%nat]
      else
        let res := step c a o in
        let a' := match res with Some x => x | None => a end in
        let raised := match res with Some _ => false | None => true end in
        (if Bool.eqb raised (o_raised ob) then [] else [(100 * n)%nat]) ++
        map (fun k => (100 * n + k)%nat) (compare c others a' ob) ++
        check_steps c others a' (S n) r
  end.

(* others: the other members of the collection (never updated), given as
   constructor arguments (ids, rows, time_series) *)
Definition check_case (c : cfg) (l : list Z) (rows : list row) (gen tsf : bool)
           (others : list (list Z * list row * bool)) (ob0 : obs)
           (steps : list (op row * obs)) : list nat :=
  match mk_attr l rows gen tsf,
        mapM (fun o => mk_attr (fst (fst o)) (snd (fst o)) false (snd o)) others with
  | Some a, Some os => map (fun k => k) (compare c os a ob0) ++ check_steps c os a 1 steps
  | _, _ => [98%nat]
  end.

(* ---- element collections ---- *)
Record eobs := {
  e_ids : list Z; e_types : list nat; e_data : list row; e_id2index : list (Z * nat);
  e_q : list Z;
  e_filter : list (nat * table row);       (* blocks of filter_with_ids(q) *)
  e_fids : list Z; e_ftypes : list nat; e_fdata : list row;  (* its summary *)
  e_g : table row;                          (* ids, data handed to generate_elemental_attribute *)
  e_gen : list (nat * table row)            (* blocks it returned *)
}.

Definition pair_eqb (a b : Z * nat) := Z.eqb (fst a) (fst b) && Nat.eqb (snd a) (snd b).
Definition block_eqb (a b : nat * table row) := Nat.eqb (fst a) (fst b) && table_eqb (snd a) (snd b).

Definition check_summary (bs : @blocks row) (o : eobs) : list nat :=
  match update_self bs with
  | None => [98%nat]
  | Some s =>
      (if zs_eqb (s_ids s) (e_ids o) then [] else [1%nat]) ++
      (if nats_eqb (s_types s) (e_types o) then [] else [2%nat]) ++
      (if rows_eqb (s_data s) (e_data o) then [] else [3%nat]) ++
      (if list_eqb' pair_eqb (s_id2index s) (e_id2index o) then [] else [4%nat]) ++
      (if list_eqb' block_eqb (egenerate bs (e_g o)) (e_gen o) then [] else [9%nat]) ++
      (let fb := efilter bs (e_q o) in
       (if list_eqb' block_eqb fb (e_filter o) then [] else [5%nat]) ++
       match update_self fb with
       | None => [97%nat]
       | Some fs =>
           (if zs_eqb (s_ids fs) (e_fids o) then [] else [6%nat]) ++
           (if nats_eqb (s_types fs) (e_ftypes o) then [] else [7%nat]) ++
           (if rows_eqb (s_data fs) (e_fdata o) then [] else [8%nat])
       end)
  end.
