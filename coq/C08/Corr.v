(* C08 — correspondence evaluator: runs the model on a recorded history and
   compares every read path with what the implementation returned.
   Rows are flattened lists of integers (V := list Z).  Definitions only. *)
From Coq Require Import String.
From Coq Require Import ZArith List Bool Arith.
Import ListNotations.
From FV.C08 Require Import Table Model ElemModel.
From FV.C08.gen Require Import ElemTypes.

Definition row := list Z.

Fixpoint row_eqb (a b : row) : bool :=
  match a, b with
  | [], [] => true
  | x :: a', y :: b' => Z.eqb x y && row_eqb a' b'
  | _, _ => false
  end.

Fixpoint list_eqb' {A} (eqb : A -> A -> bool) (a b : list A) : bool :=
  match a, b with
  | [], [] => true
  | x :: a', y :: b' => eqb x y && list_eqb' eqb a' b'
  | _, _ => false
  end.

Definition opt_eqb {A} (eqb : A -> A -> bool) (a b : option A) : bool :=
  match a, b with
  | None, None => true
  | Some x, Some y => eqb x y
  | _, _ => false
  end.

Definition ent_eqb (a b : Z * row) := Z.eqb (fst a) (fst b) && row_eqb (snd a) (snd b).
Definition table_eqb := list_eqb' ent_eqb.
Definition rows_eqb := list_eqb' row_eqb.
Definition zs_eqb := list_eqb' Z.eqb.
Definition nats_eqb := list_eqb' Nat.eqb.

(* what the implementation returned after one step; None = the read raised *)
Record obs := {
  o_raised : bool;                     (* the update itself raised *)
  o_ids : list Z;                      (* a.ids *)
  o_data : option (list row);          (* a.data *)
  o_frame : table row;                 (* a.data_frame: index, values *)
  o_q : list Z;  o_q1 : Z;             (* ids asked for *)
  o_ks : list nat;  o_k1 : nat;        (* positions asked for *)
  o_loc : option (table row);          (* a.loc[q]: ids, data of the slice *)
  o_loc1 : option (table row);         (* a.loc[q1] *)
  o_iloc : option (table row);         (* a.iloc[ks] *)
  o_iloc1 : option (table row);        (* a.iloc[k1] *)
  o_getitem : option (list row);       (* a[q] *)
  o_filter : option (table row);       (* a.filter_with_ids(q) *)
  o_i2i : option (list nat);           (* a.ids2indices(q) *)
  o_cq : list Z;                       (* ids asked of the collection {x, other members} *)
  o_cfilter : option (list (table row));   (* FEMAttributes.filter_with_ids(cq): ids, data per member *)
  o_cextract : option (list (list row))    (* FEMAttributes.extract_dict(cq) *)
}.

(* codes of the read paths that differ *)
Definition tables_eqb := list_eqb' table_eqb.
Definition rowss_eqb := list_eqb' rows_eqb.

Definition compare (c : cfg) (others : list (attr row)) (a : attr row) (o : obs) : list nat :=
  (if zs_eqb (ids_view a) (o_ids o) then [] else [1%nat]) ++
  (if opt_eqb rows_eqb (data_view a) (o_data o) then [] else [2%nat]) ++
  (if table_eqb (frame_view a) (o_frame o) then [] else [3%nat]) ++
  (if opt_eqb table_eqb (slice c a (ByIds (o_q o))) (o_loc o) then [] else [4%nat]) ++
  (if opt_eqb table_eqb (slice c a (ById1 (o_q1 o))) (o_loc1 o) then [] else [5%nat]) ++
  (if opt_eqb table_eqb (slice c a (ByPos (o_ks o))) (o_iloc o) then [] else [6%nat]) ++
  (if opt_eqb table_eqb (slice c a (ByPos1 (o_k1 o))) (o_iloc1 o) then [] else [7%nat]) ++
  (if opt_eqb rows_eqb (getitem c a (o_q o)) (o_getitem o) then [] else [8%nat]) ++
  (if opt_eqb table_eqb (filter_with_ids a (o_q o)) (o_filter o) then [] else [9%nat]) ++
  (if opt_eqb nats_eqb (ids2indices a (o_q o)) (o_i2i o) then [] else [10%nat]) ++
  (if opt_eqb tables_eqb (cfilter (a :: others) (o_cq o)) (o_cfilter o) then [] else [11%nat]) ++
  (if opt_eqb rowss_eqb (cextract c (a :: others) (o_cq o)) (o_cextract o) then [] else [12%nat]).

(* run the history; failure code = 100 * step index + path code; path code 0 =
   raise/no-raise differs, 99 = the operation is outside the model's domain
   (a harness error) *)
Fixpoint check_steps (c : cfg) (others : list (attr row)) (a : attr row) (n : nat)
         (steps : list (op row * obs)) : list nat :=
  match steps with
  | [] => []
  | (o, ob) :: r =>
      if negb (op_wf a o) then [(100 * n + 99)%nat]
      else
        let res := step c a o in
        let a' := match res with Some x => x | None => a end in
        let raised := match res with Some _ => false | None => true end in
        (if Bool.eqb raised (o_raised ob) then [] else [(100 * n)%nat]) ++
        map (fun k => (100 * n + k)%nat) (compare c others a' ob) ++
        check_steps c others a' (S n) r
  end.

(* others: the other members of the collection (never updated), given as
   constructor arguments (ids, rows, time_series) *)
Definition check_case (c : cfg) (l : list Z) (rows : list row) (gen tsf : bool)
           (others : list (list Z * list row * bool)) (ob0 : obs)
           (steps : list (op row * obs)) : list nat :=
  match mk_attr l rows gen tsf,
        mapM (fun o => mk_attr (fst (fst o)) (snd (fst o)) false (snd o)) others with
  | Some a, Some os => map (fun k => k) (compare c os a ob0) ++ check_steps c os a 1 steps
  | _, _ => [98%nat]
  end.

(* ---- element collections ----
   The dict {type name -> block} is handed over as the caller wrote it
   (insertion order, string keys, invalid keys included), followed by the dicts
   passed to .update(); the table of type names is gen/ElemTypes.v.  Every
   type the implementation reports is compared by *name*. *)
Record eobs := {
  e_raised : bool;                          (* constructor / update raised *)
  e_ids : list Z; e_types : list string; e_data : list row; e_id2index : list (Z * nat);
  e_ids_types : list (Z * string);          (* ids_types: index, value *)
  e_dti : list (string * list Z);           (* dict_type_ids, in the order of the dict *)
  e_keys : list string;                     (* keys() *)
  e_q : list Z;
  e_filter : list (string * table row);     (* items() of filter_with_ids(q) *)
  e_fids : list Z; e_ftypes : list string; e_fdata : list row;  (* its summary *)
  e_g : table row;                          (* ids, data handed to generate_elemental_attribute *)
  e_gen : list (string * table row)         (* items() of what it returned *)
}.

Definition pair_eqb (a b : Z * nat) := Z.eqb (fst a) (fst b) && Nat.eqb (snd a) (snd b).
Definition nblock_eqb (a b : string * table row) := String.eqb (fst a) (fst b) && table_eqb (snd a) (snd b).
Definition strs_eqb := list_eqb' String.eqb.

Definition empty_eobs (o : eobs) : bool :=
  match e_ids o, e_types o, e_data o, e_keys o with [], [], [], [] => true | _, _, _, _ => false end.

Definition check_summary (d0 : @edict row) (upds : list (@edict row)) (o : eobs) : list nat :=
  match build element_types d0 upds with
  | None => if e_raised o then [] else [90%nat]
  | Some d =>
    if e_raised o then [90%nat] else
    let bs := to_blocks element_types d in
    match update_self_named element_types d, update_self bs with
    | Some s, Some _ =>
      (if zs_eqb (n_ids s) (e_ids o) then [] else [1%nat]) ++
      (if strs_eqb (n_types s) (e_types o) then [] else [2%nat]) ++
      (if rows_eqb (n_data s) (e_data o) then [] else [3%nat]) ++
      (if list_eqb' pair_eqb (n_id2index s) (e_id2index o) then [] else [4%nat]) ++
      (if list_eqb' (fun a b => Z.eqb (fst a) (fst b) && String.eqb (snd a) (snd b))
            (combine (n_ids s) (n_types s)) (e_ids_types o) then [] else [10%nat]) ++
      (if list_eqb' (fun a b => String.eqb (fst a) (fst b) && zs_eqb (snd a) (snd b))
            (dict_type_ids element_types d) (e_dti o) then [] else [11%nat]) ++
      (if strs_eqb (keys element_types d) (e_keys o) then [] else [12%nat]) ++
      (if list_eqb' nblock_eqb (name_blocks element_types (egenerate bs (e_g o))) (e_gen o)
       then [] else [9%nat]) ++
      (let fb := efilter bs (e_q o) in
       (if list_eqb' nblock_eqb (name_blocks element_types fb) (e_filter o) then [] else [5%nat]) ++
       match update_self fb with
       | None => [97%nat]
       | Some fs0 =>
           let fs := name_summary element_types fs0 in
           (if zs_eqb (n_ids fs) (e_fids o) then [] else [6%nat]) ++
           (if strs_eqb (n_types fs) (e_ftypes o) then [] else [7%nat]) ++
           (if rows_eqb (n_data fs) (e_fdata o) then [] else [8%nat])
       end)
    | _, _ => [98%nat]
    end
  end.
