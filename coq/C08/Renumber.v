(* C08 — the duplicate-id branch of FEMElementalAttribute._update_self:
   `_unique_element_ids` followed by `_update_self` again.  Definitions only.

     def _unique_element_ids(self):
         offset = 0
         for element_type in self.keys():
             self[element_type].ids += offset
             offset += len(self[element_type])

   `writable` is the one fact about the environment the branch depends on:
   whether the in-place `+=` on `block.ids` (= `_data_frame.index.values`) is
   allowed.  Under pandas 3 the array is read-only and the statement raises
   ValueError (observed; the harness probes it on every run), so the branch
   raises for every collection with colliding ids.  The recursion of the code
   is not bounded; the model takes fuel.  Domain: collections with at least
   two blocks (a single block is summarised as stored, without the check). *)
From Coq Require Import ZArith List Bool Arith.
Import ListNotations.
From FV.C08 Require Import Table Model.
Local Open Scope Z_scope.

Section Renumber.
Context {V : Type}.

Definition shift (off : Z) (b : table V) : table V := map (fun iv => (fst iv + off, snd iv)) b.

Fixpoint renumber_from (off : Z) (bs : @blocks V) : @blocks V :=
  match bs with
  | [] => []
  | (t, b) :: r => (t, shift off b) :: renumber_from (off + Z.of_nat (length b)) r
  end.

Definition renumber (bs : @blocks V) : @blocks V := renumber_from 0 bs.

Fixpoint iter_r (k : nat) (bs : @blocks V) : @blocks V :=
  match k with O => bs | S k' => iter_r k' (renumber bs) end.

(* _update_self with the duplicate-id branch: the summary and the blocks as
   they are afterwards (the blocks' ids are changed in place); None = raises
   (read-only ids) or out of fuel *)
Fixpoint update_self_fuel (writable : bool) (fuel : nat) (bs : @blocks V)
  : option (@summary V * @blocks V) :=
  match update_self bs with
  | Some s => Some (s, bs)
  | None =>
      if writable then
        match fuel with
        | O => None
        | S n => update_self_fuel writable n (renumber bs)
        end
      else None
  end.

End Renumber.
