(* C10 — the face lines of a Wavefront OBJ file at the level of characters.

   OBJWriter.write (formats/obj/write_obj.py) renders one surface row as
       "f " + " ".join(str(x + 1) for x in row)
   and ObjData.read_elements (formats/obj/obj.py) takes the lines that start with
   `f` + white space, drops that prefix and reads `int(i) for i in re.split(r'\s+', s)`.
   Model: `dec` = Python's str(int) (decimal, '-' for negatives, no leading zeros),
   `undec` = int(.) on such strings, `tokens` = splitting at blanks, `face_line` /
   `parse_face_line`.  Vertex lines carry floats (repr / float(), external): they stay at
   the level of tokens (Model.write_obj / read_obj, type parameter C). *)
From Coq Require Import List ZArith Bool Arith Ascii String DecimalString DecimalZ DecimalPos Lia.
Import ListNotations.
From FV.C10 Require Import Model.
Local Open Scope string_scope.

Definition dec (z : Z) : string := NilZero.string_of_int (Z.to_int z).
Definition undec (s : string) : option Z := option_map Z.of_int (NilZero.int_of_string s).

Definition is_blank (c : ascii) : bool := Ascii.eqb c " "%char.
Definition is_empty (s : string) : bool := match s with EmptyString => true | _ => false end.

(* re.split(r'\s+', s.strip()) for blanks: maximal runs of non-blank characters *)
Fixpoint tokens_aux (acc : string) (s : string) : list string :=
  match s with
  | EmptyString => if is_empty acc then [] else [acc]
  | String c r =>
      if is_blank c
      then (if is_empty acc then tokens_aux "" r else acc :: tokens_aux "" r)
      else tokens_aux (acc ++ String c "") r
  end.
Definition tokens (s : string) : list string := tokens_aux "" s.

Fixpoint join (sep : string) (l : list string) : string :=
  match l with
  | [] => ""
  | [x] => x
  | x :: r => x ++ sep ++ join sep r
  end.

Definition face_line (idx : list Z) : string := "f " ++ join " " (map dec idx).

Definition parse_face_line (s : string) : option (list Z) :=
  match tokens s with
  | "f" :: ts => mapM undec ts
  | _ => None
  end.

(* the `f` lines OBJWriter.write emits for the rows (storage positions) of the surface *)
Definition obj_face_text (f : list nat) : string := face_line (map (fun k => Z.of_nat k + 1)%Z f).

Fixpoint nospace (s : string) : bool :=
  match s with EmptyString => true | String c r => negb (is_blank c) && nospace r end.

(* all `f` lines of the file, in the order OBJWriter.write emits them *)
Definition obj_text_faces (tri quad : list (list nat)) : list string :=
  map obj_face_text (tri ++ quad)%list.

(* correspondence: the raw `f` lines of the file the implementation wrote *)
Fixpoint eqb_strings (a b : list string) : bool :=
  match a, b with
  | [], [] => true
  | x :: a', y :: b' => String.eqb x y && eqb_strings a' b'
  | _, _ => false
  end.
Definition check_obj_text (m : mesh) (lines : list string) : bool :=
  match extract_surface m with
  | Some (t, q) => eqb_strings (obj_text_faces t q) lines
  | None => false
  end.
