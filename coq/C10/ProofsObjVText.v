From Coq Require Import List ZArith Bool Arith Ascii String Lia.
Import ListNotations.
From FV.C10 Require Import Model ObjText ProofsObjText ObjVText.
Local Open Scope string_scope.
Set Default Timeout 120.

Section VTextProofs.
  Context {F : Type} (fmt : F -> string) (parse : string -> option F).
  (* external behaviour of float repr / float(): premises of every theorem below *)
  Hypothesis parse_fmt : forall x, parse (fmt x) = Some x.
  Hypothesis fmt_token : forall x, is_token (fmt x).

  Lemma tokens_prefixed : forall (c : ascii) ts, is_blank c = false -> Forall is_token ts ->
    tokens (String c (String " " (join " " ts))) = String c "" :: ts.
  Proof.
    intros c ts Hc Hts. unfold tokens. cbn [tokens_aux]. rewrite Hc. cbn [append tokens_aux].
    change (is_blank " ") with true. cbn iota. cbn [is_empty]. f_equal. now apply tokens_join.
  Qed.

  Lemma vertex_line_roundtrip : forall p,
    parse_line parse (vertex_line fmt p) = Some (Some (OV p)).
  Proof.
    intros [[x y] z]. unfold parse_line, vertex_line. cbn [append].
    rewrite (tokens_prefixed "v" [fmt x; fmt y; fmt z]); [| reflexivity |
      repeat constructor; apply fmt_token].
    cbn [parse_vertex_tokens]. now rewrite !parse_fmt.
  Qed.

  Lemma face_line_parse_line : forall idx,
    parse_line parse (face_line idx) = Some (Some (OF idx)).
  Proof.
    intros idx. unfold parse_line, face_line. cbn [append].
    rewrite (tokens_prefixed "f" (map dec idx)); [| reflexivity |].
    - now rewrite mapM_undec_dec.
    - apply Forall_forall. intros s Hs. apply in_map_iff in Hs. destruct Hs as [z [<- _]]. apply dec_token.
  Qed.

  (* the whole text parses to exactly the token-level model of the writer *)
  Theorem obj_text_parses : forall coords tri quad,
    parse_lines parse (obj_text fmt coords tri quad) = Some (write_obj coords tri quad).
  Proof.
    intros coords tri quad. unfold obj_text, write_obj, obj_text_faces.
    rewrite <- map_app.
    induction coords as [| p r IH]; cbn [map app parse_lines].
    - induction (tri ++ quad)%list as [| f l IHl]; cbn [map parse_lines]; [reflexivity |].
      unfold obj_face_text at 1. rewrite face_line_parse_line, IHl. reflexivity.
    - rewrite vertex_line_roundtrip, IH. reflexivity.
  Qed.
End VTextProofs.
