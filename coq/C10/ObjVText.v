(* C10 — the WHOLE Wavefront OBJ file at the level of characters (definitions only).

   OBJWriter.write emits one line "v x y z" per node (pandas to_csv with sep=' ': the float repr of
   each coordinate, separated by single blanks, the index label `v` first) and then the `f` lines
   (ObjText.face_line).  ObjData.read_nodes takes the lines matching `v\s+`, drops that prefix and
   reads `float` of the tokens split at `\s+`; read_elements does the same with `f\s+` and `int`.
   The rendering of one float and its parser are EXTERNAL (float repr / float()): they are the
   parameters `fmt` / `parse` here, and enter the theorems only as explicit premises
   (parse (fmt x) = Some x; fmt x is a non-empty blank-free token). *)
From Coq Require Import List ZArith Bool Arith Ascii String.
Import ListNotations.
From FV.C10 Require Import Model ObjText.
Local Open Scope string_scope.

Section VText.
  Context {F : Type} (fmt : F -> string) (parse : string -> option F).
  Definition P3 := (F * F * F)%type.

  Definition vertex_line (p : P3) : string :=
    let '(x, y, z) := p in "v " ++ join " " [fmt x; fmt y; fmt z].

  Definition parse_vertex_tokens (ts : list string) : option P3 :=
    match ts with
    | [a; b; c] => match parse a, parse b, parse c with
                   | Some x, Some y, Some z => Some (x, y, z)
                   | _, _, _ => None
                   end
    | _ => None
    end.

  (* one line of the file: Some (Some l) = a `v` / `f` line read as l, Some None = another kind of
     line (ignored by the reader), None = a malformed `v` / `f` line (the reader raises) *)
  Definition parse_line (s : string) : option (option (objline P3)) :=
    match tokens s with
    | "v" :: ts => option_map (fun p => Some (OV p)) (parse_vertex_tokens ts)
    | "f" :: ts => option_map (fun i => Some (OF i)) (mapM undec ts)
    | _ => Some None
    end.

  Fixpoint parse_lines (ls : list string) : option (list (objline P3)) :=
    match ls with
    | [] => Some []
    | s :: r => match parse_line s, parse_lines r with
                | Some (Some l), Some rest => Some (l :: rest)
                | Some None, Some rest => Some rest
                | _, _ => None
                end
    end.

  (* the text OBJWriter.write produces, line by line *)
  Definition obj_text (coords : list P3) (tri quad : list (list nat)) : list string :=
    (map vertex_line coords ++ obj_text_faces tri quad)%list.
End VText.

(* correspondence: with F := string and fmt := identity the raw `v` line must be exactly
   "v " + the three coordinate tokens joined by single blanks *)
Definition check_obj_vtext (raw : list string) (toks : list (string * string * string)) : bool :=
  eqb_strings (map (vertex_line (fun s : string => s)) toks) raw.
