From Coq Require Import List ZArith Bool Arith Lia Permutation.
Import ListNotations.
From FV.C10 Require Import Model.

(* ------------------------------------------------------------------ *)
(* list equality on Z                                                   *)
Lemma eqb_listZ_spec : forall a b, eqb_listZ a b = true <-> a = b.
Proof.
  induction a as [|x a IH]; destruct b as [|y b]; simpl; split; intro H;
    try reflexivity; try discriminate.
  - apply andb_true_iff in H. destruct H as [H1 H2].
    apply Z.eqb_eq in H1. apply IH in H2. subst. reflexivity.
  - inversion H; subst. apply andb_true_iff. split.
    + apply Z.eqb_refl.
    + apply IH. reflexivity.
Qed.

(* ------------------------------------------------------------------ *)
(* insertion sort                                                       *)
Lemma insert_perm : forall {A} (leb : A -> A -> bool) x l,
    Permutation (insert leb x l) (x :: l).
Proof.
  intros A leb x l. induction l as [|y r IH]; simpl.
  - apply Permutation_refl.
  - destruct (leb x y).
    + apply Permutation_refl.
    + eapply Permutation_trans.
      * apply perm_skip. apply IH.
      * apply perm_swap.
Qed.

Lemma isort_perm : forall {A} (leb : A -> A -> bool) l, Permutation (isort leb l) l.
Proof.
  intros A leb l. induction l as [|x r IH]; simpl.
  - apply perm_nil.
  - eapply Permutation_trans.
    + apply insert_perm.
    + apply perm_skip. exact IH.
Qed.

Lemma insertZ_comm : forall x y l,
    insert Z.leb x (insert Z.leb y l) = insert Z.leb y (insert Z.leb x l).
Proof.
  intros x y l. induction l as [|z r IH]; simpl.
  - destruct (Z.leb_spec x y); destruct (Z.leb_spec y x); try reflexivity.
    + assert (x = y) by lia. subst. reflexivity.
    + lia.
  - destruct (Z.leb_spec y z) as [Hyz|Hyz]; destruct (Z.leb_spec x z) as [Hxz|Hxz]; simpl.
    + destruct (Z.leb_spec x y) as [Hxy|Hxy]; destruct (Z.leb_spec y x) as [Hyx|Hyx].
      * assert (x = y) by lia. subst. reflexivity.
      * destruct (Z.leb_spec y z); [reflexivity | lia].
      * destruct (Z.leb_spec x z); [reflexivity | lia].
      * lia.
    + destruct (Z.leb_spec x y); [lia|].
      destruct (Z.leb_spec x z); [lia|].
      destruct (Z.leb_spec y z); [reflexivity | lia].
    + destruct (Z.leb_spec y x); [lia|].
      destruct (Z.leb_spec y z); [lia|].
      destruct (Z.leb_spec x z); [reflexivity | lia].
    + destruct (Z.leb_spec x z); [lia|].
      destruct (Z.leb_spec y z); [lia|].
      rewrite IH. reflexivity.
Qed.

Lemma sortZ_perm_eq : forall l l', Permutation l l' -> sortZ l = sortZ l'.
Proof.
  unfold sortZ. intros l l' H. induction H; simpl.
  - reflexivity.
  - rewrite IHPermutation. reflexivity.
  - apply insertZ_comm.
  - congruence.
Qed.

(* ------------------------------------------------------------------ *)
(* generic filter facts                                                 *)
Lemma filter_length_le : forall {A} (p : A -> bool) l, length (filter p l) <= length l.
Proof.
  intros A p l. induction l as [|x r IH]; simpl.
  - lia.
  - destruct (p x); simpl; lia.
Qed.

Lemma filter_split_perm : forall {A} (p : A -> bool) r,
    Permutation (filter p r ++ filter (fun y => negb (p y)) r) r.
Proof.
  intros A p r. induction r as [|x r IH]; simpl.
  - apply perm_nil.
  - destruct (p x); simpl.
    + apply perm_skip. exact IH.
    + apply Permutation_sym. apply Permutation_cons_app. apply Permutation_sym. exact IH.
Qed.

Lemma filter_ext_In : forall {A} (p q : A -> bool) l,
    (forall z, In z l -> p z = q z) -> filter p l = filter q l.
Proof.
  intros A p q l. induction l as [|x r IH]; simpl; intro H.
  - reflexivity.
  - rewrite (H x (or_introl eq_refl)). rewrite IH.
    + reflexivity.
    + intros z Hz. apply H. right. exact Hz.
Qed.

Lemma filter_filter_absorb : forall {A} (p q : A -> bool) l,
    (forall z, In z l -> p z = true -> q z = true) ->
    filter p (filter q l) = filter p l.
Proof.
  intros A p q l. induction l as [|x r IH]; simpl; intro H.
  - reflexivity.
  - assert (IH' : filter p (filter q r) = filter p r).
    { apply IH. intros z Hz. apply H. right. exact Hz. }
    destruct (q x) eqn:Hq; simpl.
    + rewrite IH'. reflexivity.
    + destruct (p x) eqn:Hp.
      * rewrite (H x (or_introl eq_refl) Hp) in Hq. discriminate.
      * exact IH'.
Qed.

Lemma existsb_ext_eq : forall {A} (p q : A -> bool) l,
    (forall z, p z = q z) -> existsb p l = existsb q l.
Proof.
  intros A p q l H. induction l as [|x r IH]; simpl.
  - reflexivity.
  - rewrite H, IH. reflexivity.
Qed.

Lemma map_filter_comm : forall {A B} (h : B -> A) (p : A -> bool) l,
    map h (filter (fun y => p (h y)) l) = filter p (map h l).
Proof.
  intros A B h p l. induction l as [|x r IH]; simpl.
  - reflexivity.
  - destruct (p (h x)); simpl; rewrite IH; reflexivity.
Qed.

(* ------------------------------------------------------------------ *)
Section GroupsTheory.
  Context {A : Type}.
  Variable same : A -> A -> bool.
  Hypothesis same_refl : forall x, same x x = true.
  Hypothesis same_sym : forall x y, same x y = same y x.
  Hypothesis same_trans : forall x y z, same x y = true -> same y z = true -> same x z = true.

  Lemma groups_aux_perm : forall n l, length l <= n ->
      Permutation (concat (groups_aux same n l)) l.
  Proof.
    induction n as [|n IH]; intros l Hl.
    - destruct l; simpl in *; [apply perm_nil | lia].
    - destruct l as [|x r]; simpl.
      + apply perm_nil.
      + apply perm_skip.
        eapply Permutation_trans.
        * apply Permutation_app_head. apply IH.
          simpl in Hl.
          pose proof (filter_length_le (fun y => negb (same x y)) r). lia.
        * apply filter_split_perm.
  Qed.

  Lemma groups_perm : forall l, Permutation (concat (groups same l)) l.
  Proof.
    intro l. unfold groups. apply groups_aux_perm. lia.
  Qed.

  Lemma singles_incl : forall (gs : list (list A)) x, In x (singles gs) -> In x (concat gs).
  Proof.
    induction gs as [|g gs IH]; simpl; intros x H.
    - exact H.
    - unfold singles in H. simpl in H. apply in_app_or in H. apply in_or_app.
      destruct H as [H|H].
      + left. destruct g as [|a [|b g]]; simpl in H; try contradiction.
        exact H.
      + right. apply IH. exact H.
  Qed.

  Lemma same_true_ext : forall x y, same x y = true -> forall z, same x z = same y z.
  Proof.
    intros x y Hxy z.
    destruct (same x z) eqn:Hxz; destruct (same y z) eqn:Hyz; try reflexivity.
    - rewrite same_sym in Hxy. rewrite (same_trans y x z Hxy Hxz) in Hyz. discriminate.
    - rewrite (same_trans x y z Hxy Hyz) in Hxz. discriminate.
  Qed.

  Lemma occ_zero_not_in : forall x l, In x l -> occ same x l <> 0.
  Proof.
    intros x l Hin. unfold occ.
    assert (H : In x (filter (same x) l)).
    { apply filter_In. split; [exact Hin | apply same_refl]. }
    destruct (filter (same x) l); simpl in *; [contradiction | lia].
  Qed.

  Lemma singles_aux_spec : forall n l x, length l <= n ->
      (In x (singles (groups_aux same n l)) <-> In x l /\ occ same x l = 1).
  Proof.
    induction n as [|n IH]; intros l x Hl.
    - destruct l; simpl in *; [|lia]. unfold singles. simpl. tauto.
    - destruct l as [|y r].
      + unfold singles. simpl. tauto.
      + simpl in Hl. simpl groups_aux. unfold singles. simpl flat_map.
        fold (singles (groups_aux same n (filter (fun y0 => negb (same y y0)) r))).
        rewrite in_app_iff.
        assert (Hlen : length (filter (fun y0 => negb (same y y0)) r) <= n).
        { pose proof (filter_length_le (fun y0 => negb (same y y0)) r). lia. }
        rewrite (IH _ x Hlen).
        unfold occ. simpl filter.
        destruct (same x y) eqn:Hxy.
        * (* x has the key of y *)
          assert (Hext : filter (same y) r = filter (same x) r).
          { apply filter_ext. intro z. symmetry. apply same_true_ext. exact Hxy. }
          rewrite Hext.
          split.
          -- intros [H|[H _]].
             ++ destruct (filter (same x) r) eqn:Hf; simpl in H.
                ** destruct H as [H|[]]. split; [left; exact H | reflexivity].
                ** contradiction.
             ++ apply filter_In in H. destruct H as [_ H].
                rewrite same_sym in Hxy. rewrite Hxy in H. discriminate.
          -- intros [Hin Hocc]. left. simpl in Hocc.
             destruct (filter (same x) r) eqn:Hf; simpl in Hocc; [|lia].
             simpl. left. destruct Hin as [Hin|Hin]; [exact Hin|].
             exfalso. apply (occ_zero_not_in x r Hin). unfold occ. rewrite Hf. reflexivity.
        * (* x has another key *)
          assert (Habs : filter (same x) (filter (fun y0 => negb (same y y0)) r)
                         = filter (same x) r).
          { apply filter_filter_absorb. intros z _ Hxz.
            destruct (same y z) eqn:Hyz; [|reflexivity].
            rewrite (same_sym y z) in Hyz.
            rewrite (same_trans x z y Hxz Hyz) in Hxy. discriminate. }
          rewrite Habs.
          split.
          -- intros [H|[H Hocc]].
             ++ destruct (filter (same y) r); simpl in H; [|contradiction].
                destruct H as [H|[]]. subst. rewrite same_refl in Hxy. discriminate.
             ++ apply filter_In in H. destruct H as [H _]. split; [right; exact H | exact Hocc].
          -- intros [[Hin|Hin] Hocc].
             ++ subst. rewrite same_refl in Hxy. discriminate.
             ++ right. split; [|exact Hocc]. apply filter_In. split; [exact Hin|].
                rewrite same_sym. rewrite Hxy. reflexivity.
  Qed.

  Lemma singles_spec : forall l x, In x (singles (groups same l)) <-> In x l /\ occ same x l = 1.
  Proof.
    intros l x. unfold groups. apply singles_aux_spec. lia.
  Qed.

  Lemma occ_app : forall x l l', occ same x (l ++ l') = occ same x l + occ same x l'.
  Proof.
    intros x l l'. unfold occ. rewrite filter_app, app_length. reflexivity.
  Qed.

  Lemma occ_flat_map : forall {B} (F : B -> list A) x es,
      occ same x (flat_map F es) = list_sum (map (fun e => occ same x (F e)) es).
  Proof.
    intros B F x es. induction es as [|e es IH]; simpl.
    - reflexivity.
    - rewrite occ_app, IH. reflexivity.
  Qed.

  Lemma distinct_keys_occ : forall l x, distinct_keys same l = true ->
      occ same x l = if existsb (same x) l then 1 else 0.
  Proof.
    induction l as [|y r IH]; intros x H.
    - reflexivity.
    - simpl in H. apply andb_true_iff in H. destruct H as [H1 H2].
      apply negb_true_iff in H1.
      specialize (IH x H2).
      unfold occ in *. simpl.
      destruct (same x y) eqn:Hxy; simpl.
      + rewrite (existsb_ext_eq (same x) (same y) r (same_true_ext x y Hxy)) in IH.
        rewrite H1 in IH. rewrite IH. reflexivity.
      + exact IH.
  Qed.

  Lemma occ_owners : forall {B} (F : B -> list A) es x,
      (forall e, In e es -> distinct_keys same (F e) = true) ->
      occ same x (flat_map F es) = length (filter (fun e => existsb (same x) (F e)) es).
  Proof.
    intros B F es x H. rewrite occ_flat_map.
    induction es as [|e es IH]; simpl.
    - reflexivity.
    - rewrite IH.
      + rewrite (distinct_keys_occ (F e) x (H e (or_introl eq_refl))).
        destruct (existsb (same x) (F e)); reflexivity.
      + intros e' He'. apply H. right. exact He'.
  Qed.

  (* sums in a commutative group, for the cancellation of paired entries *)
  Variable M : Type.
  Variables (mzero : M) (madd : M -> M -> M) (mopp : M -> M).
  Hypothesis madd_comm : forall a b, madd a b = madd b a.
  Hypothesis madd_assoc : forall a b c, madd a (madd b c) = madd (madd a b) c.
  Hypothesis madd_0_l : forall a, madd mzero a = a.
  Hypothesis madd_opp : forall a, madd a (mopp a) = mzero.
  Definition msum (l : list M) : M := fold_right madd mzero l.

  Lemma msum_app : forall l l', msum (l ++ l') = madd (msum l) (msum l').
  Proof.
    intros l l'. induction l as [|a l IH]; simpl.
    - rewrite madd_0_l. reflexivity.
    - rewrite IH. apply madd_assoc.
  Qed.

  Lemma msum_perm : forall l l', Permutation l l' -> msum l = msum l'.
  Proof.
    intros l l' H. induction H; simpl.
    - reflexivity.
    - rewrite IHPermutation. reflexivity.
    - rewrite !madd_assoc. rewrite (madd_comm y x). reflexivity.
    - congruence.
  Qed.

  Lemma msum_flat_map : forall {B} (F : B -> list A) (phi : A -> M) es,
      msum (map phi (flat_map F es)) = msum (map (fun e => msum (map phi (F e))) es).
  Proof.
    intros B F phi es. induction es as [|e es IH]; simpl.
    - reflexivity.
    - rewrite map_app, msum_app, IH. reflexivity.
  Qed.

  Variable rev_of : A -> A -> bool.
  Variable phi : A -> M.
  Hypothesis phi_rev : forall x y, rev_of y x = true -> phi y = mopp (phi x).

  Lemma cancellation_groups : forall gs, forallb (group_ok rev_of) gs = true ->
      msum (map phi (concat gs)) = msum (map phi (singles gs)).
  Proof.
    induction gs as [|g gs IH]; intro H.
    - reflexivity.
    - simpl in H. apply andb_true_iff in H. destruct H as [Hg Hgs].
      unfold singles. simpl concat. simpl flat_map. fold (singles gs).
      rewrite !map_app, !msum_app. rewrite (IH Hgs).
      destruct g as [|x [|y [|z g]]]; simpl in Hg; try discriminate.
      + reflexivity.
      + simpl. rewrite (phi_rev x y Hg).
        rewrite (madd_comm (mopp (phi x)) mzero), madd_0_l, madd_opp.
        reflexivity.
  Qed.

  Lemma cancellation : forall l, groups_ok same rev_of l = true ->
      msum (map phi l) = msum (map phi (singles (groups same l))).
  Proof.
    intros l H. unfold groups_ok in H.
    rewrite <- (cancellation_groups _ H).
    apply msum_perm. apply Permutation_map. apply Permutation_sym. apply groups_perm.
  Qed.
End GroupsTheory.

(* grouping commutes with a key-preserving map *)
Lemma groups_aux_map : forall {A B} (same : A -> A -> bool) (sameB : B -> B -> bool) (h : B -> A),
    (forall x y, sameB x y = same (h x) (h y)) ->
    forall n l, map (map h) (groups_aux sameB n l) = groups_aux same n (map h l).
Proof.
  intros A B same sameB h H. induction n as [|n IH]; intro l.
  - reflexivity.
  - destruct l as [|x r]; simpl.
    + reflexivity.
    + rewrite IH.
      rewrite <- (map_filter_comm h (same (h x)) r).
      rewrite <- (map_filter_comm h (fun y => negb (same (h x) y)) r).
      rewrite (filter_ext (sameB x) (fun y => same (h x) (h y)) (H x)).
      rewrite (filter_ext (fun y => negb (sameB x y)) (fun y => negb (same (h x) (h y)))).
      * reflexivity.
      * intro y. rewrite H. reflexivity.
Qed.

Lemma groups_map : forall {A B} (same : A -> A -> bool) (sameB : B -> B -> bool) (h : B -> A),
    (forall x y, sameB x y = same (h x) (h y)) ->
    forall l, map (map h) (groups sameB l) = groups same (map h l).
Proof.
  intros A B same sameB h H l. unfold groups. rewrite map_length.
  apply groups_aux_map. exact H.
Qed.

Lemma singles_map : forall {A B} (h : B -> A) (gs : list (list B)),
    map h (singles gs) = singles (map (map h) gs).
Proof.
  intros A B h gs. induction gs as [|g gs IH].
  - reflexivity.
  - unfold singles. simpl flat_map. fold (singles gs). fold (singles (map (map h) gs)).
    rewrite map_app, IH.
    destruct g as [|x [|y g]]; reflexivity.
Qed.
