(* C10 — the three views (extract_surface positions, to_surface ids, OBJ
   lines) describe the same faces; OBJ write -> read round trip. *)
From Coq Require Import List ZArith Bool Arith Lia Permutation.
Import ListNotations.
From FV.C10 Require Import Model Groups.

(* ---------------------------------------------------------------- *)
Lemma mapM_inverse : forall {X Y} (g : X -> option Y) (h : Y -> option X),
  (forall x y, g x = Some y -> h y = Some x) ->
  forall l l', mapM g l = Some l' -> mapM h l' = Some l.
Proof.
  intros X Y g h H l. induction l as [| x r IH]; intros l' E; simpl in E.
  - inversion E. reflexivity.
  - destruct (g x) as [y |] eqn:Eg; [| discriminate].
    destruct (mapM g r) as [ys |] eqn:Er; [| discriminate].
    inversion E. subst l'. simpl. rewrite (H x y Eg), (IH ys eq_refl). reflexivity.
Qed.

Lemma mapM_length : forall {X Y} (g : X -> option Y) l l', mapM g l = Some l' -> length l' = length l.
Proof.
  intros X Y g l. induction l as [| x r IH]; intros l' E; simpl in E.
  - inversion E. reflexivity.
  - destruct (g x); [| discriminate]. destruct (mapM g r) as [ys |] eqn:Er; [| discriminate].
    inversion E. simpl. rewrite (IH ys eq_refl). reflexivity.
Qed.

Lemma mapM_Forall2 : forall {X Y} (g : X -> option Y) l l',
  mapM g l = Some l' -> Forall2 (fun x y => g x = Some y) l l'.
Proof.
  intros X Y g l. induction l as [| x r IH]; intros l' E; simpl in E.
  - inversion E. constructor.
  - destruct (g x) as [y |] eqn:Eg; [| discriminate].
    destruct (mapM g r) as [ys |] eqn:Er; [| discriminate].
    inversion E. constructor; auto.
Qed.

(* the storage position returned for an id holds that id *)
Lemma index_of_nth : forall ids i k, index_of i ids = Some k -> nth_error ids k = Some i.
Proof.
  induction ids as [| j r IH]; intros i k H; simpl in H; [discriminate |].
  destruct (Z.eqb i j) eqn:E.
  - inversion H. apply Z.eqb_eq in E. subst. reflexivity.
  - destruct (index_of i r) as [k' |] eqn:E2; simpl in H; [| discriminate].
    inversion H. simpl. apply IH. exact E2.
Qed.

Lemma ids_indices_roundtrip : forall ids fs ks,
  ids2indices ids fs = Some ks -> indices2ids ids ks = Some fs.
Proof.
  intros ids fs ks H. unfold ids2indices, indices2ids in *.
  eapply mapM_inverse; [| exact H].
  intros f k Hf. eapply mapM_inverse; [| exact Hf].
  intros i j Hi. apply index_of_nth. exact Hi.
Qed.

Lemma number_from_snd : forall {X} (l : list X) k, map snd (number_from k l) = l.
Proof. induction l as [| x r IH]; intro k; simpl; [reflexivity | rewrite IH; reflexivity]. Qed.

Fixpoint zseq (k : Z) (n : nat) : list Z :=
  match n with O => [] | S n' => k :: zseq (k + 1) n' end.

Lemma number_from_fst : forall {X} (l : list X) k, map fst (number_from k l) = zseq k (length l).
Proof. induction l as [| x r IH]; intro k; simpl; [reflexivity | rewrite IH; reflexivity]. Qed.

Lemma zseq_app : forall a b k, zseq k a ++ zseq (k + Z.of_nat a) b = zseq k (a + b).
Proof.
  induction a as [| a IH]; intros b k.
  - simpl. replace (k + 0)%Z with k by lia. reflexivity.
  - cbn [zseq Nat.add app]. f_equal.
    replace (k + Z.of_nat (S a))%Z with ((k + 1) + Z.of_nat a)%Z by lia. apply IH.
Qed.

(* to_surface lists, as node ids, exactly the faces extract_surface found,
   numbered 1.. through the triangles and on through the quadrilaterals *)
Theorem to_surface_faces :
  forall m s, to_surface m = Some s ->
    map snd (s_tri s) = fst (surface_ids m) /\ map snd (s_quad s) = snd (surface_ids m)
    /\ map fst (s_tri s ++ s_quad s) = zseq 1 (length (fst (surface_ids m)) + length (snd (surface_ids m))).
Proof.
  intros m s H. unfold to_surface, extract_surface in H.
  destruct (ids2indices (m_nodes m) (fst (surface_ids m))) as [t |] eqn:Et; [| discriminate].
  destruct (ids2indices (m_nodes m) (snd (surface_ids m))) as [q |] eqn:Eq; [| discriminate].
  rewrite (ids_indices_roundtrip _ _ _ Et), (ids_indices_roundtrip _ _ _ Eq) in H.
  destruct (mapM _ (sorted_unique _)) as [ns |]; [| discriminate].
  inversion H. subst s. cbn [s_tri s_quad].
  rewrite !number_from_snd. split; [reflexivity | split; [reflexivity |]].
  rewrite map_app, !number_from_fst. apply zseq_app.
Qed.

(* the positions extract_surface returns denote those same faces *)
Theorem extract_surface_faces :
  forall m t q, extract_surface m = Some (t, q) ->
    indices2ids (m_nodes m) t = Some (fst (surface_ids m))
    /\ indices2ids (m_nodes m) q = Some (snd (surface_ids m)).
Proof.
  intros m t q H. unfold extract_surface in H.
  destruct (ids2indices (m_nodes m) (fst (surface_ids m))) as [t' |] eqn:Et; [| discriminate].
  destruct (ids2indices (m_nodes m) (snd (surface_ids m))) as [q' |] eqn:Eq; [| discriminate].
  inversion H. subst. split; apply ids_indices_roundtrip; assumption.
Qed.

Lemma faces_of_len_Forall : forall n l, Forall (fun f => length f = n) (faces_of_len n l).
Proof.
  intros n l. apply Forall_forall. intros f Hf. unfold faces_of_len in Hf.
  apply filter_In in Hf. destruct Hf as [_ Hf]. apply Nat.eqb_eq. exact Hf.
Qed.

Lemma ids2indices_shapes : forall ids n fs ks,
  Forall (fun f : face => length f = n) fs -> ids2indices ids fs = Some ks ->
  Forall (fun k : list nat => length k = n) ks.
Proof.
  intros ids n fs ks HF H. unfold ids2indices in H. apply mapM_Forall2 in H.
  induction H; [constructor |]. inversion HF. subst. constructor; auto.
  apply mapM_length in H. congruence.
Qed.

Lemma extract_surface_shapes : forall m t q, extract_surface m = Some (t, q) ->
  Forall (fun f => length f = 3) t /\ Forall (fun f => length f = 4) q.
Proof.
  intros m t q H. unfold extract_surface in H.
  destruct (ids2indices (m_nodes m) (fst (surface_ids m))) as [t' |] eqn:Et; [| discriminate].
  destruct (ids2indices (m_nodes m) (snd (surface_ids m))) as [q' |] eqn:Eq; [| discriminate].
  inversion H. subst. split.
  - eapply ids2indices_shapes; [| exact Et]. apply faces_of_len_Forall.
  - eapply ids2indices_shapes; [| exact Eq]. apply faces_of_len_Forall.
Qed.

(* ---------------------------------------------------------------- *)
(* OBJ                                                                 *)
Section ObjProofs.
  Context {C : Type}.
  Definition face1 (f : list nat) : list Z := map (fun k => Z.of_nat k + 1)%Z f.

  Lemma obj_vertices_V : forall cs : list C, obj_vertices (map (@OV C) cs) = cs.
  Proof. induction cs; simpl; [reflexivity | f_equal; assumption]. Qed.
  Lemma obj_vertices_F : forall fs, @obj_vertices C (map obj_face fs) = [].
  Proof. induction fs; simpl; [reflexivity | assumption]. Qed.
  Lemma obj_faces_V : forall cs : list C, obj_faces (map (@OV C) cs) = [].
  Proof. induction cs; simpl; [reflexivity | assumption]. Qed.
  Lemma obj_faces_F : forall fs, @obj_faces C (map obj_face fs) = map face1 fs.
  Proof. induction fs; simpl; [reflexivity | f_equal; assumption]. Qed.

  Lemma obj_vertices_app : forall a b : list (objline C), obj_vertices (a ++ b) = obj_vertices a ++ obj_vertices b.
  Proof. intros. unfold obj_vertices. apply flat_map_app. Qed.
  Lemma obj_faces_app : forall a b : list (objline C), obj_faces (a ++ b) = obj_faces a ++ obj_faces b.
  Proof. intros. unfold obj_faces. apply flat_map_app. Qed.

  Lemma number_from_app : forall {X} (a b : list X) k,
    number_from k (a ++ b) = number_from k a ++ number_from (k + Z.of_nat (length a)) b.
  Proof.
    induction a as [| x r IH]; intros b k; simpl.
    - replace (k + 0)%Z with k by lia. reflexivity.
    - rewrite IH. do 3 f_equal. lia.
  Qed.

  Lemma filter_number_all : forall {X} (p : X -> bool) l k,
    Forall (fun x => p x = true) l -> filter (fun q => p (snd q)) (number_from k l) = number_from k l.
  Proof.
    induction l as [| x r IH]; intros k H; simpl; [reflexivity |].
    inversion H. subst. rewrite H2, IH; auto.
  Qed.
  Lemma filter_number_none : forall {X} (p : X -> bool) l k,
    Forall (fun x => p x = false) l -> filter (fun q => p (snd q)) (number_from k l) = [].
  Proof.
    induction l as [| x r IH]; intros k H; simpl; [reflexivity |].
    inversion H. subst. rewrite H2, IH; auto.
  Qed.

  Lemma face1_len : forall n fs, Forall (fun f : list nat => length f = n) fs ->
    forall (p : list Z -> bool), (forall g, length g = n -> p g = true) ->
    Forall (fun x => p x = true) (map face1 fs).
  Proof.
    intros n fs H p Hp. induction H; simpl; constructor; auto.
    apply Hp. unfold face1. rewrite map_length. assumption.
  Qed.
  Lemma face1_len_not : forall n fs, Forall (fun f : list nat => length f = n) fs ->
    forall (p : list Z -> bool), (forall g, length g = n -> p g = false) ->
    Forall (fun x => p x = false) (map face1 fs).
  Proof.
    intros n fs H p Hp. induction H; simpl; constructor; auto.
    apply Hp. unfold face1. rewrite map_length. assumption.
  Qed.

  (* an OBJ file read back gives the same vertices (numbered 1.. in storage
     order) and the same faces (positions + 1), triangles numbered first *)
  Theorem obj_roundtrip :
    forall (coords : list C) tri quad,
      Forall (fun f => length f = 3) tri -> Forall (fun f => length f = 4) quad ->
      read_obj (write_obj coords tri quad)
      = {| o_nodes := number_from 1%Z coords;
           o_tri := number_from 1%Z (map face1 tri);
           o_quad := number_from (1 + Z.of_nat (length tri))%Z (map face1 quad);
           o_polygon := [] |}.
  Proof.
    intros coords tri quad Ht Hq. unfold read_obj, write_obj.
    rewrite !obj_vertices_app, !obj_faces_app.
    rewrite obj_vertices_V, !obj_vertices_F, obj_faces_V, !obj_faces_F, !app_nil_r. simpl app.
    rewrite number_from_app, !filter_app, map_length.
    f_equal.
    - rewrite (filter_number_all (fun g => Nat.eqb (length g) 3)), (filter_number_none (fun g => Nat.eqb (length g) 3)).
      + apply app_nil_r.
      + apply (face1_len_not 4 quad Hq). intros g Hg. rewrite Hg. reflexivity.
      + apply (face1_len 3 tri Ht). intros g Hg. rewrite Hg. reflexivity.
    - rewrite (filter_number_none (fun g => Nat.eqb (length g) 4)), (filter_number_all (fun g => Nat.eqb (length g) 4)).
      + reflexivity.
      + apply (face1_len 4 quad Hq). intros g Hg. rewrite Hg. reflexivity.
      + apply (face1_len_not 3 tri Ht). intros g Hg. rewrite Hg. reflexivity.
    - rewrite (filter_number_none (fun g => negb (Nat.eqb (length g) 3 || Nat.eqb (length g) 4))),
              (filter_number_none (fun g => negb (Nat.eqb (length g) 3 || Nat.eqb (length g) 4))).
      + reflexivity.
      + apply (face1_len_not 4 quad Hq). intros g Hg. rewrite Hg. reflexivity.
      + apply (face1_len_not 3 tri Ht). intros g Hg. rewrite Hg. reflexivity.
  Qed.
End ObjProofs.

(* vertex number k+1 of the OBJ file is the node stored at position k, so a
   face line denotes the same nodes as the surface row it was written from *)
Lemma face1_inverse : forall f, map (fun z => Z.to_nat (z - 1)) (face1 f) = f.
Proof.
  induction f as [| k r IH]; simpl; [reflexivity |]. rewrite IH. f_equal. lia.
Qed.

Lemma face1_inverse_all : forall fs, map (map (fun z => Z.to_nat (z - 1))) (map face1 fs) = fs.
Proof.
  induction fs as [| f r IH]; simpl; [reflexivity |]. rewrite face1_inverse, IH. reflexivity.
Qed.

(* three views, one face set: the faces read back from the OBJ text (vertex
   number - 1 = storage position, position -> node id) are the faces of the
   surface mesh object, which are the faces extract_surface found *)
Theorem three_views_agree :
  forall {C} (coords : list C) m t q s,
    extract_surface m = Some (t, q) -> to_surface m = Some s ->
    let r := read_obj (write_obj coords t q) in
    let back := fun fs => indices2ids (m_nodes m) (map (map (fun z => Z.to_nat (z - 1))) (map snd fs)) in
    back (o_tri r) = Some (map snd (s_tri s)) /\ back (o_quad r) = Some (map snd (s_quad s))
    /\ map snd (s_tri s) = fst (surface_ids m) /\ map snd (s_quad s) = snd (surface_ids m)
    /\ o_polygon r = [] /\ map snd (o_nodes r) = coords.
Proof.
  intros C coords m t q s He Hs r back.
  destruct (extract_surface_shapes m t q He) as [Ht Hq].
  destruct (extract_surface_faces m t q He) as [It Iq].
  destruct (to_surface_faces m s Hs) as [St [Sq _]].
  subst r back. rewrite (obj_roundtrip coords t q Ht Hq). cbn [o_tri o_quad o_polygon o_nodes].
  rewrite !number_from_snd, !face1_inverse_all, St, Sq.
  repeat split; assumption.
Qed.
