(* C10 — the extracted / exported surface is the outward-oriented boundary.
   Statements only; gen/FaceTables.v is regenerated from /repo on every run. *)
From Coq Require Import List ZArith Bool Arith Reals.
Import ListNotations.
From FV.C10.gen Require Import FaceTables.
From FV.C10 Require Import Model Groups ProofsTables ProofsGeom ProofsSurface.

(* every translated face table (tet, tet2, pyr, prism, hex; hexprism too) is
   closed: each directed edge occurs once and its reverse once *)
Theorem C10_table_closed :
  (forall t, table_closedb (used_cols t) (table t) = true)
  /\ table_closedb 12 (concat tbl_hexprism) = true.
Proof. split; [exact table_closed_each | exact hexprism_closed]. Qed.

(* on every affine image of the reference element each table face satisfies
   (face centre - cell centre) . (vector area) = c * det M with c > 0 *)
Theorem C10_table_outward :
  forall t f, In f (table t) -> forall a : affine,
    outward2 ROps (map (aff a) (ref_cell t)) (pick_pts (map (aff a) (ref_cell t)) f)
    = (detM a * outward2 ROps (ref_cell t) (pick_pts (ref_cell t) f))%R
    /\ (0 < outward2 ROps (ref_cell t) (pick_pts (ref_cell t) f))%R.
Proof. exact table_outward. Qed.

(* the divergence sum over an element's faces is femio's volume kernel *)
Theorem C10_table_volume :
  forall (pos : Z -> RV3) t i c, length c = arity t ->
    enclosed24 ROps pos (faces_of t c) = elem_vol24 ROps pos (t, i, c).
Proof. exact table_volume. Qed.

(* the surface consists of exactly the faces that belong to one element *)
Theorem C10_surface_is_boundary :
  forall m, wf_mesh m = true ->
  forall f, In f (surface_sorted m) <-> In f (all_faces m) /\ length (owners f m) = 1.
Proof.
  intros m H f. rewrite surface_sorted_In. apply surface_is_boundary. exact H.
Qed.

(* the surface encloses the sum of the element volumes *)
Theorem C10_surface_volume :
  forall (pos : Z -> RV3) m, oriented_conforming m = true ->
    enclosed24 ROps pos (surface_sorted m) = mesh_vol24 ROps pos m.
Proof. exact surface_volume. Qed.

Print Assumptions C10_table_outward.
Print Assumptions C10_surface_volume.
