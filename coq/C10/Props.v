(* C10 — the extracted / exported surface is the outward-oriented boundary.
   Statements only; gen/FaceTables.v is regenerated from /repo on every run.

   Model (Model.v): all_faces m = rows of _generate_all_faces for every
   element; surface_faces m = the rows whose sorted node tuple occurs once
   (np.unique ... counts == 1); surface_sorted = in np.unique order;
   extract_surface = storage positions; to_surface = ids, numbered;
   surface_fistr; write_obj / read_obj.
   Hypotheses are boolean predicates of the mesh:
     wf_mesh m             node ids distinct, arity matches type, node references
                           resolve, no element lists two faces on one node set
     oriented_conforming m every face node-set is listed once, or twice with the
                           second listing traversed the other way round
   Nothing assumes connectivity: voids and several components are covered. *)
From Coq Require Import String.
From Coq Require Import List ZArith Bool Arith Reals.
Import ListNotations.
From FV.C10.gen Require Import FaceTables.
From FV.C10 Require Import Model Groups ProofsTables ProofsGeom ProofsSurface ProofsClosed ProofsViews ProofsFistr ProofsWf ProofsManifold ObjText ProofsObjText ProofsHexprism ObjVText ProofsObjVText.

(* every translated face table (tet, tet2, pyr, prism, hex; hexprism too) is
   closed: each directed edge occurs once and its reverse once; indices are in
   range; faces are triangles or quadrilaterals *)
Theorem C10_table_closed :
  (forall t, table_closedb (used_cols t) (table t) = true)
  /\ table_closedb 12 (concat tbl_hexprism) = true.
Proof. split; [exact table_closed_each | exact hexprism_closed]. Qed.

(* outward: on every affine image x |-> M x + t of the reference element each
   table face satisfies (face centre - cell centre) . (vector area)
   = c * det M with c > 0 (scaled by 2 * #cell nodes * #face nodes) *)
Theorem C10_table_outward :
  forall t f, In f (table t) -> forall a : affine,
    outward2 ROps (map (aff a) (ref_cell t)) (pick_pts (map (aff a) (ref_cell t)) f)
    = (detM a * outward2 ROps (ref_cell t) (pick_pts (ref_cell t) f))%R
    /\ (0 < outward2 ROps (ref_cell t) (pick_pts (ref_cell t) f))%R.
Proof. exact table_outward. Qed.

(* the divergence sum over an element's faces is femio's volume kernel of
   that type (tet_like, hex/pyr/prism centroid), for all node positions *)
Theorem C10_table_volume :
  forall (pos : Z -> RV3) t i c, length c = arity t ->
    enclosed24 ROps pos (faces_of t c) = elem_vol24 ROps pos (t, i, c).
Proof. exact table_volume. Qed.

(* scale covariance: x |-> k x multiplies element volumes by k^3 *)
Theorem C10_volume_scale : forall k t (p : list RV3), length p = arity t ->
  elem_vol24_pts ROps t (map (vscale ROps k) p) = (k * k * k * elem_vol24_pts ROps t p)%R.
Proof. exact elem_vol24_scale. Qed.

(* translation invariance: x |-> x + v leaves every element volume unchanged *)
Theorem C10_volume_translate : forall v t (p : list RV3), length p = arity t ->
  elem_vol24_pts ROps t (map (vadd ROps v) p) = elem_vol24_pts ROps t p.
Proof. exact elem_vol24_translate. Qed.

(* the surface consists of exactly the element faces that belong to one
   element only *)
Theorem C10_surface_is_boundary :
  forall m, wf_mesh m = true ->
  forall f, In f (surface_sorted m) <-> In f (all_faces m) /\ length (owners f m) = 1.
Proof.
  intros m H f. rewrite surface_sorted_In. apply surface_is_boundary. exact H.
Qed.

(* it is closed: every directed edge is used exactly as often as its reverse
   (on a manifold boundary: once each, i.e. by two faces in opposite
   directions; non-manifold contacts along an edge are allowed for) *)
Theorem C10_surface_closed :
  forall m, oriented_conforming m = true ->
  forall e, count_edge e (surface_sorted m) = count_edge (swap e) (surface_sorted m).
Proof.
  intros m H e.
  rewrite (count_edge_perm e _ _ (surface_sorted_perm m)),
          (count_edge_perm (swap e) _ _ (surface_sorted_perm m)).
  apply surface_closed. exact H.
Qed.

(* "every edge is used by two faces, in opposite directions": when no directed edge of the
   surface is used twice (edge_manifold, a boolean predicate of the mesh; it excludes cells that
   touch along an edge only), every directed edge of every surface face is used exactly once and
   its reverse exactly once — i.e. by exactly one other face, traversed the other way *)
Theorem C10_surface_manifold_edges :
  forall m, oriented_conforming m = true -> edge_manifold m = true ->
  forall f e, In f (surface_sorted m) -> In e (edges f) ->
    count_edge e (surface_sorted m) = 1 /\ count_edge (swap e) (surface_sorted m) = 1.
Proof. exact surface_manifold. Qed.

(* it encloses the sum of the element volumes, for all node positions *)
Theorem C10_surface_volume :
  forall (pos : Z -> RV3) m, oriented_conforming m = true ->
    enclosed24 ROps pos (surface_sorted m) = mesh_vol24 ROps pos m.
Proof. exact surface_volume. Qed.

(* every surface face is a face of an element in the orientation of that
   element's table (which C10_table_outward shows to be the outward one) *)
Theorem C10_surface_faces_are_table_faces :
  forall m f, In f (surface_sorted m) ->
    exists e, In e (elems m) /\ In f (elem_faces e).
Proof.
  intros m f H. apply surface_sorted_In in H. unfold surface_faces in H.
  apply singles_incl in H.
  apply (Permutation.Permutation_in _ (groups_perm same_face (all_faces m))) in H.
  unfold all_faces in H. apply in_flat_map in H. exact H.
Qed.

(* oriented outwards, at mesh level: a surface face has exactly one owner, is
   one of the owner's faces in table orientation, and points away from the
   owner's vertex mean whenever the owner is a convex cell (cell_outward: the
   vertex mean is strictly inside every face plane; C10_table_outward shows
   this for every positively oriented affine image of a reference element) *)
Theorem C10_surface_outward :
  forall (pos : Z -> RV3) m, wf_mesh m = true ->
  forall f, In f (surface_sorted m) ->
    exists e, owners f m = [e] /\ In f (elem_faces e)
              /\ (cell_outward pos e -> (0 < odotR pos e f)%R).
Proof.
  intros pos m H f Hf. apply surface_sorted_In in Hf. apply (surface_outward pos m H f Hf).
Qed.

(* surface mesh object, positions returned by extract_surface and the OBJ
   text describe the same face set; an OBJ file read back gives the same
   vertices and faces *)
Theorem C10_three_views_agree :
  forall {C} (coords : list C) m t q s,
    extract_surface m = Some (t, q) -> to_surface m = Some s ->
    let r := read_obj (write_obj coords t q) in
    let back := fun fs => indices2ids (m_nodes m) (map (map (fun z => Z.to_nat (z - 1))) (map snd fs)) in
    back (o_tri r) = Some (map snd (s_tri s)) /\ back (o_quad r) = Some (map snd (s_quad s))
    /\ map snd (s_tri s) = fst (surface_ids m) /\ map snd (s_quad s) = snd (surface_ids m)
    /\ o_polygon r = [] /\ map snd (o_nodes r) = coords.
Proof. intros C. exact (@three_views_agree C). Qed.

Theorem C10_obj_roundtrip :
  forall {C} (coords : list C) tri quad,
    Forall (fun f => length f = 3) tri -> Forall (fun f => length f = 4) quad ->
    read_obj (write_obj coords tri quad)
    = {| o_nodes := number_from 1%Z coords;
         o_tri := number_from 1%Z (map face1 tri);
         o_quad := number_from (1 + Z.of_nat (length tri))%Z (map face1 quad);
         o_polygon := [] |}.
Proof. intros C. exact (@obj_roundtrip C). Qed.

(* the `f` lines of the OBJ file at the level of CHARACTERS: the line OBJWriter.write renders for a
   row ("f " + " ".join(str(x + 1) ...), str(int) = decimal digits) is read back by
   ObjData.read_elements (split at blanks, int(.)) to the same indices, for every row; and parsing
   all `f` lines of the text gives exactly the OF lines of the token-level model write_obj *)
Theorem C10_obj_face_line_roundtrip :
  forall idx : list Z, parse_face_line (face_line idx) = Some idx.
Proof. exact face_line_roundtrip. Qed.

Theorem C10_obj_text_faces :
  forall {C} (coords : list C) tri quad,
    mapM parse_face_line (obj_text_faces tri quad) = Some (obj_faces (write_obj coords tri quad)).
Proof. intros C. exact (@obj_text_faces_parse C). Qed.

(* the WHOLE OBJ text at character level: with the rendering of one float (repr) and its parser
   (float()) as parameters satisfying parse (fmt x) = Some x and "fmt x is a non-empty blank-free
   token", the lines OBJWriter.write produces ("v x y z" per node, then the f lines) are read by
   the model of ObjData.read_nodes / read_elements (lines starting with the token v / f, split at
   blanks) to exactly the token-level model write_obj — to which C10_obj_roundtrip applies *)
Theorem C10_obj_text_parses :
  forall {F} (fmt : F -> string) (parse : string -> option F),
    (forall x, parse (fmt x) = Some x) -> (forall x, is_token (fmt x)) ->
    forall coords tri quad,
      parse_lines parse (obj_text fmt coords tri quad) = Some (write_obj coords tri quad).
Proof. intros F fmt parse H1 H2. exact (obj_text_parses fmt parse H1 H2). Qed.

Theorem C10_obj_text_roundtrip :
  forall {F} (fmt : F -> string) (parse : string -> option F),
    (forall x, parse (fmt x) = Some x) -> (forall x, is_token (fmt x)) ->
    forall coords tri quad,
      Forall (fun f => length f = 3) tri -> Forall (fun f => length f = 4) quad ->
      option_map read_obj (parse_lines parse (obj_text fmt coords tri quad))
      = Some {| o_nodes := number_from 1%Z coords;
                o_tri := number_from 1%Z (map face1 tri);
                o_quad := number_from (1 + Z.of_nat (length tri))%Z (map face1 quad);
                o_polygon := [] |}.
Proof.
  intros F fmt parse H1 H2 coords tri quad Ht Hq.
  rewrite (obj_text_parses fmt parse H1 H2). cbn [option_map]. f_equal.
  apply obj_roundtrip; assumption.
Qed.

(* the hexprism table (translated; closed by C10_table_closed) is oriented outwards on every affine
   image of an integer reference hexagonal prism *)
Theorem C10_hexprism_table_outward :
  forall f, In f (concat tbl_hexprism) -> forall a : affine,
    outward2 ROps (map (aff a) ref_hexprism) (pick_pts (map (aff a) ref_hexprism) f)
    = (detM a * outward2 ROps ref_hexprism (pick_pts ref_hexprism f))%R
    /\ (0 < outward2 ROps ref_hexprism (pick_pts ref_hexprism f))%R.
Proof. exact hexprism_outward. Qed.

(* (element id, face number) view for tetrahedra (tet / tet2 meshes): (i, n)
   is returned exactly when element i exists and its face number n (columns
   of the translated face-number table) has the node set of a surface face *)
Theorem C10_fistr_view :
  forall m, tets_only m = true -> wf_mesh m = true ->
  forall i n, In (i, n) (surface_fistr m) <->
    exists t c nf, In (t, i, c) (elems m) /\ In nf tbl_fistr /\ n = Z.of_nat (fst nf)
                   /\ exists f, In f (surface_sorted m) /\ key f = sortZ (pick c (snd nf)).
Proof.
  intros m Ht Hwf i n. rewrite (fistr_view m Ht Hwf). split.
  - intros [t [c [nf [H1 [H2 [H3 H4]]]]]]. exists t, c, nf. repeat split; try assumption.
    apply kocc_surface in H4. destruct H4 as [f [Hf Hk]]. exists f. split; [| exact Hk].
    apply surface_sorted_In. exact Hf.
  - intros [t [c [nf [H1 [H2 [H3 [f [Hf Hk]]]]]]]]. exists t, c, nf. repeat split; try assumption.
    apply kocc_surface. exists f. split; [| exact Hk]. apply surface_sorted_In. exact Hf.
Qed.

(* the face numbers are those of the tet table of _generate_all_faces: same
   node set at the same position, numbers 1..4 *)
Theorem C10_fistr_numbers_match :
  map (fun nf => (fst nf, sort_nat (snd nf))) tbl_fistr
  = combine (seq 1 4) (map sort_nat (table Tet)).
Proof. exact fistr_numbers_match. Qed.

(* the wf_mesh clause "no element lists two faces on one node set" follows from
   "the nodes of an element are pairwise different" *)
Theorem C10_wf_from_nodup : forall t c,
  length c = arity t -> nodupZ c = true -> distinct_keys same_face (faces_of t c) = true.
Proof. exact nodup_conn_distinct_keys. Qed.

(* non-vacuity: two tetrahedra glued along a face, ids sparse and unsorted *)
Definition ex_mesh : mesh :=
  {| m_nodes := [40; 7; 19; 3; 88]%Z;
     m_blocks := [(Tet, [(5, [7; 19; 3; 40]); (2, [19; 7; 3; 88])]%Z)] |}.
Example C10_hypotheses_satisfiable :
  wf_mesh ex_mesh = true /\ oriented_conforming ex_mesh = true
  /\ edge_manifold ex_mesh = true
  /\ face_line [3; 12; 1099511627777]%Z = "f 3 12 1099511627777"%string
  /\ parse_face_line "f  3 12   7 "%string = Some [3; 12; 7]%Z
  /\ parse_face_line "f 3 x"%string = None
  /\ tets_only ex_mesh = true
  /\ length (all_faces ex_mesh) = 8 /\ length (surface_sorted ex_mesh) = 6
  /\ length (surface_fistr ex_mesh) = 6.
Proof. vm_compute. repeat split. Qed.

(* non-vacuity of the text-level premises: integers printed in decimal are an instance of (fmt, parse) *)
Example C10_text_premises_satisfiable :
  (forall z, undec (dec z) = Some z) /\ (forall z, is_token (dec z))
  /\ obj_text dec [(0, -5, 12)%Z] [[0; 1; 2]%nat] [] = ["v 0 -5 12"; "f 1 2 3"]%string
  /\ parse_lines undec ["v 0 -5 12"; "vn 0 0 1"; "f 1 2 3"]%string = Some [OV (0, -5, 12)%Z; OF [1; 2; 3]%Z]
  /\ parse_lines undec ["v 0 -5"]%string = None
  /\ length (concat tbl_hexprism) = 10 /\ length ref_hexprism_Z = 12.
Proof. split; [exact undec_dec |]. split; [exact dec_token |]. vm_compute. repeat split. Qed.

Print Assumptions C10_table_outward.
Print Assumptions C10_surface_volume.
Print Assumptions C10_surface_closed.
