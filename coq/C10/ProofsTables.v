(* C10 — finite facts about the translated face tables (re-checked against
   gen/FaceTables.v on every run). *)
From Coq Require Import List ZArith Bool Arith.
Import ListNotations.
From FV.C10.gen Require Import FaceTables.
From FV.C10 Require Import Model.

Definition all_types : list etype := [Tet; Tet2; Pyr; Prism; Hex].

Lemma tables_closed : forallb (fun t => table_closedb (used_cols t) (table t)) all_types = true.
Proof. vm_compute. reflexivity. Qed.

Lemma hexprism_closed : table_closedb 12 (concat tbl_hexprism) = true.
Proof. vm_compute. reflexivity. Qed.

Lemma table_closed_each : forall t, table_closedb (used_cols t) (table t) = true.
Proof. destruct t; vm_compute; reflexivity. Qed.

(* extract_surface_fistr numbers the faces of a tetrahedron in the order of the
   tet table of _generate_all_faces: same node set at the same position *)
Definition sort_nat := isort Nat.leb.
Lemma fistr_numbers_match :
  map (fun nf => (fst nf, sort_nat (snd nf))) tbl_fistr
  = combine (seq 1 4) (map sort_nat (table Tet)).
Proof. vm_compute. reflexivity. Qed.
