(* C10 — model of femio's surface extraction (definitions only).

   Hand model (H) of
     graph_processor.py : extract_facets / _generate_all_faces (tables from
                          gen/FaceTables.v, T), extract_surface,
                          _extract_surface, extract_surface_fistr
     fem_data.py        : to_surface
     fem_elemental_attribute.py : to_surface / _generate_surface(_core)
     formats/obj        : OBJWriter.write, ObjData.read_nodes/read_elements
                          (at the level of tokenised lines)
   and the geometric notions the property speaks about (S-definitions):
   directed edges of a face, the divergence ("enclosed volume") contribution
   of an oriented face, femio's default ("centroid") element volume kernels,
   the outwardness test of a face of a cell. *)
From Coq Require Import List ZArith Bool Arith.
Import ListNotations.
From FV.C10.gen Require Import FaceTables.

(* ------------------------------------------------------------------ *)
(* sorting (np.sort of one row, np.unique / np.lexsort of rows)        *)
Section Sort.
  Context {A : Type} (leb : A -> A -> bool).
  Fixpoint insert (x : A) (l : list A) : list A :=
    match l with
    | [] => [x]
    | y :: r => if leb x y then x :: l else y :: insert x r
    end.
  Fixpoint isort (l : list A) : list A :=
    match l with [] => [] | x :: r => insert x (isort r) end.
End Sort.

Definition sortZ : list Z -> list Z := isort Z.leb.

Fixpoint eqb_listZ (a b : list Z) : bool :=
  match a, b with
  | [], [] => true
  | x :: a', y :: b' => Z.eqb x y && eqb_listZ a' b'
  | _, _ => false
  end.

(* lexicographic order of rows, as np.unique(axis=0) / np.lexsort order them *)
Fixpoint lex_leb (a b : list Z) : bool :=
  match a, b with
  | [], _ => true
  | _ :: _, [] => false
  | x :: a', y :: b' =>
      if Z.ltb x y then true else if Z.ltb y x then false else lex_leb a' b'
  end.

(* ------------------------------------------------------------------ *)
(* grouping by a key: what sort + run-length counting computes          *)
Section Grouping.
  Context {A : Type}.
  Variable same : A -> A -> bool.

  Fixpoint groups_aux (n : nat) (l : list A) : list (list A) :=
    match n with
    | O => []
    | S n' =>
        match l with
        | [] => []
        | x :: r => (x :: filter (same x) r)
                    :: groups_aux n' (filter (fun y => negb (same x y)) r)
        end
    end.
  Definition groups (l : list A) : list (list A) := groups_aux (length l) l.

  (* members of the groups of size one *)
  Definition singles (gs : list (list A)) : list A :=
    flat_map (fun g => match g with [x] => [x] | _ => [] end) gs.

  (* number of entries with the same key *)
  Definition occ (x : A) (l : list A) : nat := length (filter (same x) l).

  Variable rev_of : A -> A -> bool.
  Definition group_ok (g : list A) : bool :=
    match g with
    | [_] => true
    | [x; y] => rev_of y x
    | _ => false
    end.
  Definition groups_ok (l : list A) : bool := forallb group_ok (groups l).

  (* pairwise different keys *)
  Fixpoint distinct_keys (l : list A) : bool :=
    match l with
    | [] => true
    | x :: r => negb (existsb (same x) r) && distinct_keys r
    end.
End Grouping.

(* ------------------------------------------------------------------ *)
(* meshes                                                               *)
Inductive etype := Tet | Tet2 | Pyr | Prism | Hex.

Definition arity (t : etype) : nat :=
  match t with Tet => 4 | Tet2 => 10 | Pyr => 5 | Prism => 6 | Hex => 8 end.

(* the translated table, all groups ((tri...), (quad...)) flattened *)
Definition table (t : etype) : list (list nat) :=
  concat (match t with
          | Tet => tbl_tet | Tet2 => tbl_tet2 | Pyr => tbl_pyr
          | Prism => tbl_prism | Hex => tbl_hex
          end).

(* number of leading columns the table is applied to *)
Definition used_cols (t : etype) : nat :=
  match t with Tet2 => cols_tet2 | _ => arity t end.

Definition face := list Z.            (* node ids, in the stored orientation *)

Definition pick (c : list Z) (f : list nat) : face :=
  map (fun i => nth i c 0%Z) f.

(* rows of _generate_all_faces for one element; an element whose
   connectivity has the wrong length has no faces in the model (wf_mesh
   excludes it; numpy would raise) *)
Definition faces_of (t : etype) (c : list Z) : list face :=
  if Nat.eqb (length c) (arity t)
  then map (pick (firstn (used_cols t) c)) (table t)
  else [].

Definition elem := (etype * Z * list Z)%type.      (* type, element id, node ids *)

Record mesh := {
  m_nodes : list Z;                                 (* node ids, storage order *)
  m_blocks : list (etype * list (Z * list Z))       (* element blocks, storage order *)
}.

Definition elems (m : mesh) : list elem :=
  flat_map (fun b => map (fun ec => (fst b, fst ec, snd ec)) (snd b)) (m_blocks m).

Definition elem_faces (e : elem) : list face :=
  let '(t, _, c) := e in faces_of t c.

Definition all_faces (m : mesh) : list face := flat_map elem_faces (elems m).

(* ------------------------------------------------------------------ *)
(* faces with a unique sorted node tuple                                *)
Definition key (f : face) : list Z := sortZ f.
Definition same_face (f g : face) : bool := eqb_listZ (key f) (key g).

(* g is f traversed the other way round (triangles and quadrilaterals) *)
Definition is_reversal (g f : face) : bool :=
  match f with
  | [a; b; c] => existsb (eqb_listZ g) [[c; b; a]; [b; a; c]; [a; c; b]]
  | [a; b; c; d] =>
      existsb (eqb_listZ g) [[d; c; b; a]; [c; b; a; d]; [b; a; d; c]; [a; d; c; b]]
  | _ => false
  end.

Definition surface_faces (m : mesh) : list face :=
  singles (groups same_face (all_faces m)).

Definition key_leb (f g : face) : bool := lex_leb (key f) (key g).

(* facets[unique_indices[counts == 1]] : ordered by sorted tuple *)
Definition surface_sorted (m : mesh) : list face := isort key_leb (surface_faces m).

Definition faces_of_len (n : nat) (l : list face) : list face :=
  filter (fun f => Nat.eqb (length f) n) l.

(* surface as node ids: (triangles, quadrilaterals) *)
Definition surface_ids (m : mesh) : list face * list face :=
  (faces_of_len 3 (surface_sorted m), faces_of_len 4 (surface_sorted m)).

(* nodes.ids2indices / nodes.ids[...] *)
Fixpoint index_of (i : Z) (ids : list Z) : option nat :=
  match ids with
  | [] => None
  | j :: r => if Z.eqb i j then Some O else option_map S (index_of i r)
  end.

Fixpoint mapM {X Y : Type} (f : X -> option Y) (l : list X) : option (list Y) :=
  match l with
  | [] => Some []
  | x :: r => match f x, mapM f r with
              | Some y, Some ys => Some (y :: ys)
              | _, _ => None
              end
  end.

Definition ids2indices (ids : list Z) (fs : list face) : option (list (list nat)) :=
  mapM (mapM (fun i => index_of i ids)) fs.

Definition indices2ids (ids : list Z) (fs : list (list nat)) : option (list face) :=
  mapM (mapM (fun k => nth_error ids k)) fs.

(* extract_surface(): storage positions; None = a face refers to an unknown id *)
Definition extract_surface (m : mesh) : option (list (list nat) * list (list nat)) :=
  match ids2indices (m_nodes m) (fst (surface_ids m)),
        ids2indices (m_nodes m) (snd (surface_ids m)) with
  | Some t, Some q => Some (t, q)
  | _, _ => None
  end.

(* to_surface(): elements of the surface mesh — numbered 1.. through the
   triangles, then on through the quadrilaterals — as node ids, and the node
   ids the surface mesh keeps (sorted unique storage positions) *)
Fixpoint number_from {X : Type} (k : Z) (l : list X) : list (Z * X) :=
  match l with [] => [] | x :: r => (k, x) :: number_from (k + 1) r end.

Definition insert_uniq (k : nat) (l : list nat) : list nat :=
  if existsb (Nat.eqb k) l then l else insert Nat.leb k l.
Definition sorted_unique (l : list nat) : list nat := fold_right insert_uniq [] l.

Record surface_mesh := {
  s_nodes : list Z;
  s_tri : list (Z * face);
  s_quad : list (Z * face)
}.

Definition to_surface (m : mesh) : option surface_mesh :=
  match extract_surface m with
  | None => None
  | Some (t, q) =>
      match indices2ids (m_nodes m) t, indices2ids (m_nodes m) q,
            mapM (fun k => nth_error (m_nodes m) k) (sorted_unique (concat (t ++ q))) with
      | Some ti, Some qi, Some ns =>
          Some {| s_nodes := ns;
                  s_tri := number_from 1 ti;
                  s_quad := number_from (1 + Z.of_nat (length ti)) qi |}
      | _, _, _ => None
      end
  end.

(* ------------------------------------------------------------------ *)
(* extract_surface_fistr (tetrahedra): rows (sorted nodes, elem id, face
   number), lexsort, keep rows whose node triple differs from both
   neighbours; returns (element id, face number)                         *)
Definition fistr_row := (list Z * Z * Z)%type.       (* sorted nodes, eid, face no *)

Definition fistr_rows_of (e : elem) : list fistr_row :=
  let '(_, i, c) := e in
  map (fun nf => (sortZ (pick c (snd nf)), i, Z.of_nat (fst nf))) tbl_fistr.

Definition fistr_same (r s : fistr_row) : bool := eqb_listZ (fst (fst r)) (fst (fst s)).
Definition fistr_leb (r s : fistr_row) : bool :=
  lex_leb (fst (fst r) ++ [snd (fst r); snd r]) (fst (fst s) ++ [snd (fst s); snd s]).

(* the function stacks one block of rows per face number; the order of rows
   before the lexsort is irrelevant because all rows are distinct *)
Definition fistr_rows (m : mesh) : list fistr_row := flat_map fistr_rows_of (elems m).

Definition surface_fistr (m : mesh) : list (Z * Z) :=
  map (fun r => (snd (fst r), snd r))
      (isort fistr_leb (singles (groups fistr_same (fistr_rows m)))).

(* the oriented face an (element id, face number) pair denotes: the face of
   _generate_all_faces with the same node set *)
Definition face_of_number (c : list Z) (n : Z) : option face :=
  match find (fun nf => Z.eqb (Z.of_nat (fst nf)) n) tbl_fistr with
  | None => None
  | Some nf => find (same_face (pick c (snd nf))) (faces_of Tet (firstn 4 c))
  end.

(* ------------------------------------------------------------------ *)
(* Wavefront OBJ at the level of tokenised lines                         *)
Section Obj.
  Context {C : Type}.                               (* one coordinate triple *)
  Inductive objline := OV (c : C) | OF (idx : list Z).

  Definition obj_face (f : list nat) : objline := OF (map (fun k => Z.of_nat k + 1)%Z f).

  (* OBJWriter.write: all nodes in storage order, then the surface rows + 1 *)
  Definition write_obj (coords : list C) (tri quad : list (list nat)) : list objline :=
    map OV coords ++ map obj_face tri ++ map obj_face quad.

  Definition obj_vertices (ls : list objline) : list C :=
    flat_map (fun l => match l with OV c => [c] | _ => [] end) ls.
  Definition obj_faces (ls : list objline) : list (list Z) :=
    flat_map (fun l => match l with OF f => [f] | _ => [] end) ls.

  Record obj_mesh := {
    o_nodes : list (Z * C);
    o_tri : list (Z * list Z);
    o_quad : list (Z * list Z);
    o_polygon : list (Z * list Z)
  }.

  (* ObjData.read_nodes / read_elements: ids 1.. in line order; faces keep the
     number of their `f` line *)
  Definition read_obj (ls : list objline) : obj_mesh :=
    let fs := number_from 1%Z (obj_faces ls) in
    {| o_nodes := number_from 1%Z (obj_vertices ls);
       o_tri := filter (fun p => Nat.eqb (length (snd p)) 3) fs;
       o_quad := filter (fun p => Nat.eqb (length (snd p)) 4) fs;
       o_polygon := filter (fun p => negb (Nat.eqb (length (snd p)) 3 || Nat.eqb (length (snd p)) 4)) fs |}.
End Obj.
Arguments objline : clear implicits.
Arguments obj_mesh : clear implicits.

(* ------------------------------------------------------------------ *)
(* well-formedness and orientation of a solid mesh (boolean)             *)
Fixpoint nodupZ (l : list Z) : bool :=
  match l with [] => true | x :: r => negb (existsb (Z.eqb x) r) && nodupZ r end.

Definition elem_wf (ids : list Z) (e : elem) : bool :=
  let '(t, _, c) := e in
  Nat.eqb (length c) (arity t)
  && forallb (fun i => existsb (Z.eqb i) ids) c
  && distinct_keys same_face (faces_of t c).

(* node ids distinct; every element has the arity of its type, refers to
   existing nodes and does not list two faces on the same node set *)
Definition wf_mesh (m : mesh) : bool :=
  nodupZ (m_nodes m) && forallb (elem_wf (m_nodes m)) (elems m).

(* every face is listed once (boundary) or twice, the second time the other
   way round (interior face of two consistently oriented elements) *)
Definition oriented_conforming (m : mesh) : bool :=
  groups_ok same_face is_reversal (all_faces m).

(* elements that list a face on the node set of f *)
Definition owners (f : face) (m : mesh) : list elem :=
  filter (fun e => existsb (same_face f) (elem_faces e)) (elems m).

(* ------------------------------------------------------------------ *)
(* geometry over a commutative ring (Z for execution, R for theorems)     *)
Record Ops (T : Type) := {
  zero : T; one : T;
  add : T -> T -> T; sub : T -> T -> T; mul : T -> T -> T; opp : T -> T
}.
Arguments zero {T}. Arguments one {T}. Arguments add {T}. Arguments sub {T}.
Arguments mul {T}. Arguments opp {T}.

Definition ZOps : Ops Z :=
  {| zero := 0%Z; one := 1%Z; add := Z.add; sub := Z.sub; mul := Z.mul; opp := Z.opp |}.

Section Geom.
  Context {T : Type} (o : Ops T).
  Definition V3 := (T * T * T)%type.
  Local Notation "a + b" := (add o a b).
  Local Notation "a - b" := (sub o a b).
  Local Notation "a * b" := (mul o a b).

  Definition vx (p : V3) := fst (fst p).
  Definition vy (p : V3) := snd (fst p).
  Definition vz (p : V3) := snd p.
  Definition vadd (p q : V3) : V3 := (vx p + vx q, vy p + vy q, vz p + vz q).
  Definition vsub (p q : V3) : V3 := (vx p - vx q, vy p - vy q, vz p - vz q).
  Definition vzero : V3 := (zero o, zero o, zero o).
  Definition vscale (k : T) (p : V3) : V3 := (k * vx p, k * vy p, k * vz p).
  Definition cross (p q : V3) : V3 :=
    (vy p * vz q - vz p * vy q, vz p * vx q - vx p * vz q, vx p * vy q - vy p * vx q).
  Definition dot (p q : V3) : T := vx p * vx q + vy p * vy q + vz p * vz q.
  (* np.linalg.det(np.stack([a, b, c], axis=1)): rows a, b, c *)
  Definition det3 (a b c : V3) : T := dot a (cross b c).
  Definition vsum (l : list V3) : V3 := fold_right vadd vzero l.
  Fixpoint of_nat (n : nat) : T := match n with O => zero o | S k => one o + of_nat k end.
  Definition four : T := of_nat 4.

  (* 24 x the divergence-theorem contribution (1/3) (centre . area vector) of
     an oriented face: triangle det[a,b,c]/6, quadrilateral fanned about its
     vertex mean (femio's _calculate_volumes_quad_centroid) *)
  Definition quad24 (a b c d : V3) : T :=
    let s := vadd (vadd a b) (vadd c d) in
    det3 s a b + det3 s b c + det3 s c d + det3 s d a.
  Definition face24 (pts : list V3) : T :=
    match pts with
    | [a; b; c] => four * det3 a b c
    | [a; b; c; d] => quad24 a b c d
    | _ => zero o
    end.

  Definition sumT (l : list T) : T := fold_right (add o) (zero o) l.

  Variable pos : Z -> V3.                            (* node id -> position *)
  Definition face_pts (f : face) : list V3 := map pos f.
  (* 24 x the volume enclosed by a list of oriented faces *)
  Definition enclosed24 (fs : list face) : T := sumT (map (fun f => face24 (face_pts f)) fs).

  (* 24 x femio's default element volume (calculate_element_volumes,
     mode="centroid"): _calculate_element_volumes_tet_like,
     _hex_centroid, _pyr_centroid, _prism_centroid *)
  Definition tet_like (p0 p1 p2 p3 : V3) : T := det3 (vsub p1 p0) (vsub p2 p0) (vsub p3 p0).
  Definition elem_vol24_pts (t : etype) (p : list V3) : T :=
    match t, p with
    | Tet, [p0; p1; p2; p3] => four * tet_like p0 p1 p2 p3
    | Tet2, p0 :: p1 :: p2 :: p3 :: _ => four * tet_like p0 p1 p2 p3
    | Hex, [p0; p1; p2; p3; p4; p5; p6; p7] =>
        quad24 p3 p2 p1 p0 + quad24 p5 p4 p0 p1 + quad24 p6 p7 p4 p5
        + quad24 p2 p3 p7 p6 + quad24 p5 p1 p2 p6 + quad24 p4 p7 p3 p0
    | Pyr, [p0; p1; p2; p3; p4] =>
        four * (det3 p0 p1 p4 + det3 p1 p2 p4 + det3 p2 p3 p4 + det3 p3 p0 p4)
        + quad24 p1 p0 p3 p2
    | Prism, [p0; p1; p2; p3; p4; p5] =>
        four * (det3 p0 p1 p2 + det3 p5 p4 p3)
        + quad24 p2 p5 p3 p0 + quad24 p1 p4 p5 p2 + quad24 p0 p3 p4 p1
    | _, _ => zero o
    end.
  Definition elem_vol24 (e : elem) : T :=
    let '(t, _, c) := e in
    if Nat.eqb (length c) (arity t) then elem_vol24_pts t (map pos c) else zero o.
  Definition mesh_vol24 (m : mesh) : T := sumT (map elem_vol24 (elems m)).

  (* twice the vector area of a closed polygon (independent of any
     triangulation): sum of p_i x p_{i+1} *)
  Definition varea2 (pts : list V3) : V3 :=
    match pts with
    | [a; b; c] => vadd (vadd (cross a b) (cross b c)) (cross c a)
    | [a; b; c; d] => vadd (vadd (cross a b) (cross b c)) (vadd (cross c d) (cross d a))
    | _ => vzero
    end.

  (* (face vertex mean - cell vertex mean) . vector area, scaled by the
     positive factor 2 * #cell * #face so that no division is needed *)
  Definition outward2 (cell facepts : list V3) : T :=
    dot (vsub (vscale (of_nat (length cell)) (vsum facepts))
              (vscale (of_nat (length facepts)) (vsum cell)))
        (varea2 facepts).
End Geom.

(* directed edges of a face: consecutive pairs, cyclically *)
Definition dedge := (Z * Z)%type.
Definition edges (f : face) : list dedge :=
  match f with
  | [] => []
  | a :: r => combine f (r ++ [a])
  end.
Definition dedge_eqb (e1 e2 : dedge) : bool := Z.eqb (fst e1) (fst e2) && Z.eqb (snd e1) (snd e2).
Definition count_edge (e : dedge) (fs : list face) : nat :=
  length (filter (dedge_eqb e) (flat_map edges fs)).
Definition swap (e : dedge) : dedge := (snd e, fst e).

(* edge-manifold boundary: no directed edge of the surface is used twice (false
   e.g. for two cells that touch along an edge only) *)
Definition edge_manifold_faces (fs : list face) : bool :=
  forallb (fun e => Nat.leb (count_edge e fs) 1) (flat_map edges fs).

Definition edge_manifold (m : mesh) : bool := edge_manifold_faces (surface_sorted m).

(* directed index edges of a face table *)
Definition iedges (f : list nat) : list (nat * nat) :=
  match f with [] => [] | a :: r => combine f (r ++ [a]) end.
Definition iedge_eqb (e1 e2 : nat * nat) : bool :=
  Nat.eqb (fst e1) (fst e2) && Nat.eqb (snd e1) (snd e2).
Definition icount (e : nat * nat) (l : list (nat * nat)) : nat := length (filter (iedge_eqb e) l).

(* every directed edge of the table occurs once and its reverse once; all
   indices are below the number of columns used; faces are tri or quad *)
Definition table_closedb (ncols : nat) (tb : list (list nat)) : bool :=
  let es := flat_map iedges tb in
  forallb (fun e => Nat.eqb (icount e es) 1 && Nat.eqb (icount (snd e, fst e) es) 1) es
  && forallb (forallb (fun i => Nat.ltb i ncols)) tb
  && forallb (fun f => Nat.eqb (length f) 3 || Nat.eqb (length f) 4) tb.

(* reference elements (integer coordinates, femio-positive orientation) *)
Definition ref_pts (t : etype) : list (Z * Z * Z) :=
  (match t with
   | Tet => [(0,0,0); (1,0,0); (0,1,0); (0,0,1)]
   | Tet2 => [(0,0,0); (2,0,0); (0,2,0); (0,0,2); (1,0,0); (1,1,0); (0,1,0); (0,0,1); (1,0,1); (0,1,1)]
   | Pyr => [(0,0,0); (2,0,0); (2,2,0); (0,2,0); (1,1,2)]
   | Prism => [(0,0,0); (1,0,0); (0,1,0); (0,0,-1); (1,0,-1); (0,1,-1)]
   | Hex => [(0,0,0); (1,0,0); (1,1,0); (0,1,0); (0,0,1); (1,0,1); (1,1,1); (0,1,1)]
   end)%Z.
