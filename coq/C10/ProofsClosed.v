(* C10 — the extracted surface is closed: every directed edge is used as
   often as its reverse. *)
From Coq Require Import List ZArith Bool Arith Lia Permutation.
Import ListNotations.
From FV.C10.gen Require Import FaceTables.
From FV.C10 Require Import Model Groups ProofsTables.

(* ---------------------------------------------------------------- *)
(* reflection: permutations of concrete lists                          *)
Section PermCheck.
  Context {A : Type} (eqb : A -> A -> bool).
  Hypothesis eqb_eq : forall x y, eqb x y = true -> x = y.

  Fixpoint remove_first (x : A) (l : list A) : option (list A) :=
    match l with
    | [] => None
    | y :: r => if eqb x y then Some r
                else match remove_first x r with Some r' => Some (y :: r') | None => None end
    end.

  Fixpoint perm_check (l1 l2 : list A) : bool :=
    match l1 with
    | [] => match l2 with [] => true | _ => false end
    | x :: r => match remove_first x l2 with
                | Some l2' => perm_check r l2'
                | None => false
                end
    end.

  Lemma remove_first_perm : forall x l l', remove_first x l = Some l' -> Permutation l (x :: l').
  Proof.
    intros x l. induction l as [| y r IH]; intros l' H; simpl in H; [discriminate |].
    destruct (eqb x y) eqn:E.
    - apply eqb_eq in E. subst y. inversion H. subst. apply Permutation_refl.
    - destruct (remove_first x r) as [r' |] eqn:E2; [| discriminate].
      inversion H. subst l'. specialize (IH r' eq_refl).
      eapply Permutation_trans; [apply perm_skip; exact IH | apply perm_swap].
  Qed.

  Lemma perm_check_sound : forall l1 l2, perm_check l1 l2 = true -> Permutation l1 l2.
  Proof.
    induction l1 as [| x r IH]; intros l2 H; simpl in H.
    - destruct l2; [constructor | discriminate].
    - destruct (remove_first x l2) as [l2' |] eqn:E; [| discriminate].
      apply remove_first_perm in E. apply IH in H.
      eapply Permutation_trans; [apply perm_skip; exact H | apply Permutation_sym; exact E].
  Qed.
End PermCheck.

(* ---------------------------------------------------------------- *)
Definition b2n (b : bool) : nat := if b then 1 else 0.

Lemma count_cons : forall {A} (p : A -> bool) x l,
  length (filter p (x :: l)) = b2n (p x) + length (filter p l).
Proof. intros. simpl. destruct (p x); reflexivity. Qed.

Lemma filter_perm_length : forall {A} (p : A -> bool) l l',
  Permutation l l' -> length (filter p l) = length (filter p l').
Proof.
  intros A p l l' H. induction H.
  - reflexivity.
  - rewrite !count_cons. lia.
  - rewrite !count_cons. lia.
  - lia.
Qed.

Definition iswap (e : nat * nat) : nat * nat := (snd e, fst e).

Lemma iedge_eqb_eq : forall x y, iedge_eqb x y = true -> x = y.
Proof.
  intros [a b] [c d] H. unfold iedge_eqb in H. simpl in H.
  apply andb_true_iff in H. destruct H as [H1 H2].
  apply Nat.eqb_eq in H1. apply Nat.eqb_eq in H2. subst. reflexivity.
Qed.

(* the directed edges of every table are closed under reversal (as a multiset) *)
Lemma table_edges_perm : forall t,
  Permutation (flat_map iedges (table t)) (map iswap (flat_map iedges (table t))).
Proof.
  intro t. apply (perm_check_sound iedge_eqb iedge_eqb_eq).
  destruct t; vm_compute; reflexivity.
Qed.

(* ---------------------------------------------------------------- *)
(* edges of a picked face                                              *)
Definition hh (c : list Z) (e : nat * nat) : dedge := (nth (fst e) c 0%Z, nth (snd e) c 0%Z).

Lemma combine_map2 : forall {X Y} (h : X -> Y) (l l' : list X),
  combine (map h l) (map h l') = map (fun p => (h (fst p), h (snd p))) (combine l l').
Proof.
  intros X Y h l. induction l as [| a r IH]; intros [| b r']; simpl; try reflexivity.
  rewrite IH. reflexivity.
Qed.

Lemma combine_nth : forall c (l l' : list nat),
  combine (map (fun i => nth i c 0%Z) l) (map (fun i => nth i c 0%Z) l') = map (hh c) (combine l l').
Proof.
  intros c l. induction l as [| a r IH]; intros [| b r']; simpl; try reflexivity.
  rewrite IH. reflexivity.
Qed.

Lemma edges_pick : forall c f, edges (pick c f) = map (hh c) (iedges f).
Proof.
  intros c f. destruct f as [| a r]; [reflexivity |].
  unfold pick, edges, iedges. cbn [map].
  assert (E : map (fun i => nth i c 0%Z) r ++ [nth a c 0%Z] = map (fun i => nth i c 0%Z) (r ++ [a]))
    by (rewrite map_app; reflexivity).
  rewrite E. exact (combine_nth c (a :: r) (r ++ [a])).
Qed.

Lemma flat_map_edges_pick : forall c tb,
  flat_map edges (map (pick c) tb) = map (hh c) (flat_map iedges tb).
Proof.
  intros c tb. induction tb as [| f r IH]; simpl; [reflexivity |].
  rewrite IH, edges_pick, map_app. reflexivity.
Qed.

Lemma dedge_eqb_swap : forall e x, dedge_eqb e (swap x) = dedge_eqb (swap e) x.
Proof. intros [a b] [c d]. unfold dedge_eqb, swap. simpl. apply andb_comm. Qed.

Lemma swap_swap : forall e, swap (swap e) = e.
Proof. intros [a b]. reflexivity. Qed.

Lemma count_map_swap : forall e l,
  length (filter (dedge_eqb e) (map swap l)) = length (filter (dedge_eqb (swap e)) l).
Proof.
  intros e l. induction l as [| x r IH]; [reflexivity |].
  simpl map. rewrite !count_cons, IH, dedge_eqb_swap. reflexivity.
Qed.

(* every element uses each directed edge as often as its reverse *)
Lemma elem_edges_balanced : forall e el,
  count_edge e (elem_faces el) = count_edge (swap e) (elem_faces el).
Proof.
  intros e [[t i] c]. unfold elem_faces, faces_of, count_edge.
  destruct (Nat.eqb (length c) (arity t)); [| reflexivity].
  rewrite flat_map_edges_pick.
  rewrite <- count_map_swap.
  apply filter_perm_length.
  rewrite map_map.
  pose proof (Permutation_map (hh (firstn (used_cols t) c)) (table_edges_perm t)) as P.
  rewrite map_map in P. exact P.
Qed.

(* ---------------------------------------------------------------- *)
(* a reversed face uses the reversed edges                             *)
Definition cnt (e : dedge) (f : face) : nat := length (filter (dedge_eqb e) (edges f)).

Lemma deq_swap_pair : forall e a b, dedge_eqb (swap e) (a, b) = dedge_eqb e (b, a).
Proof. intros e a b. rewrite <- dedge_eqb_swap. reflexivity. Qed.

Lemma cnt_reversal : forall e g f, is_reversal g f = true -> cnt e g = cnt (swap e) f.
Proof.
  intros e g f H.
  destruct f as [| a [| b [| c [| d [| x r]]]]]; simpl in H; try discriminate.
  - repeat rewrite orb_true_iff in H.
    destruct H as [H | [H | [H | H]]]; try discriminate;
      apply eqb_listZ_spec in H; subst g; unfold cnt; simpl edges;
      rewrite !count_cons, !deq_swap_pair; simpl; lia.
  - repeat rewrite orb_true_iff in H.
    destruct H as [H | [H | [H | [H | H]]]]; try discriminate;
      apply eqb_listZ_spec in H; subst g; unfold cnt; simpl edges;
      rewrite !count_cons, !deq_swap_pair; simpl; lia.
Qed.

(* ---------------------------------------------------------------- *)
Local Open Scope Z_scope.

Definition bal (e : dedge) (f : face) : Z := Z.of_nat (cnt e f) - Z.of_nat (cnt (swap e) f).

Lemma bal_reversal : forall e x y, is_reversal y x = true -> bal e y = - bal e x.
Proof.
  intros e x y H. unfold bal.
  rewrite (cnt_reversal e y x H), (cnt_reversal (swap e) y x H), swap_swap. lia.
Qed.

Lemma Z_comm : forall a b : Z, a + b = b + a. Proof. intros; lia. Qed.
Lemma Z_assoc : forall a b c : Z, a + (b + c) = (a + b) + c. Proof. intros; lia. Qed.
Lemma Z_0_l : forall a : Z, 0 + a = a. Proof. intros; lia. Qed.
Lemma Z_opp : forall a : Z, a + - a = 0. Proof. intros; lia. Qed.

Lemma count_edge_sum : forall e fs, count_edge e fs = list_sum (map (cnt e) fs).
Proof.
  intros e fs. unfold count_edge.
  exact (occ_flat_map dedge_eqb edges e fs).
Qed.

Lemma msum_bal : forall e fs,
  msum Z 0 Z.add (map (bal e) fs) = Z.of_nat (count_edge e fs) - Z.of_nat (count_edge (swap e) fs).
Proof.
  intros e fs. rewrite !count_edge_sum.
  induction fs as [| f r IH]; [reflexivity |].
  cbn [map list_sum fold_right].
  change (msum Z 0 Z.add (bal e f :: map (bal e) r)) with (bal e f + msum Z 0 Z.add (map (bal e) r)).
  rewrite IH. unfold bal, list_sum. lia.
Qed.

Lemma msum_zero : forall {B} (g : B -> Z) l, (forall x, g x = 0) -> msum Z 0 Z.add (map g l) = 0.
Proof.
  intros B g l H. induction l as [| x r IH]; [reflexivity |].
  cbn [map].
  change (msum Z 0 Z.add (g x :: map g r)) with (g x + msum Z 0 Z.add (map g r)).
  rewrite H, IH. reflexivity.
Qed.

Theorem surface_closed :
  forall m, oriented_conforming m = true ->
  forall e, count_edge e (surface_faces m) = count_edge (swap e) (surface_faces m).
Proof.
  intros m Hoc e.
  assert (H : msum Z 0 Z.add (map (bal e) (surface_faces m)) = 0).
  { unfold surface_faces.
    rewrite <- (cancellation same_face Z 0 Z.add Z.opp Z_comm Z_assoc Z_0_l Z_opp is_reversal
                  (bal e) (bal_reversal e) (all_faces m) Hoc).
    unfold all_faces.
    rewrite (msum_flat_map Z 0 Z.add Z_assoc Z_0_l elem_faces).
    apply msum_zero. intro el. rewrite msum_bal, (elem_edges_balanced e el). lia. }
  rewrite msum_bal in H. lia.
Qed.

Lemma count_edge_perm : forall e fs fs', Permutation fs fs' -> count_edge e fs = count_edge e fs'.
Proof.
  intros e fs fs' H. rewrite !count_edge_sum.
  induction H; simpl; try lia.
Qed.
