(* C10 — mesh-level theorems: the extracted surface is the boundary, it is
   closed, and it encloses the sum of the element volumes. *)
From Coq Require Import List ZArith Bool Arith Reals Lra Lia Permutation.
Import ListNotations.
From FV.C10.gen Require Import FaceTables.
From FV.C10 Require Import Model Groups ProofsTables ProofsGeom.

(* ---------------------------------------------------------------- *)
(* same_face is an equivalence                                        *)
Lemma same_face_refl : forall f, same_face f f = true.
Proof. intro f. unfold same_face. apply eqb_listZ_spec. reflexivity. Qed.

Lemma same_face_sym : forall f g, same_face f g = same_face g f.
Proof.
  intros f g. unfold same_face.
  destruct (eqb_listZ (key f) (key g)) eqn:E1, (eqb_listZ (key g) (key f)) eqn:E2; auto.
  - apply eqb_listZ_spec in E1. rewrite E1 in E2.
    assert (eqb_listZ (key g) (key g) = true) by (apply eqb_listZ_spec; reflexivity). congruence.
  - apply eqb_listZ_spec in E2. rewrite E2 in E1.
    assert (eqb_listZ (key f) (key f) = true) by (apply eqb_listZ_spec; reflexivity). congruence.
Qed.

Lemma same_face_trans : forall f g h, same_face f g = true -> same_face g h = true -> same_face f h = true.
Proof.
  unfold same_face. intros f g h H1 H2.
  apply eqb_listZ_spec in H1. apply eqb_listZ_spec in H2. apply eqb_listZ_spec. congruence.
Qed.

(* ---------------------------------------------------------------- *)
(* surface_is_boundary                                                *)
Lemma wf_elems : forall m, wf_mesh m = true ->
  forall e, In e (elems m) -> distinct_keys same_face (elem_faces e) = true.
Proof.
  intros m H e He. unfold wf_mesh in H. apply andb_true_iff in H. destruct H as [_ H].
  rewrite forallb_forall in H. specialize (H e He).
  unfold elem_wf in H. destruct e as [[t i] c]. simpl.
  apply andb_true_iff in H. destruct H as [_ H]. exact H.
Qed.

Theorem surface_is_boundary :
  forall m, wf_mesh m = true ->
  forall f, In f (surface_faces m) <-> In f (all_faces m) /\ length (owners f m) = 1.
Proof.
  intros m Hwf f. unfold surface_faces.
  rewrite (singles_spec same_face same_face_refl same_face_sym same_face_trans).
  unfold all_faces, owners.
  rewrite (occ_owners same_face same_face_sym same_face_trans elem_faces (elems m) f (wf_elems m Hwf)).
  reflexivity.
Qed.

Lemma surface_sorted_perm : forall m, Permutation (surface_sorted m) (surface_faces m).
Proof. intro m. apply isort_perm. Qed.

Lemma surface_sorted_In : forall m f, In f (surface_sorted m) <-> In f (surface_faces m).
Proof.
  intros m f. split; intro H.
  - eapply Permutation_in; [apply surface_sorted_perm | exact H].
  - eapply Permutation_in; [apply Permutation_sym, surface_sorted_perm | exact H].
Qed.

(* ---------------------------------------------------------------- *)
(* surface_volume                                                     *)
Local Open Scope R_scope.

Lemma sumT_msum : forall l, sumT ROps l = msum R 0 Rplus l.
Proof. reflexivity. Qed.

Lemma elem_volume_eq : forall (pos : Z -> RV3) e,
  enclosed24 ROps pos (elem_faces e) = elem_vol24 ROps pos e.
Proof.
  intros pos [[t i] c]. unfold elem_faces.
  destruct (Nat.eqb (length c) (arity t)) eqn:E.
  - apply table_volume. apply Nat.eqb_eq. exact E.
  - unfold faces_of, elem_vol24. rewrite E. reflexivity.
Qed.

Lemma R_comm : forall a b : R, a + b = b + a. Proof. intros; ring. Qed.
Lemma R_assoc : forall a b c : R, a + (b + c) = (a + b) + c. Proof. intros; ring. Qed.
Lemma R_0_l : forall a : R, 0 + a = a. Proof. intros; ring. Qed.
Lemma R_opp : forall a : R, a + - a = 0. Proof. intros; ring. Qed.

Theorem surface_volume :
  forall (pos : Z -> RV3) m, oriented_conforming m = true ->
    enclosed24 ROps pos (surface_sorted m) = mesh_vol24 ROps pos m.
Proof.
  intros pos m Hoc.
  unfold enclosed24, mesh_vol24. rewrite !sumT_msum.
  rewrite (msum_perm R 0 Rplus R_comm R_assoc _ _
             (Permutation_map _ (surface_sorted_perm m))).
  unfold surface_faces.
  rewrite <- (cancellation same_face R 0 Rplus Ropp R_comm R_assoc R_0_l R_opp is_reversal
                (fun f => face24 ROps (face_pts pos f))
                (fun x y H => face24_reversal pos y x H) (all_faces m) Hoc).
  unfold all_faces.
  rewrite (msum_flat_map R 0 Rplus R_assoc R_0_l elem_faces).
  f_equal. apply map_ext. intro e.
  rewrite <- elem_volume_eq. reflexivity.
Qed.



(* ---------------------------------------------------------------- *)
(* oriented outwards: a surface face belongs to exactly one element, is one
   of that element's own faces in table orientation, and therefore points
   away from the element's vertex mean whenever the element is a convex cell *)
Theorem surface_outward :
  forall (pos : Z -> RV3) m, wf_mesh m = true ->
  forall f, In f (surface_faces m) ->
    exists e, owners f m = [e] /\ In f (elem_faces e)
              /\ (cell_outward pos e -> (0 < odotR pos e f)%R).
Proof.
  intros pos m Hwf f Hf.
  destruct (proj1 (surface_is_boundary m Hwf f) Hf) as [Hall Hown].
  destruct (owners f m) as [| e [| e' r]] eqn:E; simpl in Hown; try discriminate.
  exists e. split; [reflexivity |].
  assert (Hfe : In f (elem_faces e)).
  { unfold all_faces in Hall. apply in_flat_map in Hall. destruct Hall as [e0 [He0 Hf0]].
    assert (H0 : In e0 (owners f m)).
    { unfold owners. apply filter_In. split; [exact He0 |].
      apply existsb_exists. exists f. split; [exact Hf0 | apply same_face_refl]. }
    rewrite E in H0. destruct H0 as [<- | []]. exact Hf0. }
  split; [exact Hfe |]. intro Hc. apply Hc. exact Hfe.
Qed.
