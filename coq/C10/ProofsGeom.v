(* C10 — polynomial identities about the translated face tables, over the
   reals, for every coordinate value. *)
From Coq Require Import List ZArith Bool Arith Reals Lra Lia.
Import ListNotations.
From FV.C10.gen Require Import FaceTables.
From FV.C10 Require Import Model Groups.
Local Open Scope R_scope.

Definition ROps : Ops R :=
  {| zero := 0; one := 1; add := Rplus; sub := Rminus; mul := Rmult; opp := Ropp |}.

Definition RV3 := (R * R * R)%type.
Definition toR3 (p : Z * Z * Z) : RV3 := (IZR (fst (fst p)), IZR (snd (fst p)), IZR (snd p)).

(* an arbitrary affine map x |-> M x + t *)
Record affine := { m11 : R; m12 : R; m13 : R; m21 : R; m22 : R; m23 : R;
                   m31 : R; m32 : R; m33 : R; t1 : R; t2 : R; t3 : R }.
Definition aff (a : affine) (p : RV3) : RV3 :=
  let '(x, y, z) := p in
  (m11 a * x + m12 a * y + m13 a * z + t1 a,
   m21 a * x + m22 a * y + m23 a * z + t2 a,
   m31 a * x + m32 a * y + m33 a * z + t3 a).
Definition detM (a : affine) : R :=
  m11 a * (m22 a * m33 a - m23 a * m32 a) - m12 a * (m21 a * m33 a - m23 a * m31 a)
  + m13 a * (m21 a * m32 a - m22 a * m31 a).

Definition pick_pts (P : list RV3) (f : list nat) : list RV3 :=
  map (fun i => nth i P (0, 0, 0)) f.

(* the cell's own points: the columns the table is applied to *)
Definition ref_cell (t : etype) : list RV3 := map toR3 (firstn (used_cols t) (ref_pts t)).

Ltac unfold_geom :=
  cbv [ref_cell ref_pts used_cols arity cols_tet2 firstn map toR3 aff pick_pts nth
       outward2 varea2 vsum vadd vsub vscale vzero cross dot det3 vx vy vz of_nat length
       fold_right fst snd ROps add sub mul zero one opp
       face24 quad24 four tet_like elem_vol24_pts enclosed24 sumT face_pts].

(* table_outward: on every affine image of the reference element, every face
   of the table satisfies
     (face centre - cell centre) . (vector area) = c * det M,   c > 0
   (here scaled by 2 * #cell * #face; c is the value on the reference
   element itself), so the faces of a positive element point outwards *)
Lemma table_outward :
  forall t f, In f (table t) ->
  forall a : affine,
    outward2 ROps (map (aff a) (ref_cell t)) (pick_pts (map (aff a) (ref_cell t)) f)
    = detM a * outward2 ROps (ref_cell t) (pick_pts (ref_cell t) f)
    /\ 0 < outward2 ROps (ref_cell t) (pick_pts (ref_cell t) f).
Proof.
  intros t f Hin a.
  destruct t; cbv [table concat tbl_tet tbl_tet2 tbl_pyr tbl_prism tbl_hex app] in Hin;
    simpl in Hin;
    repeat (destruct Hin as [<- | Hin]; [ split; [ unfold_geom; cbv [detM]; ring | unfold_geom; lra ] | ]);
    contradiction.
Qed.

Lemma Groups_eqb : forall a b, eqb_listZ a b = true -> a = b.
Proof. intros a b H. apply eqb_listZ_spec; exact H. Qed.

(* table_volume: for every element of the right arity, with any node
   positions, the divergence sum over the element's faces (as listed by
   _generate_all_faces) equals femio's own volume kernel for that type *)
Lemma table_volume :
  forall (pos : Z -> RV3) t i c, length c = arity t ->
    enclosed24 ROps pos (faces_of t c) = elem_vol24 ROps pos (t, i, c).
Proof.
  intros pos t i c Hlen.
  unfold elem_vol24, faces_of. rewrite Hlen, Nat.eqb_refl.
  destruct t; simpl in Hlen;
    repeat (destruct c as [| ?n c]; simpl in Hlen; try discriminate);
    cbv [table concat tbl_tet tbl_tet2 tbl_pyr tbl_prism tbl_hex app pick];
    unfold_geom; ring.
Qed.

(* reversing a face negates its contribution; rotating it keeps it *)
Lemma face24_reversal :
  forall (pos : Z -> RV3) g f, is_reversal g f = true ->
    face24 ROps (face_pts pos g) = - face24 ROps (face_pts pos f).
Proof.
  intros pos g f H.
  destruct f as [| a [| b [| c [| d [| e r]]]]]; simpl in H; try discriminate.
  - repeat rewrite orb_true_iff in H.
    destruct H as [H | [H | [H | H]]]; try discriminate;
      apply Groups_eqb in H; subst g; unfold_geom; ring.
  - repeat rewrite orb_true_iff in H.
    destruct H as [H | [H | [H | [H | H]]]]; try discriminate;
      apply Groups_eqb in H; subst g; unfold_geom; ring.
Qed.

(* ---------------------------------------------------------------- *)
(* the "convex cell" predicate: the vertex mean of the cell lies strictly on
   the inner side of every face plane, faces taken in the cell's own (table)
   orientation.  It holds on every positively oriented affine image of a
   reference element (table_outward). *)
Definition cellpts (pos : Z -> RV3) (e : elem) : list RV3 := map pos (snd e).
Definition odotR (pos : Z -> RV3) (e : elem) (f : face) : R :=
  outward2 ROps (cellpts pos e) (face_pts pos f).
Definition cell_outward (pos : Z -> RV3) (e : elem) : Prop :=
  forall h, In h (elem_faces e) -> 0 < odotR pos e h.

(* uniform scaling x |-> k x multiplies every element volume by k^3 (used by the
   length-scale stream of the correspondence check) *)
Lemma elem_vol24_scale : forall k t (p : list RV3), length p = arity t ->
  elem_vol24_pts ROps t (map (vscale ROps k) p) = k * k * k * elem_vol24_pts ROps t p.
Proof.
  intros k t p H.
  destruct t; simpl in H;
    repeat (destruct p as [| [[? ?] ?] p]; simpl in H; try discriminate);
    cbv [map]; unfold_geom; ring.
Qed.

(* translation x |-> x + t leaves every element volume unchanged *)
Lemma elem_vol24_translate : forall v t (p : list RV3), length p = arity t ->
  elem_vol24_pts ROps t (map (vadd ROps v) p) = elem_vol24_pts ROps t p.
Proof.
  intros [[v1 v2] v3] t p H.
  destruct t; simpl in H;
    repeat (destruct p as [| [[? ?] ?] p]; simpl in H; try discriminate);
    cbv [map]; unfold_geom; ring.
Qed.
