(* C10 — the (element id, face number) view of extract_surface_fistr denotes
   the surface faces (tetrahedral meshes). *)
From Coq Require Import List ZArith Bool Arith Lia Permutation.
Import ListNotations.
From FV.C10.gen Require Import FaceTables.
From FV.C10 Require Import Model Groups ProofsTables ProofsSurface.

(* equality of keys is an equivalence, whatever the key function *)
Section KeyEq.
  Context {A : Type} (kf : A -> list Z).
  Definition keq (x y : A) : bool := eqb_listZ (kf x) (kf y).
  Lemma keq_refl : forall x, keq x x = true.
  Proof. intro x. apply eqb_listZ_spec. reflexivity. Qed.
  Lemma keq_sym : forall x y, keq x y = keq y x.
  Proof.
    intros x y. unfold keq.
    destruct (eqb_listZ (kf x) (kf y)) eqn:E1, (eqb_listZ (kf y) (kf x)) eqn:E2; auto.
    - apply eqb_listZ_spec in E1. rewrite E1 in E2. rewrite (proj2 (eqb_listZ_spec _ _) eq_refl) in E2. discriminate.
    - apply eqb_listZ_spec in E2. rewrite E2 in E1. rewrite (proj2 (eqb_listZ_spec _ _) eq_refl) in E1. discriminate.
  Qed.
  Lemma keq_trans : forall x y z, keq x y = true -> keq y z = true -> keq x z = true.
  Proof.
    unfold keq. intros x y z H1 H2. apply eqb_listZ_spec in H1. apply eqb_listZ_spec in H2.
    apply eqb_listZ_spec. congruence.
  Qed.

  (* occurrences counted on the list of keys *)
  Definition kocc (k : list Z) (ks : list (list Z)) : nat := length (filter (eqb_listZ k) ks).
  Lemma occ_kocc : forall x l, occ keq x l = kocc (kf x) (map kf l).
  Proof.
    intros x l. unfold occ, kocc, keq.
    rewrite <- (map_filter_comm kf (eqb_listZ (kf x)) l). rewrite map_length. reflexivity.
  Qed.
End KeyEq.

Definition rowkey (r : fistr_row) : list Z := fst (fst r).

Lemma fistr_same_keq : forall r s, fistr_same r s = keq rowkey r s.
Proof. reflexivity. Qed.
Lemma same_face_keq : forall f g, same_face f g = keq key f g.
Proof. reflexivity. Qed.

Definition tets_only (m : mesh) : bool :=
  forallb (fun b => match fst b with Tet | Tet2 => true | _ => false end) (m_blocks m).

Lemma tets_only_elems : forall m, tets_only m = true ->
  forall t i c, In (t, i, c) (elems m) -> t = Tet \/ t = Tet2.
Proof.
  intros m H t i c Hin. unfold elems in Hin. apply in_flat_map in Hin.
  destruct Hin as [b [Hb Hin]]. apply in_map_iff in Hin. destruct Hin as [ec [E _]].
  inversion E. subst. unfold tets_only in H. rewrite forallb_forall in H. specialize (H b Hb).
  destruct (fst b); auto; discriminate.
Qed.

(* table level: the face-number table and the tet table list the same node
   sets in the same order (re-checked on the regenerated tables) *)
Lemma fistr_tet_sets : forall t, t = Tet \/ t = Tet2 ->
  map (fun nf => sort_nat (snd nf)) tbl_fistr = map sort_nat (table t).
Proof. intros t [-> | ->]; vm_compute; reflexivity. Qed.

Lemma sort_nat_perm : forall f g, sort_nat f = sort_nat g -> Permutation f g.
Proof.
  intros f g H. unfold sort_nat in H.
  eapply Permutation_trans; [apply Permutation_sym, (isort_perm Nat.leb f) |].
  rewrite H. apply isort_perm.
Qed.

Lemma nth_firstn_lt : forall n (l : list Z) k d, k < n -> nth k (firstn n l) d = nth k l d.
Proof.
  induction n as [| n IH]; intros l k d H; [lia |].
  destruct l as [| x r]; [destruct k; reflexivity |].
  destruct k as [| k]; [reflexivity |]. simpl. apply IH. lia.
Qed.

Lemma pick_firstn : forall n c idx, (forall k, In k idx -> k < n) -> pick (firstn n c) idx = pick c idx.
Proof.
  intros n c idx H. unfold pick. apply map_ext_in. intros k Hk. apply nth_firstn_lt. apply H. exact Hk.
Qed.

Lemma keys_along_tables : forall c n (A : list (nat * list nat)) (B : list (list nat)),
  map (fun nf => sort_nat (snd nf)) A = map sort_nat B ->
  (forall idx k, In idx B -> In k idx -> k < n) ->
  map (fun nf => sortZ (pick c (snd nf))) A = map (fun idx => sortZ (pick (firstn n c) idx)) B.
Proof.
  intros c n A. induction A as [| a A IH]; intros [| b B] H Hlt; simpl in H; try discriminate; [reflexivity |].
  inversion H. simpl. f_equal.
  - rewrite (pick_firstn n c b) by (intros k Hk; apply (Hlt b k); [left; reflexivity | exact Hk]).
    apply sortZ_perm_eq. unfold pick. apply Permutation_map. apply sort_nat_perm. assumption.
  - apply IH; [assumption |]. intros idx k Hi Hk. apply (Hlt idx k); [right; exact Hi | exact Hk].
Qed.

(* per element: the rows of extract_surface_fistr carry, in order, the keys of
   the faces of _generate_all_faces *)
Lemma fistr_rows_keys : forall t i c, (t = Tet \/ t = Tet2) -> length c = arity t ->
  map rowkey (fistr_rows_of (t, i, c)) = map key (elem_faces (t, i, c)).
Proof.
  intros t i c Ht Hlen. unfold fistr_rows_of, elem_faces, faces_of.
  rewrite Hlen, Nat.eqb_refl. rewrite !map_map. unfold rowkey, key. cbn [fst snd].
  apply keys_along_tables; [apply fistr_tet_sets; exact Ht |].
  intros idx k Hi Hk. pose proof (table_closed_each t) as H. unfold table_closedb in H.
  apply andb_true_iff in H. destruct H as [H _]. apply andb_true_iff in H. destruct H as [_ H].
  rewrite forallb_forall in H. specialize (H idx Hi). rewrite forallb_forall in H. specialize (H k Hk).
  apply Nat.ltb_lt in H. exact H.
Qed.

Lemma wf_arity : forall m, wf_mesh m = true -> forall t i c, In (t, i, c) (elems m) -> length c = arity t.
Proof.
  intros m H t i c Hin. unfold wf_mesh in H. apply andb_true_iff in H. destruct H as [_ H].
  rewrite forallb_forall in H. specialize (H _ Hin). unfold elem_wf in H.
  apply andb_true_iff in H. destruct H as [H _]. apply andb_true_iff in H. destruct H as [H _].
  apply Nat.eqb_eq. exact H.
Qed.

Lemma rows_keys_all : forall m, tets_only m = true -> wf_mesh m = true ->
  map rowkey (fistr_rows m) = map key (all_faces m).
Proof.
  intros m Ht Hwf. unfold fistr_rows, all_faces.
  assert (H : forall e, In e (elems m) -> map rowkey (fistr_rows_of e) = map key (elem_faces e)).
  { intros [[t i] c] He. apply fistr_rows_keys.
    - apply (tets_only_elems m Ht t i c He).
    - apply (wf_arity m Hwf t i c He). }
  revert H. generalize (elems m) as l. induction l as [| e r IH]; intro H; [reflexivity |].
  simpl. rewrite !map_app. rewrite (H e (or_introl eq_refl)). rewrite IH; [reflexivity |].
  intros e' He'. apply H. right. exact He'.
Qed.

(* (i, n) is returned  <->  element i has a face number n whose node set is
   listed exactly once among all element faces, i.e. is the node set of a
   surface face *)
Theorem fistr_view :
  forall m, tets_only m = true -> wf_mesh m = true ->
  forall i n, In (i, n) (surface_fistr m) <->
    exists t c nf, In (t, i, c) (elems m) /\ In nf tbl_fistr /\ n = Z.of_nat (fst nf)
                   /\ kocc (sortZ (pick c (snd nf))) (map key (all_faces m)) = 1.
Proof.
  intros m Ht Hwf i n. unfold surface_fistr. rewrite in_map_iff. split.
  - intros [r [Hproj Hr]].
    apply (Permutation_in _ (isort_perm fistr_leb _)) in Hr.
    apply (singles_spec fistr_same (keq_refl rowkey) (keq_sym rowkey) (keq_trans rowkey)) in Hr.
    destruct Hr as [Hin Hocc].
    unfold fistr_rows in Hin. apply in_flat_map in Hin. destruct Hin as [[[t i'] c] [He Hrow]].
    unfold fistr_rows_of in Hrow. apply in_map_iff in Hrow. destruct Hrow as [nf [Hr Hnf]].
    subst r. simpl in Hproj. inversion Hproj. subst.
    exists t, c, nf. repeat split; try assumption.
    change (occ (keq rowkey) (sortZ (pick c (snd nf)), i, Z.of_nat (fst nf)) (fistr_rows m) = 1) in Hocc.
    rewrite occ_kocc in Hocc. rewrite (rows_keys_all m Ht Hwf) in Hocc. exact Hocc.
  - intros [t [c [nf [He [Hnf [Hn Hk]]]]]].
    exists (sortZ (pick c (snd nf)), i, Z.of_nat (fst nf)). split; [simpl; subst n; reflexivity |].
    apply (Permutation_in _ (Permutation_sym (isort_perm fistr_leb _))).
    apply (singles_spec fistr_same (keq_refl rowkey) (keq_sym rowkey) (keq_trans rowkey)).
    split.
    + unfold fistr_rows. apply in_flat_map. exists (t, i, c). split; [exact He |].
      unfold fistr_rows_of. apply in_map_iff. exists nf. split; [reflexivity | exact Hnf].
    + change (occ (keq rowkey) (sortZ (pick c (snd nf)), i, Z.of_nat (fst nf)) (fistr_rows m) = 1).
      rewrite occ_kocc, (rows_keys_all m Ht Hwf). exact Hk.
Qed.

(* a node set listed once is the node set of a surface face, and conversely *)
Lemma kocc_surface : forall m k,
  kocc k (map key (all_faces m)) = 1 <-> exists f, In f (surface_faces m) /\ key f = k.
Proof.
  intros m k. split.
  - intro H. unfold kocc in H.
    destruct (filter (eqb_listZ k) (map key (all_faces m))) as [| k' r] eqn:E; [discriminate |].
    assert (Hk' : In k' (filter (eqb_listZ k) (map key (all_faces m)))) by (rewrite E; left; reflexivity).
    apply filter_In in Hk'. destruct Hk' as [Hin Heq]. apply eqb_listZ_spec in Heq. subst k'.
    apply in_map_iff in Hin. destruct Hin as [f [Hkf Hf]]. exists f. split; [| exact Hkf].
    unfold surface_faces.
    apply (singles_spec same_face same_face_refl same_face_sym same_face_trans). split; [exact Hf |].
    change (occ (keq key) f (all_faces m) = 1). rewrite occ_kocc, Hkf. unfold kocc. rewrite E. exact H.
  - intros [f [Hf Hk]]. unfold surface_faces in Hf.
    apply (singles_spec same_face same_face_refl same_face_sym same_face_trans) in Hf.
    destruct Hf as [_ Hocc]. change (occ (keq key) f (all_faces m) = 1) in Hocc.
    rewrite occ_kocc, Hk in Hocc. exact Hocc.
Qed.
