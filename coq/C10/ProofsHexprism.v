(* C10 — the hexprism face table of _generate_all_faces (translated, gen/FaceTables.v) is oriented
   outwards: on an integer reference hexagonal prism (convex hexagon, counter-clockwise seen from
   above, nodes 0..5 at z = 0, nodes 6..11 above them at z = 1) and on every affine image of it,
   each table face satisfies (face centre - cell centre) . (vector area) = c * det M with c > 0.
   (Closedness of the table is C10_table_closed.) *)
From Coq Require Import List ZArith Bool Arith Reals Lra Lia.
Import ListNotations.
From FV.C10.gen Require Import FaceTables.
From FV.C10 Require Import Model Groups ProofsGeom.
Local Open Scope R_scope.
Set Default Timeout 120.

Definition ref_hexprism_Z : list (Z * Z * Z) :=
  [(1,0,0); (3,0,0); (4,1,0); (3,2,0); (1,2,0); (0,1,0);
   (1,0,1); (3,0,1); (4,1,1); (3,2,1); (1,2,1); (0,1,1)]%Z.
Definition ref_hexprism : list RV3 := map toR3 ref_hexprism_Z.

Ltac unfold_hp :=
  cbv [ref_hexprism ref_hexprism_Z map toR3 aff pick_pts nth
       outward2 varea2 vsum vadd vsub vscale vzero cross dot det3 vx vy vz of_nat length
       fold_right fst snd ROps add sub mul zero one opp].

Lemma hexprism_outward :
  forall f, In f (concat tbl_hexprism) ->
  forall a : affine,
    outward2 ROps (map (aff a) ref_hexprism) (pick_pts (map (aff a) ref_hexprism) f)
    = detM a * outward2 ROps ref_hexprism (pick_pts ref_hexprism f)
    /\ 0 < outward2 ROps ref_hexprism (pick_pts ref_hexprism f).
Proof.
  intros f Hin a.
  cbv [concat tbl_hexprism app] in Hin; simpl in Hin;
    repeat (destruct Hin as [<- | Hin]; [ split; [ unfold_hp; cbv [detM]; ring | unfold_hp; lra ] | ]);
    contradiction.
Qed.

(* the reference cell is a genuine prism: 12 different points, and the table has 10 faces *)
Lemma hexprism_nonvacuous :
  length (concat tbl_hexprism) = 10%nat /\ length ref_hexprism_Z = 12%nat
  /\ table_closedb 12 (concat tbl_hexprism) = true.
Proof. vm_compute. repeat split. Qed.
