From Coq Require Import List ZArith Bool Arith Ascii String DecimalString DecimalZ DecimalPos Decimal Lia.
Import ListNotations.
From FV.C10 Require Import Model ObjText.
Local Open Scope string_scope.

Lemma to_uint_nonnil : forall p, Pos.to_uint p <> Nil.
Proof. exact DecimalPos.Unsigned.to_uint_nonnil. Qed.

Lemma undec_dec : forall z, undec (dec z) = Some z.
Proof.
  intros z. unfold undec, dec. rewrite NilZero.isi.
  - cbn. now rewrite DecimalZ.of_to.
  - destruct z; cbn; try discriminate; intros H; injection H; apply to_uint_nonnil.
  - destruct z; cbn; try discriminate; intros H; injection H; apply to_uint_nonnil.
Qed.

Lemma nospace_uint : forall d, nospace (NilEmpty.string_of_uint d) = true.
Proof. induction d; cbn; auto. Qed.

Lemma nonempty_uint : forall d, d <> Nil -> is_empty (NilEmpty.string_of_uint d) = false.
Proof. destruct d; cbn; intros; congruence. Qed.

Lemma nospace_nz : forall d, nospace (NilZero.string_of_uint d) = true.
Proof. destruct d; try reflexivity; apply (nospace_uint (_ d)) || apply nospace_uint. Qed.

Lemma nonempty_nz : forall d, is_empty (NilZero.string_of_uint d) = false.
Proof. destruct d; reflexivity. Qed.

Lemma dec_token : forall z, nospace (dec z) = true /\ is_empty (dec z) = false.
Proof.
  intros z. unfold dec. destruct z as [|p|p]; cbn [Z.to_int NilZero.string_of_int].
  - split; reflexivity.
  - split; [apply nospace_nz | apply nonempty_nz].
  - split; [cbn; apply nospace_nz | reflexivity].
Qed.

Lemma app_nil_r_s : forall s, s ++ "" = s.
Proof. induction s; cbn; congruence. Qed.

Lemma app_assoc_s : forall a b c : string, (a ++ b) ++ c = a ++ (b ++ c).
Proof. induction a; intros; cbn; congruence. Qed.

Lemma tokens_aux_nospace : forall t acc rest, nospace t = true ->
  tokens_aux acc (t ++ rest) = tokens_aux (acc ++ t) rest.
Proof.
  induction t as [| c t IH]; intros acc rest H; cbn.
  - now rewrite app_nil_r_s.
  - cbn in H. apply andb_prop in H. destruct H as [Hc Ht].
    destruct (is_blank c); [discriminate |].
    rewrite IH by exact Ht. now rewrite app_assoc_s.
Qed.

Definition is_token (s : string) : Prop := nospace s = true /\ is_empty s = false.

Lemma tokens_join : forall ts, Forall is_token ts -> tokens (join " " ts) = ts.
Proof.
  unfold tokens. induction ts as [| x r IH]; intros H; [reflexivity |].
  inversion H as [| ? ? [Hx1 Hx2] Hr]; subst.
  destruct r as [| y r'].
  - cbn [join]. rewrite <- (app_nil_r_s x) at 1. rewrite tokens_aux_nospace by exact Hx1.
    cbn. now rewrite Hx2.
  - change (join " " (x :: y :: r')) with (x ++ " " ++ join " " (y :: r')).
    rewrite tokens_aux_nospace by exact Hx1. cbn [append tokens_aux].
    change (is_blank " ") with true. cbn iota. cbn [append]. rewrite Hx2.
    f_equal. apply IH. exact Hr.
Qed.

Lemma mapM_undec_dec : forall idx, mapM undec (map dec idx) = Some idx.
Proof. induction idx; cbn; [reflexivity |]. now rewrite undec_dec, IHidx. Qed.

(* an `f` line written by OBJWriter is read back to the same indices *)
Theorem face_line_roundtrip : forall idx, parse_face_line (face_line idx) = Some idx.
Proof.
  intros idx. unfold parse_face_line, face_line.
  assert (H : tokens ("f " ++ join " " (map dec idx)) = "f" :: map dec idx).
  { unfold tokens. cbn [append tokens_aux]. 
    change (is_blank "f") with false. cbn iota. cbn [append].
    change (is_blank " ") with true. cbn iota. cbn [is_empty].
    f_equal. apply tokens_join. apply Forall_forall. intros s Hs.
    apply in_map_iff in Hs. destruct Hs as [z [<- _]]. apply dec_token. }
  rewrite H. apply mapM_undec_dec.
Qed.

(* different index rows give different lines *)
Corollary face_line_inj : forall a b, face_line a = face_line b -> a = b.
Proof.
  intros a b H. pose proof (face_line_roundtrip a) as Ha. rewrite H, face_line_roundtrip in Ha.
  congruence.
Qed.

(* character level and token level agree: parsing the `f` lines of the text gives the OF lines of
   Model.write_obj *)
Theorem obj_text_faces_parse : forall {C} (coords : list C) tri quad,
  mapM parse_face_line (obj_text_faces tri quad) = Some (obj_faces (write_obj coords tri quad)).
Proof.
  intros C coords tri quad. unfold write_obj, obj_text_faces.
  assert (Hv : forall l : list C, obj_faces (map (@OV C) l) = []).
  { induction l; cbn; auto. }
  assert (Hf : forall l : list (list nat),
             obj_faces (map (@obj_face C) l) = map (fun f => map (fun k => Z.of_nat k + 1)%Z f) l).
  { induction l as [| a l IHl]; [reflexivity |]. cbn [map obj_faces flat_map obj_face app].
    unfold obj_faces in IHl. now rewrite IHl. }
  assert (Happ : forall a b : list (objline C), obj_faces (a ++ b)%list = (obj_faces a ++ obj_faces b)%list).
  { intros a b. unfold obj_faces. now rewrite flat_map_app. }
  rewrite !Happ, Hv, !Hf. cbn [app]. rewrite <- map_app.
  induction (tri ++ quad)%list as [| f r IH]; [reflexivity |].
  cbn [map mapM]. unfold obj_face_text at 1. rewrite face_line_roundtrip. now rewrite IH.
Qed.
