(* C10 — "every edge is used by two faces, in opposite directions": on an
   edge-manifold boundary (no directed edge used twice — a boolean predicate of
   the mesh, false for two cells that touch along an edge only) closedness
   sharpens to: each directed edge of the surface is used exactly once and its
   reverse exactly once. *)
From Coq Require Import List ZArith Bool Arith Lia Permutation.
Import ListNotations.
From FV.C10 Require Import Model Groups ProofsSurface ProofsClosed.

Lemma dedge_eqb_refl : forall e, dedge_eqb e e = true.
Proof. intros [a b]. unfold dedge_eqb. cbn. now rewrite !Z.eqb_refl. Qed.

Lemma count_edge_pos : forall e fs, In e (flat_map edges fs) -> 1 <= count_edge e fs.
Proof.
  intros e fs H. unfold count_edge.
  assert (Hin : In e (filter (dedge_eqb e) (flat_map edges fs))).
  { apply filter_In. split; [exact H | apply dedge_eqb_refl]. }
  destruct (filter (dedge_eqb e) (flat_map edges fs)); [destruct Hin | cbn; lia].
Qed.

Theorem surface_manifold :
  forall m, oriented_conforming m = true -> edge_manifold m = true ->
  forall f e, In f (surface_sorted m) -> In e (edges f) ->
    count_edge e (surface_sorted m) = 1 /\ count_edge (swap e) (surface_sorted m) = 1.
Proof.
  intros m Hoc Hman f e Hf He.
  assert (Hin : In e (flat_map edges (surface_sorted m))).
  { apply in_flat_map. exists f. split; assumption. }
  assert (Hle : count_edge e (surface_sorted m) <= 1).
  { unfold edge_manifold, edge_manifold_faces in Hman. rewrite forallb_forall in Hman.
    apply Nat.leb_le. apply Hman. exact Hin. }
  pose proof (count_edge_pos e _ Hin) as Hge.
  assert (Hcl : count_edge e (surface_sorted m) = count_edge (swap e) (surface_sorted m)).
  { rewrite (count_edge_perm e _ _ (surface_sorted_perm m)),
            (count_edge_perm (swap e) _ _ (surface_sorted_perm m)).
    apply surface_closed. exact Hoc. }
  split; lia.
Qed.
