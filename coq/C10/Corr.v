(* C10 — executable comparison of the model with what the implementation
   returned (used by the generated scratch files of the correspondence check).
   Definitions only. *)
From Coq Require Import List ZArith Bool Arith.
Import ListNotations.
From FV.C10 Require Import Model.

Fixpoint eqb_list {A} (eqb : A -> A -> bool) (a b : list A) : bool :=
  match a, b with
  | [], [] => true
  | x :: a', y :: b' => eqb x y && eqb_list eqb a' b'
  | _, _ => false
  end.

Definition eqb_pair {A B} (ea : A -> A -> bool) (eb : B -> B -> bool) (p q : A * B) : bool :=
  ea (fst p) (fst q) && eb (snd p) (snd q).

Definition eqb_opt {A} (e : A -> A -> bool) (a b : option A) : bool :=
  match a, b with
  | Some x, Some y => e x y
  | None, None => true
  | _, _ => false
  end.

Definition C3 := (Z * Z * Z)%type.
Definition eqb_C3 (a b : C3) : bool :=
  Z.eqb (fst (fst a)) (fst (fst b)) && Z.eqb (snd (fst a)) (snd (fst b)) && Z.eqb (snd a) (snd b).

(* node table -> position function (execution only; theorems take `pos` abstract) *)
Fixpoint pos_of (nodes : list (Z * C3)) (i : Z) : C3 :=
  match nodes with
  | [] => (0, 0, 0)%Z
  | (j, c) :: r => if Z.eqb i j then c else pos_of r i
  end.

Definition eqb_faces := eqb_list eqb_listZ.
Definition eqb_nfaces := eqb_list (eqb_list Nat.eqb).
Definition eqb_numbered := eqb_list (eqb_pair Z.eqb eqb_listZ).

(* --- extract_surface --- *)
Definition check_surface (m : mesh) (tri quad : list (list nat)) : bool :=
  eqb_opt (eqb_pair eqb_nfaces eqb_nfaces) (extract_surface m) (Some (tri, quad)).

(* --- to_surface --- *)
Definition check_to_surface (m : mesh) (ns : list Z) (tri quad : list (Z * face)) : bool :=
  match to_surface m with
  | Some s => eqb_listZ (s_nodes s) ns && eqb_numbered (s_tri s) tri && eqb_numbered (s_quad s) quad
  | None => false
  end.

(* --- extract_surface_fistr --- *)
Definition check_fistr (m : mesh) (rows : list (Z * Z)) : bool :=
  eqb_list (eqb_pair Z.eqb Z.eqb) (surface_fistr m) rows.

(* --- volumes: implementation value n/d (exact binary fraction) against
   model m24/24 within 2^-20 relative (the kernels accumulate in float32 and
   divide by 6) --- *)
Definition vol_close (m24 : Z) (nd : Z * Z) : bool :=
  let '(n, d) := nd in
  (Z.abs (24 * n - m24 * d) * 1048576 <=? (Z.abs m24 + 24) * d)%Z.

Definition check_block_volumes (pos : Z -> C3) (t : etype) (es : list (Z * list Z))
           (vs : list (Z * Z)) : bool :=
  Nat.eqb (length es) (length vs)
  && forallb (fun ev => vol_close (elem_vol24 ZOps pos (t, fst (fst ev), snd (fst ev))) (snd ev))
             (combine es vs).

Definition sum_fracs_close (m24 : Z) (vs : list (Z * Z)) : bool :=
  (* sum of binary fractions, exactly: common denominator = product is too big;
     denominators are powers of two, so use the maximum *)
  let dmax := fold_right Z.max 1%Z (map snd vs) in
  let num := fold_right Z.add 0%Z (map (fun nd => fst nd * (dmax / snd nd))%Z vs) in
  vol_close m24 (num, dmax).

(* the same with a tolerance 2^-k relative (round 5: femio's kernels now work relative to a local
   point in float64: 2^-40 for float64 / integer coordinates, 2^-20 kept for float32 coordinates) *)
Definition vol_close_k (k : Z) (m24 : Z) (nd : Z * Z) : bool :=
  let '(n, d) := nd in
  (Z.abs (24 * n - m24 * d) * 2 ^ k <=? (Z.abs m24 + 24) * d)%Z.

Definition check_block_volumes_k (k : Z) (pos : Z -> C3) (t : etype) (es : list (Z * list Z))
           (vs : list (Z * Z)) : bool :=
  Nat.eqb (length es) (length vs)
  && forallb (fun ev => vol_close_k k (elem_vol24 ZOps pos (t, fst (fst ev), snd (fst ev))) (snd ev))
             (combine es vs).

Definition sum_fracs_close_k (k : Z) (m24 : Z) (vs : list (Z * Z)) : bool :=
  let dmax := fold_right Z.max 1%Z (map snd vs) in
  let num := fold_right Z.add 0%Z (map (fun nd => fst nd * (dmax / snd nd))%Z vs) in
  vol_close_k k m24 (num, dmax).

(* --- OBJ --- *)
Definition eqb_objline (a b : objline C3) : bool :=
  match a, b with
  | OV c, OV c' => eqb_C3 c c'
  | OF f, OF f' => eqb_listZ f f'
  | _, _ => false
  end.

Definition check_obj_write (m : mesh) (coords : list C3) (lines : list (objline C3)) : bool :=
  match extract_surface m with
  | Some (t, q) => eqb_list eqb_objline (write_obj coords t q) lines
  | None => false
  end.

Definition check_obj_read (lines : list (objline C3)) (nodes : list (Z * C3))
           (tri quad poly : list (Z * list Z)) : bool :=
  let r := read_obj lines in
  eqb_list (eqb_pair Z.eqb eqb_C3) (o_nodes r) nodes
  && eqb_numbered (o_tri r) tri && eqb_numbered (o_quad r) quad && eqb_numbered (o_polygon r) poly.

(* --- the property itself on the model's output (sanity; the theorems prove
   it for every well-formed oriented-conforming mesh) --- *)
Definition model_closed (m : mesh) : bool :=
  let fs := surface_faces m in
  forallb (fun e => Nat.eqb (count_edge e fs) (count_edge (swap e) fs)) (flat_map edges fs).

Definition model_volume_ok (pos : Z -> C3) (m : mesh) : bool :=
  Z.eqb (enclosed24 ZOps pos (surface_faces m)) (mesh_vol24 ZOps pos m).

Definition model_positive (pos : Z -> C3) (m : mesh) : bool :=
  forallb (fun e => Z.ltb 0 (elem_vol24 ZOps pos e)) (elems m).

(* every surface face is outward with respect to its owner's vertex mean *)
Definition model_outward (pos : Z -> C3) (m : mesh) : bool :=
  forallb (fun f =>
    match owners f m with
    | [(t, _, c)] => Z.ltb 0 (outward2 ZOps (map pos (firstn (used_cols t) c)) (map pos f))
    | _ => false
    end) (surface_faces m).

(* C10_surface_manifold_edges evaluated: edge_manifold m -> every directed edge of the surface is
   used once and its reverse once *)
Definition model_manifold_ok (m : mesh) : bool :=
  let fs := surface_sorted m in
  negb (edge_manifold m)
  || forallb (fun e => Nat.eqb (count_edge e fs) 1 && Nat.eqb (count_edge (swap e) fs) 1)
             (flat_map edges fs).

Definition check_surface_none (m : mesh) : bool :=
  match extract_surface m with None => true | Some _ => false end.

(* --- translator validation: _generate_all_faces called directly on a few rows of one type
   returns, per group of the table, the rows element by element --- *)
Definition probe_expect (tb : list (list (list nat))) (ncols : nat) (rows : list (list Z))
  : list (list face) :=
  map (fun g => flat_map (fun c => map (pick (firstn ncols c)) g) rows) tb.
Definition check_probe (tb : list (list (list nat))) (ncols : nat) (rows : list (list Z))
           (obs : list (list face)) : bool :=
  eqb_list eqb_faces (probe_expect tb ncols rows) obs.

Fixpoint failing_from (k : nat) (l : list bool) : list nat :=
  match l with
  | [] => []
  | b :: r => (if b then [] else [k]) ++ failing_from (S k) r
  end.
Definition report (cs : list (nat * list bool)) : list (nat * nat) :=
  flat_map (fun cr => map (pair (fst cr)) (failing_from 0 (snd cr))) cs.
