(* C10 — the well-formedness clause "no element lists two faces on the same
   node set" follows from the natural condition "the nodes of an element are
   pairwise different" (for elements of the right arity). *)
From Coq Require Import List ZArith Bool Arith Lia Permutation.
Import ListNotations.
From FV.C10.gen Require Import FaceTables.
From FV.C10 Require Import Model Groups ProofsTables ProofsSurface.

Fixpoint pairwise {X} (R : X -> X -> bool) (l : list X) : bool :=
  match l with [] => true | x :: r => forallb (R x) r && pairwise R r end.

(* some index of f is not an index of g *)
Definition not_subset (f g : list nat) : bool :=
  existsb (fun k => negb (existsb (Nat.eqb k) g)) f.

Lemma table_sets_distinct : forall t, pairwise not_subset (table t) = true.
Proof. destruct t; vm_compute; reflexivity. Qed.

Lemma nodupZ_NoDup : forall l, nodupZ l = true -> NoDup l.
Proof.
  induction l as [| x r IH]; intro H; simpl in H; [constructor |].
  apply andb_true_iff in H. destruct H as [H1 H2]. constructor; [| apply IH; exact H2].
  intro Hin. apply negb_true_iff in H1.
  assert (E : existsb (Z.eqb x) r = true) by (apply existsb_exists; exists x; split; [exact Hin | apply Z.eqb_refl]).
  congruence.
Qed.

Lemma NoDup_firstn : forall {X} n (l : list X), NoDup l -> NoDup (firstn n l).
Proof.
  intros X n l H. rewrite <- (firstn_skipn n l) in H.
  revert H. generalize (firstn n l) as a, (skipn n l) as b.
  induction a as [| x a IH]; intros b H; [constructor |].
  simpl in H. inversion H. subst. constructor.
  - intro Hin. apply H2. apply in_or_app. left. exact Hin.
  - apply (IH b). exact H3.
Qed.

Lemma pick_not_same : forall c f g,
  NoDup c -> (forall k, In k f -> k < length c) -> (forall k, In k g -> k < length c) ->
  not_subset f g = true -> same_face (pick c f) (pick c g) = false.
Proof.
  intros c f g Hnd Hf Hg Hns.
  destruct (same_face (pick c f) (pick c g)) eqn:E; [| reflexivity]. exfalso.
  unfold not_subset in Hns. apply existsb_exists in Hns. destruct Hns as [k [Hk Hnot]].
  apply negb_true_iff in Hnot.
  assert (P : Permutation (pick c f) (pick c g)).
  { unfold same_face in E. apply eqb_listZ_spec in E. unfold key, sortZ in E.
    eapply Permutation_trans; [apply Permutation_sym, (isort_perm Z.leb) |]. rewrite E. apply isort_perm. }
  assert (Hin : In (nth k c 0%Z) (pick c g)).
  { eapply Permutation_in; [exact P |]. unfold pick. apply in_map_iff. exists k. split; [reflexivity | exact Hk]. }
  unfold pick in Hin. apply in_map_iff in Hin. destruct Hin as [j [Hj Hjg]].
  assert (j = k).
  { apply (proj1 (NoDup_nth c 0%Z) Hnd j k (Hg j Hjg) (Hf k Hk) Hj). }
  subst j.
  assert (X : existsb (Nat.eqb k) g = true) by (apply existsb_exists; exists k; split; [exact Hjg | apply Nat.eqb_refl]).
  congruence.
Qed.

Lemma pairwise_distinct_keys : forall c tb,
  NoDup c -> (forall f k, In f tb -> In k f -> k < length c) ->
  pairwise not_subset tb = true -> distinct_keys same_face (map (pick c) tb) = true.
Proof.
  intros c tb Hnd. induction tb as [| f r IH]; intros Hidx Hp; [reflexivity |].
  simpl in Hp. apply andb_true_iff in Hp. destruct Hp as [Hp1 Hp2].
  simpl. apply andb_true_iff. split.
  - apply negb_true_iff.
    destruct (existsb (same_face (pick c f)) (map (pick c) r)) eqn:E; [| reflexivity]. exfalso.
    apply existsb_exists in E. destruct E as [h [Hh Hs]].
    apply in_map_iff in Hh. destruct Hh as [g [<- Hg]].
    rewrite forallb_forall in Hp1. specialize (Hp1 g Hg).
    rewrite (pick_not_same c f g Hnd) in Hs; try discriminate; auto.
    + intros k Hk. apply (Hidx f k); [left; reflexivity | exact Hk].
    + intros k Hk. apply (Hidx g k); [right; exact Hg | exact Hk].
  - apply IH; [| exact Hp2]. intros g k Hg Hk. apply (Hidx g k); [right; exact Hg | exact Hk].
Qed.

(* an element of the right arity whose nodes are pairwise different lists its
   faces on pairwise different node sets *)
Theorem nodup_conn_distinct_keys : forall t c,
  length c = arity t -> nodupZ c = true -> distinct_keys same_face (faces_of t c) = true.
Proof.
  intros t c Hlen Hnd. unfold faces_of. rewrite Hlen, Nat.eqb_refl.
  apply pairwise_distinct_keys.
  - apply NoDup_firstn. apply nodupZ_NoDup. exact Hnd.
  - intros f k Hf Hk. rewrite firstn_length, Hlen.
    pose proof (table_closed_each t) as H. unfold table_closedb in H.
    apply andb_true_iff in H. destruct H as [H _]. apply andb_true_iff in H. destruct H as [_ H].
    rewrite forallb_forall in H. specialize (H f Hf). rewrite forallb_forall in H. specialize (H k Hk).
    apply Nat.ltb_lt in H. assert (used_cols t <= arity t) by (destruct t; vm_compute; lia). lia.
  - apply table_sets_distinct.
Qed.
