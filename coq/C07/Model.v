(* C07 — file-system effect model of FEMData.write and the format writers.
   Definitions only; proofs are in Proofs.v, the statement in Props.v.
   The program of each format is regenerated from /repo by
   translate/c07_effects.py into gen/WriteCfg.v on every run. *)
From Coq Require Import Ascii String List Bool Arith.
Import ListNotations.
Open Scope string_scope.

(* ---------- path expressions over the name the caller typed ---------- *)
Inductive pexp :=
| PName                                  (* the name as typed: Path(file_name) *)
| PIfEnds (ext : string) (c a b : pexp)  (* a if str(c).endswith(ext) else b *)
| PSuffix (s : string) (p : pexp)        (* Path(str(p) + s) *)
| PSibling (s : string) (p : pexp)       (* p.parent / s *)
| PWithSuffix (s : string) (p : pexp).   (* p.with_suffix(s) *)

(* add_extension_if_needed(p, ext) as the code spells it today; the translator
   produces PIfEnds from whatever the method body says *)
Definition PAddExt (ext : string) (p : pexp) : pexp :=
  PIfEnds ext p p (PSuffix ("." ++ ext) p).

Fixpoint ends_with (s suf : string) : bool :=
  if String.eqb s suf then true
  else match s with
       | EmptyString => false
       | String _ r => ends_with r suf
       end.

(* text up to and including the last '/', or "" when there is none *)
Fixpoint dir_prefix (s : string) : string :=
  match s with
  | EmptyString => EmptyString
  | String c r =>
      let d := dir_prefix r in
      match d with
      | EmptyString => if Ascii.eqb c "/"%char then String c EmptyString else EmptyString
      | _ => String c d
      end
  end.

(* text after the last '/' *)
Fixpoint has_slash (s : string) : bool :=
  match s with
  | EmptyString => false
  | String c r => Ascii.eqb c "/"%char || has_slash r
  end.

Fixpoint base_name (s : string) : string :=
  match s with
  | EmptyString => EmptyString
  | String c r =>
      if has_slash r then base_name r
      else if Ascii.eqb c "/"%char then r else s
  end.

(* pathlib's stem of a final component: cut at the last '.', unless that dot is
   the first character or the last one (".bashrc", "a." have no suffix) *)
Fixpoint has_dot (s : string) : bool :=
  match s with
  | EmptyString => false
  | String c r => Ascii.eqb c "."%char || has_dot r
  end.

Fixpoint cut_last_dot (s : string) : string :=   (* s without its last ".xyz" *)
  match s with
  | EmptyString => EmptyString
  | String c r =>
      if Ascii.eqb c "."%char && negb (has_dot r) then EmptyString
      else String c (cut_last_dot r)
  end.

Definition stem_of (nm : string) : string :=
  match nm with
  | EmptyString => nm
  | String c r =>
      if negb (has_dot r) then nm                    (* no dot after the first char *)
      else if ends_with nm "." then nm               (* trailing dot: no suffix *)
      else String c (cut_last_dot r)
  end.

Definition with_suffix (s suf : string) : string :=
  dir_prefix s ++ stem_of (base_name s) ++ suf.

Fixpoint peval (name : string) (p : pexp) : string :=
  match p with
  | PName => name
  | PIfEnds ext c a b =>
      if ends_with (peval name c) ext then peval name a else peval name b
  | PSuffix suf q => peval name q ++ suf
  | PSibling f q => dir_prefix (peval name q) ++ f
  | PWithSuffix suf q => with_suffix (peval name q) suf
  end.

Fixpoint pexp_eqb (a b : pexp) : bool :=
  match a, b with
  | PName, PName => true
  | PIfEnds e c a b, PIfEnds e' c' a' b' =>
      String.eqb e e' && pexp_eqb c c' && pexp_eqb a a' && pexp_eqb b b'
  | PWithSuffix e p, PWithSuffix e' p' => String.eqb e e' && pexp_eqb p p'
  | PSuffix e p, PSuffix e' p' => String.eqb e e' && pexp_eqb p p'
  | PSibling e p, PSibling e' p' => String.eqb e e' && pexp_eqb p p'
  | _, _ => false
  end.

Definition pmem (e : pexp) (g : list pexp) : bool := existsb (pexp_eqb e) g.
Definition pinter (a b : list pexp) : list pexp := filter (fun e => pmem e b) a.

(* ---------- programs ---------- *)
Inductive prog :=
| Skip
| Seq (a b : prog)
| Guard (p : pexp)     (* if not overwrite and p.exists(): raise *)
| Create (p : pexp)    (* open(p,'w') / mesh.save(p) / any call handed p *)
| Append (p : pexp)    (* open(p,'a') *)
| If (a b : prog)      (* data-dependent branch *)
| Loop (body : prog)   (* data-dependent number of iterations *)
| Call (body : prog)   (* a method body: Return ends it *)
| Return
| Raise
| Delete (p : pexp)            (* p.unlink() / os.remove(p) *)
| Rename (src dst : pexp)      (* os.replace(src, dst) / src.replace(dst) *)
| Try (body handler : prog)    (* try: body  except: handler  (handler ends in Raise to re-raise) *)
| Finally (body fin : prog)    (* try: body  finally: fin *)
| Probe (p : pexp).            (* p.exists() whose answer only steers a data-dependent branch *)

Inductive outcome := Normal | Returned | Raised.

(* file system: path -> content stamp; the oracle resolves data-dependent
   branches and loop counts *)
Definition fsys := string -> option nat.
(* trace: the file events in reverse order of occurrence,
   "G p" = existence test of a guard, "C p" = create/truncate, "A p" = append *)
Record st := mkst { fs : fsys; orc : list nat; stamp : nat; touched : list string;
                    trace : list string;
                    fuel : option nat   (* Some k: an exception unrelated to the guards strikes
                                           when the (k+1)-th file event is about to happen *) }.

Definition fwrite (tag : string) (s : st) (q : string) : st :=
  mkst (fun x => if String.eqb x q then Some (stamp s) else fs s x)
       (orc s) (S (stamp s)) (q :: touched s) ((tag ++ q) :: trace s) (fuel s).

Definition fdelete (s : st) (q : string) : st :=
  mkst (fun x => if String.eqb x q then None else fs s x)
       (orc s) (stamp s) (q :: touched s) (("D " ++ q) :: trace s) (fuel s).

Definition frename (s : st) (a b : string) : st :=
  mkst (fun x => if String.eqb x b then fs s a
                 else if String.eqb x a then None else fs s x)
       (orc s) (stamp s) (b :: a :: touched s) (("M " ++ a ++ " -> " ++ b) :: trace s) (fuel s).

Definition with_orc (s : st) (r : list nat) : st :=
  mkst (fs s) r (stamp s) (touched s) (trace s) (fuel s).

Definition logg (s : st) (q : string) : st :=
  mkst (fs s) (orc s) (stamp s) (touched s) (("G " ++ q) :: trace s) (fuel s).

(* after the exception struck, the rest of the run (a handler) is not hit again *)
Definition defuse (s : st) : st := mkst (fs s) (orc s) (stamp s) (touched s) (trace s) None.

(* one file event is about to happen: None = the exception strikes now *)
Definition tick (s : st) : option st :=
  match fuel s with
  | None => Some s
  | Some O => None
  | Some (S k) => Some (mkst (fs s) (orc s) (stamp s) (touched s) (trace s) (Some k))
  end.

Fixpoint iterate (n : nat) (f : st -> outcome * st) (s : st) : outcome * st :=
  match n with
  | O => (Normal, s)
  | S k => let '(o, s') := f s in
           match o with Normal => iterate k f s' | _ => (o, s') end
  end.

(* overwrite = False throughout: that is the case the property is about *)
Fixpoint run (name : string) (p : prog) (s : st) : outcome * st :=
  match p with
  | Skip => (Normal, s)
  | Seq a b => let '(o, s') := run name a s in
               match o with Normal => run name b s' | _ => (o, s') end
  | Guard e => match tick s with None => (Raised, defuse s) | Some s =>
               match fs s (peval name e) with
               | Some _ => (Raised, logg s (peval name e))
               | None => (Normal, logg s (peval name e))
               end end
  | Create e => match tick s with None => (Raised, defuse s) | Some s =>
                (Normal, fwrite "C " s (peval name e)) end
  | Append e => match tick s with None => (Raised, defuse s) | Some s =>
                (Normal, fwrite "A " s (peval name e)) end
  | If a b => match orc s with
              | [] => run name b s
              | c :: r => let s1 := with_orc s r in
                          if Nat.eqb c 0 then run name b s1 else run name a s1
              end
  | Loop body => match orc s with
                 | [] => (Normal, s)
                 | n :: r => iterate n (run name body) (with_orc s r)
                 end
  | Call body => let '(o, s') := run name body s in
                 (match o with Returned => Normal | _ => o end, s')
  | Return => (Returned, s)
  | Raise => (Raised, s)
  | Delete e => match tick s with None => (Raised, defuse s) | Some s =>
                (Normal, fdelete s (peval name e)) end
  | Rename a b => match tick s with None => (Raised, defuse s) | Some s =>
                  (Normal, frename s (peval name a) (peval name b)) end
  | Try body handler =>
      let '(o, s') := run name body s in
      match o with
      | Raised => run name handler s'
      | Normal =>
          (* an exception may still strike after the last file event of the
             body, before the body is left: the oracle decides *)
          match orc s' with
          | [] => (Normal, s')
          | c :: r => if Nat.eqb c 0 then (Normal, with_orc s' r)
                      else run name handler (with_orc s' r)
          end
      | Returned => (o, s')
      end
  | Finally body fin =>
      let '(o, s') := run name body s in
      let '(o2, s2) := run name fin s' in
      (match o2 with Normal => o | _ => o2 end, s2)
  | Probe e => match tick s with None => (Raised, defuse s) | Some s =>
               (Normal, logg s (peval name e)) end
  end.

(* ---------- the static check ---------- *)
(* None = no path reaches this exit; Some g = on every path reaching it the
   expressions in g have been guarded (or the paths they denote created) *)
Definition oset := option (list pexp).
Definition meet (a b : oset) : oset :=
  match a, b with
  | None, x => x
  | x, None => x
  | Some x, Some y => Some (pinter x y)
  end.

(* None = some write is not dominated by a guard of the same expression;
   Some (n, r) = sets for the normal exit and the Return exit *)
Fixpoint check (g : list pexp) (p : prog) : option (oset * oset) :=
  match p with
  | Skip => Some (Some g, None)
  | Seq a b =>
      match check g a with
      | None => None
      | Some (None, ra) => Some (None, ra)
      | Some (Some g1, ra) =>
          match check g1 b with
          | None => None
          | Some (nb, rb) => Some (nb, meet ra rb)
          end
      end
  | Guard e => Some (Some (e :: g), None)
  | Create e => if pmem e g then Some (Some g, None) else None
  | Append e => if pmem e g then Some (Some g, None) else None
  | If a b =>
      match check g a, check g b with
      | Some (na, ra), Some (nb, rb) => Some (meet na nb, meet ra rb)
      | _, _ => None
      end
  | Loop body =>
      match check g body with
      | None => None
      | Some (_, rb) => Some (Some g, rb)
      end
  | Call body =>
      match check g body with
      | None => None
      | Some (nb, rb) => Some (meet nb rb, None)
      end
  | Return => Some (None, Some g)
  | Raise => Some (None, None)
  (* removing / moving a file is harmless only if the file is one of this
     call's own (its path was guarded, so it did not exist before) *)
  | Delete e => if pmem e g then Some (Some g, None) else None
  | Rename a b => if pmem a g && pmem b g then Some (Some g, None) else None
  (* an exception can leave the body anywhere, so the handler / the finally
     block may rely only on what was guarded before the body was entered *)
  | Try body handler =>
      match check g body, check g handler with
      | Some (nb, rb), Some (nh, rh) => Some (meet nb nh, meet rb rh)
      | _, _ => None
      end
  | Finally body fin =>
      match check g body, check g fin with
      | Some (nb, rb), Some (_, rf) => Some (nb, meet rb rf)
      | _, _ => None
      end
  (* looking is harmless and establishes nothing *)
  | Probe _ => Some (Some g, None)
  end.

Definition prog_ok (p : prog) : bool :=
  match check [] p with Some _ => true | None => false end.

Definition cfg_ok (cfg : list (string * prog)) : bool :=
  forallb (fun x => prog_ok (snd x)) cfg.

(* ---------- what the property says ---------- *)
Definition unchanged (f0 f1 : fsys) : Prop :=
  forall q c, f0 q = Some c -> f1 q = Some c.

Definition init_stf (f0 : fsys) (o : list nat) (fu : option nat) : st :=
  mkst f0 o 1000 [] [] fu.
Definition init_st (f0 : fsys) (o : list nat) : st := init_stf f0 o None.

(* ---------- executable helpers for correspondence and witness search ---- *)
Definition fs_of_list (l : list string) : fsys :=
  fun q => if existsb (String.eqb q) l then Some 0 else None.

Fixpoint pexps (p : prog) : list pexp :=
  match p with
  | Guard e | Create e | Append e | Delete e | Probe e => [e]
  | Rename a b => [a; b]
  | Seq a b | If a b | Try a b | Finally a b => pexps a ++ pexps b
  | Loop b | Call b => pexps b
  | _ => []
  end.

Fixpoint dedup (l : list string) : list string :=
  match l with
  | [] => []
  | x :: r => if existsb (String.eqb x) r then dedup r else x :: dedup r
  end.

Definition targets (name : string) (p : prog) : list string :=
  dedup (map (peval name) (pexps p)).

Definition outcome_code (o : outcome) : nat :=
  match o with Normal => 0 | Returned => 0 | Raised => 1 end.

(* result of one run: (raised?, pre-existing files whose content changed,
   paths written that did not exist before) *)
Definition observe (name : string) (p : prog) (pre : list string) (o : list nat)
  : nat * list string * list string :=
  let '(oc, s1) := run name p (init_st (fs_of_list pre) o) in
  let t := dedup (touched s1) in
  (outcome_code oc,
   filter (fun q => match fs s1 q with Some 0 => false | _ => true end) pre,
   filter (fun q => negb (existsb (String.eqb q) pre)
                    && match fs s1 q with Some _ => true | None => false end) t).

(* correspondence: does the run chosen by oracle o reproduce the outcome and
   the exact sequence of file events the implementation produced? *)
Fixpoint list_eqb (a b : list string) : bool :=
  match a, b with
  | [], [] => true
  | x :: a', y :: b' => String.eqb x y && list_eqb a' b'
  | _, _ => false
  end.

Definition reproduces (name : string) (p : prog) (pre : list string) (o : list nat)
           (fu : option nat) (raised : nat) (events : list string) : bool :=
  let '(oc, s1) := run name p (init_stf (fs_of_list pre) o fu) in
  Nat.eqb (outcome_code oc) raised && list_eqb (rev (trace s1)) events
  && match orc s1 with [] => true | _ => false end.

(* witness search: one pre-existing file at one target path *)
Definition clobbers (name : string) (p : prog) (q : string) (o : list nat) : bool :=
  let '(_, ch, _) := observe name p [q] o in
  match ch with [] => false | _ => true end.

Definition find_witness (p : prog) (names : list string) (oracles : list (list nat))
  : option (string * string * list nat) :=
  let cands :=
    flat_map (fun nm => flat_map (fun q => map (fun o => (nm, q, o)) oracles)
                                 (targets nm p)) names in
  find (fun x => let '(nm, q, o) := x in clobbers nm p q o) cands.
