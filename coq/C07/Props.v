(* C07 — write() never changes an existing file unless overwrite=True.
   Statements only.  gen/WriteCfg.v is regenerated from /repo on every run. *)
From Coq Require Import String List.
Import ListNotations.
From FV.C07 Require Import Model Proofs.
From FV.C07.gen Require Import WriteCfg.

(* per-run obligation: every write in the translated program of every format
   is dominated by a guard of the very path it opens *)
Theorem C07_cfg_ok : cfg_ok WriteCfg.cfg = true.
Proof. vm_compute. reflexivity. Qed.

(* every output format of FEMData.write is covered by a translated program *)
Theorem C07_formats_covered :
  map fst WriteCfg.cfg = ["fistr"; "ucd"; "stl"; "obj"; "polyvtk"; "vtu"; "vtp"; "vtk"]%string.
Proof. vm_compute. reflexivity. Qed.

(* for every format, every spelling of the name, every initial file system,
   every resolution of the data-dependent branches and loops, and whatever
   the outcome (raise or success): each file that existed before the call
   still has its content afterwards *)
Theorem C07_existing_files_unchanged :
  forall ft p, In (ft, p) WriteCfg.cfg ->
  forall (name : string) (f0 : fsys) (o : list nat),
    unchanged f0 (fs (snd (run name p (init_st f0 o)))).
Proof.
  intros ft p Hin. exact (no_clobber_generic p (cfg_ok_In _ C07_cfg_ok ft p Hin)).
Qed.

(* ... hence whatever the call wrote is a file that did not exist before *)
Theorem C07_written_files_are_new :
  forall ft p, In (ft, p) WriteCfg.cfg ->
  forall (name : string) (f0 : fsys) (o : list nat) q,
    fs (snd (run name p (init_st f0 o))) q <> f0 q -> f0 q = None.
Proof.
  intros ft p Hin. exact (created_are_new p (cfg_ok_In _ C07_cfg_ok ft p Hin)).
Qed.

Print Assumptions C07_existing_files_unchanged.
Print Assumptions C07_written_files_are_new.
