(* C07 — write() never changes an existing file unless overwrite=True.
   Statements only.  gen/WriteCfg.v is regenerated from /repo on every run
   (or, when the translator cannot read the tree, copied from the committed
   baseline gen_baseline/WriteCfg.v and tied by the widened correspondence). *)
From Coq Require Import String List.
Import ListNotations.
From FV.C07 Require Import Model Proofs.
From FV.C07.gen Require Import WriteCfg.

(* per-run obligation: every write / removal / rename in the translated program
   of every format is dominated by a guard of the very path it touches.
   cfg_proved = cfg minus the formats with an OPEN known finding whose program
   fails the check (none when known_findings.d/C07.json has no open entry). *)
Theorem C07_cfg_ok : cfg_ok WriteCfg.cfg_proved = true.
Proof. vm_compute. reflexivity. Qed.

(* every output format of FEMData.write has a translated program (formats the
   code may gain later are translated and checked as well); "<other>" is the
   program of any file_type the dispatch does not know *)
Definition known_formats : list string :=
  ["fistr"; "ucd"; "stl"; "obj"; "polyvtk"; "vtu"; "vtp"; "vtk"; "<other>"]%string.

Theorem C07_formats_covered :
  forall ft, In ft known_formats -> In ft (map fst WriteCfg.cfg).
Proof.
  assert (H : forallb (fun ft => existsb (String.eqb ft) (map fst WriteCfg.cfg)) known_formats = true)
    by (vm_compute; reflexivity).
  intros ft Hin. rewrite forallb_forall in H. specialize (H ft Hin).
  apply existsb_exists in H. destruct H as [x [Hx He]]. apply String.eqb_eq in He. subst. exact Hx.
Qed.

(* a format is left out of cfg_proved only if it is listed as an open finding *)
Theorem C07_only_open_findings_excluded :
  forall ft p, In (ft, p) WriteCfg.cfg -> ~ In ft WriteCfg.open_findings ->
  In (ft, p) WriteCfg.cfg_proved.
Proof.
  intros ft p Hin Hno. unfold cfg_proved. apply filter_In. split; [exact Hin|].
  cbn [fst snd]. destruct (existsb (String.eqb ft) open_findings) eqn:E; [|reflexivity].
  exfalso. apply Hno. apply existsb_exists in E. destruct E as [x [Hx He]].
  apply String.eqb_eq in He. subst. exact Hx.
Qed.

(* for every format, every spelling of the name, every initial file system,
   every resolution of the data-dependent branches and loops, an exception
   striking at any file event (fu), and whatever the outcome (raise or
   success): each file that existed before the call still has its content *)
Theorem C07_existing_files_unchanged :
  forall ft p, In (ft, p) WriteCfg.cfg_proved ->
  forall (name : string) (f0 : fsys) (o : list nat) (fu : option nat),
    unchanged f0 (fs (snd (run name p (init_stf f0 o fu)))).
Proof.
  intros ft p Hin. exact (no_clobber_generic p (cfg_ok_In _ C07_cfg_ok ft p Hin)).
Qed.

(* ... hence whatever the call wrote is a file that did not exist before *)
Theorem C07_written_files_are_new :
  forall ft p, In (ft, p) WriteCfg.cfg_proved ->
  forall (name : string) (f0 : fsys) (o : list nat) (fu : option nat) q,
    fs (snd (run name p (init_stf f0 o fu))) q <> f0 q -> f0 q = None.
Proof.
  intros ft p Hin. exact (created_are_new p (cfg_ok_In _ C07_cfg_ok ft p Hin)).
Qed.

(* spelling of the name: what add_extension_if_needed returns always carries
   the extension, and a name that already carries it is used as typed *)
Theorem C07_opened_name_carries_extension :
  forall name ext p, ends_with (peval name (PAddExt ext p)) ext = true.
Proof. exact addext_ends_with. Qed.

Theorem C07_extension_added_once :
  forall name ext p, peval name (PAddExt ext (PAddExt ext p)) = peval name (PAddExt ext p).
Proof. exact addext_idempotent. Qed.

Print Assumptions C07_existing_files_unchanged.
Print Assumptions C07_written_files_are_new.
