(* C07 — spelling of the target name, proved about the path expressions the
   translator produces (not only about Model.PAddExt): two syntactic checks on
   path expressions, decidable by vm_compute on the generated terms, and their
   soundness for ALL names. *)
From Coq Require Import Ascii String List Bool.
Import ListNotations.
From FV.C07 Require Import Model.
Open Scope string_scope.
Set Default Timeout 120.

(* ---------- ends_with s t  <->  s = x ++ t ---------- *)
Lemma ew_cons c r suf :
  ends_with (String c r) suf = if String.eqb (String c r) suf then true else ends_with r suf.
Proof. reflexivity. Qed.

Lemma ew_refl t : ends_with t t = true.
Proof. destruct t; [reflexivity|]. rewrite ew_cons, String.eqb_refl. reflexivity. Qed.

Lemma ew_app x t : ends_with (x ++ t) t = true.
Proof.
  induction x as [|c x IH]; [apply ew_refl|].
  change (String c x ++ t) with (String c (x ++ t)).
  rewrite ew_cons, IH. destruct (String.eqb _ t); reflexivity.
Qed.

Lemma ew_split s t : ends_with s t = true -> exists x, s = x ++ t.
Proof.
  induction s as [|c s IH]; intro H.
  - destruct t; [exists ""; reflexivity|discriminate].
  - rewrite ew_cons in H. destruct (String.eqb (String c s) t) eqn:E.
    + apply String.eqb_eq in E. exists "". simpl. exact E.
    + destruct (IH H) as [x Hx]. exists (String c x). simpl. rewrite Hx. reflexivity.
Qed.

Lemma app_assoc_s a b c : (a ++ b) ++ c = a ++ (b ++ c).
Proof. induction a as [|x a IH]; simpl; [reflexivity|rewrite IH; reflexivity]. Qed.

Lemma ew_app_r x s t : ends_with s t = true -> ends_with (x ++ s) t = true.
Proof.
  intro H. destruct (ew_split s t H) as [y Hy]. subst s.
  rewrite <- app_assoc_s. apply ew_app.
Qed.

Lemma ew_trans s t u : ends_with s t = true -> ends_with t u = true -> ends_with s u = true.
Proof.
  intros H1 H2. destruct (ew_split s t H1) as [x Hx]. subst s. apply ew_app_r, H2.
Qed.

(* ---------- substitution of the argument ---------- *)
Fixpoint psubst (e p : pexp) : pexp :=
  match e with
  | PName => p
  | PIfEnds ext c a b => PIfEnds ext (psubst c p) (psubst a p) (psubst b p)
  | PSuffix s q => PSuffix s (psubst q p)
  | PSibling s q => PSibling s (psubst q p)
  | PWithSuffix s q => PWithSuffix s (psubst q p)
  end.

Lemma peval_psubst name p : forall e, peval name (psubst e p) = peval (peval name p) e.
Proof.
  induction e as [|ext c IHc a IHa b IHb|s q IH|s q IH|s q IH]; simpl;
    try rewrite IHc; try rewrite IHa; try rewrite IHb; try rewrite IH; reflexivity.
Qed.

(* ---------- check 1: the value always ends with ext ---------- *)
Fixpoint carries (ext : string) (e : pexp) : bool :=
  match e with
  | PName => false
  | PSuffix s _ => ends_with s ext
  | PSibling s _ => ends_with s ext
  | PWithSuffix s _ => ends_with s ext
  | PIfEnds ext' c a b =>
      (* the test itself establishes it for the value that is returned as is *)
      ((ends_with ext' ext && pexp_eqb c a) || carries ext a) && carries ext b
  end.

Lemma pexp_eqb_sound a : forall b, pexp_eqb a b = true -> a = b.
Proof.
  induction a as [|e c IHc a IHa a' IHa'|e p IH|e p IH|e p IH]; intros b H; destruct b; simpl in H;
    try discriminate; try reflexivity.
  - apply andb_prop in H; destruct H as [H H4]. apply andb_prop in H; destruct H as [H H3].
    apply andb_prop in H; destruct H as [H1 H2].
    apply String.eqb_eq in H1. apply IHc in H2. apply IHa in H3. apply IHa' in H4.
    subst; reflexivity.
  - apply andb_prop in H; destruct H as [H1 H2];
      apply String.eqb_eq in H1; apply IH in H2; subst; reflexivity.
  - apply andb_prop in H; destruct H as [H1 H2];
      apply String.eqb_eq in H1; apply IH in H2; subst; reflexivity.
  - apply andb_prop in H; destruct H as [H1 H2];
      apply String.eqb_eq in H1; apply IH in H2; subst; reflexivity.
Qed.

Theorem carries_sound ext : forall e, carries ext e = true ->
  forall name, ends_with (peval name e) ext = true.
Proof.
  induction e as [|ext' c IHc a IHa b IHb|s q IH|s q IH|s q IH]; simpl; intros H name.
  - discriminate.
  - apply andb_prop in H. destruct H as [H Hb].
    destruct (ends_with (peval name c) ext') eqn:T; [|apply IHb, Hb].
    apply orb_prop in H. destruct H as [H|H]; [|apply IHa, H].
    apply andb_prop in H. destruct H as [He Hc]. apply pexp_eqb_sound in Hc. subst a.
    exact (ew_trans _ _ _ T He).
  - apply ew_app_r, H.
  - apply ew_app_r, H.
  - unfold with_suffix. apply ew_app_r, ew_app_r, H.
Qed.

(* ---------- check 2: a name that ends with ext is returned as typed ---------- *)
Fixpoint keeps (ext : string) (e : pexp) : bool :=
  match e with
  | PName => true
  | PIfEnds ext' c a b =>
      (ends_with ext ext' && pexp_eqb c PName && keeps ext a) || (keeps ext a && keeps ext b)
  | _ => false
  end.

Theorem keeps_sound ext : forall e, keeps ext e = true ->
  forall name, ends_with name ext = true -> peval name e = name.
Proof.
  induction e as [|ext' c IHc a IHa b IHb|s q IH|s q IH|s q IH]; simpl; intros H name Hn;
    try discriminate; [reflexivity|].
  apply orb_prop in H. destruct H as [H|H].
  - apply andb_prop in H. destruct H as [H Ha]. apply andb_prop in H. destruct H as [He Hc].
    apply pexp_eqb_sound in Hc. subst c. simpl.
    rewrite (ew_trans _ _ _ Hn He). apply IHa; assumption.
  - apply andb_prop in H. destruct H as [Ha Hb].
    destruct (ends_with (peval name c) ext'); [apply IHa|apply IHb]; assumption.
Qed.

(* both together: applying the translated function twice is applying it once *)
Theorem twice_is_once ext e : carries ext e = true -> keeps ext e = true ->
  forall name p, peval name (psubst e (psubst e p)) = peval name (psubst e p).
Proof.
  intros Hc Hk name p. rewrite (peval_psubst name (psubst e p) e).
  apply (keeps_sound ext e Hk). rewrite peval_psubst. apply (carries_sound ext e Hc).
Qed.

(* ---------- the files a program writes ---------- *)
Fixpoint written_pexps (p : prog) : list pexp :=
  match p with
  | Create e | Append e => [e]
  | Rename _ b => [b]
  | Seq a b | If a b | Try a b | Finally a b => written_pexps a ++ written_pexps b
  | Loop b | Call b => written_pexps b
  | _ => []
  end.

(* (format, extension, translated add_extension_if_needed(file_name, extension)) *)
Definition ext_row_ok (cfg : list (string * prog)) (row : string * string * pexp) : bool :=
  let '(ft, ext, e) := row in
  carries ext e && keeps ext e &&
  forallb (fun x => negb (String.eqb (fst x) ft) || forallb (carries ext) (written_pexps (snd x))) cfg.

Lemma ext_row_ok_written cfg ft ext e :
  ext_row_ok cfg (ft, ext, e) = true ->
  forall p, In (ft, p) cfg -> forall w, In w (written_pexps p) ->
  forall name, ends_with (peval name w) ext = true.
Proof.
  unfold ext_row_ok. intros H p Hin w Hw name.
  apply andb_prop in H. destruct H as [_ H]. rewrite forallb_forall in H.
  specialize (H (ft, p) Hin). simpl in H. rewrite String.eqb_refl in H. simpl in H.
  rewrite forallb_forall in H. apply carries_sound, H, Hw.
Qed.

(* ---------- non-vacuity ---------- *)
Example addext_today_ok :
  carries "inp" (PAddExt "inp" PName) = true /\ keeps "inp" (PAddExt "inp" PName) = true.
Proof. split; reflexivity. Qed.

(* the dotted variant of the test, and the conditional written the other way round *)
Example addext_dotted_ok :
  carries "inp" (PIfEnds ".inp" PName PName (PSuffix ".inp" PName)) = true /\
  keeps "inp" (PIfEnds ".inp" PName PName (PSuffix ".inp" PName)) = false.
Proof. split; reflexivity. Qed.

(* adding the extension after testing another one is rejected - and indeed wrong *)
Example addext_wrong_test_bad :
  carries "inp" (PIfEnds "np" PName PName (PSuffix ".inp" PName)) = false /\
  ends_with (peval "xnp" (PIfEnds "np" PName PName (PSuffix ".inp" PName))) "inp" = false.
Proof. split; reflexivity. Qed.

Example written_pexps_example :
  written_pexps (Call (Seq (Guard PName) (Seq (Create (PAddExt "inp" PName)) Return)))
  = [PAddExt "inp" PName].
Proof. reflexivity. Qed.
