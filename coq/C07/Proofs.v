(* C07 — proofs about the effect model. *)
From Coq Require Import String List Bool Arith.
Import ListNotations.
From FV.C07 Require Import Model.

Lemma pexp_eqb_eq a : forall b, pexp_eqb a b = true -> a = b.
Proof.
  induction a as [|e c IHc a IHa a' IHa'|e p IH|e p IH|e p IH]; intros b H; destruct b; simpl in H;
    try discriminate; try reflexivity.
  - apply andb_prop in H; destruct H as [H H4]. apply andb_prop in H; destruct H as [H H3].
    apply andb_prop in H; destruct H as [H1 H2].
    apply String.eqb_eq in H1. apply IHc in H2. apply IHa in H3. apply IHa' in H4.
    subst; reflexivity.
  - apply andb_prop in H; destruct H as [H1 H2];
      apply String.eqb_eq in H1; apply IH in H2; subst; reflexivity.
  - apply andb_prop in H; destruct H as [H1 H2];
      apply String.eqb_eq in H1; apply IH in H2; subst; reflexivity.
  - apply andb_prop in H; destruct H as [H1 H2];
      apply String.eqb_eq in H1; apply IH in H2; subst; reflexivity.
Qed.

Lemma pmem_In e g : pmem e g = true -> In e g.
Proof.
  unfold pmem; intro H; apply existsb_exists in H.
  destruct H as [x [Hx He]]. apply pexp_eqb_eq in He. subst; exact Hx.
Qed.

Definition safe (f0 : fsys) (name : string) (g : list pexp) : Prop :=
  forall e, In e g -> f0 (peval name e) = None.

Definition osafe (f0 : fsys) (name : string) (o : oset) : Prop :=
  exists g, o = Some g /\ safe f0 name g.

Lemma safe_inter_l f0 name a b : safe f0 name a -> safe f0 name (pinter a b).
Proof.
  intros H e He. unfold pinter in He. apply filter_In in He. apply H, He.
Qed.

Lemma safe_inter_r f0 name a b : safe f0 name b -> safe f0 name (pinter a b).
Proof.
  intros H e He. unfold pinter in He. apply filter_In in He.
  destruct He as [_ He]. apply H, pmem_In, He.
Qed.

Lemma osafe_meet_l f0 name a b : osafe f0 name a -> osafe f0 name (meet a b).
Proof.
  intros [g [-> Hg]]. destruct b as [g'|]; simpl.
  - eexists; split; [reflexivity|]. apply safe_inter_l, Hg.
  - eexists; split; [reflexivity|exact Hg].
Qed.

Lemma osafe_meet_r f0 name a b : osafe f0 name b -> osafe f0 name (meet a b).
Proof.
  intros [g [-> Hg]]. destruct a as [g'|]; simpl.
  - eexists; split; [reflexivity|]. apply safe_inter_r, Hg.
  - eexists; split; [reflexivity|exact Hg].
Qed.

Lemma unchanged_fwrite tag f0 s q :
  unchanged f0 (fs s) -> f0 q = None -> unchanged f0 (fs (fwrite tag s q)).
Proof.
  intros Hu Hq x c Hx. simpl.
  destruct (String.eqb x q) eqn:E.
  - apply String.eqb_eq in E. subst. rewrite Hq in Hx. discriminate.
  - apply Hu, Hx.
Qed.

Lemma unchanged_fdelete f0 s q :
  unchanged f0 (fs s) -> f0 q = None -> unchanged f0 (fs (fdelete s q)).
Proof.
  intros Hu Hq x c Hx. simpl.
  destruct (String.eqb x q) eqn:E.
  - apply String.eqb_eq in E. subst. rewrite Hq in Hx. discriminate.
  - apply Hu, Hx.
Qed.

Lemma unchanged_frename f0 s a b :
  unchanged f0 (fs s) -> f0 a = None -> f0 b = None -> unchanged f0 (fs (frename s a b)).
Proof.
  intros Hu Ha Hb x c Hx. simpl.
  destruct (String.eqb x b) eqn:E.
  - apply String.eqb_eq in E. subst. rewrite Hb in Hx. discriminate.
  - destruct (String.eqb x a) eqn:E2.
    + apply String.eqb_eq in E2. subst. rewrite Ha in Hx. discriminate.
    + apply Hu, Hx.
Qed.

Lemma tick_fs s s' : tick s = Some s' -> fs s' = fs s.
Proof.
  unfold tick. destruct (fuel s) as [[|k]|]; intro H; inversion H; reflexivity.
Qed.

Definition post (f0 : fsys) (name : string) (n r : oset) (res : outcome * st) : Prop :=
  unchanged f0 (fs (snd res)) /\
  (fst res = Normal -> osafe f0 name n) /\
  (fst res = Returned -> osafe f0 name r).

Lemma iterate_sound f0 name g r (f : st -> outcome * st) :
  safe f0 name g ->
  (forall s, unchanged f0 (fs s) -> exists n', post f0 name n' r (f s)) ->
  forall k s, unchanged f0 (fs s) ->
    post f0 name (Some g) r (iterate k f s).
Proof.
  intros Hg Hf k. induction k as [|k IH]; intros s Hu; simpl.
  - split; [exact Hu|]. split; [|discriminate].
    intros _. exists g. split; [reflexivity|exact Hg].
  - destruct (Hf s Hu) as [n' Hp]. destruct (f s) as [o s']. 
    destruct Hp as [Hu' [Hn Hr]]. simpl in *.
    destruct o.
    + apply IH, Hu'.
    + split; [exact Hu'|]. split; [discriminate|]. exact Hr.
    + split; [exact Hu'|]. split; discriminate.
Qed.

Lemma run_sound f0 name : forall p g n r,
  check g p = Some (n, r) ->
  safe f0 name g ->
  forall s, unchanged f0 (fs s) -> post f0 name n r (run name p s).
Proof.
  induction p as [|a IHa b IHb|e|e|e|a IHa b IHb|body IH|body IH| | |e|ea eb
                  |a IHa b IHb|a IHa b IHb|e];
    intros g n r Hc Hg s Hu; simpl in Hc.
  - (* Skip *) inversion Hc; subst. simpl. split; [exact Hu|]. split; [|discriminate].
    intros _. exists g; split; [reflexivity|exact Hg].
  - (* Seq *)
    destruct (check g a) as [[na ra]|] eqn:Ea; [|discriminate].
    specialize (IHa g na ra Ea Hg s Hu). simpl.
    destruct (run name a s) as [o s'] eqn:Er. destruct IHa as [Hu' [Hn Hr]]. simpl in *.
    destruct na as [g1|].
    + destruct (check g1 b) as [[nb rb]|] eqn:Eb; [|discriminate].
      inversion Hc; subst n r. destruct o.
      * destruct (Hn eq_refl) as [g1' [Hg1 Hs1]]. inversion Hg1; subst g1'.
        specialize (IHb g1 nb rb Eb Hs1 s' Hu').
        destruct IHb as [Hu2 [Hn2 Hr2]]. split; [exact Hu2|]. split; [exact Hn2|].
        intro H. apply osafe_meet_r, Hr2, H.
      * split; [exact Hu'|]. split; [discriminate|]. intros _. apply osafe_meet_l, Hr, eq_refl.
      * split; [exact Hu'|]. split; discriminate.
    + inversion Hc; subst n r. destruct o.
      * destruct (Hn eq_refl) as [g' [Hg' _]]. discriminate.
      * split; [exact Hu'|]. split; [discriminate|]. exact Hr.
      * split; [exact Hu'|]. split; discriminate.
  - (* Guard *) inversion Hc; subst. simpl.
    destruct (tick s) as [s0|] eqn:Et; [|split; [exact Hu|]; split; discriminate].
    apply tick_fs in Et. rewrite <- Et in Hu. clear Et s. rename s0 into s.
    destruct (fs s (peval name e)) eqn:Ef; simpl.
    + split; [exact Hu|]. split; discriminate.
    + split; [exact Hu|]. split; [|discriminate]. intros _.
      exists (e :: g). split; [reflexivity|]. intros x [Hx|Hx].
      * subst x. destruct (f0 (peval name e)) eqn:E0; [|reflexivity].
        apply Hu in E0. rewrite E0 in Ef. discriminate.
      * apply Hg, Hx.
  - (* Create *) destruct (pmem e g) eqn:Em; [|discriminate]. inversion Hc; subst. simpl.
    destruct (tick s) as [s0|] eqn:Et; [|split; [exact Hu|]; split; discriminate].
    apply tick_fs in Et. rewrite <- Et in Hu. clear Et s. rename s0 into s.
    split; [|split; [|discriminate]].
    + apply unchanged_fwrite; [exact Hu|]. apply Hg, pmem_In, Em.
    + intros _. exists g; split; [reflexivity|exact Hg].
  - (* Append *) destruct (pmem e g) eqn:Em; [|discriminate]. inversion Hc; subst. simpl.
    destruct (tick s) as [s0|] eqn:Et; [|split; [exact Hu|]; split; discriminate].
    apply tick_fs in Et. rewrite <- Et in Hu. clear Et s. rename s0 into s.
    split; [|split; [|discriminate]].
    + apply unchanged_fwrite; [exact Hu|]. apply Hg, pmem_In, Em.
    + intros _. exists g; split; [reflexivity|exact Hg].
  - (* If *)
    destruct (check g a) as [[na ra]|] eqn:Ea; [|discriminate].
    destruct (check g b) as [[nb rb]|] eqn:Eb; [|discriminate].
    inversion Hc; subst n r. simpl.
    assert (HB : forall s1, unchanged f0 (fs s1) ->
                 post f0 name (meet na nb) (meet ra rb) (run name b s1)).
    { intros s1 Hu1. destruct (IHb g nb rb Eb Hg s1 Hu1) as [H1 [H2 H3]].
      split; [exact H1|]. split; intro H; [apply osafe_meet_r, H2, H|apply osafe_meet_r, H3, H]. }
    assert (HA : forall s1, unchanged f0 (fs s1) ->
                 post f0 name (meet na nb) (meet ra rb) (run name a s1)).
    { intros s1 Hu1. destruct (IHa g na ra Ea Hg s1 Hu1) as [H1 [H2 H3]].
      split; [exact H1|]. split; intro H; [apply osafe_meet_l, H2, H|apply osafe_meet_l, H3, H]. }
    destruct (orc s) as [|c rest].
    + apply HB, Hu.
    + destruct (Nat.eqb c 0); [apply HB|apply HA]; exact Hu.
  - (* Loop *)
    destruct (check g body) as [[nb rb]|] eqn:Eb; [|discriminate].
    inversion Hc; subst n r. simpl.
    destruct (orc s) as [|k rest].
    + split; [exact Hu|]. split; [|discriminate]. intros _. exists g; split; [reflexivity|exact Hg].
    + apply iterate_sound; [exact Hg| |exact Hu].
      intros s1 Hu1. exists nb. apply (IH g nb rb Eb Hg s1 Hu1).
  - (* Call *)
    destruct (check g body) as [[nb rb]|] eqn:Eb; [|discriminate].
    inversion Hc; subst n r. simpl.
    specialize (IH g nb rb Eb Hg s Hu).
    destruct (run name body s) as [o s'] eqn:Er. destruct IH as [Hu' [Hn Hr]]. simpl in *.
    split; [exact Hu'|]. split; [|destruct o; discriminate].
    destruct o; intro H; try discriminate.
    + apply osafe_meet_l, Hn, eq_refl.
    + apply osafe_meet_r, Hr, eq_refl.
  - (* Return *) inversion Hc; subst. simpl. split; [exact Hu|]. split; [discriminate|].
    intros _. exists g; split; [reflexivity|exact Hg].
  - (* Raise *) inversion Hc; subst. simpl. split; [exact Hu|]. split; discriminate.
  - (* Delete *) destruct (pmem e g) eqn:Em; [|discriminate]. inversion Hc; subst. simpl.
    destruct (tick s) as [s0|] eqn:Et; [|split; [exact Hu|]; split; discriminate].
    apply tick_fs in Et. rewrite <- Et in Hu. clear Et s. rename s0 into s.
    split; [|split; [|discriminate]].
    + apply unchanged_fdelete; [exact Hu|]. apply Hg, pmem_In, Em.
    + intros _. exists g; split; [reflexivity|exact Hg].
  - (* Rename *) destruct (pmem ea g) eqn:Ea; [|discriminate].
    destruct (pmem eb g) eqn:Eb; [|discriminate]. inversion Hc; subst. simpl.
    destruct (tick s) as [s0|] eqn:Et; [|split; [exact Hu|]; split; discriminate].
    apply tick_fs in Et. rewrite <- Et in Hu. clear Et s. rename s0 into s.
    split; [|split; [|discriminate]].
    + apply unchanged_frename; [exact Hu| |]; apply Hg, pmem_In; assumption.
    + intros _. exists g; split; [reflexivity|exact Hg].
  - (* Try *)
    destruct (check g a) as [[na ra]|] eqn:Ea; [|discriminate].
    destruct (check g b) as [[nb rb]|] eqn:Eb; [|discriminate].
    inversion Hc; subst n r. simpl.
    specialize (IHa g na ra Ea Hg s Hu).
    destruct (run name a s) as [o s'] eqn:Er. destruct IHa as [Hu' [Hn Hr]]. simpl in *.
    assert (HH : forall s1, unchanged f0 (fs s1) ->
                 post f0 name (meet na nb) (meet ra rb) (run name b s1)).
    { intros s1 Hu1. destruct (IHb g nb rb Eb Hg s1 Hu1) as [H1 [H2 H3]].
      split; [exact H1|]. split; intro H; [apply osafe_meet_r, H2, H|apply osafe_meet_r, H3, H]. }
    destruct o.
    + destruct (orc s') as [|c rest].
      * split; [exact Hu'|]. split; [|discriminate]. intros _. apply osafe_meet_l, Hn, eq_refl.
      * destruct (Nat.eqb c 0).
        -- split; [exact Hu'|]. split; [|discriminate]. intros _. apply osafe_meet_l, Hn, eq_refl.
        -- apply HH. exact Hu'.
    + split; [exact Hu'|]. split; [discriminate|]. intros _. apply osafe_meet_l, Hr, eq_refl.
    + apply HH, Hu'.
  - (* Finally *)
    destruct (check g a) as [[na ra]|] eqn:Ea; [|discriminate].
    destruct (check g b) as [[nb rb]|] eqn:Eb; [|discriminate].
    inversion Hc; subst n r. simpl.
    specialize (IHa g na ra Ea Hg s Hu).
    destruct (run name a s) as [o s'] eqn:Er. destruct IHa as [Hu' [Hn Hr]]. simpl in *.
    specialize (IHb g nb rb Eb Hg s' Hu').
    destruct (run name b s') as [o2 s2] eqn:Er2. destruct IHb as [Hu2 [Hn2 Hr2]]. simpl in *.
    split; [exact Hu2|].
    destruct o2; simpl.
    + split; intro H.
      * apply Hn, H.
      * apply osafe_meet_l, Hr, H.
    + split; [discriminate|]. intros _. apply osafe_meet_r, Hr2, eq_refl.
    + split; discriminate.
  - (* Probe *) inversion Hc; subst. simpl.
    destruct (tick s) as [s0|] eqn:Et; [|split; [exact Hu|]; split; discriminate].
    apply tick_fs in Et. rewrite <- Et in Hu. simpl.
    split; [exact Hu|]. split; [|discriminate]. intros _. exists g; split; [reflexivity|exact Hg].
Qed.

(* Every file that existed before the call is byte-for-byte what it was,
   whatever the outcome, the name, the data-dependent choices and the
   initial file system. *)
Theorem no_clobber_generic p :
  prog_ok p = true ->
  forall (name : string) (f0 : fsys) (o : list nat) (fu : option nat),
    unchanged f0 (fs (snd (run name p (init_stf f0 o fu)))).
Proof.
  unfold prog_ok. intros H name f0 o fu.
  destruct (check [] p) as [[n r]|] eqn:E; [|discriminate].
  refine (proj1 (run_sound f0 name p [] n r E _ (init_stf f0 o fu) _)).
  - intros e [].
  - intros q c Hq. exact Hq.
Qed.

(* ... and therefore everything the call wrote is a new file. *)
Definition writes_only (f0 f1 : fsys) (t : list string) : Prop :=
  forall q, f1 q <> f0 q -> In q t.

Theorem created_are_new p :
  prog_ok p = true ->
  forall (name : string) (f0 : fsys) (o : list nat) (fu : option nat) q,
    let s1 := snd (run name p (init_stf f0 o fu)) in
    fs s1 q <> f0 q -> f0 q = None.
Proof.
  intros H name f0 o fu q s1 Hne.
  destruct (f0 q) as [c|] eqn:E; [|reflexivity].
  exfalso. apply Hne. 
  pose proof (no_clobber_generic p H name f0 o fu q c E) as Hu. exact Hu.
Qed.

Lemma cfg_ok_In cfg : cfg_ok cfg = true ->
  forall ft p, In (ft, p) cfg -> prog_ok p = true.
Proof.
  unfold cfg_ok. intros H ft p Hin. rewrite forallb_forall in H.
  exact (H (ft, p) Hin).
Qed.

(* non-vacuity: a guarded program passes, the unguarded one does not,
   and the model exhibits the clobbering run *)
Example guarded_ok :
  prog_ok (Call (Seq (Guard PName) (Seq (Guard (PSuffix ".msh" PName))
                 (Seq (Create (PSuffix ".msh" PName)) (Append (PSuffix ".msh" PName)))))) = true.
Proof. reflexivity. Qed.

Example unguarded_bad :
  prog_ok (Call (Seq (Guard PName) (Create (PAddExt "inp" PName)))) = false /\
  find_witness (Call (Seq (Guard PName) (Create (PAddExt "inp" PName))))
               ["d/res"%string] [[]] = Some ("d/res", "d/res.inp", [])%string.
Proof. split; vm_compute; reflexivity. Qed.

(* ---- the new constructs: non-vacuity ---- *)
(* an atomic write through a scratch file is accepted when both names were guarded *)
Example atomic_write_ok :
  prog_ok (Call (Seq (Guard (PAddExt "inp" PName))
            (Seq (Guard (PWithSuffix ".tmp" (PAddExt "inp" PName)))
            (Seq (Create (PWithSuffix ".tmp" (PAddExt "inp" PName)))
                 (Rename (PWithSuffix ".tmp" (PAddExt "inp" PName)) (PAddExt "inp" PName)))))) = true.
Proof. reflexivity. Qed.

(* ... and rejected when the scratch name was not: the model exhibits the lost file *)
Example atomic_write_unguarded_bad :
  let p := Call (Seq (Guard (PAddExt "inp" PName))
            (Seq (Create (PWithSuffix ".tmp" (PAddExt "inp" PName)))
                 (Rename (PWithSuffix ".tmp" (PAddExt "inp" PName)) (PAddExt "inp" PName)))) in
  prog_ok p = false /\
  observe "d/res" p ["d/res.tmp"%string] [] = (0, ["d/res.tmp"%string], ["d/res.inp"%string]).
Proof. split; vm_compute; reflexivity. Qed.

(* a cleanup handler that unlinks the outputs deletes the very file that made
   the call refuse: rejected, with the run *)
Example cleanup_handler_bad :
  let p := Call (Try (Seq (Guard (PSuffix ".msh" PName)) (Seq (Create (PSuffix ".msh" PName))
                      (Seq (Guard (PSuffix ".cnt" PName)) (Create (PSuffix ".cnt" PName)))))
                     (Seq (Delete (PSuffix ".msh" PName)) (Seq (Delete (PSuffix ".cnt" PName)) Raise))) in
  prog_ok p = false /\
  observe "res" p ["res.cnt"%string] [] = (1, ["res.cnt"%string], []).
Proof. split; vm_compute; reflexivity. Qed.

(* ... and accepted when it removes only what was guarded before the try *)
Example cleanup_handler_ok :
  prog_ok (Call (Seq (Guard (PSuffix ".msh" PName))
                 (Try (Seq (Create (PSuffix ".msh" PName)) (If Raise Skip))
                      (Seq (Delete (PSuffix ".msh" PName)) Raise)))) = true.
Proof. reflexivity. Qed.

Example finally_ok :
  prog_ok (Call (Seq (Guard PName) (Finally (Seq (Create PName) (If Raise Return)) (Append PName)))) = true.
Proof. reflexivity. Qed.

(* an exception that strikes before the second file event stops the run there *)
Example fuel_stops :
  let '(o, s1) := run "res" (Seq (Guard PName) (Create PName)) (init_stf (fs_of_list []) [] (Some 1)) in
  (outcome_code o, rev (trace s1)) = (1, ["G res"%string]).
Proof. vm_compute. reflexivity. Qed.

(* pathlib.Path.with_suffix on the cases that matter *)
Example with_suffix_cases :
  map (fun s => with_suffix s ".tmp")
      ["d/res.inp"; "d/res"; "d/.hid"; "d.x/res"; "r."; "a.b.c"; "d/e.inp/x.v2"]%string
  = ["d/res.tmp"; "d/res.tmp"; "d/.hid.tmp"; "d.x/res.tmp"; "r..tmp"; "a.b.tmp"; "d/e.inp/x.tmp"]%string.
Proof. vm_compute. reflexivity. Qed.

(* ---- the name that is opened carries the extension, however the caller spelled it ---- *)
Lemma ends_with_cons c r suf :
  ends_with (String c r) suf = if String.eqb (String c r) suf then true else ends_with r suf.
Proof. reflexivity. Qed.

Lemma ends_with_refl t : ends_with t t = true.
Proof. destruct t; [reflexivity|]. rewrite ends_with_cons, String.eqb_refl. reflexivity. Qed.

Lemma ends_with_app s t : ends_with (s ++ t) t = true.
Proof.
  induction s as [|c s IH].
  - apply ends_with_refl.
  - change (String c s ++ t)%string with (String c (s ++ t)).
    rewrite ends_with_cons, IH. destruct (String.eqb (String c (s ++ t)) t); reflexivity.
Qed.

Lemma app_assoc_str a b c : ((a ++ b) ++ c = a ++ (b ++ c))%string.
Proof. induction a as [|x a IH]; simpl; [reflexivity|rewrite IH; reflexivity]. Qed.

Theorem addext_ends_with name ext p :
  ends_with (peval name (PAddExt ext p)) ext = true.
Proof.
  unfold PAddExt. cbn [peval].
  destruct (ends_with (peval name p) ext) eqn:E; [exact E|].
  rewrite <- (app_assoc_str (peval name p) "." ext). apply ends_with_app.
Qed.

(* ... and a name that already ends with the extension is used as typed *)
Theorem addext_idempotent name ext p :
  peval name (PAddExt ext (PAddExt ext p)) = peval name (PAddExt ext p).
Proof.
  pose proof (addext_ends_with name ext p) as H.
  change (peval name (PAddExt ext (PAddExt ext p)))
    with (if ends_with (peval name (PAddExt ext p)) ext
          then peval name (PAddExt ext p)
          else (peval name (PAddExt ext p) ++ ("." ++ ext))%string).
  rewrite H. reflexivity.
Qed.

(* ---- exceptions inside a try body reach the handler ---- *)
(* the exception strikes at the third file event, inside the body; the handler
   then runs to its end (it is not hit again) *)
Example strike_inside_try_runs_handler :
  let p := Seq (Guard PName) (Try (Seq (Create PName) (Append PName))
                                  (Seq (Delete PName) Raise)) in
  let '(o, s1) := run "res" p (init_stf (fs_of_list []) [] (Some 2)) in
  (outcome_code o, rev (trace s1), fs s1 "res") = (1, ["G res"; "C res"; "D res"]%string, None).
Proof. vm_compute. reflexivity. Qed.

(* ... and so does one that strikes after the last file event of the body
   (oracle 1), while oracle 0 leaves the body normally *)
Example late_exception_in_try :
  let p := Seq (Guard PName) (Try (Create PName) (Seq (Delete PName) Raise)) in
  (let '(o, s1) := run "res" p (init_st (fs_of_list []) [1]) in (outcome_code o, rev (trace s1)))
  = (1, ["G res"; "C res"; "D res"]%string) /\
  (let '(o, s1) := run "res" p (init_st (fs_of_list []) [0]) in (outcome_code o, rev (trace s1)))
  = (0, ["G res"; "C res"]%string).
Proof. split; vm_compute; reflexivity. Qed.

(* "remove it if it is there" in a handler: looking does not make the removal safe *)
Example probe_then_delete_bad :
  let p := Call (Try (Seq (Guard (PSuffix ".msh" PName)) (Seq (Create (PSuffix ".msh" PName))
                      (Guard (PSuffix ".cnt" PName))))
                     (Seq (Probe (PSuffix ".cnt" PName))
                          (Seq (If (Delete (PSuffix ".cnt" PName)) Skip) Raise))) in
  prog_ok p = false /\
  observe "res" p ["res.cnt"%string] [1] = (1, ["res.cnt"%string], ["res.msh"%string]).
Proof. split; vm_compute; reflexivity. Qed.
