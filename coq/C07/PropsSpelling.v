(* C07 — "whichever way the caller spells the target name": statements about the
   path expressions the translator produced from the tree under test
   (gen/AddExt.v: what the extension-adding helper returns; gen/WriteCfg.v: the
   programs).  Statements only; proofs in Spelling.v. *)
From Coq Require Import String List Bool.
Import ListNotations.
From FV.C07 Require Import Model Spelling.
From FV.C07.gen Require Import WriteCfg AddExt.
Open Scope string_scope.
Set Default Timeout 120.

(* per-run obligation (vm_compute on the generated terms): each translated term
   passes both syntactic checks, and every file its format's program writes does *)
Theorem C07_spelling_rows_ok : forallb (ext_row_ok WriteCfg.cfg) addext_rows = true.
Proof. vm_compute. reflexivity. Qed.

(* the single-file formats and the extension their file carries *)
Definition known_ext : list (string * string) :=
  [("ucd", "inp"); ("stl", "stl"); ("obj", "obj"); ("polyvtk", "vtu"); ("vtu", "vtu");
   ("vtp", "vtp")].

Theorem C07_spelling_rows_cover :
  forall ft ext, In (ft, ext) known_ext -> exists e, In (ft, ext, e) addext_rows.
Proof.
  assert (H : forallb (fun k => existsb (fun r => String.eqb (fst (fst r)) (fst k)
                                         && String.eqb (snd (fst r)) (snd k)) addext_rows)
                      known_ext = true) by (vm_compute; reflexivity).
  intros ft ext Hin. rewrite forallb_forall in H. specialize (H (ft, ext) Hin).
  apply existsb_exists in H. destruct H as [[[f x] e] [Hr He]]. simpl in He.
  apply andb_prop in He. destruct He as [H1 H2].
  apply String.eqb_eq in H1. apply String.eqb_eq in H2. subst. exists e. exact Hr.
Qed.

Lemma row_ok ft ext e : In (ft, ext, e) addext_rows -> ext_row_ok WriteCfg.cfg (ft, ext, e) = true.
Proof.
  intro H. pose proof C07_spelling_rows_ok as A. rewrite forallb_forall in A. exact (A _ H).
Qed.

(* every file the program of such a format writes ends with the format's
   extension, for every spelling of the name *)
Theorem C07_written_file_carries_extension :
  forall ft ext e, In (ft, ext, e) addext_rows ->
  forall p, In (ft, p) WriteCfg.cfg -> forall w, In w (written_pexps p) ->
  forall name, ends_with (peval name w) ext = true.
Proof. intros ft ext e H. exact (ext_row_ok_written _ ft ext e (row_ok _ _ _ H)). Qed.

(* the translated helper, applied to any path expression p: the result carries
   the extension ... *)
Theorem C07_translated_addext_carries_extension :
  forall ft ext e, In (ft, ext, e) addext_rows ->
  forall name p, ends_with (peval name (psubst e p)) ext = true.
Proof.
  intros ft ext e H name p. pose proof (row_ok _ _ _ H) as R. unfold ext_row_ok in R.
  apply andb_prop in R. destruct R as [R _]. apply andb_prop in R. destruct R as [Hc _].
  rewrite peval_psubst. apply (carries_sound ext e Hc).
Qed.

(* ... a name that already carries it is used as typed ... *)
Theorem C07_translated_addext_keeps_typed_name :
  forall ft ext e, In (ft, ext, e) addext_rows ->
  forall name, ends_with name ext = true -> peval name e = name.
Proof.
  intros ft ext e H. pose proof (row_ok _ _ _ H) as R. unfold ext_row_ok in R.
  apply andb_prop in R. destruct R as [R _]. apply andb_prop in R. destruct R as [_ Hk].
  exact (keeps_sound ext e Hk).
Qed.

(* ... hence the extension is added at most once *)
Theorem C07_translated_addext_twice_is_once :
  forall ft ext e, In (ft, ext, e) addext_rows ->
  forall name p, peval name (psubst e (psubst e p)) = peval name (psubst e p).
Proof.
  intros ft ext e H. pose proof (row_ok _ _ _ H) as R. unfold ext_row_ok in R.
  apply andb_prop in R. destruct R as [R _]. apply andb_prop in R. destruct R as [Hc Hk].
  exact (twice_is_once ext e Hc Hk).
Qed.

(* non-vacuity: the table has a ucd row, and its term does what is expected on
   a bare stem, a dotted name and a name that only ends with the letters *)
Example addext_rows_ucd_values :
  map (fun r => map (fun n => peval n (snd r)) ["d/res"; "d/res.inp"; "d/resinp"])
      (filter (fun r => String.eqb (fst (fst r)) "ucd") addext_rows)
  = [["d/res.inp"; "d/res.inp"; "d/resinp"]].
Proof. vm_compute. reflexivity. Qed.

Print Assumptions C07_written_file_carries_extension.
Print Assumptions C07_translated_addext_twice_is_once.
