(* Executable glue for the correspondence check of C02 (no theorem depends on
   this file).  Values are the tokens themselves (%.16E text). *)
From Coq Require Import ZArith String List Ascii Bool.
From FV.C04 Require Import Text Model Corr.
From FV.C02 Require Import Model.
Import ListNotations.

Definition typed_eqb : list (str * list (str * table str)) -> list (str * list (str * table str)) -> bool :=
  list_eqb (fun a b => str_eqb (fst a) (fst b) && named_eqb str_eqb (snd a) (snd b)).
Definition parsed_eqb (a b : parsed str) : bool :=
  named_eqb str_eqb (p_nodal _ a) (p_nodal _ b) && typed_eqb (p_elemental _ a) (p_elemental _ b).
Definition frames_eqb : list (list (list str)) -> list (list (list str)) -> bool :=
  list_eqb (list_eqb (list_eqb str_eqb)).
Definition series_eqb : list (str * (list Z * list (list (list str)))) ->
                        list (str * (list Z * list (list (list str)))) -> bool :=
  list_eqb (fun a b => str_eqb (fst a) (fst b) && list_eqb Z.eqb (fst (snd a)) (fst (snd b))
                       && frames_eqb (snd (snd a)) (snd (snd b))).
Definition dir_eqb (a b : dir_result str) : bool :=
  match a, b with
  | Single p, Single q => parsed_eqb p q
  | Series s1 n1 e1, Series s2 n2 e2 => list_eqb Z.eqb s1 s2 && series_eqb n1 n2 && series_eqb e1 e2
  | _, _ => false
  end.

Definition agree_render (lay : layout) (c : content str) (lines : list str) : bool :=
  list_eqb str_eqb (render_res str tprint lay c) lines.
Definition agree_dir (single_ok : bool) (et : list str) (ts : bool) (n e : nat)
           (types : list (str * list Z)) (files : table str) (x : option (dir_result str)) : bool :=
  res_agree dir_eqb (read_dir str tparse single_ok et ts n e types files) x.
(* FEMData.read_files('fistr', files in the given order, time_series=True) *)
Definition agree_files (single_ok : bool) (et : list str) (n e : nat)
           (types : list (str * list Z)) (files : table str) (x : option (dir_result str)) : bool :=
  res_agree dir_eqb (read_files_series str tparse single_ok et n e types files) x.
(* the theorem's statement evaluated on one case *)
Definition model_roundtrip_ok (lay : layout) (n e : nat) (types : list (str * list Z))
           (c : content str) : bool :=
  res_agree parsed_eqb (parse_res str tparse n e types (render_res str tprint lay c))
            (Some (expected str types c)).
(* S-layout against a solver output: parse, re-render, compare modulo trailing blanks *)
Definition rstrip (s : str) : str := rev (drop_ws (rev s)).
Definition agree_real (lay : layout) (n e : nat) (types : list (str * list Z)) (c : content str) (lines : list str) : bool :=
  list_eqb str_eqb (map rstrip (render_res str tprint lay c)) (map rstrip lines)
  && res_agree parsed_eqb (parse_res str tparse n e types lines) (Some (expected str types c)).
Definition agree_real_parse_only (lay : layout) (n e : nat) (types : list (str * list Z)) (c : content str)
           (lines : list str) : bool :=
  res_agree parsed_eqb (parse_res str tparse n e types lines) (Some (expected str types c)).
