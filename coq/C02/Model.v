(* C02 — FrontISTR result files.
   S-definition (stated convention, trusted): `render_res` is the text layout
   FrontISTR writes (old 3-line header or 2.0 11-line header with TOTALTIME,
   wrappable component-count lines, name lines, per entity one id line and the
   values blank-separated `w` per line, then the same for elements, possibly
   absent).
   H-model of femio (tie: correspondence):
     /repo/femio/formats/fistr/fistr.py  _split_series, _parse_res, _read_res,
                                         read_files (time-series branch)
     /repo/femio/util/string_parser.py   strip, connect_all/connect,
                                         to_dict_fem_attributes / to_fem_attribute(delimiter=' ')
     /repo/femio/fem_elemental_attribute.py  generate_elemental_attribute
     /repo/femio/fem_attributes.py       update_time_series
     /repo/femio/fem_data.py             read_directory: step selection by numeric suffix
   Definitions only. *)
From Coq Require Import ZArith String List Ascii Bool.
From FV.C04 Require Import Text Model.
Import ListNotations.

(* ------------------------------------------------------------ text helpers *)
(* chunks of at most w items (w >= 1); fuel = length of the list *)
Fixpoint wrap_aux {A} (fuel w : nat) (l : list A) : list (list A) :=
  match fuel with
  | O => []
  | Datatypes.S f =>
      match l with
      | [] => []
      | _ => firstn w l :: wrap_aux f w (skipn w l)
      end
  end.
Definition wrap {A} (w : nat) (l : list A) : list (list A) := wrap_aux (length l) w l.

(* str.split(' ') on exactly one blank (pandas str.split with a 1-character pattern) *)
Fixpoint split_sp_aux (cur : str) (s : str) : list str :=
  match s with
  | [] => [rev cur]
  | c :: s' => if Ascii.eqb c " "%char then rev cur :: split_sp_aux [] s'
               else split_sp_aux (c :: cur) s'
  end.
Definition split_sp (s : str) : list str := split_sp_aux [] s.

Fixpoint prefixb (p s : str) : bool :=
  match p, s with
  | [], _ => true
  | a :: p', b :: s' => Ascii.eqb a b && prefixb p' s'
  | _ :: _, [] => false
  end.
Fixpoint contains (p s : str) : bool :=
  prefixb p s || match s with [] => false | _ :: s' => contains p s' end.

Definition is_alpha (c : ascii) : bool :=
  let n := N_of_ascii c in
  ((65 <=? n)%N && (n <=? 90)%N) || ((97 <=? n)%N && (n <=? 122)%N).
(* re.search(r'^[\*a-zA-Z]', line) *)
Definition is_name_line (l : str) : bool :=
  match l with c :: _ => Ascii.eqb c "*"%char || is_alpha c | [] => false end.
(* re.search(r'E\+?-?\d+', line) *)
Definition skip_char (ch : ascii) (s : str) : str :=
  match s with c :: s' => if Ascii.eqb c ch then s' else s | [] => s end.
Definition exp_at (s : str) : bool :=
  match s with
  | c :: r =>
      Ascii.eqb c "E"%char
      && match skip_char "-"%char (skip_char "+"%char r) with d :: _ => digitb d | [] => false end
  | [] => false
  end.
Fixpoint has_exp (s : str) : bool :=
  exp_at s || match s with [] => false | _ :: s' => has_exp s' end.

Fixpoint take_while {A} (p : A -> bool) (l : list A) : list A :=
  match l with [] => [] | a :: l' => if p a then a :: take_while p l' else [] end.
Fixpoint drop_while {A} (p : A -> bool) (l : list A) : list A :=
  match l with [] => [] | a :: l' => if p a then drop_while p l' else l end.

Fixpoint chunks {A} (fuel k : nat) (l : list A) : list (list A) :=
  match fuel with
  | O => []
  | Datatypes.S f => match l with [] => [] | _ => firstn k l :: chunks f k (skipn k l) end
  end.

(* stable insertion sort on integers (np.argsort of distinct step numbers,
   np.intersect1d of distinct ids) *)
Fixpoint insertZ (a : Z) (l : list Z) : list Z :=
  match l with
  | [] => [a]
  | b :: l' => if (a <=? b)%Z then a :: l else b :: insertZ a l'
  end.
Fixpoint sortZ (l : list Z) : list Z :=
  match l with [] => [] | a :: l' => insertZ a (sortZ l') end.
Definition memZ (a : Z) (l : list Z) : bool := existsb (Z.eqb a) l.

(* ---------------------------------------------------------------- layout *)
Inductive header :=
| HOld                                  (* *fstrresult / n_node n_elem / n_nodal n_elemental *)
| H2 (comment : str) (totaltime : str). (* *fstrresult 2.0 ... TOTALTIME ... *data ... *)
Record layout := {
  l_header : header;
  l_pad : str;          (* blanks FrontISTR leaves at the end of count / id / last value lines *)
  l_nelem : nat;        (* element count printed in the header when no elemental section follows *)
  l_wc : nat;           (* component counts per line *)
  l_w : nat }.          (* values per line (FrontISTR: 5) *)

Section RES.
  Variable V : Type.
  Variable vprint : V -> str.             (* e.g. 1.0000000000000000E+00 *)
  Variable vparse : str -> option V.

  (* one section: variables (name, number of components) and, per entity, the
     id with all its values in variable order *)
  Record section := { s_vars : list (str * nat); s_rows : table V }.
  Record content := { c_nodal : section; c_elemental : option section }.

  Definition n_vars (o : option section) : nat :=
    match o with Some s => length (s_vars s) | None => 0 end.
  Definition n_rows (o : option section) : nat :=
    match o with Some s => length (s_rows s) | None => 0 end.

  (* ------------------------------------------------- S: what FrontISTR writes *)
  Definition header_lines (lay : layout) (c : content) : list str :=
    let h := l_header lay in
    let ne := match c_elemental c with Some s => length (s_rows s) | None => l_nelem lay end in
    let counts := [unwords [print_nat (length (s_rows (c_nodal c))); print_nat ne];
                   unwords [print_nat (length (s_vars (c_nodal c))); print_nat (n_vars (c_elemental c))]] in
    match h with
    | HOld => S "*fstrresult" :: counts
    | H2 comment ttime =>
        [S "*fstrresult 2.0"; S "*comment"; comment; S "*global"; S "1"; S "1 ";
         S "TOTALTIME"; ttime ++ S " "; S "*data"] ++ counts
    end.

  Fixpoint pad_last (pad : str) (ls : list str) : list str :=
    match ls with
    | [] => []
    | [l] => [l ++ pad]
    | l :: ls' => l :: pad_last pad ls'
    end.

  Definition entity_lines (lay : layout) (r : row V) : list str :=
    (print_Z (fst r) ++ l_pad lay)
      :: pad_last (l_pad lay) (map (fun g => unwords (map vprint g)) (wrap (l_w lay) (snd r))).

  Definition render_section (lay : layout) (s : section) : list str :=
    map (fun g => unwords (map print_nat g) ++ l_pad lay) (wrap (l_wc lay) (map snd (s_vars s)))
    ++ map fst (s_vars s)
    ++ flat_map (entity_lines lay) (s_rows s).

  Definition render_res (lay : layout) (c : content) : list str :=
    header_lines lay c
    ++ render_section lay (c_nodal c)
    ++ match c_elemental c with Some s => render_section lay s | None => [] end.

  (* ------------------------------------------------------- H: femio's reader *)
  (* _split_series.  The clusters of name-line indices are found with three
     spans: leading non-name lines, first cluster, following non-name lines; the
     second cluster (if any) starts right after.  From there femio walks back
     to the last line holding an E+dd token. *)
  Definition split_body (body : list str) : result (list str * option (list str)) :=
    let not_name := fun l => negb (is_name_line l) in
    let pre1 := take_while not_name body in
    let r1 := drop_while not_name body in
    match r1 with
    | [] => Err "No match found"
    | _ =>
        let nm1 := take_while is_name_line r1 in
        let r2 := drop_while is_name_line r1 in
        let mid := take_while not_name r2 in
        match drop_while not_name r2 with
        | [] => Ok (body, None)                        (* one cluster: only nodal data *)
        | _ =>
            let k2 := length pre1 + length nm1 + length mid in
            let back := take_while (fun l => negb (has_exp l)) (rev (firstn k2 body)) in
            if Nat.leb k2 (length back) then Err "no value line before the elemental names"
            else
              let start := k2 - length back in
              Ok (firstn start body, Some (skipn start body))
        end
    end.
  Definition split_series (lines : list str) : result (list str * option (list str)) :=
    let content_start := if existsb (contains (S "TOTALTIME")) lines then 11 else 3 in
    split_body (skipn content_start lines).

  (* to_fem_attribute(name, 0, range(lo, hi), delimiter=' ') on one re-joined row *)
  Definition parse_cols (lo hi : nat) (toks : list str) : result (row V) :=
    do idt <- nth_r 0 toks;
    do id <- of_opt "bad id" (parse_Z idt);
    if Nat.ltb (length toks) hi then Err "column index out of range"
    else do cells <- of_opt "bad value" (mapO vparse (slice lo hi toks)); Ok (id, cells).

  Fixpoint read_vars (rows : list (list str)) (cum : nat) (vars : list (str * nat))
    : result (list (str * table V)) :=
    match vars with
    | [] => Ok []
    | (name, dim) :: rest =>
        do tb <- mapM (parse_cols cum (cum + dim)) rows;
        do r <- read_vars rows (cum + dim) rest;
        Ok ((name, tb) :: r)
    end.

  (* _parse_res *)
  Definition parse_section (len_data : nat) (lines0 : list str) : result (list (str * table V)) :=
    let lines := map strip lines0 in
    let count_lines := take_while (fun l => negb (is_name_line l)) lines in
    let cne := length count_lines in
    do counts <- mapM parse_ints count_lines;
    let component_nums := concat counts in
    let nv := length component_nums in
    let names := slice cne (cne + nv) lines in
    let raw := skipn (cne + nv) lines in
    if Nat.eqb len_data 0 then Err "division by zero"
    else
      let stride := Nat.div (length raw) len_data in
      if negb (Nat.eqb (stride * len_data) (length raw)) then Err "res file format not supported."
      else if Nat.eqb stride 0 then Err "slice step cannot be zero"
      else
        (* ids = raw[0::stride]; data = value lines joined by ' '; id ' ' data; split(' ') *)
        let rows := map (fun ch => split_sp (join sp ch)) (chunks (length raw) stride raw) in
        read_vars rows 1 (combine names component_nums).

  (* generate_elemental_attribute: per element type of the mesh, the ids of
     that type present in the table (np.intersect1d: ascending) with their rows *)
  Definition rebind (types : list (str * list Z)) (tb : table V) : list (str * table V) :=
    flat_map (fun t =>
                match sortZ (filter (fun id => memZ id (map fst tb)) (snd t)) with
                | [] => []
                | ids => [(fst t, reindex V ids tb)]
                end) types.

  Record parsed := {
    p_nodal : list (str * table V);
    p_elemental : list (str * list (str * table V)) }.

  (* _read_res; types = the mesh's dict_type_ids in ELEMENT_TYPES order *)
  Definition parse_res (n_nodes n_elems : nat) (types : list (str * list Z)) (lines : list str)
    : result parsed :=
    do sp <- split_series lines;
    do nd <- parse_section n_nodes (fst sp);
    do ed <- match snd sp with
             | None => Ok []
             | Some el => parse_section n_elems el
             end;
    Ok {| p_nodal := nd; p_elemental := map (fun v => (fst v, rebind types (snd v))) ed |}.

  (* ----------------------------------------------------- the specification *)
  Fixpoint cut_vars (cum : nat) (vars : list (str * nat)) (rows : table V) : list (str * table V) :=
    match vars with
    | [] => []
    | (name, dim) :: rest =>
        (name, map (fun r => (fst r, slice cum (cum + dim) (snd r))) rows)
          :: cut_vars (cum + dim) rest rows
    end.
  Definition section_tables (s : section) : list (str * table V) := cut_vars 0 (s_vars s) (s_rows s).
  Definition expected (types : list (str * list Z)) (c : content) : parsed :=
    {| p_nodal := section_tables (c_nodal c);
       p_elemental := match c_elemental c with
                      | Some s => map (fun v => (fst v, rebind types (snd v))) (section_tables s)
                      | None => []
                      end |}.

  (* ------------------------------------------------------ well-formedness *)
  Definition name_ok_res (s : str) : bool :=
    is_name_line s && forallb tokch s && negb (contains (S "TOTALTIME") s).
  Definition wf_section (s : section) : bool :=
    match s_vars s with [] => false | _ => true end
    && forallb (fun v => name_ok_res (fst v) && Nat.ltb 0 (snd v)) (s_vars s)
    && match s_rows s with [] => false | _ => true end
    && forallb (fun r => Nat.eqb (length (snd r)) (sum (map snd (s_vars s)))) (s_rows s).
  Definition wf_layout (lay : layout) : bool :=
    Nat.ltb 0 (l_wc lay) && Nat.ltb 0 (l_w lay) && forallb is_ws (l_pad lay).
  Definition wf_content (c : content) : bool :=
    wf_section (c_nodal c)
    && match c_elemental c with Some s => wf_section s | None => true end.

  (* ------------------------------------------------------------ steps *)
  (* read_directory: files = glob('*.res.*'); one file is taken as it is;
     several are ordered by the integer at the end of the name; time series
     takes all in that order, otherwise the last one *)
  Definition select_steps {X} (time_series : bool) (files : table X) : table X :=
    match files with
    | [_] => files
    | _ => let s := sort_rows files in
           if time_series then s
           else match rev s with f :: _ => [f] | [] => [] end
    end.

  (* update_time_series: names and ids of the first step; data stacked in list order *)
  Definition frame_of (name : str) (p : list (str * table V)) : result (list (list V)) :=
    do tb <- of_opt "KeyError" (assoc name p); Ok (map snd tb).
  Definition stack_steps (frames : list (list (str * table V)))
    : result (list (str * (list Z * list (list (list V))))) :=
    match frames with
    | [] => Err "IndexError"
    | f0 :: _ =>
        mapM (fun v => do fs <- mapM (frame_of (fst v)) frames;
                       Ok (fst v, (map fst (snd v), fs))) f0
    end.

  (* ------------------------------------------------ reading a directory *)
  (* rcfg: does the time-series branch of FrontISTRData.read_files accept a
     single result file?  (`_read_files(..., separate=True)` returns the bare
     StringSeries when there is exactly one file, and the branch iterates
     over it) -- read from the source by translate/c02_cfg.py *)
  Variable series_single_ok : bool.
  Variable ETYPES : list str.

  Definition elemental_tables (p : parsed) : list (str * table V) :=
    map (fun v => (fst v, ea_table ETYPES (snd v))) (p_elemental p).

  Inductive dir_result :=
  | Single (p : parsed)
  | Series (steps : list Z)
           (nodal elemental : list (str * (list Z * list (list (list V))))).

  Definition read_dir (time_series : bool) (n_nodes n_elems : nat) (types : list (str * list Z))
             (files : table str) : result dir_result :=
    let sel := select_steps time_series files in
    if time_series then
      match sel with
      | [] => Ok (Series [] [] [])
      | _ =>
          if (Nat.eqb (length sel) 1) && negb series_single_ok
          then Err "AttributeError: 'str' object has no attribute 'find_match'"
          else
            do ps <- mapM (fun f => parse_res n_nodes n_elems types (snd f)) sel;
            do nd <- stack_steps (map p_nodal ps);
            do ed <- stack_steps (map elemental_tables ps);
            Ok (Series (map fst sel) nd ed)
      end
    else
      match sel with
      | [] => Ok (Single {| p_nodal := []; p_elemental := [] |})
      | f :: _ => do p <- parse_res n_nodes n_elems types (snd f); Ok (Single p)
      end.

  (* FrontISTRData.read_files(time_series=True) handed the result files in ANY
     order (FEMData.read_files called directly): no sorting happens here --
     settings['time_steps'] is the list of numeric suffixes in the given order
     and slice k of every series is the reading of the k-th file given.
     read_directory is this function after select_steps (C02_read_dir_sorts_then_reads). *)
  Definition read_files_series (n_nodes n_elems : nat) (types : list (str * list Z))
             (files : table str) : result dir_result :=
    match files with
    | [] => Ok (Series [] [] [])
    | _ =>
        if (Nat.eqb (length files) 1) && negb series_single_ok
        then Err "AttributeError: 'str' object has no attribute 'find_match'"
        else
          do ps <- mapM (fun f => parse_res n_nodes n_elems types (snd f)) files;
          do nd <- stack_steps (map p_nodal ps);
          do ed <- stack_steps (map elemental_tables ps);
          Ok (Series (map fst files) nd ed)
    end.
End RES.
Arguments Single {V} _.
Arguments Series {V} _ _ _.

Arguments Build_section {V} _ _.
Arguments Build_content {V} _ _.
Arguments Build_parsed {V} _ _.
