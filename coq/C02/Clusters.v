(* C02 — `_split_series` as femio writes it, with the INDEX arithmetic of
   StringSeries.indices_matches / indices_match_clusters (np.diff, separation
   indices, slices), and the proof that it is the span formulation
   Model.split_body that all theorems are stated about -- for EVERY list of
   lines, not only rendered files.  (Until round 5 this equivalence was argued
   in the notes and pinned by the correspondence only.) *)
From Coq Require Import ZArith String List Ascii Bool Lia.
From FV.C04 Require Import Text Model.
From FV.C02 Require Import Model.
Import ListNotations.

(* indices_matches: np.array(range(len(matches)))[matches] *)
Fixpoint idx_from {A} (p : A -> bool) (i : nat) (l : list A) : list nat :=
  match l with
  | [] => []
  | a :: l' => if p a then i :: idx_from p (Datatypes.S i) l' else idx_from p (Datatypes.S i) l'
  end.

(* indices_match_clusters: a new cluster starts wherever np.diff(indices) > 1 *)
Fixpoint clusters_aux (cur : list nat) (last : nat) (l : list nat) : list (list nat) :=
  match l with
  | [] => [rev cur]
  | i :: l' => if Nat.ltb 1 (i - last) then rev cur :: clusters_aux [i] i l'
               else clusters_aux (i :: cur) i l'
  end.
Definition clusters (l : list nat) : list (list nat) :=
  match l with [] => [[]] | i :: l' => clusters_aux [i] i l' end.

(* the walk back from index k2 to the last line holding an E+dd token, as in Model.split_body *)
Definition walk_back (body : list str) (k2 : nat) : result (list str * option (list str)) :=
  let back := take_while (fun l => negb (has_exp l)) (rev (firstn k2 body)) in
  if Nat.leb k2 (length back) then Err "no value line before the elemental names"
  else let start := k2 - length back in Ok (firstn start body, Some (skipn start body)).

(* _split_series after the header skip, with femio's index arithmetic *)
Definition split_body_idx (body : list str) : result (list str * option (list str)) :=
  match idx_from is_name_line 0 body with
  | [] => Err "No match found"                    (* indices_matches raises ValueError *)
  | idx =>
      let cl := clusters idx in
      if Nat.ltb 1 (length cl) then                (* len(ind_clusters) > 1 *)
        match nth 1 cl [] with                     (* ind_clusters[1][0] *)
        | k2 :: _ => walk_back body k2
        | [] => Err "IndexError"
        end
      else Ok (body, None)
  end.

(* ------------------------------------------------------------------ proofs *)
Section Spans.
  Context {A : Type}.
  Variable p : A -> bool.
  Let np := fun a => negb (p a).

  Lemma idx_skip : forall l i,
    idx_from p i l = idx_from p (i + length (take_while np l)) (drop_while np l).
  Proof.
    induction l as [|a l IH]; intros i; simpl.
    - reflexivity.
    - unfold np at 1 3. destruct (p a) eqn:E; simpl.
      + rewrite E. rewrite Nat.add_0_r. reflexivity.
      + rewrite IH. f_equal. lia.
  Qed.

  Lemma idx_run : forall l i,
    idx_from p i l = seq i (length (take_while p l))
                     ++ idx_from p (i + length (take_while p l)) (drop_while p l).
  Proof.
    induction l as [|a l IH]; intros i; simpl.
    - reflexivity.
    - destruct (p a) eqn:E; simpl.
      + rewrite IH. f_equal. f_equal. f_equal. lia.
      + rewrite E. rewrite Nat.add_0_r. reflexivity.
  Qed.

  Lemma drop_while_head : forall (q : A -> bool) l a r, drop_while q l = a :: r -> q a = false.
  Proof.
    induction l as [|b l IH]; simpl; intros a r H; [discriminate|].
    destruct (q b) eqn:E; [eapply IH; exact H|]. inversion H; subst. exact E.
  Qed.
End Spans.

Lemma clusters_aux_head : forall l cur last,
  exists t cs, clusters_aux cur last l = (rev cur ++ t) :: cs.
Proof.
  induction l as [|i l IH]; intros cur last; simpl.
  - exists [], []. rewrite app_nil_r. reflexivity.
  - destruct (Nat.ltb 1 (i - last)).
    + exists [], (clusters_aux [i] i l). rewrite app_nil_r. reflexivity.
    + destruct (IH (i :: cur) i) as [t [cs H]]. exists (i :: t), cs. rewrite H. simpl.
      rewrite <- app_assoc. reflexivity.
Qed.

(* a run of consecutive indices is swallowed by the current cluster *)
Lemma clusters_aux_run : forall n cur last rest,
  clusters_aux cur last (seq (Datatypes.S last) n ++ rest)
  = clusters_aux (rev (seq (Datatypes.S last) n) ++ cur) (last + n) rest.
Proof.
  induction n as [|n IH]; intros cur last rest.
  - simpl. rewrite Nat.add_0_r. reflexivity.
  - cbn [seq app clusters_aux].
    replace (Nat.ltb 1 (Datatypes.S last - last)) with false
      by (symmetry; apply Nat.ltb_ge; lia).
    rewrite IH. cbn [rev]. rewrite <- app_assoc. cbn [app]. f_equal. lia.
Qed.

Theorem split_body_idx_spans : forall body : list str, split_body_idx body = split_body body.
Proof.
  intros body. unfold split_body_idx, split_body.
  set (nn := fun l : str => negb (is_name_line l)).
  rewrite (idx_skip is_name_line body 0). fold nn. simpl Nat.add.
  destruct (drop_while nn body) as [|a r1'] eqn:Er1; [reflexivity|].
  assert (is_name_line a = true) as Ha.
  { apply drop_while_head in Er1. unfold nn in Er1. apply negb_false_iff in Er1. exact Er1. }
  set (r1 := a :: r1'). set (k0 := length (take_while nn body)).
  rewrite (idx_run is_name_line r1 k0).
  set (nm1 := take_while is_name_line r1). set (r2 := drop_while is_name_line r1).
  assert (exists n1, length nm1 = Datatypes.S n1) as [n1 Hn1].
  { unfold nm1, r1. simpl. rewrite Ha. simpl. eexists. reflexivity. }
  rewrite (idx_skip is_name_line r2 (k0 + length nm1)). fold nn.
  set (mid := take_while nn r2).
  destruct (drop_while nn r2) as [|b r3'] eqn:Er3.
  - (* one cluster *)
    simpl idx_from. rewrite app_nil_r. rewrite Hn1. simpl seq.
    cbn [clusters].
    replace (seq (Datatypes.S k0) n1) with (seq (Datatypes.S k0) n1 ++ []) by apply app_nil_r.
    rewrite clusters_aux_run. simpl. reflexivity.
  - (* a second cluster starts at k2 *)
    assert (is_name_line b = true) as Hb.
    { apply drop_while_head in Er3. unfold nn in Er3. apply negb_false_iff in Er3. exact Er3. }
    assert (1 <= length mid) as Hmid.
    { unfold mid. destruct r2 as [|c r2'] eqn:Er2; [discriminate Er3|].
      assert (is_name_line c = false) as Hc by (eapply (drop_while_head is_name_line r1); exact Er2).
      simpl. unfold nn at 1. rewrite Hc. simpl. lia. }
    simpl idx_from. rewrite Hb.
    set (k2 := k0 + length nm1 + length mid).
    rewrite Hn1. simpl seq. cbn [clusters app].
    rewrite clusters_aux_run. cbn [clusters_aux].
    replace (Nat.ltb 1 (k2 - (k0 + n1))) with true by (symmetry; apply Nat.ltb_lt; unfold k2; lia).
    destruct (clusters_aux_head (idx_from is_name_line (Datatypes.S k2) r3') [k2] k2) as [t [cs Hc]].
    rewrite Hc. cbn [length nth rev app]. cbn [Nat.ltb Nat.leb].
    unfold walk_back. fold k0. fold nm1. fold mid. fold k2. reflexivity.
Qed.

(* split_series with femio's indices *)
Definition split_series_idx (skip_old skip_new : nat) (lines : list str) : result (list str * option (list str)) :=
  let content_start := if existsb (contains (S "TOTALTIME")) lines then skip_new else skip_old in
  split_body_idx (skipn content_start lines).

Corollary split_series_idx_spans : forall lines, split_series_idx 3 11 lines = split_series lines.
Proof. intros. unfold split_series_idx, split_series. apply split_body_idx_spans. Qed.
