(* C02 — proofs about time series: what `update_time_series` stacks, in which
   order, and to which ids the rows of every slice belong. *)
From Coq Require Import ZArith String List Ascii Bool Lia Permutation Sorting.Sorted.
From FV.C04 Require Import Text Model Proofs.
From FV.C02 Require Import Model Proofs.
Import ListNotations.

Lemma mapM_Forall2 {A B} (f : A -> result B) : forall l r,
  mapM f l = Ok r -> Forall2 (fun a b => f a = Ok b) l r.
Proof.
  induction l as [|a l IH]; simpl; intros r H.
  - inversion H. constructor.
  - destruct (f a) as [b|] eqn:Ea; simpl in H; [|discriminate].
    destruct (mapM f l) as [bs|] eqn:El; simpl in H; [|discriminate].
    inversion H. constructor; [exact Ea|apply IH; reflexivity].
Qed.

Lemma Forall2_length' {A B} (R : A -> B -> Prop) l r : Forall2 R l r -> length l = length r.
Proof. induction 1; simpl; congruence. Qed.

Lemma combine_fst_snd {A B} (l : list (A * B)) : combine (map fst l) (map snd l) = l.
Proof. induction l as [|[a b] l IH]; simpl; [reflexivity|]. rewrite IH. reflexivity. Qed.

Section Series.
  Variable V : Type.

  (* one variable of a series: its name, the ids, one frame per step *)
  Definition svar := (str * (list Z * list (list (list V))))%type.

  (* frame k of the variable `name` is the data of the table stored under that
     name in the k-th single-step reading *)
  Definition frames_of (name : str) (steps : list (list (str * table V))) (fs : list (list (list V))) : Prop :=
    Forall2 (fun p fr => exists tb, assoc name p = Some tb /\ fr = map snd tb) steps fs.

  (* update_time_series: the variables are those of the FIRST step given, in
     its order, with its ids; one frame per step, in the order given; frame k
     holds the k-th step's rows of the variable with the same NAME *)
  Theorem stack_steps_spec : forall (steps : list (list (str * table V))) (r : list svar),
    stack_steps V steps = Ok r ->
    exists f0 rest, steps = f0 :: rest
      /\ Forall2 (fun (v : str * table V) (x : svar) =>
                    fst x = fst v /\ fst (snd x) = map fst (snd v)
                    /\ frames_of (fst v) steps (snd (snd x))) f0 r.
  Proof.
    intros steps r H. destruct steps as [|f0 rest]; [discriminate|].
    exists f0, rest. split; [reflexivity|].
    unfold stack_steps in H. apply mapM_Forall2 in H.
    remember (f0 :: rest) as steps eqn:Es. clear Es.
    induction H as [|v x l r' Hv _ IH]; constructor; [|exact IH].
    destruct (mapM (frame_of V (fst v)) steps) as [fs|] eqn:Ef; simpl in Hv; [|discriminate].
    inversion Hv; subst x; simpl. split; [reflexivity|]. split; [reflexivity|].
    apply mapM_Forall2 in Ef. unfold frames_of.
    clear -Ef. induction Ef as [|p fr ps frs Hp _ IH]; constructor; [|exact IH].
    unfold frame_of in Hp. destruct (assoc (fst v) p) as [tb|] eqn:Ea; simpl in Hp; [|discriminate].
    inversion Hp. exists tb. split; [exact Ea|reflexivity].
  Qed.

  (* the statement of stack_steps_spec as a predicate: r is the stack of the
     single-step readings `steps`, in the order given *)
  Definition is_stack_of (steps : list (list (str * table V))) (r : list svar) : Prop :=
    exists f0 rest, steps = f0 :: rest
      /\ Forall2 (fun (v : str * table V) (x : svar) =>
                    fst x = fst v /\ fst (snd x) = map fst (snd v)
                    /\ frames_of (fst v) steps (snd (snd x))) f0 r.

  (* one frame per step *)
  Corollary stack_steps_n_frames : forall steps r name ids fs,
    stack_steps V steps = Ok r -> In (name, (ids, fs)) r -> length fs = length steps.
  Proof.
    intros steps r name ids fs H Hin.
    destruct (stack_steps_spec _ _ H) as [f0 [rest [Es HF]]].
    assert (forall x, In x r -> exists v, In v f0 /\ frames_of (fst v) steps (snd (snd x))) as Hx.
    { clear -HF. induction HF as [|v x l r' [_ [_ Hf]] _ IH]; intros y Hy; [contradiction|].
      destruct Hy as [<-|Hy]; [exists v; split; [left; reflexivity|exact Hf]|].
      destruct (IH y Hy) as [w [Hw Hfw]]. exists w. split; [right; exact Hw|exact Hfw]. }
    destruct (Hx _ Hin) as [v [_ Hf]]. simpl in Hf. symmetry. eapply Forall2_length'. exact Hf.
  Qed.

  (* when every step lists the rows of a variable in the same id order (what
     FrontISTR writes), re-attaching the ids of the series to slice k gives
     back exactly the table of the k-th single-step reading: every number of
     every step stays on the id it was written for *)
  Theorem frames_rows_on_their_ids : forall name steps ids fs,
    frames_of name steps fs ->
    Forall (fun p => forall tb, assoc name p = Some tb -> map fst tb = ids) steps ->
    Forall2 (fun p fr => assoc name p = Some (combine ids fr)) steps fs.
  Proof.
    intros name steps ids fs HF. induction HF as [|p fr ps frs [tb [Ha ->]] _ IH]; intros Hall.
    - constructor.
    - inversion Hall as [|? ? Hp Hps]; subst. constructor; [|apply IH; exact Hps].
      rewrite Ha. f_equal. rewrite <- (Hp tb Ha). symmetry. apply combine_fst_snd.
  Qed.

  (* read_files(time_series=True) on the files in ANY given order *)
  Variable vparse : str -> option V.
  Theorem read_files_series_spec : forall ok et n e types (f1 : row str) files steps nd ed,
    ok = true \/ files <> [] ->
    read_files_series V vparse ok et n e types (f1 :: files) = Ok (Series steps nd ed) ->
    steps = map fst (f1 :: files)
    /\ exists ps,
         Forall2 (fun f p => parse_res V vparse n e types (snd f) = Ok p) (f1 :: files) ps
         /\ is_stack_of (map (p_nodal V) ps) nd
         /\ is_stack_of (map (elemental_tables V et) ps) ed.
  Proof.
    intros ok et n e types f1 files steps nd ed Hok H.
    unfold read_files_series in H.
    assert ((Nat.eqb (length (f1 :: files)) 1 && negb ok)%bool = false) as Hc.
    { destruct Hok as [->|Hne]; [apply andb_false_r|].
      destruct files; [contradiction|reflexivity]. }
    rewrite Hc in H.
    destruct (mapM (fun f => parse_res V vparse n e types (snd f)) (f1 :: files)) as [ps|] eqn:Ep;
      simpl bind in H; [|discriminate].
    destruct (stack_steps V (map (p_nodal V) ps)) as [nd'|] eqn:En; simpl bind in H; [|discriminate].
    destruct (stack_steps V (map (elemental_tables V et) ps)) as [ed'|] eqn:Ee; simpl bind in H; [|discriminate].
    inversion H; subst. split; [reflexivity|].
    exists ps. split; [apply mapM_Forall2; exact Ep|].
    split; apply stack_steps_spec; assumption.
  Qed.
End Series.

(* =========================================================== elemental data *)
(* The ids of an elemental variable after re-binding depend only on the mesh's
   type table and on WHICH element ids the result file lists -- not on the
   order of its rows.  Hence the premise of frames_rows_on_their_ids holds for
   elemental series whatever row order each step's file uses. *)
Section ElementalIds.
  Variable V : Type.
  Variable ETYPES : list str.

  Lemma insert_row_ids {X} : forall (r : row X) tb,
    map fst (insert_row r tb) = insertZ (fst r) (map fst tb).
  Proof.
    induction tb as [|r' tb IH]; simpl; [reflexivity|].
    destruct (fst r <=? fst r')%Z; simpl; [reflexivity|]. rewrite IH. reflexivity.
  Qed.
  Lemma sort_rows_ids {X} : forall tb : table X, map fst (sort_rows tb) = sortZ (map fst tb).
  Proof.
    induction tb as [|r tb IH]; simpl; [reflexivity|]. rewrite insert_row_ids, IH. reflexivity.
  Qed.

  Lemma reindex_ids : forall ids (tb : table V), map fst (reindex V ids tb) = ids.
  Proof. intros. unfold reindex. rewrite map_map. simpl. apply map_id. Qed.

  (* the id skeleton of a list of blocks *)
  Definition skel {X} (bs : list (str * table X)) : list (str * list Z) :=
    map (fun b => (fst b, map fst (snd b))) bs.

  Lemma assoc_skel {X} : forall t (bs : list (str * table X)),
    assoc t (skel bs) = option_map (map fst) (assoc t bs).
  Proof.
    induction bs as [|[k tb] bs IH]; simpl; [reflexivity|].
    destruct (str_eqb k t); [reflexivity|exact IH].
  Qed.

  Definition ordered_gen {Y} (bs : list (str * Y)) : list (str * Y) :=
    flat_map (fun t => match assoc t bs with Some y => [(t, y)] | None => [] end) ETYPES.

  Lemma ordered_blocks_skel {X} : forall bs : list (str * table X),
    skel (ordered_blocks ETYPES bs) = ordered_gen (skel bs).
  Proof.
    intros bs. unfold ordered_blocks, ordered_gen. induction ETYPES as [|t ts IH]; simpl; [reflexivity|].
    rewrite assoc_skel. destruct (assoc t bs) as [tb|]; simpl; unfold skel in *; rewrite IH; reflexivity.
  Qed.

  Lemma flat_map_snd_ids {X} : forall bs : list (str * table X),
    map fst (flat_map snd bs) = flat_map snd (skel bs).
  Proof.
    induction bs as [|[k tb] bs IH]; simpl; [reflexivity|]. rewrite map_app. f_equal. exact IH.
  Qed.

  (* ids of FEMElementalAttribute (.ids): a function of the skeleton only *)
  Definition ea_ids (sk : list (str * list Z)) : list Z :=
    match ordered_gen sk with
    | [(_, ids)] => ids
    | obs => sortZ (flat_map snd obs)
    end.

  Lemma ea_table_ids {X} : forall bs : list (str * table X),
    map fst (ea_table ETYPES bs) = ea_ids (skel bs).
  Proof.
    intros bs. unfold ea_table, ea_ids. rewrite <- ordered_blocks_skel.
    destruct (ordered_blocks ETYPES bs) as [|[k tb] [|b2 rest]].
    - reflexivity.
    - reflexivity.
    - cbn [skel map fst snd].
      etransitivity; [apply sort_rows_ids|]. f_equal.
      apply (flat_map_snd_ids ((k, tb) :: b2 :: rest)).
  Qed.

  Lemma memZ_ext : forall a l l', (forall i, In i l <-> In i l') -> memZ a l = memZ a l'.
  Proof.
    intros a l l' H. unfold memZ.
    destruct (existsb (Z.eqb a) l) eqn:E1; destruct (existsb (Z.eqb a) l') eqn:E2; try reflexivity.
    - apply existsb_exists in E1. destruct E1 as [x [Hx Hax]]. apply Z.eqb_eq in Hax. subst x.
      apply H in Hx. assert (existsb (Z.eqb a) l' = true) as E by (apply existsb_exists; exists a; split; [exact Hx|apply Z.eqb_refl]).
      congruence.
    - apply existsb_exists in E2. destruct E2 as [x [Hx Hax]]. apply Z.eqb_eq in Hax. subst x.
      apply H in Hx. assert (existsb (Z.eqb a) l = true) as E by (apply existsb_exists; exists a; split; [exact Hx|apply Z.eqb_refl]).
      congruence.
  Qed.

  Lemma rebind_skel : forall types (tb tb' : table V),
    (forall i, In i (map fst tb) <-> In i (map fst tb')) ->
    skel (rebind V types tb) = skel (rebind V types tb').
  Proof.
    intros types tb tb' H. unfold rebind.
    induction types as [|t ts IH]; [reflexivity|].
    cbn [flat_map]. unfold skel in *. rewrite !map_app. f_equal; [|exact IH].
    rewrite (filter_ext _ (fun id => memZ id (map fst tb')) (fun id => memZ_ext id _ _ H)).
    destruct (sortZ (filter (fun id => memZ id (map fst tb')) (snd t))) as [|i ids]; [reflexivity|].
    cbn [map fst snd]. rewrite !reindex_ids. reflexivity.
  Qed.

  (* the ids femio shows for an elemental variable are the same for any two
     result tables that list the same set of element ids, in whatever order *)
  Theorem elemental_ids_row_order_free : forall types (tb tb' : table V),
    (forall i, In i (map fst tb) <-> In i (map fst tb')) ->
    map fst (ea_table ETYPES (rebind V types tb)) = map fst (ea_table ETYPES (rebind V types tb')).
  Proof.
    intros types tb tb' H. rewrite !ea_table_ids. f_equal. apply rebind_skel. exact H.
  Qed.

  Corollary elemental_ids_perm : forall types (tb tb' : table V),
    Permutation tb tb' ->
    map fst (ea_table ETYPES (rebind V types tb)) = map fst (ea_table ETYPES (rebind V types tb')).
  Proof.
    intros types tb tb' HP. apply elemental_ids_row_order_free. intros i.
    split; apply Permutation_in; [|symmetry]; apply Permutation_map; exact HP.
  Qed.
End ElementalIds.
