(* C02 — proofs about the FrontISTR result-file model (Model.v). *)
From Coq Require Import ZArith String List Ascii Bool Lia Permutation Sorting.Sorted.
From FV.C04 Require Import Text Model Proofs.
From FV.C02 Require Import Model.
Import ListNotations.

(* =============================================== sorting and step selection *)
Section Steps.
  Context {X : Type}.
  Definition le_row (a b : row X) : Prop := (fst a <= fst b)%Z.

  Lemma insert_row_perm : forall (r : row X) t, Permutation (insert_row r t) (r :: t).
  Proof.
    induction t as [|r' t IH]; simpl; [reflexivity|].
    destruct (fst r <=? fst r')%Z; [reflexivity|].
    rewrite IH. apply perm_swap.
  Qed.

  Lemma sort_rows_perm : forall t : table X, Permutation (sort_rows t) t.
  Proof.
    induction t as [|r t IH]; simpl; [reflexivity|].
    rewrite insert_row_perm. constructor. exact IH.
  Qed.

  Lemma insert_row_sorted : forall (r : row X) t,
    StronglySorted le_row t -> StronglySorted le_row (insert_row r t).
  Proof.
    induction t as [|r' t IH]; intros H; simpl.
    - constructor; constructor.
    - destruct (Z.leb_spec (fst r) (fst r')).
      + constructor; [exact H|]. constructor; [exact H0|].
        inversion H; subst. eapply Forall_impl; [|eassumption].
        intros a Ha. unfold le_row in *. lia.
      + inversion H; subst. constructor; [apply IH; assumption|].
        eapply Permutation_Forall; [symmetry; apply insert_row_perm|].
        constructor; [unfold le_row; lia|assumption].
  Qed.

  Lemma sort_rows_sorted : forall t : table X, StronglySorted le_row (sort_rows t).
  Proof.
    induction t; simpl; [constructor|]. apply insert_row_sorted. assumption.
  Qed.

  Lemma sorted_last_max : forall (l : table X) f,
    StronglySorted le_row (l ++ [f]) -> forall g, In g (l ++ [f]) -> le_row g f.
  Proof.
    induction l as [|a l IH]; intros f H g Hg; simpl in *.
    - destruct Hg as [<-|[]]. unfold le_row. lia.
    - inversion H; subst. destruct Hg as [<-|Hg].
      + rewrite Forall_forall in H3. apply H3. apply in_or_app. right. left. reflexivity.
      + apply IH; assumption.
  Qed.

  (* several files, no time series: exactly one file is read, it is one of the
     files, and no file has a larger step number *)
  Theorem select_last : forall (f1 f2 : row X) (files : table X),
    exists f, select_steps false (f1 :: f2 :: files) = [f]
              /\ In f (f1 :: f2 :: files)
              /\ forall g, In g (f1 :: f2 :: files) -> (fst g <= fst f)%Z.
  Proof.
    intros f1 f2 files.
    change (select_steps false (f1 :: f2 :: files))
      with (match rev (sort_rows (f1 :: f2 :: files)) with f :: _ => [f] | [] => [] end).
    remember (f1 :: f2 :: files) as l eqn:El.
    pose proof (sort_rows_perm l) as HP. pose proof (sort_rows_sorted l) as HS.
    destruct (rev (sort_rows l)) as [|f r] eqn:E.
    - apply (f_equal (@rev _)) in E. rewrite rev_involutive in E. simpl in E.
      rewrite E in HP. apply Permutation_nil in HP. subst l. discriminate HP.
    - exists f. split; [reflexivity|].
      assert (sort_rows l = rev r ++ [f]) as E'.
      { apply (f_equal (@rev _)) in E. rewrite rev_involutive in E. exact E. }
      split.
      + apply (Permutation_in _ HP). rewrite E'. apply in_or_app. right. left. reflexivity.
      + intros g Hg. rewrite E' in HS. apply (sorted_last_max _ _ HS).
        rewrite <- E'. apply (Permutation_in _ (Permutation_sym HP)). exact Hg.
  Qed.

  (* several files, time series: all files, ascending step numbers *)
  Theorem select_series : forall (f1 f2 : row X) (files : table X),
    let sel := select_steps true (f1 :: f2 :: files) in
    Permutation sel (f1 :: f2 :: files) /\ StronglySorted le_row sel.
  Proof.
    intros f1 f2 files. unfold select_steps. split; [apply sort_rows_perm|apply sort_rows_sorted].
  Qed.

  Theorem select_one : forall ts (f : row X), select_steps ts [f] = [f].
  Proof. reflexivity. Qed.
End Steps.

(* ============================================================= sortZ, rebind *)
Lemma insertZ_in : forall a l x, In x (insertZ a l) <-> x = a \/ In x l.
Proof.
  induction l as [|b l IH]; intros x; simpl.
  - intuition.
  - destruct (a <=? b)%Z; simpl; [intuition|]. rewrite IH. intuition.
Qed.

Lemma sortZ_in : forall l x, In x (sortZ l) <-> In x l.
Proof.
  induction l as [|a l IH]; intros x; simpl; [tauto|].
  rewrite insertZ_in, IH. intuition.
Qed.

Lemma insertZ_sorted : forall a l, StronglySorted Z.le l -> StronglySorted Z.le (insertZ a l).
Proof.
  induction l as [|b l IH]; intros H; simpl.
  - constructor; constructor.
  - destruct (Z.leb_spec a b).
    + constructor; [exact H|]. constructor; [exact H0|].
      inversion H; subst. eapply Forall_impl; [|eassumption]. intros; lia.
    + inversion H; subst. constructor; [apply IH; assumption|].
      apply Forall_forall. intros x Hx. apply insertZ_in in Hx. destruct Hx as [->|Hx]; [lia|].
      rewrite Forall_forall in H4. apply H4. exact Hx.
Qed.

Lemma sortZ_sorted : forall l, StronglySorted Z.le (sortZ l).
Proof. induction l; simpl; [constructor|apply insertZ_sorted; assumption]. Qed.

Lemma memZ_in : forall a l, memZ a l = true <-> In a l.
Proof.
  intros a l. unfold memZ. rewrite existsb_exists. split.
  - intros [x [Hx E]]. apply Z.eqb_eq in E. subst. exact Hx.
  - intros H. exists a. split; [exact H|apply Z.eqb_refl].
Qed.

Section Rebind.
  Variable V : Type.

  Lemma reindex_ids : forall ids (tb : table V), map fst (reindex V ids tb) = ids.
  Proof. induction ids; intros; simpl; [reflexivity|]. f_equal. apply IHids. Qed.

  (* every elemental value stays attached to the id it was written under,
     whatever the storage order of the element blocks and of the result rows *)
  Theorem rebind_sound : forall types (tb : table V) t tb' id,
    In (t, tb') (rebind V types tb) -> In id (map fst tb') ->
    lookup id tb' = Some (get id tb)
    /\ In id (map fst tb)
    /\ exists tids, In (t, tids) types /\ In id tids.
  Proof.
    intros types tb t tb' id Hin Hid. unfold rebind in Hin. apply in_flat_map in Hin.
    destruct Hin as [[t0 tids] [Ht Hin]]. simpl in Hin.
    destruct (sortZ (filter (fun i => memZ i (map fst tb)) tids)) as [|i0 ids0] eqn:E;
      [contradiction|].
    destruct Hin as [Hin|[]]. inversion Hin; subst t0 tb'. clear Hin.
    assert (In id (i0 :: ids0)) as Hid'.
    { change (In id (map fst (reindex V (i0 :: ids0) tb))) in Hid. rewrite reindex_ids in Hid. exact Hid. }
    split; [apply (lookup_reindex V (i0 :: ids0) tb id Hid')|].
    rewrite <- E in Hid'. apply -> sortZ_in in Hid'. apply filter_In in Hid'.
    destruct Hid' as [H1 H2]. apply memZ_in in H2. split; [exact H2|].
    exists tids. split; assumption.
  Qed.

  Theorem rebind_complete : forall types (tb : table V) t tids id,
    In (t, tids) types -> In id tids -> In id (map fst tb) ->
    exists tb', In (t, tb') (rebind V types tb) /\ In id (map fst tb').
  Proof.
    intros types tb t tids id Ht Hid Htb.
    assert (In id (sortZ (filter (fun i => memZ i (map fst tb)) tids))) as H.
    { apply sortZ_in. apply filter_In. split; [exact Hid|apply memZ_in; exact Htb]. }
    destruct (sortZ (filter (fun i => memZ i (map fst tb)) tids)) as [|i0 ids0] eqn:E;
      [contradiction|].
    exists (reindex V (i0 :: ids0) tb). split.
    - unfold rebind. apply in_flat_map. exists (t, tids). split; [exact Ht|].
      simpl. rewrite E. left. reflexivity.
    - rewrite reindex_ids. exact H.
  Qed.

  (* within a type the rows come out in ascending id order (np.intersect1d) *)
  Theorem rebind_sorted : forall types (tb : table V) t tb',
    In (t, tb') (rebind V types tb) -> StronglySorted Z.le (map fst tb').
  Proof.
    intros types tb t tb' Hin. unfold rebind in Hin. apply in_flat_map in Hin.
    destruct Hin as [[t0 tids] [_ Hin]]. simpl in Hin.
    destruct (sortZ (filter (fun i => memZ i (map fst tb)) tids)) as [|i0 ids0] eqn:E;
      [contradiction|].
    destruct Hin as [Hin|[]]. inversion Hin; subst.
    change (StronglySorted Z.le (map fst (reindex V (i0 :: ids0) tb))).
    rewrite reindex_ids. rewrite <- E. apply sortZ_sorted.
  Qed.
End Rebind.
