(* C02 — proofs about the FrontISTR result-file model (Model.v). *)
From Coq Require Import ZArith String List Ascii Bool Lia Permutation Sorting.Sorted.
From FV.C04 Require Import Text Model Proofs.
From FV.C02 Require Import Model.
Import ListNotations.

(* =============================================== sorting and step selection *)
Section Steps.
  Context {X : Type}.
  Definition le_row (a b : row X) : Prop := (fst a <= fst b)%Z.

  Lemma insert_row_perm : forall (r : row X) t, Permutation (insert_row r t) (r :: t).
  Proof.
    induction t as [|r' t IH]; simpl; [reflexivity|].
    destruct (fst r <=? fst r')%Z; [reflexivity|].
    rewrite IH. apply perm_swap.
  Qed.

  Lemma sort_rows_perm : forall t : table X, Permutation (sort_rows t) t.
  Proof.
    induction t as [|r t IH]; simpl; [reflexivity|].
    rewrite insert_row_perm. constructor. exact IH.
  Qed.

  Lemma insert_row_sorted : forall (r : row X) t,
    StronglySorted le_row t -> StronglySorted le_row (insert_row r t).
  Proof.
    induction t as [|r' t IH]; intros H; simpl.
    - constructor; constructor.
    - destruct (Z.leb_spec (fst r) (fst r')).
      + constructor; [exact H|]. constructor; [exact H0|].
        inversion H; subst. eapply Forall_impl; [|eassumption].
        intros a Ha. unfold le_row in *. lia.
      + inversion H; subst. constructor; [apply IH; assumption|].
        eapply Permutation_Forall; [symmetry; apply insert_row_perm|].
        constructor; [unfold le_row; lia|assumption].
  Qed.

  Lemma sort_rows_sorted : forall t : table X, StronglySorted le_row (sort_rows t).
  Proof.
    induction t; simpl; [constructor|]. apply insert_row_sorted. assumption.
  Qed.

  Lemma sorted_last_max : forall (l : table X) f,
    StronglySorted le_row (l ++ [f]) -> forall g, In g (l ++ [f]) -> le_row g f.
  Proof.
    induction l as [|a l IH]; intros f H g Hg; simpl in *.
    - destruct Hg as [<-|[]]. unfold le_row. lia.
    - inversion H; subst. destruct Hg as [<-|Hg].
      + rewrite Forall_forall in H3. apply H3. apply in_or_app. right. left. reflexivity.
      + apply IH; assumption.
  Qed.

  (* several files, no time series: exactly one file is read, it is one of the
     files, and no file has a larger step number *)
  Theorem select_last : forall (f1 f2 : row X) (files : table X),
    exists f, select_steps false (f1 :: f2 :: files) = [f]
              /\ In f (f1 :: f2 :: files)
              /\ forall g, In g (f1 :: f2 :: files) -> (fst g <= fst f)%Z.
  Proof.
    intros f1 f2 files.
    change (select_steps false (f1 :: f2 :: files))
      with (match rev (sort_rows (f1 :: f2 :: files)) with f :: _ => [f] | [] => [] end).
    remember (f1 :: f2 :: files) as l eqn:El.
    pose proof (sort_rows_perm l) as HP. pose proof (sort_rows_sorted l) as HS.
    destruct (rev (sort_rows l)) as [|f r] eqn:E.
    - apply (f_equal (@rev _)) in E. rewrite rev_involutive in E. simpl in E.
      rewrite E in HP. apply Permutation_nil in HP. subst l. discriminate HP.
    - exists f. split; [reflexivity|].
      assert (sort_rows l = rev r ++ [f]) as E'.
      { apply (f_equal (@rev _)) in E. rewrite rev_involutive in E. exact E. }
      split.
      + apply (Permutation_in _ HP). rewrite E'. apply in_or_app. right. left. reflexivity.
      + intros g Hg. rewrite E' in HS. apply (sorted_last_max _ _ HS).
        rewrite <- E'. apply (Permutation_in _ (Permutation_sym HP)). exact Hg.
  Qed.

  (* several files, time series: all files, ascending step numbers *)
  Theorem select_series : forall (f1 f2 : row X) (files : table X),
    let sel := select_steps true (f1 :: f2 :: files) in
    Permutation sel (f1 :: f2 :: files) /\ StronglySorted le_row sel.
  Proof.
    intros f1 f2 files. unfold select_steps. split; [apply sort_rows_perm|apply sort_rows_sorted].
  Qed.

  Theorem select_one : forall ts (f : row X), select_steps ts [f] = [f].
  Proof. reflexivity. Qed.
End Steps.

(* ============================================================= sortZ, rebind *)
Lemma insertZ_in : forall a l x, In x (insertZ a l) <-> x = a \/ In x l.
Proof.
  induction l as [|b l IH]; intros x; simpl.
  - intuition.
  - destruct (a <=? b)%Z; simpl; [intuition|]. rewrite IH. intuition.
Qed.

Lemma sortZ_in : forall l x, In x (sortZ l) <-> In x l.
Proof.
  induction l as [|a l IH]; intros x; simpl; [tauto|].
  rewrite insertZ_in, IH. intuition.
Qed.

Lemma insertZ_sorted : forall a l, StronglySorted Z.le l -> StronglySorted Z.le (insertZ a l).
Proof.
  induction l as [|b l IH]; intros H; simpl.
  - constructor; constructor.
  - destruct (Z.leb_spec a b).
    + constructor; [exact H|]. constructor; [exact H0|].
      inversion H; subst. eapply Forall_impl; [|eassumption]. intros; lia.
    + inversion H; subst. constructor; [apply IH; assumption|].
      apply Forall_forall. intros x Hx. apply insertZ_in in Hx. destruct Hx as [->|Hx]; [lia|].
      rewrite Forall_forall in H4. apply H4. exact Hx.
Qed.

Lemma sortZ_sorted : forall l, StronglySorted Z.le (sortZ l).
Proof. induction l; simpl; [constructor|apply insertZ_sorted; assumption]. Qed.

Lemma memZ_in : forall a l, memZ a l = true <-> In a l.
Proof.
  intros a l. unfold memZ. rewrite existsb_exists. split.
  - intros [x [Hx E]]. apply Z.eqb_eq in E. subst. exact Hx.
  - intros H. exists a. split; [exact H|apply Z.eqb_refl].
Qed.

Section Rebind.
  Variable V : Type.

  Lemma reindex_ids : forall ids (tb : table V), map fst (reindex V ids tb) = ids.
  Proof. induction ids; intros; simpl; [reflexivity|]. f_equal. apply IHids. Qed.

  (* every elemental value stays attached to the id it was written under,
     whatever the storage order of the element blocks and of the result rows *)
  Theorem rebind_sound : forall types (tb : table V) t tb' id,
    In (t, tb') (rebind V types tb) -> In id (map fst tb') ->
    lookup id tb' = Some (get id tb)
    /\ In id (map fst tb)
    /\ exists tids, In (t, tids) types /\ In id tids.
  Proof.
    intros types tb t tb' id Hin Hid. unfold rebind in Hin. apply in_flat_map in Hin.
    destruct Hin as [[t0 tids] [Ht Hin]]. simpl in Hin.
    destruct (sortZ (filter (fun i => memZ i (map fst tb)) tids)) as [|i0 ids0] eqn:E;
      [contradiction|].
    destruct Hin as [Hin|[]]. inversion Hin; subst t0 tb'. clear Hin.
    assert (In id (i0 :: ids0)) as Hid'.
    { change (In id (map fst (reindex V (i0 :: ids0) tb))) in Hid. rewrite reindex_ids in Hid. exact Hid. }
    split; [apply (lookup_reindex V (i0 :: ids0) tb id Hid')|].
    rewrite <- E in Hid'. apply -> sortZ_in in Hid'. apply filter_In in Hid'.
    destruct Hid' as [H1 H2]. apply memZ_in in H2. split; [exact H2|].
    exists tids. split; assumption.
  Qed.

  Theorem rebind_complete : forall types (tb : table V) t tids id,
    In (t, tids) types -> In id tids -> In id (map fst tb) ->
    exists tb', In (t, tb') (rebind V types tb) /\ In id (map fst tb').
  Proof.
    intros types tb t tids id Ht Hid Htb.
    assert (In id (sortZ (filter (fun i => memZ i (map fst tb)) tids))) as H.
    { apply sortZ_in. apply filter_In. split; [exact Hid|apply memZ_in; exact Htb]. }
    destruct (sortZ (filter (fun i => memZ i (map fst tb)) tids)) as [|i0 ids0] eqn:E;
      [contradiction|].
    exists (reindex V (i0 :: ids0) tb). split.
    - unfold rebind. apply in_flat_map. exists (t, tids). split; [exact Ht|].
      simpl. rewrite E. left. reflexivity.
    - rewrite reindex_ids. exact H.
  Qed.

  (* within a type the rows come out in ascending id order (np.intersect1d) *)
  Theorem rebind_sorted : forall types (tb : table V) t tb',
    In (t, tb') (rebind V types tb) -> StronglySorted Z.le (map fst tb').
  Proof.
    intros types tb t tb' Hin. unfold rebind in Hin. apply in_flat_map in Hin.
    destruct Hin as [[t0 tids] [_ Hin]]. simpl in Hin.
    destruct (sortZ (filter (fun i => memZ i (map fst tb)) tids)) as [|i0 ids0] eqn:E;
      [contradiction|].
    destruct Hin as [Hin|[]]. inversion Hin; subst.
    change (StronglySorted Z.le (map fst (reindex V (i0 :: ids0) tb))).
    rewrite reindex_ids. rewrite <- E. apply sortZ_sorted.
  Qed.
End Rebind.

(* ================================================================ text lemmas *)
Lemma wrap_aux_concat {A} : forall fuel w (l : list A),
  1 <= w -> length l <= fuel -> concat (wrap_aux fuel w l) = l.
Proof.
  induction fuel as [|f IH]; intros w l Hw Hl.
  - destruct l; [reflexivity|simpl in Hl; lia].
  - destruct l as [|a l]; [reflexivity|].
    cbn [wrap_aux concat]. rewrite IH.
    + apply firstn_skipn.
    + exact Hw.
    + rewrite skipn_length. cbn [length] in *. lia.
Qed.

Lemma concat_wrap {A} : forall w (l : list A), 1 <= w -> concat (wrap w l) = l.
Proof. intros. unfold wrap. apply wrap_aux_concat; [assumption|lia]. Qed.

Lemma wrap_aux_nonempty {A} : forall fuel w (l : list A) g,
  1 <= w -> In g (wrap_aux fuel w l) -> g <> [].
Proof.
  induction fuel as [|f IH]; intros w l g Hw Hg; [contradiction|].
  destruct l as [|a l]; [contradiction|]. cbn [wrap_aux] in Hg. destruct Hg as [<-|Hg].
  - destruct w; [lia|]. discriminate.
  - eapply IH; eassumption.
Qed.

Lemma wrap_nonempty {A} : forall w (l : list A) g, 1 <= w -> In g (wrap w l) -> g <> [].
Proof. intros w l g. apply wrap_aux_nonempty. Qed.

Lemma wrap_aux_length {A B} : forall fuel w (l : list A) (l' : list B),
  length l = length l' -> length (wrap_aux fuel w l) = length (wrap_aux fuel w l').
Proof.
  induction fuel as [|f IH]; intros w l l' H; [reflexivity|].
  destruct l, l'; try discriminate; [reflexivity|].
  cbn [wrap_aux length]. f_equal. apply IH. rewrite !skipn_length. rewrite H. reflexivity.
Qed.

Lemma wrap_length {A B} : forall w (l : list A) (l' : list B),
  length l = length l' -> length (wrap w l) = length (wrap w l').
Proof. intros w l l' H. unfold wrap. rewrite H. apply wrap_aux_length. exact H. Qed.

Lemma wrap_nil_iff {A} : forall w (l : list A), wrap w l = [] -> l = [].
Proof. intros w [|a l] H; [reflexivity|discriminate H]. Qed.

(* splitting on single blanks *)
Definition nosp (c : ascii) : bool := negb (Ascii.eqb c " "%char).

Lemma tokch_nosp : forall c, tokch c = true -> nosp c = true.
Proof.
  intros c H. unfold nosp. destruct (Ascii.eqb_spec c " "%char); [subst; discriminate H|reflexivity].
Qed.

Lemma split_sp_aux_tok : forall t cur rest,
  forallb nosp t = true -> split_sp_aux cur (t ++ rest) = split_sp_aux (rev t ++ cur) rest.
Proof.
  induction t as [|c t IH]; intros cur rest H; simpl in *; [reflexivity|].
  apply andb_true_iff in H. destruct H as [Hc Ht]. unfold nosp in Hc.
  apply negb_true_iff in Hc. rewrite Hc. rewrite IH by exact Ht.
  rewrite <- app_assoc. reflexivity.
Qed.

Lemma split_sp_unwords : forall ts,
  ts <> [] -> (forall t, In t ts -> forallb nosp t = true) -> split_sp (unwords ts) = ts.
Proof.
  unfold split_sp, unwords. induction ts as [|t ts IH]; intros Hne H; [contradiction|].
  destruct ts as [|t' ts'].
  - simpl. rewrite <- (app_nil_r t) at 1. rewrite split_sp_aux_tok by (apply H; left; reflexivity).
    simpl. rewrite app_nil_r, rev_involutive. reflexivity.
  - change (join sp (t :: t' :: ts')) with (t ++ sp ++ join sp (t' :: ts')).
    rewrite split_sp_aux_tok by (apply H; left; reflexivity). rewrite app_nil_r.
    simpl app. cbn [split_sp_aux]. change (Ascii.eqb " " " ") with true. cbv iota.
    rewrite rev_involutive. f_equal. apply IH; [discriminate|].
    intros x Hx. apply H. right. exact Hx.
Qed.

Lemma join_app_ne : forall (g rest : list str),
  g <> [] -> rest <> [] -> join sp g ++ sp ++ join sp rest = join sp (g ++ rest).
Proof.
  intros g rest Hg Hr. destruct rest as [|r rs]; [contradiction|]. clear Hr.
  induction g as [|a g IH]; [contradiction|].
  destruct g as [|b g].
  - reflexivity.
  - change (join sp (a :: b :: g)) with (a ++ sp ++ join sp (b :: g)).
    change ((a :: b :: g) ++ r :: rs) with (a :: ((b :: g) ++ r :: rs)).
    change (join sp (a :: (b :: g) ++ r :: rs)) with (a ++ sp ++ join sp ((b :: g) ++ r :: rs)).
    rewrite <- IH by discriminate. rewrite <- !app_assoc. reflexivity.
Qed.

Lemma join_unwords_concat : forall gs : list (list str),
  (forall g, In g gs -> g <> []) -> join sp (map unwords gs) = unwords (concat gs).
Proof.
  induction gs as [|g gs IH]; intros H; [reflexivity|].
  destruct gs as [|g' gs'].
  - simpl. rewrite app_nil_r. reflexivity.
  - change (map unwords (g :: g' :: gs')) with (unwords g :: map unwords (g' :: gs')).
    change (join sp (unwords g :: map unwords (g' :: gs')))
      with (unwords g ++ sp ++ join sp (map unwords (g' :: gs'))).
    rewrite IH by (intros x Hx; apply H; right; exact Hx).
    change (concat (g :: g' :: gs')) with (g ++ concat (g' :: gs')).
    unfold unwords. apply join_app_ne.
    + apply H. left. reflexivity.
    + assert (g' <> []) by (apply H; right; left; reflexivity).
      simpl. destruct g'; [contradiction|discriminate].
Qed.

(* strip removes the pad *)
Lemma drop_ws_app_ws : forall p x, forallb is_ws p = true -> drop_ws (p ++ x) = drop_ws x.
Proof.
  induction p as [|c p IH]; intros x H; simpl in *; [reflexivity|].
  apply andb_true_iff in H. destruct H as [Hc Hp]. rewrite Hc. apply IH. exact Hp.
Qed.

Lemma strip_pad : forall l pad,
  head_ok l = true -> head_ok (rev l) = true -> forallb is_ws pad = true ->
  strip (l ++ pad) = l.
Proof.
  intros l pad H1 H2 Hp. unfold strip.
  rewrite (drop_ws_head (l ++ pad)) by (apply head_ok_app; exact H1).
  rewrite rev_app_distr. rewrite drop_ws_app_ws by (apply forallb_rev; exact Hp).
  rewrite (drop_ws_head _ H2). apply rev_involutive.
Qed.

Lemma unwords_head_ok : forall ts,
  ts <> [] -> forallb tokenb ts = true -> head_ok (unwords ts) = true.
Proof.
  intros [|t ts] Hne H; [contradiction|]. simpl in H. apply andb_true_iff in H.
  destruct H as [Ht _]. unfold unwords. destruct ts; simpl.
  - apply token_head; assumption.
  - apply head_ok_app. apply token_head. assumption.
Qed.

Lemma unwords_rev_head_ok : forall ts,
  ts <> [] -> forallb tokenb ts = true -> head_ok (rev (unwords ts)) = true.
Proof.
  intros ts Hne H. destruct (exists_last Hne) as [ts' [t ->]].
  rewrite forallb_app in H. apply andb_true_iff in H. destruct H as [_ H].
  simpl in H. apply andb_true_iff in H. destruct H as [Ht _].
  unfold unwords. destruct ts' as [|a ts'].
  - simpl. apply token_head_rev. assumption.
  - rewrite join_snoc by discriminate. rewrite !rev_app_distr.
    apply head_ok_app. apply head_ok_app. apply token_head_rev. assumption.
Qed.

Lemma strip_unwords_pad : forall ts pad,
  ts <> [] -> forallb tokenb ts = true -> forallb is_ws pad = true ->
  strip (unwords ts ++ pad) = unwords ts.
Proof.
  intros. apply strip_pad; [apply unwords_head_ok|apply unwords_rev_head_ok|]; assumption.
Qed.

Lemma strip_token_pad : forall t pad,
  tokenb t = true -> forallb is_ws pad = true -> strip (t ++ pad) = t.
Proof.
  intros t pad H Hp. apply (strip_unwords_pad [t] pad); [discriminate|simpl; rewrite H; reflexivity|exact Hp].
Qed.

(* take_while / drop_while over a concatenation *)
Lemma take_while_app {A} (p : A -> bool) : forall a b,
  forallb p a = true -> match b with [] => True | x :: _ => p x = false end ->
  take_while p (a ++ b) = a /\ drop_while p (a ++ b) = b.
Proof.
  induction a as [|x a IH]; intros b Ha Hb; simpl in *.
  - destruct b as [|y b]; [split; reflexivity|]. simpl. rewrite Hb. split; reflexivity.
  - apply andb_true_iff in Ha. destruct Ha as [Hx Ha]. rewrite Hx.
    destruct (IH b Ha Hb) as [E1 E2]. rewrite E1, E2. split; reflexivity.
Qed.

Lemma chunks_flat_map {A B} : forall (f : B -> list A) k (l : list B) fuel,
  1 <= k -> (forall b, In b l -> length (f b) = k) -> length l <= fuel ->
  chunks fuel k (flat_map f l) = map f l.
Proof.
  intros f k. induction l as [|b l IH]; intros fuel Hk H Hf.
  - destruct fuel; reflexivity.
  - destruct fuel as [|fuel]; [simpl in Hf; lia|].
    cbn [flat_map map]. assert (length (f b) = k) as Eb by (apply H; left; reflexivity).
    destruct (f b ++ flat_map f l) eqn:E.
    + destruct (f b); [simpl in Eb; lia|discriminate].
    + rewrite <- E. cbn [chunks]. rewrite E. rewrite <- E.
      rewrite <- Eb. rewrite firstn_app, firstn_all, Nat.sub_diag. simpl firstn. rewrite app_nil_r.
      rewrite skipn_app, skipn_all, Nat.sub_diag. simpl. rewrite Eb. f_equal.
      apply IH; [exact Hk| |simpl in Hf; lia]. intros b' Hb'. apply H. right. exact Hb'.
Qed.

(* ============================================================ character classes *)
From Coq Require Decimal DecimalString DecimalPos.
Import DecimalString.
Definition numch (c : ascii) : bool := digitb c || Ascii.eqb c "-"%char.

Lemma print_Z_numch : forall z, forallb numch (print_Z z) = true.
Proof.
  assert (forall d, forallb numch (S (NilEmpty.string_of_uint d)) = true) as HD.
  { intros d. apply (forallb_impl digitb); [|apply digits_uint].
    intros a Ha. unfold numch. rewrite Ha. reflexivity. }
  assert (forall p, forallb numch (S (DecimalString.NilZero.string_of_uint (Pos.to_uint p))) = true) as HP.
  { intros p. pose proof (DecimalPos.Unsigned.to_uint_nonnil p) as Hn.
    destruct (Pos.to_uint p) eqn:E; try contradiction; apply HD. }
  intros [|p|p]; unfold print_Z; simpl Z.to_int; simpl DecimalString.NilZero.string_of_int.
  - reflexivity.
  - apply HP.
  - simpl. apply HP.
Qed.

Lemma numch_head_not_name : forall l, forallb numch l = true -> is_name_line l = false.
Proof.
  intros [|c l] H; [reflexivity|]. simpl in *. apply andb_true_iff in H. destruct H as [H _].
  unfold numch, digitb, is_alpha in *.
  destruct (Ascii.eqb_spec c "*"%char); [subst; discriminate H|]. simpl.
  apply orb_true_iff in H. destruct H as [H|H].
  - apply andb_true_iff in H. destruct H as [H1 H2]. apply N.leb_le in H1, H2.
    apply orb_false_iff. split; apply andb_false_iff.
    + left. apply N.leb_gt. lia.
    + left. apply N.leb_gt. lia.
  - apply Ascii.eqb_eq in H. subst. reflexivity.
Qed.

Lemma is_name_line_app : forall a b, a <> [] -> is_name_line (a ++ b) = is_name_line a.
Proof. intros [|c a] b H; [contradiction|reflexivity]. Qed.

Lemma is_name_line_unwords : forall t ts, t <> [] -> is_name_line (unwords (t :: ts)) = is_name_line t.
Proof.
  intros t ts H. unfold unwords. destruct ts; [reflexivity|].
  change (join sp (t :: l :: ts)) with (t ++ sp ++ join sp (l :: ts)).
  apply is_name_line_app. exact H.
Qed.

Lemma flat_map_length_const {A B} (f : A -> list B) k : forall l,
  (forall a, In a l -> length (f a) = k) -> length (flat_map f l) = k * length l.
Proof.
  induction l as [|a l IH]; intros H; simpl; [lia|].
  rewrite app_length, (H a (or_introl eq_refl)), IH; [lia|].
  intros b Hb. apply H. right. exact Hb.
Qed.

Lemma token_nonempty : forall t, tokenb t = true -> t <> [].
Proof. intros t H. apply tokenb_inv in H. tauto. Qed.

(* ========================================================= one section *)
Section ResProofs.
  Variable V : Type.
  Variable vprint : V -> str.
  Variable vparse : str -> option V.
  Hypothesis vparse_vprint : forall v, vparse (vprint v) = Some v.
  Hypothesis vprint_token : forall v, tokenb (vprint v) = true.
  Hypothesis vprint_not_name : forall v, is_name_line (vprint v) = false.

  Notation section := (section V).

  Definition value_lines0 (w : nat) (vals : list V) : list str :=
    map (fun g => unwords (map vprint g)) (wrap w vals).
  Definition ent_lines0 (w : nat) (r : row V) : list str :=
    print_Z (fst r) :: value_lines0 w (snd r).
  Definition count_lines0 (wc : nat) (s : section) : list str :=
    map (fun g => unwords (map print_nat g)) (wrap wc (map snd (s_vars V s))).
  Definition sec0 (wc w : nat) (s : section) : list str :=
    count_lines0 wc s ++ map fst (s_vars V s) ++ flat_map (ent_lines0 w) (s_rows V s).

  Lemma vtokens : forall g : list V, forallb tokenb (map vprint g) = true.
  Proof.
    intros g. apply forallb_forall. intros x Hx. apply in_map_iff in Hx.
    destruct Hx as [v [<- _]]. apply vprint_token.
  Qed.

  Lemma map_strip_pad_last : forall pad (ls : list str),
    (forall l, In l ls -> strip l = l /\ strip (l ++ pad) = l) ->
    map strip (pad_last pad ls) = ls.
  Proof.
    induction ls as [|l ls IH]; intros H; [reflexivity|].
    destruct ls as [|l' ls'].
    - simpl. rewrite (proj2 (H l (or_introl eq_refl))). reflexivity.
    - change (pad_last pad (l :: l' :: ls')) with (l :: pad_last pad (l' :: ls')).
      simpl map. rewrite (proj1 (H l (or_introl eq_refl))). f_equal.
      apply IH. intros x Hx. apply H. right. exact Hx.
  Qed.

  Lemma map_flat_map {A B C} (f : B -> C) (g : A -> list B) l :
    map f (flat_map g l) = flat_map (fun a => map f (g a)) l.
  Proof. induction l; simpl; [reflexivity|]. rewrite map_app, IHl. reflexivity. Qed.

  Lemma name_ok_token : forall s, name_ok_res s = true -> tokenb s = true /\ is_name_line s = true.
  Proof.
    intros s H. unfold name_ok_res in H. rewrite !andb_true_iff in H. destruct H as [[H1 H2] _].
    split; [|exact H1]. destruct s; [discriminate H1|exact H2].
  Qed.

  Lemma strip_section : forall lay (s : section),
    wf_layout lay = true -> wf_section V s = true ->
    map strip (render_section V vprint lay s) = sec0 (l_wc lay) (l_w lay) s.
  Proof.
    intros lay s Hl Hs. unfold wf_layout in Hl. rewrite !andb_true_iff in Hl.
    destruct Hl as [[Hwc Hw] Hpad]. apply Nat.ltb_lt in Hwc, Hw.
    unfold wf_section in Hs. rewrite !andb_true_iff in Hs. destruct Hs as [[[_ Hv] _] _].
    unfold render_section, sec0. rewrite !map_app. f_equal; [|f_equal].
    - unfold count_lines0. rewrite map_map. apply map_ext_in. intros g Hg.
      apply strip_unwords_pad; [|apply nat_tokens|exact Hpad].
      pose proof (wrap_nonempty _ _ _ Hwc Hg). destruct g; [contradiction|discriminate].
    - rewrite map_map. apply map_ext_in. intros v Hin.
      pose proof (forallb_In _ _ Hv v Hin) as Hn. apply andb_true_iff in Hn.
      destruct (name_ok_token _ (proj1 Hn)) as [Ht _].
      rewrite <- (app_nil_r (fst v)) at 1. apply strip_token_pad; [exact Ht|reflexivity].
    - rewrite map_flat_map. apply flat_map_ext. intros r.
      unfold entity_lines, ent_lines0. simpl map. f_equal.
      + apply strip_token_pad; [apply print_Z_token|exact Hpad].
      + unfold value_lines0. apply map_strip_pad_last. intros l Hin.
        apply in_map_iff in Hin. destruct Hin as [g [<- Hg]].
        assert (map vprint g <> []) as Hne.
        { pose proof (wrap_nonempty _ _ _ Hw Hg). destruct g; [contradiction|discriminate]. }
        split.
        * apply strip_unwords; [exact Hne|apply vtokens].
        * apply strip_unwords_pad; [exact Hne|apply vtokens|exact Hpad].
  Qed.

  (* ---------------------------------------------- columns of a re-joined row *)
  Lemma parse_cols_slice : forall id (vals : list V) a d,
    a + d <= length vals ->
    parse_cols V vparse (1 + a) (1 + a + d) (print_Z id :: map vprint vals)
    = Ok (id, slice a (a + d) vals).
  Proof.
    intros id vals a d H. unfold parse_cols, nth_r. simpl nth_error. simpl of_opt. simpl bind.
    rewrite parse_print_Z. simpl of_opt. simpl bind.
    assert (Nat.ltb (Datatypes.S (length (map vprint vals))) (Datatypes.S (a + d)) = false) as ->.
    { apply Nat.ltb_ge. rewrite map_length. lia. }
    rewrite slice_cons. unfold slice. rewrite skipn_map, firstn_map. rewrite mapO_vparse by assumption.
    reflexivity.
  Qed.

  Lemma read_vars_ok : forall (vars : list (str * nat)) (rows : table V) a,
    (forall r, In r rows -> a + sum (map snd vars) <= length (snd r)) ->
    read_vars V vparse (map (fun r => print_Z (fst r) :: map vprint (snd r)) rows) (1 + a)
              (combine (map fst vars) (map snd vars))
    = Ok (cut_vars V a vars rows).
  Proof.
    induction vars as [|[name d] vars IH]; intros rows a H; [reflexivity|].
    simpl map. simpl combine. cbn [read_vars cut_vars].
    assert (mapM (parse_cols V vparse (1 + a) (1 + a + d))
                 (map (fun r => print_Z (fst r) :: map vprint (snd r)) rows)
            = Ok (map (fun r => (fst r, slice a (a + d) (snd r))) rows)) as ->.
    { apply mapM_ok. intros r Hr. apply parse_cols_slice. specialize (H r Hr). simpl in H. lia. }
    simpl bind. change (1 + a + d) with (1 + (a + d)). rewrite IH.
    - reflexivity.
    - intros r Hr. specialize (H r Hr). simpl in H. lia.
  Qed.

  (* ------------------------------------------------------- _parse_res *)
  Lemma ent_lines0_length : forall w (s : section) r,
    In r (s_rows V s) ->
    forallb (fun r => Nat.eqb (length (snd r)) (sum (map snd (s_vars V s)))) (s_rows V s) = true ->
    length (ent_lines0 w r)
    = Datatypes.S (length (wrap w (repeat tt (sum (map snd (s_vars V s)))))).
  Proof.
    intros w s r Hr H. unfold ent_lines0, value_lines0. simpl. f_equal. rewrite map_length.
    apply wrap_length. rewrite repeat_length.
    apply Nat.eqb_eq. apply (forallb_In _ _ H r Hr).
  Qed.

  Lemma ent_line_join : forall w (r : row V), 1 <= w ->
    split_sp (join sp (ent_lines0 w r)) = print_Z (fst r) :: map vprint (snd r).
  Proof.
    intros w r Hw. unfold ent_lines0, value_lines0.
    assert (join sp (print_Z (fst r) :: map (fun g => unwords (map vprint g)) (wrap w (snd r)))
            = unwords (print_Z (fst r) :: map vprint (snd r))) as ->.
    { change (print_Z (fst r)) with (unwords [print_Z (fst r)]) at 1.
      rewrite <- (map_map (map vprint) unwords).
      change (unwords [print_Z (fst r)] :: map unwords (map (map vprint) (wrap w (snd r))))
        with (map unwords ([print_Z (fst r)] :: map (map vprint) (wrap w (snd r)))).
      rewrite join_unwords_concat.
      - simpl concat. rewrite <- concat_map, concat_wrap by exact Hw. reflexivity.
      - intros g [<-|Hg]; [discriminate|]. apply in_map_iff in Hg. destruct Hg as [g0 [<- Hg0]].
        pose proof (wrap_nonempty _ _ _ Hw Hg0). destruct g0; [contradiction|discriminate]. }
    apply split_sp_unwords; [discriminate|].
    intros t [<-|Ht].
    - apply (forallb_impl tokch); [apply tokch_nosp|]. pose proof (print_Z_token (fst r)) as H.
      apply tokenb_inv in H. tauto.
    - apply in_map_iff in Ht. destruct Ht as [v [<- _]].
      apply (forallb_impl tokch); [apply tokch_nosp|]. pose proof (vprint_token v) as H.
      apply tokenb_inv in H. tauto.
  Qed.

  Lemma count_lines_not_name : forall wc (s : section), 1 <= wc ->
    forallb (fun l => negb (is_name_line l)) (count_lines0 wc s) = true.
  Proof.
    intros wc s Hwc. apply forallb_forall. intros l Hl. unfold count_lines0 in Hl.
    apply in_map_iff in Hl. destruct Hl as [g [<- Hg]].
    pose proof (wrap_nonempty _ _ _ Hwc Hg) as Hne. destruct g as [|n g]; [contradiction|].
    simpl map. rewrite is_name_line_unwords by (apply token_nonempty; apply print_nat_token).
    rewrite numch_head_not_name; [reflexivity|apply print_Z_numch].
  Qed.

  Theorem parse_section_ok : forall lay (s : section),
    wf_layout lay = true -> wf_section V s = true ->
    parse_section V vparse (length (s_rows V s)) (render_section V vprint lay s)
    = Ok (section_tables V s).
  Proof.
    intros lay s Hl Hs. pose proof (strip_section lay s Hl Hs) as HS.
    unfold wf_layout in Hl. rewrite !andb_true_iff in Hl.
    destruct Hl as [[Hwc Hw] Hpad]. apply Nat.ltb_lt in Hwc, Hw.
    pose proof Hs as Hs'. unfold wf_section in Hs'. rewrite !andb_true_iff in Hs'.
    destruct Hs' as [[[Hv0 Hv] Hr0] Hr].
    unfold parse_section. rewrite HS. unfold sec0.
    set (CL := count_lines0 (l_wc lay) s). set (NM := map fst (s_vars V s)).
    set (DT := flat_map (ent_lines0 (l_w lay)) (s_rows V s)).
    (* count lines *)
    assert (take_while (fun l => negb (is_name_line l)) (CL ++ NM ++ DT) = CL) as ->.
    { apply take_while_app; [apply count_lines_not_name; exact Hwc|].
      unfold NM. destruct (s_vars V s) as [|v vs] eqn:E; [discriminate Hv0|]. simpl.
      simpl in Hv. apply andb_true_iff in Hv. destruct Hv as [Hv1 _].
      apply andb_true_iff in Hv1. destruct (name_ok_token _ (proj1 Hv1)) as [_ Hn].
      rewrite Hn. reflexivity. }
    assert (mapM parse_ints CL = Ok (wrap (l_wc lay) (map snd (s_vars V s)))) as ->.
    { unfold CL, count_lines0. rewrite <- (map_id (wrap _ _)) at 2. apply mapM_ok.
      intros g _. apply parse_ints_unwords. }
    simpl bind. rewrite concat_wrap by exact Hwc.
    rewrite (map_length snd). rewrite <- (map_length fst). fold NM.
    assert (slice (length CL) (length CL + length NM) (CL ++ NM ++ DT) = NM) as ->
      by (apply slice_app_exact).
    assert (skipn (length CL + length NM) (CL ++ NM ++ DT) = DT) as ->.
    { rewrite app_assoc. rewrite <- app_length. rewrite skipn_app, skipn_all, Nat.sub_diag. reflexivity. }
    set (n := length (s_rows V s)).
    set (L := length (wrap (l_w lay) (repeat tt (sum (map snd (s_vars V s)))))).
    assert (forall r, In r (s_rows V s) -> length (ent_lines0 (l_w lay) r) = Datatypes.S L) as HEL
      by (intros r Hin; apply ent_lines0_length; assumption).
    assert (length DT = Datatypes.S L * n) as HDT.
    { unfold DT, n. apply flat_map_length_const. exact HEL. }
    assert (n <> 0) as Hn0.
    { unfold n. destruct (s_rows V s); [discriminate Hr0|discriminate]. }
    assert (Nat.eqb n 0 = false) as -> by (apply Nat.eqb_neq; exact Hn0).
    rewrite HDT. rewrite Nat.div_mul by exact Hn0.
    rewrite Nat.eqb_refl. cbn [negb]. cbn [Nat.eqb].
    rewrite <- HDT.
    assert (chunks (length DT) (Datatypes.S L) DT = map (ent_lines0 (l_w lay)) (s_rows V s)) as ->.
    { unfold DT at 2. apply chunks_flat_map; [lia|exact HEL|]. rewrite HDT. fold n. nia. }
    rewrite map_map.
    rewrite (map_ext _ (fun r : row V => print_Z (fst r) :: map vprint (snd r)))
      by (intros r; apply ent_line_join; exact Hw).
    unfold NM. change 1 with (1 + 0). rewrite read_vars_ok.
    - reflexivity.
    - intros r Hin. pose proof (forallb_In _ _ Hr r Hin) as E. apply Nat.eqb_eq in E. lia.
  Qed.

  (* ============================================ _split_series on a rendered file *)
  Hypothesis vprint_exp : forall v, has_exp (vprint v) = true.
  Hypothesis vprint_noT : forall v, forallb (fun c => negb (Ascii.eqb c "T"%char)) (vprint v) = true.

  Definition noT (c : ascii) : bool := negb (Ascii.eqb c "T"%char).
  Definition noE (c : ascii) : bool := negb (Ascii.eqb c "E"%char).

  Lemma contains_noT : forall l, forallb noT l = true -> contains (S "TOTALTIME") l = false.
  Proof.
    induction l as [|c l IH]; intros H; [reflexivity|].
    simpl in H. apply andb_true_iff in H. destruct H as [Hc Hl].
    cbn [contains]. rewrite IH by exact Hl. rewrite orb_false_r.
    unfold noT in Hc. apply negb_true_iff in Hc.
    change (S "TOTALTIME") with ("T"%char :: S "OTALTIME"). cbn [prefixb].
    rewrite Ascii.eqb_sym, Hc. reflexivity.
  Qed.

  Lemma has_exp_noE : forall l, forallb noE l = true -> has_exp l = false.
  Proof.
    induction l as [|c l IH]; intros H; [reflexivity|].
    simpl in H. apply andb_true_iff in H. destruct H as [Hc Hl].
    cbn [has_exp]. rewrite IH by exact Hl. rewrite orb_false_r.
    unfold noE in Hc. apply negb_true_iff in Hc. unfold exp_at. rewrite Hc. reflexivity.
  Qed.

  Lemma skip_char_app : forall ch s b, s <> [] -> skip_char ch s = [] \/ skip_char ch (s ++ b) = skip_char ch s ++ b.
  Proof.
    intros ch [|c s] b H; [contradiction|]. simpl. destruct (Ascii.eqb c ch); [|right; reflexivity].
    right. reflexivity.
  Qed.

  Lemma exp_at_app : forall a b, exp_at a = true -> exp_at (a ++ b) = true.
  Proof.
    intros [|c r] b H; [discriminate|]. simpl in *. apply andb_true_iff in H. destruct H as [Hc H].
    rewrite Hc. simpl.
    assert (forall ch s, skip_char ch s <> [] -> skip_char ch (s ++ b) = skip_char ch s ++ b) as HS.
    { intros ch [|x s] Hs; [contradiction|]. simpl in *. destruct (Ascii.eqb x ch); reflexivity. }
    destruct (skip_char "-" (skip_char "+" r)) as [|d rest] eqn:E; [discriminate|].
    assert (skip_char "+" r <> []) as H1.
    { intros E1. rewrite E1 in E. discriminate E. }
    rewrite (HS "+"%char r H1). rewrite HS by (rewrite E; discriminate). rewrite E. exact H.
  Qed.

  Lemma has_exp_app_l : forall a b, has_exp a = true -> has_exp (a ++ b) = true.
  Proof.
    induction a as [|c a IH]; intros b H; [discriminate|].
    cbn [has_exp] in H. apply orb_true_iff in H. change ((c :: a) ++ b) with (c :: (a ++ b)).
    cbn [has_exp]. destruct H as [H|H].
    - pose proof (exp_at_app (c :: a) b H) as E. change ((c :: a) ++ b) with (c :: (a ++ b)) in E.
      rewrite E. reflexivity.
    - rewrite (IH b H). apply orb_true_r.
  Qed.

  Lemma forallb_unwords (P : ascii -> bool) : forall ts,
    P " "%char = true -> (forall t, In t ts -> forallb P t = true) -> forallb P (unwords ts) = true.
  Proof.
    intros ts Hsp. unfold unwords. induction ts as [|t ts IH]; intros H; [reflexivity|].
    destruct ts as [|t' ts'].
    - simpl. apply H. left. reflexivity.
    - change (join sp (t :: t' :: ts')) with (t ++ sp ++ join sp (t' :: ts')).
      rewrite !forallb_app. rewrite (H t (or_introl eq_refl)). simpl. rewrite Hsp.
      apply IH. intros x Hx. apply H. right. exact Hx.
  Qed.

  (* characters of the lines that are not names: digits, '-', blanks, pad, value tokens *)
  Definition plain_pred (P : ascii -> bool) : Prop :=
    (forall c, numch c = true -> P c = true) /\ (forall c, is_ws c = true -> P c = true).

  Lemma noT_plain : plain_pred noT.
  Proof.
    split; intros c H; unfold noT; destruct (Ascii.eqb_spec c "T"%char); try reflexivity; subst; discriminate H.
  Qed.
  Lemma noE_plain : plain_pred noE.
  Proof.
    split; intros c H; unfold noE; destruct (Ascii.eqb_spec c "E"%char); try reflexivity; subst; discriminate H.
  Qed.

  Lemma count_line_pred : forall P pad (g : list nat),
    plain_pred P -> forallb is_ws pad = true -> forallb P (unwords (map print_nat g) ++ pad) = true.
  Proof.
    intros P pad g [HP1 HP2] Hpad. rewrite forallb_app. apply andb_true_iff. split.
    - apply forallb_unwords; [apply HP2; reflexivity|]. intros t Ht. apply in_map_iff in Ht.
      destruct Ht as [n [<- _]]. apply (forallb_impl numch); [exact HP1|apply print_Z_numch].
    - apply (forallb_impl is_ws); [exact HP2|exact Hpad].
  Qed.

  Definition count_lines (lay : layout) (s : section) : list str :=
    map (fun g => unwords (map print_nat g) ++ l_pad lay) (wrap (l_wc lay) (map snd (s_vars V s))).
  Definition data_lines (lay : layout) (s : section) : list str :=
    flat_map (entity_lines V vprint lay) (s_rows V s).

  Lemma render_section_parts : forall lay s,
    render_section V vprint lay s = count_lines lay s ++ map fst (s_vars V s) ++ data_lines lay s.
  Proof. reflexivity. Qed.

  Lemma count_lines_pred : forall P lay s, plain_pred P -> wf_layout lay = true ->
    forall l, In l (count_lines lay s) -> forallb P l = true.
  Proof.
    intros P lay s HP Hl l Hin. unfold count_lines in Hin. apply in_map_iff in Hin.
    destruct Hin as [g [<- _]]. apply count_line_pred; [exact HP|].
    unfold wf_layout in Hl. rewrite !andb_true_iff in Hl. tauto.
  Qed.

  Lemma count_lines_not_name' : forall lay s, wf_layout lay = true ->
    forallb (fun l => negb (is_name_line l)) (count_lines lay s) = true.
  Proof.
    intros lay s Hl. apply forallb_forall. intros l Hin.
    unfold count_lines in Hin. apply in_map_iff in Hin. destruct Hin as [g [<- Hg]].
    unfold wf_layout in Hl. rewrite !andb_true_iff in Hl. destruct Hl as [[Hwc _] _].
    apply Nat.ltb_lt in Hwc.
    pose proof (wrap_nonempty _ _ _ Hwc Hg) as Hne. destruct g as [|n g]; [contradiction|].
    rewrite is_name_line_app.
    - simpl map. rewrite is_name_line_unwords by (apply token_nonempty; apply print_nat_token).
      rewrite numch_head_not_name; [reflexivity|apply print_Z_numch].
    - simpl map. intros E. pose proof (unwords_head_ok (print_nat n :: map print_nat g)) as H.
      rewrite E in H. simpl in H. assert (false = true) by (apply H; [discriminate|apply (nat_tokens (n :: g))]).
      discriminate.
  Qed.

  Lemma in_pad_last : forall pad (ls : list str) x,
    In x (pad_last pad ls) -> exists l, In l ls /\ (x = l \/ x = l ++ pad).
  Proof.
    induction ls as [|l ls IH]; intros x H; [contradiction|].
    destruct ls as [|l' ls'].
    - destruct H as [<-|[]]. exists l. split; [left; reflexivity|right; reflexivity].
    - change (pad_last pad (l :: l' :: ls')) with (l :: pad_last pad (l' :: ls')) in H.
      destruct H as [<-|H].
      + exists l. split; [left; reflexivity|left; reflexivity].
      + destruct (IH x H) as [y [Hy Hx]]. exists y. split; [right; exact Hy|exact Hx].
  Qed.

  Lemma pad_last_snoc : forall pad (ls : list str) l, pad_last pad (ls ++ [l]) = ls ++ [l ++ pad].
  Proof.
    induction ls as [|a ls IH]; intros l; [reflexivity|].
    destruct ls as [|b ls'].
    - reflexivity.
    - change ((a :: b :: ls') ++ [l]) with (a :: ((b :: ls') ++ [l])).
      change (pad_last pad (a :: (b :: ls') ++ [l])) with (a :: pad_last pad ((b :: ls') ++ [l])).
      rewrite IH. reflexivity.
  Qed.

  Lemma value_line_facts : forall (g : list V) pad, g <> [] -> forallb is_ws pad = true ->
    is_name_line (unwords (map vprint g) ++ pad) = false
    /\ has_exp (unwords (map vprint g) ++ pad) = true
    /\ forallb noT (unwords (map vprint g) ++ pad) = true.
  Proof.
    intros [|v g] pad Hne Hpad; [contradiction|]. simpl map.
    assert (unwords (vprint v :: map vprint g) <> []) as Hu.
    { intros E. pose proof (unwords_head_ok (vprint v :: map vprint g)) as H. rewrite E in H.
      assert (false = true) by (apply H; [discriminate|apply (vtokens (v :: g))]). discriminate. }
    repeat split.
    - rewrite is_name_line_app by exact Hu.
      rewrite is_name_line_unwords by (apply token_nonempty; apply vprint_token).
      apply vprint_not_name.
    - apply has_exp_app_l. unfold unwords. destruct (map vprint g) as [|t ts].
      + simpl. apply vprint_exp.
      + change (join sp (vprint v :: t :: ts)) with (vprint v ++ sp ++ join sp (t :: ts)).
        apply has_exp_app_l. apply vprint_exp.
    - rewrite forallb_app. apply andb_true_iff. split.
      + apply forallb_unwords; [reflexivity|]. intros t [<-|Ht]; [apply vprint_noT|].
        apply in_map_iff in Ht. destruct Ht as [v' [<- _]]. apply vprint_noT.
      + apply (forallb_impl is_ws); [apply noT_plain|exact Hpad].
  Qed.

  Lemma entity_lines_facts : forall lay (r : row V), wf_layout lay = true ->
    forall l, In l (entity_lines V vprint lay r) ->
      is_name_line l = false /\ forallb noT l = true.
  Proof.
    intros lay r Hl l Hin. unfold wf_layout in Hl. rewrite !andb_true_iff in Hl.
    destruct Hl as [[_ Hw] Hpad]. apply Nat.ltb_lt in Hw.
    unfold entity_lines in Hin. destruct Hin as [<-|Hin].
    - split.
      + rewrite is_name_line_app by (apply token_nonempty; apply print_Z_token).
        apply numch_head_not_name. apply print_Z_numch.
      + rewrite forallb_app. apply andb_true_iff. split.
        * apply (forallb_impl numch); [apply noT_plain|apply print_Z_numch].
        * apply (forallb_impl is_ws); [apply noT_plain|exact Hpad].
    - apply in_pad_last in Hin. destruct Hin as [x [Hx Hl]].
      apply in_map_iff in Hx. destruct Hx as [g [<- Hg]].
      assert (g <> []) as Hne by (apply (wrap_nonempty _ _ _ Hw Hg)).
      destruct Hl as [->| ->].
      + rewrite <- (app_nil_r (unwords (map vprint g))).
        destruct (value_line_facts g [] Hne eq_refl) as [H1 [_ H3]]. split; assumption.
      + destruct (value_line_facts g (l_pad lay) Hne Hpad) as [H1 [_ H3]]. split; assumption.
  Qed.

  Lemma data_lines_facts : forall lay s, wf_layout lay = true ->
    forall l, In l (data_lines lay s) -> is_name_line l = false /\ forallb noT l = true.
  Proof.
    intros lay s Hl l Hin. unfold data_lines in Hin. apply in_flat_map in Hin.
    destruct Hin as [r [_ Hin]]. apply (entity_lines_facts lay r Hl l Hin).
  Qed.

  Lemma sum_pos_of_vars : forall s : section, wf_section V s = true -> 0 < sum (map snd (s_vars V s)).
  Proof.
    intros s H. unfold wf_section in H. rewrite !andb_true_iff in H. destruct H as [[[H0 Hv] _] _].
    destruct (s_vars V s) as [|v vs]; [discriminate H0|]. simpl in *.
    apply andb_true_iff in Hv. destruct Hv as [Hv _]. apply andb_true_iff in Hv.
    destruct Hv as [_ Hv]. apply Nat.ltb_lt in Hv. lia.
  Qed.

  Lemma data_lines_ends : forall lay s, wf_layout lay = true -> wf_section V s = true ->
    (exists x rest, data_lines lay s = x :: rest /\ is_name_line x = false)
    /\ (exists D l, data_lines lay s = D ++ [l] /\ has_exp l = true).
  Proof.
    intros lay s Hl Hs. pose proof (sum_pos_of_vars s Hs) as Hpos.
    pose proof Hl as Hl'. unfold wf_layout in Hl'. rewrite !andb_true_iff in Hl'.
    destruct Hl' as [[_ Hw] Hpad]. apply Nat.ltb_lt in Hw.
    unfold wf_section in Hs. rewrite !andb_true_iff in Hs. destruct Hs as [[_ Hr0] Hr].
    unfold data_lines. split.
    - destruct (s_rows V s) as [|r rows]; [discriminate Hr0|].
      cbn [flat_map]. unfold entity_lines at 1. eexists. eexists. split; [reflexivity|].
      rewrite is_name_line_app by (apply token_nonempty; apply print_Z_token).
      apply numch_head_not_name. apply print_Z_numch.
    - assert (s_rows V s <> []) as Hne by (destruct (s_rows V s); [discriminate Hr0|discriminate]).
      destruct (exists_last Hne) as [rows [r E]]. rewrite E in *.
      rewrite flat_map_app. cbn [flat_map]. rewrite app_nil_r.
      assert (snd r <> []) as Hv.
      { rewrite forallb_app in Hr. apply andb_true_iff in Hr. destruct Hr as [_ Hr]. simpl in Hr.
        rewrite andb_true_r in Hr. apply Nat.eqb_eq in Hr. destruct (snd r); [simpl in Hr; lia|discriminate]. }
      assert (wrap (l_w lay) (snd r) <> []) as Hwne.
      { intros E'. apply wrap_nil_iff in E'. contradiction. }
      destruct (exists_last Hwne) as [gs [g Eg]].
      unfold entity_lines. rewrite Eg. rewrite map_app. simpl map. rewrite pad_last_snoc.
      exists (flat_map (entity_lines V vprint lay) rows
              ++ (print_Z (fst r) ++ l_pad lay) :: map (fun g0 => unwords (map vprint g0)) gs).
      exists (unwords (map vprint g) ++ l_pad lay). split.
      + unfold entity_lines. rewrite <- !app_assoc. reflexivity.
      + assert (In g (wrap (l_w lay) (snd r))) as Hg by (rewrite Eg; apply in_or_app; right; left; reflexivity).
        apply (value_line_facts g (l_pad lay) (wrap_nonempty _ _ _ Hw Hg) Hpad).
  Qed.

  Lemma names_facts : forall s : section, wf_section V s = true ->
    forallb is_name_line (map fst (s_vars V s)) = true
    /\ (exists x rest, map fst (s_vars V s) = x :: rest /\ is_name_line x = true)
    /\ (forall l, In l (map fst (s_vars V s)) -> contains (S "TOTALTIME") l = false).
  Proof.
    intros s H. unfold wf_section in H. rewrite !andb_true_iff in H. destruct H as [[[H0 Hv] _] _].
    assert (forall l, In l (map fst (s_vars V s)) -> name_ok_res l = true) as HN.
    { intros l Hl. apply in_map_iff in Hl. destruct Hl as [v [<- Hin]].
      pose proof (forallb_In _ _ Hv v Hin) as E. apply andb_true_iff in E. tauto. }
    repeat split.
    - apply forallb_forall. intros l Hl. apply (name_ok_token _ (HN l Hl)).
    - destruct (s_vars V s) as [|v vs]; [discriminate H0|]. simpl map. eexists. eexists.
      split; [reflexivity|]. apply (name_ok_token _ (HN (fst v) (or_introl eq_refl))).
    - intros l Hl. specialize (HN l Hl). unfold name_ok_res in HN. rewrite !andb_true_iff in HN.
      destruct HN as [_ HN]. apply negb_true_iff in HN. exact HN.
  Qed.

  Lemma existsb_false {A} (f : A -> bool) l : (forall x, In x l -> f x = false) -> existsb f l = false.
  Proof.
    induction l as [|a l IH]; intros H; [reflexivity|]. simpl.
    rewrite (H a (or_introl eq_refl)), IH; [reflexivity|]. intros x Hx. apply H. right. exact Hx.
  Qed.

  Lemma firstn_app_exact {A} (a b : list A) : firstn (length a) (a ++ b) = a.
  Proof. rewrite firstn_app, firstn_all, Nat.sub_diag. simpl. apply app_nil_r. Qed.
  Lemma skipn_app_exact {A} (a b : list A) : skipn (length a) (a ++ b) = b.
  Proof. rewrite skipn_app, skipn_all, Nat.sub_diag. reflexivity. Qed.

  Lemma section_no_totaltime : forall lay s, wf_layout lay = true -> wf_section V s = true ->
    forall l, In l (render_section V vprint lay s) -> contains (S "TOTALTIME") l = false.
  Proof.
    intros lay s Hl Hs l Hin. rewrite render_section_parts in Hin.
    apply in_app_or in Hin. destruct Hin as [Hin|Hin].
    - apply contains_noT. apply (count_lines_pred noT lay s noT_plain Hl l Hin).
    - apply in_app_or in Hin. destruct Hin as [Hin|Hin].
      + apply (names_facts s Hs). exact Hin.
      + apply contains_noT. apply (data_lines_facts lay s Hl l Hin).
  Qed.

  Definition header_len (lay : layout) : nat :=
    match l_header lay with HOld => 3 | H2 _ _ => 11 end.

  Lemma header_detect : forall lay c, wf_layout lay = true -> wf_content V c = true ->
    (if existsb (contains (S "TOTALTIME")) (render_res V vprint lay c) then 11 else 3) = header_len lay
    /\ length (header_lines V lay c) = header_len lay.
  Proof.
    intros lay c Hl Hc. unfold wf_content in Hc. apply andb_true_iff in Hc. destruct Hc as [Hn He].
    unfold header_len, render_res, header_lines. destruct (l_header lay) as [|comment ttime].
    - split; [|reflexivity]. rewrite existsb_false; [reflexivity|].
      intros l Hin. apply in_app_or in Hin. destruct Hin as [Hin|Hin].
      + destruct Hin as [<-|[<-|[<-|[]]]]; [reflexivity| |];
          apply contains_noT;
          (apply forallb_unwords; [reflexivity|]; intros t [<-|[<-|[]]];
           apply (forallb_impl numch); try apply noT_plain; apply print_Z_numch).
      + apply in_app_or in Hin. destruct Hin as [Hin|Hin].
        * apply (section_no_totaltime lay _ Hl Hn l Hin).
        * destruct (c_elemental V c) as [s|]; [|contradiction].
          apply (section_no_totaltime lay s Hl He l Hin).
    - split; [|reflexivity].
      assert (existsb (contains (S "TOTALTIME"))
                (([S "*fstrresult 2.0"; S "*comment"; comment; S "*global"; S "1"; S "1 "; S "TOTALTIME";
                   ttime ++ S " "; S "*data"] ++
                  [unwords [print_nat (length (s_rows V (c_nodal V c)));
                            print_nat match c_elemental V c with
                                      | Some s => length (s_rows V s)
                                      | None => l_nelem lay
                                      end];
                   unwords [print_nat (length (s_vars V (c_nodal V c))); print_nat (n_vars V (c_elemental V c))]])
                 ++ render_section V vprint lay (c_nodal V c)
                 ++ match c_elemental V c with Some s => render_section V vprint lay s | None => [] end)
              = true) as ->; [|reflexivity].
      apply existsb_exists. exists (S "TOTALTIME"). split; [|reflexivity].
      apply in_or_app. left. apply in_or_app. left. simpl. tauto.
  Qed.

  Lemma split_body_one : forall CN NN DN : list str,
    forallb (fun l => negb (is_name_line l)) CN = true ->
    forallb is_name_line NN = true -> NN <> [] ->
    forallb (fun l => negb (is_name_line l)) DN = true -> DN <> [] ->
    split_body (CN ++ NN ++ DN) = Ok (CN ++ NN ++ DN, None).
  Proof.
    intros CN NN DN HCN HNN HNN0 HDN HDN0. unfold split_body.
    destruct NN as [|xn NN']; [contradiction|]. destruct DN as [|yd DN']; [contradiction|].
    destruct (take_while_app (fun l => negb (is_name_line l)) CN ((xn :: NN') ++ yd :: DN') HCN) as [T1 D1].
    { simpl in *. apply andb_true_iff in HNN. destruct HNN as [H _]. rewrite H. reflexivity. }
    rewrite D1. cbn [app]. change (xn :: NN' ++ yd :: DN') with ((xn :: NN') ++ yd :: DN').
    destruct (take_while_app is_name_line (xn :: NN') (yd :: DN') HNN) as [T2 D2].
    { simpl in HDN. apply andb_true_iff in HDN. destruct HDN as [H _]. apply negb_true_iff in H. exact H. }
    rewrite D2.
    destruct (take_while_app (fun l => negb (is_name_line l)) (yd :: DN') [] HDN I) as [_ D3].
    rewrite app_nil_r in D3. rewrite D3. reflexivity.
  Qed.

  Lemma split_body_two : forall (CN NN D : list str) (lastl : str) (CE NE DE : list str),
    forallb (fun l => negb (is_name_line l)) CN = true ->
    forallb is_name_line NN = true -> NN <> [] ->
    forallb (fun l => negb (is_name_line l)) (D ++ [lastl]) = true -> has_exp lastl = true ->
    forallb (fun l => negb (is_name_line l)) CE = true ->
    forallb (fun l => negb (has_exp l)) CE = true ->
    forallb is_name_line NE = true -> NE <> [] ->
    split_body ((CN ++ NN ++ D ++ [lastl]) ++ CE ++ NE ++ DE)
    = Ok (CN ++ NN ++ D ++ [lastl], Some (CE ++ NE ++ DE)).
  Proof.
    intros CN NN D lastl CE NE DE HCN HNN HNN0 HDN Hexp HCE HCEx HNE HNE0.
    set (DN := D ++ [lastl]) in *.
    assert (exists yd DN', DN = yd :: DN') as [yd [DN' EDN]].
    { unfold DN. destruct D; simpl; eexists; eexists; reflexivity. }
    unfold split_body.
    destruct NN as [|xn NN']; [contradiction|]. destruct NE as [|xe NE']; [contradiction|].
    set (not_name := fun l : str => negb (is_name_line l)) in *.
    set (body := (CN ++ (xn :: NN') ++ DN) ++ CE ++ (xe :: NE') ++ DE).
    assert (body = CN ++ ((xn :: NN') ++ DN ++ CE ++ (xe :: NE') ++ DE)) as B1
      by (unfold body; rewrite <- !app_assoc; reflexivity).
    destruct (take_while_app not_name CN ((xn :: NN') ++ DN ++ CE ++ (xe :: NE') ++ DE) HCN) as [T1 D1].
    { simpl in *. apply andb_true_iff in HNN. destruct HNN as [H _]. unfold not_name. rewrite H. reflexivity. }
    rewrite <- B1 in T1, D1. rewrite T1, D1. cbn [app].
    change (xn :: NN' ++ DN ++ CE ++ xe :: NE' ++ DE) with ((xn :: NN') ++ DN ++ CE ++ (xe :: NE') ++ DE).
    destruct (take_while_app is_name_line (xn :: NN') (DN ++ CE ++ (xe :: NE') ++ DE) HNN) as [T2 D2].
    { rewrite EDN. simpl. rewrite EDN in HDN. simpl in HDN. apply andb_true_iff in HDN.
      destruct HDN as [H _]. apply negb_true_iff in H. exact H. }
    rewrite T2, D2.
    destruct (take_while_app not_name (DN ++ CE) ((xe :: NE') ++ DE)) as [T3 D3].
    { rewrite forallb_app, HDN, HCE. reflexivity. }
    { simpl in *. apply andb_true_iff in HNE. destruct HNE as [H _]. unfold not_name. rewrite H. reflexivity. }
    rewrite <- app_assoc in T3, D3. rewrite T3, D3. cbn [app].
    assert (length CN + length (xn :: NN') + length (DN ++ CE)
            = length (CN ++ (xn :: NN') ++ DN ++ CE)) as K2 by (rewrite !app_length; lia).
    rewrite K2.
    assert (body = (CN ++ (xn :: NN') ++ DN ++ CE) ++ ((xe :: NE') ++ DE)) as B3
      by (unfold body; rewrite <- !app_assoc; reflexivity).
    assert (take_while (fun l => negb (has_exp l))
                       (rev (firstn (length (CN ++ (xn :: NN') ++ DN ++ CE)) body)) = rev CE) as HB.
    { rewrite B3. rewrite firstn_app_exact.
      assert (CN ++ (xn :: NN') ++ DN ++ CE = (CN ++ (xn :: NN') ++ D) ++ [lastl] ++ CE) as B4
        by (unfold DN; rewrite <- !app_assoc; reflexivity).
      rewrite B4. rewrite (rev_app_distr (CN ++ (xn :: NN') ++ D)). rewrite (rev_app_distr [lastl] CE).
      destruct (take_while_app (fun l => negb (has_exp l)) (rev CE)
                               (rev [lastl] ++ rev (CN ++ (xn :: NN') ++ D))) as [T4 _].
      { apply forallb_rev. exact HCEx. }
      { simpl. rewrite Hexp. reflexivity. }
      rewrite <- app_assoc. exact T4. }
    rewrite HB. rewrite rev_length.
    assert (Nat.leb (length (CN ++ (xn :: NN') ++ DN ++ CE)) (length CE) = false) as ->.
    { apply Nat.leb_gt. rewrite !app_length. rewrite EDN. simpl. lia. }
    assert (length (CN ++ (xn :: NN') ++ DN ++ CE) - length CE = length (CN ++ (xn :: NN') ++ DN)) as ->
      by (rewrite !app_length; lia).
    unfold body. rewrite firstn_app_exact, skipn_app_exact. reflexivity.
  Qed.

  Theorem split_series_render : forall lay c, wf_layout lay = true -> wf_content V c = true ->
    split_series (render_res V vprint lay c)
    = Ok (render_section V vprint lay (c_nodal V c),
          option_map (render_section V vprint lay) (c_elemental V c)).
  Proof.
    intros lay c Hl Hc. destruct (header_detect lay c Hl Hc) as [Hd Hlen].
    pose proof Hc as Hc'. unfold wf_content in Hc'. apply andb_true_iff in Hc'. destruct Hc' as [Hn He].
    unfold split_series. rewrite Hd.
    assert (skipn (header_len lay) (render_res V vprint lay c)
            = render_section V vprint lay (c_nodal V c)
              ++ match c_elemental V c with Some s => render_section V vprint lay s | None => [] end) as ->.
    { unfold render_res. rewrite <- Hlen. apply skipn_app_exact. }
    set (sn := c_nodal V c) in *.
    rewrite (render_section_parts lay sn).
    destruct (names_facts sn Hn) as [HNN [[xn [restn [ENN HxN]]] _]].
    destruct (data_lines_ends lay sn Hl Hn) as [_ [D [lastl [EDN Hexp]]]].
    pose proof (count_lines_not_name' lay sn Hl) as HCN.
    assert (forallb (fun l => negb (is_name_line l)) (data_lines lay sn) = true) as HDN.
    { apply forallb_forall. intros l Hin. rewrite (proj1 (data_lines_facts lay sn Hl l Hin)). reflexivity. }
    assert (map fst (s_vars V sn) <> []) as HNN0 by (rewrite ENN; discriminate).
    destruct (c_elemental V c) as [se|] eqn:Ee.
    - rewrite (render_section_parts lay se).
      destruct (names_facts se He) as [HNE [[xe [reste [ENE HxE]]] _]].
      assert (map fst (s_vars V se) <> []) as HNE0 by (rewrite ENE; discriminate).
      rewrite EDN in *. simpl option_map. rewrite (render_section_parts lay se).
      apply split_body_two; try assumption.
      + apply count_lines_not_name'. exact Hl.
      + apply forallb_forall. intros l Hin. rewrite has_exp_noE; [reflexivity|].
        apply (count_lines_pred noE lay se noE_plain Hl l Hin).
    - rewrite app_nil_r. simpl option_map. apply split_body_one; try assumption.
      rewrite EDN. destruct D; discriminate.
  Qed.

  Theorem res_roundtrip : forall lay c types ne,
    wf_layout lay = true -> wf_content V c = true ->
    (forall s, c_elemental V c = Some s -> ne = length (s_rows V s)) ->
    parse_res V vparse (length (s_rows V (c_nodal V c))) ne types (render_res V vprint lay c)
    = Ok (expected V types c).
  Proof.
    intros lay c types ne Hl Hc Hne. unfold parse_res.
    rewrite (split_series_render lay c Hl Hc). simpl bind. simpl fst. simpl snd.
    pose proof Hc as Hc'. unfold wf_content in Hc'. apply andb_true_iff in Hc'. destruct Hc' as [Hn He].
    rewrite (parse_section_ok lay (c_nodal V c) Hl Hn). simpl bind.
    unfold expected. destruct (c_elemental V c) as [se|] eqn:E; simpl option_map.
    - rewrite (Hne se eq_refl). rewrite (parse_section_ok lay se Hl He). reflexivity.
    - reflexivity.
  Qed.
End ResProofs.
