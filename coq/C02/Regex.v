(* C02 — the regular expressions femio's result-file reader decides with.
   A small regex language (optional ^ anchor, then a sequence of character
   classes each with a quantifier 1 / ? / + / * ) with the existence semantics of
   Python's re.search, and the proofs that the patterns of the registered tree
     r'^[\*a-zA-Z]'   (a line of variable names; _split_series and _parse_res)
     r'E\+?-?\d+'     (a line that holds a value token; _split_series)
   decide, on EVERY string, exactly the predicates Model.is_name_line /
   Model.has_exp that the model and all its theorems use.  The patterns of the
   tree under test are parsed from the source by translate/c02_cfg.py into
   gen/ResRegex.v; the per-run obligation C02_patterns_tie states that they are
   these (after normalisation of the classes to sorted code ranges). *)
From Coq Require Import ZArith NArith String List Ascii Bool.
From FV.C04 Require Import Text Model.
From FV.C02 Require Import Model.
Import ListNotations.

Inductive quant := QOne | QOpt | QPlus | QStar.
Definition cclass := list (N * N).          (* inclusive ranges of character codes *)
Definition item := (cclass * quant)%type.
Record regex := { re_anchored : bool; re_items : list item }.

Definition in_class (cl : cclass) (c : ascii) : bool :=
  let n := N_of_ascii c in existsb (fun r => (fst r <=? n)%N && (n <=? snd r)%N) cl.

(* cl* followed by the continuation k, somewhere (existence of a match: the
   greedy / backtracking order of re does not matter for search() is not None) *)
Fixpoint star_then (cl : cclass) (k : str -> bool) (s : str) : bool :=
  k s || match s with c :: s' => in_class cl c && star_then cl k s' | [] => false end.

Definition one_then (cl : cclass) (k : str -> bool) (s : str) : bool :=
  match s with c :: s' => in_class cl c && k s' | [] => false end.

Fixpoint match_items (items : list item) : str -> bool :=
  match items with
  | [] => fun _ => true
  | (cl, q) :: r =>
      let k := match_items r in
      match q with
      | QOne => one_then cl k
      | QOpt => fun s => one_then cl k s || k s
      | QStar => star_then cl k
      | QPlus => one_then cl (star_then cl k)
      end
  end.

Fixpoint search_items (items : list item) (s : str) : bool :=
  match_items items s || match s with [] => false | _ :: s' => search_items items s' end.

(* re.search(pattern, s) is not None *)
Definition re_search (r : regex) (s : str) : bool :=
  if re_anchored r then match_items (re_items r) s else search_items (re_items r) s.

(* ------------------------------------------- the patterns of the registered tree *)
Definition cl_name : cclass := [(42, 42); (65, 90); (97, 122)]%N.     (* [\*a-zA-Z] *)
Definition cl_E : cclass := [(69, 69)]%N.
Definition cl_plus : cclass := [(43, 43)]%N.
Definition cl_minus : cclass := [(45, 45)]%N.
Definition cl_digit : cclass := [(48, 57)]%N.                          (* \d (ASCII) *)
Definition name_re_expected : regex := {| re_anchored := true; re_items := [(cl_name, QOne)] |}.
Definition exp_re_expected : regex :=
  {| re_anchored := false;
     re_items := [(cl_E, QOne); (cl_plus, QOpt); (cl_minus, QOpt); (cl_digit, QPlus)] |}.

Lemma cl_name_spec : forall c, in_class cl_name c = (Ascii.eqb c "*"%char || is_alpha c).
Proof. intros [[] [] [] [] [] [] [] []]; reflexivity. Qed.
Lemma cl_E_spec : forall c, in_class cl_E c = Ascii.eqb c "E"%char.
Proof. intros [[] [] [] [] [] [] [] []]; reflexivity. Qed.
Lemma cl_plus_spec : forall c, in_class cl_plus c = Ascii.eqb c "+"%char.
Proof. intros [[] [] [] [] [] [] [] []]; reflexivity. Qed.
Lemma cl_minus_spec : forall c, in_class cl_minus c = Ascii.eqb c "-"%char.
Proof. intros [[] [] [] [] [] [] [] []]; reflexivity. Qed.
Lemma cl_digit_spec : forall c, in_class cl_digit c = digitb c.
Proof. intros [[] [] [] [] [] [] [] []]; reflexivity. Qed.

Theorem name_re_is_name_line : forall l, re_search name_re_expected l = is_name_line l.
Proof.
  intros [|c l]; [reflexivity|].
  unfold re_search. cbn [name_re_expected re_anchored re_items match_items one_then is_name_line].
  rewrite cl_name_spec, andb_true_r. reflexivity.
Qed.

(* after one digit, \d* then the end of the pattern always succeeds *)
Lemma star_then_true : forall cl s, star_then cl (fun _ => true) s = true.
Proof. intros cl [|c s]; reflexivity. Qed.

Definition digit_head (s : str) : bool := match s with d :: _ => digitb d | [] => false end.

Lemma plus_digit : forall s, one_then cl_digit (star_then cl_digit (fun _ => true)) s = digit_head s.
Proof.
  intros [|c s]; [reflexivity|]. cbn [one_then digit_head]. rewrite cl_digit_spec, star_then_true, andb_true_r. reflexivity.
Qed.

Lemma digit_not_sign : forall c, digitb c = true -> Ascii.eqb c "+"%char = false /\ Ascii.eqb c "-"%char = false.
Proof. intros [[] [] [] [] [] [] [] []]; simpl; intros H; try discriminate H; split; reflexivity. Qed.

(* -?\d+ at s  =  a digit heads s after one optional '-' *)
Lemma opt_minus : forall s,
  (one_then cl_minus (one_then cl_digit (star_then cl_digit (fun _ => true))) s
   || one_then cl_digit (star_then cl_digit (fun _ => true)) s)
  = digit_head (skip_char "-"%char s).
Proof.
  intros [|c s]; [reflexivity|].
  unfold one_then at 1. rewrite cl_minus_spec, !plus_digit. simpl.
  destruct (Ascii.eqb c "-"%char) eqn:E; simpl.
  - apply Ascii.eqb_eq in E. subst c. simpl. apply orb_false_r.
  - reflexivity.
Qed.

Lemma exp_items_at : forall s, match_items (re_items exp_re_expected) s = exp_at s.
Proof.
  intros [|c r]; [reflexivity|].
  unfold exp_re_expected, re_items, match_items, exp_at.
  unfold one_then at 1. rewrite cl_E_spec. f_equal.
  (* \+? then -?\d+ *)
  change (match skip_char "-"%char (skip_char "+"%char r) with d :: _ => digitb d | [] => false end)
    with (digit_head (skip_char "-"%char (skip_char "+"%char r))).
  destruct r as [|c2 r2].
  - reflexivity.
  - unfold one_then at 1. rewrite cl_plus_spec.
    rewrite !opt_minus.
    destruct (Ascii.eqb c2 "+"%char) eqn:E2.
    + apply Ascii.eqb_eq in E2. subst c2. simpl. apply orb_false_r.
    + simpl. rewrite E2. reflexivity.
Qed.

Theorem exp_re_is_has_exp : forall l, re_search exp_re_expected l = has_exp l.
Proof.
  intros l. unfold re_search. change (re_anchored exp_re_expected) with false. cbv iota.
  induction l as [|c l IH].
  - reflexivity.
  - cbn [search_items has_exp]. rewrite exp_items_at, IH. reflexivity.
Qed.

(* decidable equality of (normalised) patterns, for the per-run obligation *)
Definition quant_eqb (a b : quant) : bool :=
  match a, b with QOne, QOne | QOpt, QOpt | QPlus, QPlus | QStar, QStar => true | _, _ => false end.
Definition class_eqb : cclass -> cclass -> bool :=
  list_eqb (fun a b => (fst a =? fst b)%N && (snd a =? snd b)%N).
Definition regex_eqb (a b : regex) : bool :=
  Bool.eqb (re_anchored a) (re_anchored b)
  && list_eqb (fun x y => class_eqb (fst x) (fst y) && quant_eqb (snd x) (snd y)) (re_items a) (re_items b).
