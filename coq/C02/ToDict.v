(* C02 — StringSeries.to_dict_fem_attributes / to_fem_attribute as femio writes
   them (column ranges from np.cumsum, zip(nums[:-1], nums[1:]); the padded
   table of str.split(expand=True), numpy column slicing that CLIPS, float() of
   every cell) and the proof that they are Model.read_vars / parse_cols; and
   what update_time_series does when the steps list different variables. *)
From Coq Require Import ZArith String List Ascii Bool Lia.
From FV.C04 Require Import Text Model.
From FV.C02 Require Import Model ProofsSeries.
Import ListNotations.
Set Default Timeout 120.

(* ------------------------------------------------ the column ranges (cumsum) *)
Fixpoint cumsum_from (acc : nat) (l : list nat) : list nat :=
  match l with [] => [] | a :: l' => (acc + a) :: cumsum_from (acc + a) l' end.
(* nums = np.concatenate([[0], np.cumsum(component_nums)]) + 1 *)
Definition nums (cn : list nat) : list nat := map (fun x => x + 1) (0 :: cumsum_from 0 cn).
(* ranges = [range(n1, n2) for n1, n2 in zip(nums[:-1], nums[1:])] *)
Definition ranges (cn : list nat) : list (nat * nat) := combine (removelast (nums cn)) (tl (nums cn)).

Fixpoint ranges_from (acc : nat) (cn : list nat) : list (nat * nat) :=
  match cn with [] => [] | a :: l => (acc + 1, acc + a + 1) :: ranges_from (acc + a) l end.

Lemma combine_removelast {A} : forall (xs : list A) x,
  combine (removelast (x :: xs)) xs = combine (x :: xs) xs.
Proof.
  induction xs as [|y xs IH]; intros x; [reflexivity|].
  change (removelast (x :: y :: xs)) with (x :: removelast (y :: xs)).
  cbn [combine]. f_equal. apply IH.
Qed.

Lemma ranges_aux : forall cn acc,
  combine (map (fun x => x + 1) (acc :: cumsum_from acc cn)) (map (fun x => x + 1) (cumsum_from acc cn))
  = ranges_from acc cn.
Proof.
  induction cn as [|a cn IH]; intros acc; [reflexivity|].
  cbn [cumsum_from map combine ranges_from]. f_equal. apply (IH (acc + a)).
Qed.

Lemma ranges_spec : forall cn, ranges cn = ranges_from 0 cn.
Proof.
  intros cn. unfold ranges, nums. cbn [tl map]. rewrite combine_removelast. apply (ranges_aux cn 0).
Qed.

Section ToDict.
  Variable V : Type.
  Variable vparse : str -> option V.
  Variable vnan : V.          (* float('nan'): what .astype(float) makes of a None cell *)

  (* {name: self.to_fem_attribute(name, 0, r, delimiter=' ') for name, r in zip(names, ranges)}
     (names of one file are distinct; a dict in insertion order) *)
  Definition to_dict_written (rows : list (list str)) (names : list str) (cn : list nat)
    : result (list (str * table V)) :=
    mapM (fun nr => do tb <- mapM (parse_cols V vparse (fst (snd nr)) (snd (snd nr))) rows;
                    Ok (fst nr, tb))
         (combine names (ranges cn)).

  Theorem to_dict_written_eq : forall rows names cn,
    to_dict_written rows names cn = read_vars V vparse rows 1 (combine names cn).
  Proof.
    intros rows names cn. unfold to_dict_written. rewrite ranges_spec.
    enough (forall acc, mapM (fun nr => do tb <- mapM (parse_cols V vparse (fst (snd nr)) (snd (snd nr))) rows;
                                        Ok (fst nr, tb)) (combine names (ranges_from acc cn))
                        = read_vars V vparse rows (acc + 1) (combine names cn)) as H by apply (H 0).
    revert cn.
    induction names as [|nm names IH]; intros cn acc; [reflexivity|].
    destruct cn as [|a cn]; [reflexivity|].
    cbn [ranges_from combine mapM read_vars fst snd].
    replace (acc + a + 1) with (acc + 1 + a) by lia.
    destruct (mapM (parse_cols V vparse (acc + 1) (acc + 1 + a)) rows) as [tb|]; [|reflexivity].
    cbn [bind]. rewrite (IH cn (acc + a)).
    replace (acc + a + 1) with (acc + 1 + a) by lia. reflexivity.
  Qed.

  (* -------------------------------------- to_fem_attribute on the padded table *)
  (* df = self.str.split(' ', expand=True): every row padded with None to the longest *)
  Definition table_width (rows : list (list str)) : nat := fold_right Nat.max 0 (map (@length str) rows).
  Definition pad_row (W : nat) (toks : list str) : list (option str) :=
    map Some toks ++ repeat None (W - length toks).
  (* .astype(float) of one cell *)
  Definition cell_value (c : option str) : result V :=
    match c with
    | None => Ok vnan            (* np.array([None], dtype=object).astype(float) -> nan, silently *)
    | Some t => of_opt "bad value" (vparse t)
    end.
  Definition cell_id (r : list (option str)) : result Z :=
    match r with
    | Some t :: _ => of_opt "bad id" (parse_Z t)
    | _ => Err "no id column"
    end.
  (* ids = df.values[:, 0]; data = df.values[:, range(lo, hi)] over a table of width W *)
  Definition to_fem_attribute_core (W : nat) (rows : list (list str)) (lo hi : nat) : result (table V) :=
    let M := map (pad_row W) rows in
    do ids <- mapM cell_id M;
    do data <- mapM (fun r => mapM cell_value (slice lo hi r)) M;
    Ok (combine ids data).
  (* slice_data_columns is a `range`, i.e. numpy FANCY indexing: a column index
     beyond the width raises IndexError (it does not clip like a slice would);
     the ids (line before) are converted first *)
  Definition to_fem_attribute_written (rows : list (list str)) (lo hi : nat) : result (table V) :=
    let W := table_width rows in
    if Nat.ltb lo hi && Nat.ltb W hi
    then (do _ <- mapM cell_id (map (pad_row W) rows);
          Err "IndexError: index is out of bounds for axis 1")
    else to_fem_attribute_core W rows lo hi.

  Lemma mapM_ok_iff {A B} (f : A -> result B) : forall l r,
    mapM f l = Ok r <-> Forall2 (fun a b => f a = Ok b) l r.
  Proof.
    intros l r. split; [apply mapM_Forall2|].
    induction 1 as [|a b l r Hab _ IH]; [reflexivity|]. simpl. rewrite Hab, IH. reflexivity.
  Qed.

  Lemma mapO_cell : forall toks,
    mapM cell_value (map Some toks) = of_opt "bad value" (mapO vparse toks).
  Proof.
    induction toks as [|t toks IH]; [reflexivity|]. cbn [map mapM mapO cell_value].
    destruct (vparse t); [|reflexivity]. cbn [of_opt bind]. rewrite IH.
    destruct (mapO vparse toks); reflexivity.
  Qed.

  Lemma slice_pad : forall W toks lo hi, hi <= length toks ->
    slice lo hi (pad_row W toks) = map Some (slice lo hi toks).
  Proof.
    intros W toks lo hi H. unfold slice, pad_row.
    rewrite skipn_app, map_length. rewrite firstn_app.
    rewrite skipn_length, map_length.
    replace (hi - lo - (length toks - lo)) with 0 by lia.
    rewrite firstn_O, app_nil_r. rewrite skipn_map, firstn_map. reflexivity.
  Qed.

  (* on tables whose every row has the columns asked for, the padded-table
     formulation succeeds exactly when the row-wise model does, with the same table *)
  Lemma to_fem_attribute_core_ok : forall W rows lo hi t,
    Forall (fun toks => hi <= length toks /\ 1 <= length toks) rows ->
    (to_fem_attribute_core W rows lo hi = Ok t <-> mapM (parse_cols V vparse lo hi) rows = Ok t).
  Proof.
    intros W rows lo hi t HF. unfold to_fem_attribute_core.
    revert t. induction rows as [|toks rows IH]; intros t.
    - simpl. tauto.
    - inversion HF as [|? ? [Hhi H1] HF']; subst. specialize (IH HF').
      cbn [map mapM].
      assert (cell_id (pad_row W toks) = (do idt <- nth_r 0 toks; of_opt "bad id" (parse_Z idt))) as Eid.
      { destruct toks as [|t0 toks]; [simpl in H1; lia|]. reflexivity. }
      rewrite Eid, slice_pad by exact Hhi. rewrite mapO_cell.
      unfold parse_cols at 1.
      replace (Nat.ltb (length toks) hi) with false by (symmetry; apply Nat.ltb_ge; exact Hhi).
      destruct (nth_r 0 toks) as [idt|]; cbn [bind]; [|split; discriminate].
      destruct (parse_Z idt) as [id|]; cbn [of_opt bind]; [|split; discriminate].
      destruct (mapO vparse (slice lo hi toks)) as [cells|]; cbn [of_opt bind].
      + destruct (mapM cell_id (map (pad_row W) rows)) as [ids|] eqn:Ei; cbn [bind].
        * destruct (mapM (fun r => mapM cell_value (slice lo hi r)) (map (pad_row W) rows)) as [data|] eqn:Ed;
            cbn [bind] in *.
          -- destruct (mapM (parse_cols V vparse lo hi) rows) as [tb|]; cbn [bind].
             ++ destruct (IH (combine ids data)) as [I1 _]. specialize (I1 eq_refl). injection I1 as I1.
                cbn [combine]. rewrite I1. tauto.
             ++ destruct (IH (combine ids data)) as [I1 _]. specialize (I1 eq_refl). discriminate I1.
          -- destruct (mapM (parse_cols V vparse lo hi) rows) as [tb|]; cbn [bind]; [|split; discriminate].
             destruct (IH tb) as [_ I2]. specialize (I2 eq_refl). discriminate I2.
        * destruct (mapM (parse_cols V vparse lo hi) rows) as [tb|]; cbn [bind]; [|split; discriminate].
          destruct (IH tb) as [_ I2]. specialize (I2 eq_refl). discriminate I2.
      + destruct (mapM cell_id (map (pad_row W) rows)) as [ids|]; cbn [bind]; split; discriminate.
  Qed.

  Lemma width_ge : forall rows toks, In toks rows -> length toks <= table_width rows.
  Proof.
    unfold table_width. induction rows as [|r rows IH]; intros toks H; [contradiction|].
    cbn [map fold_right]. destruct H as [<-|H]; [lia|]. specialize (IH toks H). lia.
  Qed.

  (* on tables (>= 1 row) whose every row has the columns asked for, femio's
     code succeeds exactly when the row-wise model does, with the same table *)
  Theorem to_fem_attribute_written_ok : forall rows lo hi t,
    rows <> [] ->
    Forall (fun toks => hi <= length toks /\ 1 <= length toks) rows ->
    (to_fem_attribute_written rows lo hi = Ok t <-> mapM (parse_cols V vparse lo hi) rows = Ok t).
  Proof.
    intros rows lo hi t Hne HF. unfold to_fem_attribute_written.
    replace (Nat.ltb (table_width rows) hi) with false.
    - rewrite andb_false_r. apply to_fem_attribute_core_ok. exact HF.
    - symmetry. apply Nat.ltb_ge. destruct rows as [|r rows]; [contradiction|].
      inversion HF as [|? ? [Hh _] _]; subst. pose proof (width_ge (r :: rows) r (or_introl eq_refl)). lia.
  Qed.

  (* whenever the row-wise model reads a table, femio's code as written reads the same one *)
  Lemma parse_cols_lengths : forall lo hi rows t,
    mapM (parse_cols V vparse lo hi) rows = Ok t ->
    Forall (fun toks => hi <= length toks /\ 1 <= length toks) rows.
  Proof.
    intros lo hi rows t H. apply mapM_Forall2 in H.
    induction H as [|toks r rows' t' Hp _ IH]; constructor; [|exact IH].
    unfold parse_cols in Hp. destruct toks as [|t0 toks]; [discriminate Hp|].
    cbn [nth_r nth_error of_opt bind] in Hp.
    destruct (parse_Z t0); cbn [of_opt bind] in Hp; [|discriminate Hp].
    destruct (Nat.ltb (length (t0 :: toks)) hi) eqn:E; [discriminate Hp|].
    apply Nat.ltb_ge in E. split; [exact E|simpl; lia].
  Qed.

  Theorem to_fem_attribute_written_refines : forall rows lo hi t,
    rows <> [] ->
    mapM (parse_cols V vparse lo hi) rows = Ok t -> to_fem_attribute_written rows lo hi = Ok t.
  Proof.
    intros rows lo hi t Hne H.
    apply (to_fem_attribute_written_ok rows lo hi t Hne (parse_cols_lengths _ _ _ _ H)). exact H.
  Qed.

  (* to_dict_fem_attributes over the padded table (what femio executes) *)
  Definition to_dict_padded (rows : list (list str)) (names : list str) (cn : list nat)
    : result (list (str * table V)) :=
    mapM (fun nr => do tb <- to_fem_attribute_written rows (fst (snd nr)) (snd (snd nr)); Ok (fst nr, tb))
         (combine names (ranges cn)).

End ToDict.

(* ------------------------------------- steps that list different variables *)
Section VariableSets.
  Variable V : Type.

  (* update_time_series succeeds exactly when every step has every variable
     NAME of the first step (attribute_names = keys of list_dict_attributes[0];
     a[name] raises KeyError otherwise) *)
  Theorem stack_steps_ok_iff : forall (f0 : list (str * table V)) rest,
    (exists r, stack_steps V (f0 :: rest) = Ok r)
    <-> Forall (fun v => Forall (fun p => assoc (fst v) p <> None) (f0 :: rest)) f0.
  Proof.
    intros f0 rest. remember (f0 :: rest) as steps eqn:Es.
    assert (stack_steps V steps
            = mapM (fun v => do fs <- mapM (frame_of V (fst v)) steps; Ok (fst v, (map fst (snd v), fs))) f0) as E
      by (subst steps; reflexivity).
    rewrite E. clear E Es.
    induction f0 as [|v f0 IH].
    - split; [constructor|]. intros _. exists []. reflexivity.
    - cbn [mapM]. split.
      + intros [r H].
        match type of H with (bind (bind ?m _) _ = _) => destruct m as [fs|] eqn:Ef end;
          cbn [bind] in H; [|discriminate H].
        match type of H with (bind ?m _ = _) => destruct m as [r'|] eqn:Er end;
          cbn [bind] in H; [|discriminate H].
        constructor; [|apply IH; exists r'; reflexivity].
        apply mapM_Forall2 in Ef. clear -Ef. induction Ef as [|p fr ps frs Hp _ IHf]; constructor; [|exact IHf].
        unfold frame_of in Hp. cbv beta.
        match type of Hp with (bind (of_opt _ ?a) _ = _) => destruct a as [tb|] eqn:Ea end;
          [intros X; unfold table, row in *; rewrite Ea in X; discriminate X|discriminate Hp].
      + intros HF. inversion HF as [|? ? Hv HF']; subst.
        destruct (proj2 IH HF') as [r' Hr'].
        assert (exists fs, mapM (frame_of V (fst v)) steps = Ok fs) as [fs Hfs].
        { clear -Hv. unfold table, row in *. induction Hv as [|p ps Hp _ IHp]; [exists []; reflexivity|].
          destruct IHp as [fs Hfs]. cbn [mapM]. rewrite Hfs. unfold frame_of. unfold table, row in *.
          destruct (assoc (fst v) p) as [tb|] eqn:Ea; [|exfalso; apply Hp; reflexivity].
          unfold bind, of_opt. eexists. reflexivity. }
        unfold table, row in *. rewrite Hfs. cbn [bind]. rewrite Hr'. eexists. reflexivity.
  Qed.

  (* a variable that a later step has but the first step has not is silently
     absent from the series; the variables are exactly those of the first step *)
  Theorem stack_steps_names : forall steps r,
    stack_steps V steps = Ok r -> exists f0 rest, steps = f0 :: rest /\ map fst r = map fst f0.
  Proof.
    intros steps r H. destruct (stack_steps_spec V steps r H) as [f0 [rest [Es HF]]].
    exists f0, rest. split; [exact Es|].
    clear -HF. induction HF as [|v x l r' [Hx _] _ IH]; [reflexivity|]. simpl. rewrite Hx, IH. reflexivity.
  Qed.
End VariableSets.
