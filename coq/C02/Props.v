(* C02 — FrontISTR result files: every value lands on its id, variable, step.
   Statements only.  gen/ResCfg.v is regenerated from the tree under test. *)
From Coq Require Import ZArith String List Ascii Bool Permutation Sorting.Sorted.
Import ListNotations.
From FV.C04 Require Import Text Model Proofs Corr.
From FV.C02 Require Import Model Proofs ProofsSeries Regex Clusters Rows ToDict Corr.
From FV.C02.gen Require Import ResCfg.

(* the header skip constants the model uses are the ones of the tree under test *)
Theorem C02_header_skip : skip_old = 3 /\ skip_new = 11.
Proof. split; reflexivity. Qed.

(* _split_series as femio writes it -- indices_matches, np.diff, separation
   indices, ind_clusters[1][0], with the header skip constants of the tree under
   test -- is, on EVERY list of lines, the span formulation Model.split_series
   that the theorems below are stated about *)
Theorem C02_split_series_as_written :
  forall lines, split_series_idx skip_old skip_new lines = split_series lines.
Proof. exact split_series_idx_spans. Qed.
Example C02_split_series_as_written_example :
  let body := map S ["3 1"; "DISP"; "E1"; "7"; "1.0E+00 2.0E+00 3.0E+00"; "4.0E+00"; "1"; "2"; "S1"; "30"; "5.0E+00"] in
  idx_from is_name_line 0 body = [1; 2; 8]
  /\ clusters [1; 2; 8] = [[1; 2]; [8]]
  /\ split_body_idx body = Ok (firstn 6 body, Some (skipn 6 body))
  /\ clusters [0; 1; 2; 5; 6; 9] = [[0; 1; 2]; [5; 6]; [9]].
Proof. vm_compute. repeat split; reflexivity. Qed.

(* _parse_res as femio writes it -- ids = raw[0::stride], the value lines as the
   strided column slices raw[s::stride] joined column by column with
   connect_all / connect(delimiter=' ') -- is, on EVERY input, the row
   formulation Model.parse_section (chunks of `stride` lines joined with ' ') *)
Theorem C02_parse_res_as_written :
  forall V vparse len_data lines,
    parse_section_written V vparse len_data lines = parse_section V vparse len_data lines.
Proof. exact parse_section_written_eq. Qed.
Example C02_parse_res_as_written_example :
  let raw := map S ["7"; "1.0E+00 2.0E+00"; "3.0E+00"; "3"; "4.0E+00 5.0E+00"; "6.0E+00"] in
  strided 0 3 raw = map S ["7"; "3"] /\ strided 2 3 raw = map S ["3.0E+00"; "6.0E+00"]
  /\ rows_as_written 3 raw = Ok (map S ["7 1.0E+00 2.0E+00 3.0E+00"; "3 4.0E+00 5.0E+00 6.0E+00"])
  /\ rows_as_written 1 (map S ["7"; "3"]) = Ok (map S ["7"; "3"]).
Proof. vm_compute. repeat split; reflexivity. Qed.

(* to_dict_fem_attributes as femio writes it -- nums = concatenate([[0], cumsum(component_nums)]) + 1,
   ranges = zip(nums[:-1], nums[1:]), one to_fem_attribute per (name, range) -- is
   Model.read_vars with its running column offset, on EVERY input *)
Theorem C02_to_dict_as_written :
  forall V vparse rows names cn,
    to_dict_written V vparse rows names cn = read_vars V vparse rows 1 (combine names cn).
Proof. exact to_dict_written_eq. Qed.

(* to_fem_attribute as femio executes it -- the table of str.split(' ', expand=True)
   padded with None to the longest row, ids = column 0, data = columns range(lo, hi)
   by numpy FANCY indexing (IndexError beyond the width, no clipping), float() of
   every cell -- succeeds exactly when the row-wise Model.parse_cols does, with the
   same table, on every table (>= 1 row) whose rows all have the columns asked for;
   and whenever the model reads a table, the code as written reads the same one *)
Theorem C02_to_fem_attribute_as_written :
  forall V vparse vnan rows lo hi t,
    rows <> [] ->
    Forall (fun toks => hi <= length toks /\ 1 <= length toks) rows ->
    (to_fem_attribute_written V vparse vnan rows lo hi = Ok t
     <-> mapM (parse_cols V vparse lo hi) rows = Ok t).
Proof. intros V vparse vnan. exact (to_fem_attribute_written_ok V vparse vnan). Qed.
Theorem C02_to_fem_attribute_refines :
  forall V vparse vnan rows lo hi t,
    rows <> [] ->
    mapM (parse_cols V vparse lo hi) rows = Ok t -> to_fem_attribute_written V vparse vnan rows lo hi = Ok t.
Proof. intros V vparse vnan. exact (to_fem_attribute_written_refines V vparse vnan). Qed.

(* observation (malformed input, outside wf_content): a RAGGED table -- one entity
   with fewer values than the header declares -- is not rejected by the code as
   written: the missing cells of the padded table are None and .astype(float)
   turns them into NaN silently, where the row-wise model reports an error *)
Theorem C02_ragged_rows_nan_observation :
  exists rows lo hi t,
    to_fem_attribute_written str tparse (S "NAN") rows lo hi = Ok t
    /\ In (S "NAN") (flat_map snd t)
    /\ (exists msg, mapM (parse_cols str tparse lo hi) rows = Err msg).
Proof.
  exists [[S "7"; S "1.0E+00"; S "2.0E+00"]; [S "3"; S "3.0E+00"]], 1, 3,
         [(7%Z, [S "1.0E+00"; S "2.0E+00"]); (3%Z, [S "3.0E+00"; S "NAN"])].
  split; [vm_compute; reflexivity|]. split; [vm_compute; tauto|]. eexists. vm_compute. reflexivity.
Qed.

(* update_time_series succeeds exactly when every step has every variable NAME
   of the first step (else KeyError); the variables of the series are exactly
   those of the first step, in its order -- a variable only later steps have is
   silently absent *)
Theorem C02_series_variable_sets :
  forall V (f0 : list (str * table V)) rest,
    (exists r, stack_steps V (f0 :: rest) = Ok r)
    <-> Forall (fun v => Forall (fun p => assoc (fst v) p <> None) (f0 :: rest)) f0.
Proof. exact stack_steps_ok_iff. Qed.
Theorem C02_series_names_of_first_step :
  forall V steps r, stack_steps V steps = Ok r ->
    exists f0 rest, steps = f0 :: rest /\ map fst r = map fst f0.
Proof. exact stack_steps_names. Qed.
Example C02_to_dict_variable_sets_example :
  ranges [3; 6; 1] = [(1, 4); (4, 10); (10, 11)]
  /\ to_dict_padded str tparse (S "NAN") [[S "7"; S "1.0E+00"; S "2.0E+00"]; [S "3"; S "3.0E+00"; S "4.0E+00"]] [S "A"; S "B"] [1; 1]
     = Ok [(S "A", [(7%Z, [S "1.0E+00"]); (3%Z, [S "3.0E+00"])]); (S "B", [(7%Z, [S "2.0E+00"]); (3%Z, [S "4.0E+00"])])]
  /\ (exists m, to_fem_attribute_written str tparse (S "NAN") [[S "7"; S "1.0E+00"]; [S "3"; S "3.0E+00"]] 1 3 = Err m)
  /\ (exists m, stack_steps str [[(S "A", [(1%Z, [S "x"])])]; [(S "B", [(1%Z, [S "y"])])]] = Err m)
  /\ stack_steps str [[(S "A", [(1%Z, [S "x"])])]; [(S "A", [(1%Z, [S "y"])]); (S "B", [(1%Z, [S "z"])])]]
     = Ok [(S "A", ([1%Z], [[[S "x"]]; [[S "y"]]]))].
Proof. vm_compute. repeat split; try reflexivity; eexists; reflexivity. Qed.

(* per-run tie of the file layer (shared with C04): StringSeries.read_file /
   read_files read the file on every call (no cache between a rewrite and the
   next read of the same path) *)
Theorem C02_reader_reads_file : reads_file_every_call = true.
Proof. reflexivity. Qed.

(* the two regular expressions the reader decides with (registered tree:
   r'^[\*a-zA-Z]' and r'E\+?-?\d+'), under the search semantics of Regex.v, decide on
   EVERY line exactly the predicates the model is written with.  The patterns
   of the tree under test are parsed from its source into gen/ResRegex.v and
   compared with these by the per-run obligation C02_patterns_tie. *)
Theorem C02_name_pattern : forall l, re_search name_re_expected l = is_name_line l.
Proof. exact name_re_is_name_line. Qed.
Theorem C02_exp_pattern : forall l, re_search exp_re_expected l = has_exp l.
Proof. exact exp_re_is_has_exp. Qed.
(* non-vacuity: both answers occur, incl. the strings on which near-miss patterns differ *)
Example C02_patterns_example :
  map (re_search name_re_expected) [S "DISP"; S "*x"; S " x"; S "1.0E+00"; S ""] = [true; true; false; false; false]
  /\ map (re_search exp_re_expected) [S "1.0E+00"; S "2E-5"; S "E5"; S "E+-5"; S "E-+5"; S "e+05"; S "7"; S "NAME"; S "E+"]
     = [true; true; true; true; false; false; false; false; false].
Proof. vm_compute. split; reflexivity. Qed.

Section Statement.
  (* values as FrontISTR prints them (1.0000000000000000E+00): trusted facts
     about the number format, exercised by the correspondence check *)
  Variable V : Type.
  Variable vprint : V -> str.
  Variable vparse : str -> option V.
  Hypothesis vparse_vprint : forall v, vparse (vprint v) = Some v.
  Hypothesis vprint_token : forall v, tokenb (vprint v) = true.
  Hypothesis vprint_not_name : forall v, is_name_line (vprint v) = false.
  Hypothesis vprint_exp : forall v, has_exp (vprint v) = true.
  Hypothesis vprint_noT : forall v, forallb (fun c => negb (Ascii.eqb c "T"%char)) (vprint v) = true.

  (* Reading a rendered result file attributes every number to its id, variable
     and component: for both header layouts, any pad, any number of counts and
     values per line (>= 1), any number and widths (>= 1) of nodal and elemental
     variables (including no elemental section), arbitrary ids in any row order,
     and any element-type table of the mesh. *)
  Theorem C02_res_roundtrip :
    forall lay (c : content V) types ne,
      wf_layout lay = true -> wf_content V c = true ->
      (forall s, c_elemental V c = Some s -> ne = length (s_rows V s)) ->
      parse_res V vparse (length (s_rows V (c_nodal V c))) ne types (render_res V vprint lay c)
      = Ok (expected V types c).
  Proof. intros. apply res_roundtrip; assumption. Qed.

  (* the two halves, also usable separately *)
  Theorem C02_split_nodal_elemental :
    forall lay (c : content V), wf_layout lay = true -> wf_content V c = true ->
      split_series (render_res V vprint lay c)
      = Ok (render_section V vprint lay (c_nodal V c),
            option_map (render_section V vprint lay) (c_elemental V c)).
  Proof. intros. apply split_series_render; assumption. Qed.

  Theorem C02_parse_section :
    forall lay (s : section V), wf_layout lay = true -> wf_section V s = true ->
      parse_section V vparse (length (s_rows V s)) (render_section V vprint lay s)
      = Ok (section_tables V s).
  Proof. intros. apply parse_section_ok; assumption. Qed.

  (* time series of >= 2 files = stack of the single-step readings in ascending
     numeric step order *)
  Theorem C02_steps_sorted_stack :
    forall ok et n e types (f1 f2 : row str) (files : table str),
      let sorted := sort_rows (f1 :: f2 :: files) in
      read_dir V vparse ok et true n e types (f1 :: f2 :: files)
      = (do ps <- mapM (fun f => parse_res V vparse n e types (snd f)) sorted;
         do nd <- stack_steps V (map (p_nodal V) ps);
         do ed <- stack_steps V (map (elemental_tables V et) ps);
         Ok (Series (map fst sorted) nd ed))
      /\ Permutation sorted (f1 :: f2 :: files)
      /\ StronglySorted (fun a b => (fst a <= fst b)%Z) sorted.
  Proof.
    intros ok et n e types f1 f2 files sorted. split; [|split].
    - unfold read_dir.
      change (select_steps true (f1 :: f2 :: files)) with sorted.
      assert (length sorted = Datatypes.S (Datatypes.S (length files))) as HL
        by (unfold sorted; rewrite sort_rows_length; reflexivity).
      destruct sorted as [|s1 [|s2 rest]]; try discriminate HL. reflexivity.
    - apply sort_rows_perm.
    - apply sort_rows_sorted.
  Qed.

  (* without time series exactly the file with the largest step number is read *)
  Theorem C02_last_step_selected :
    forall ok et n e types (f1 f2 : row str) (files : table str),
      exists f, In f (f1 :: f2 :: files)
        /\ (forall g, In g (f1 :: f2 :: files) -> (fst g <= fst f)%Z)
        /\ read_dir V vparse ok et false n e types (f1 :: f2 :: files)
           = (do p <- parse_res V vparse n e types (snd f); Ok (Single p)).
  Proof.
    intros ok et n e types f1 f2 files.
    destruct (select_last f1 f2 files) as [f [Hs [Hin Hmax]]].
    exists f. split; [exact Hin|]. split; [exact Hmax|].
    unfold read_dir. rewrite Hs. reflexivity.
  Qed.

  Theorem C02_single_file :
    forall ok et n e types (f : row str),
      read_dir V vparse ok et false n e types [f]
      = (do p <- parse_res V vparse n e types (snd f); Ok (Single p)).
  Proof. reflexivity. Qed.

  (* a time series with exactly one result file: read like any other series
     iff the reader wraps the bare series (translated flag), else it raises *)
  Theorem C02_single_file_series :
    forall et n e types (f : row str),
      read_dir V vparse true et true n e types [f]
      = (do ps <- mapM (fun f => parse_res V vparse n e types (snd f)) [f];
         do nd <- stack_steps V (map (p_nodal V) ps);
         do ed <- stack_steps V (map (elemental_tables V et) ps);
         Ok (Series [fst f] nd ed)).
  Proof. reflexivity. Qed.

  Theorem C02_single_file_series_refuted :
    forall et n e types (f : row str),
      exists msg, read_dir V vparse false et true n e types [f] = Err msg.
  Proof. intros. eexists. reflexivity. Qed.

  (* ---- time series: FrontISTRData.read_files on the files in ANY order ---- *)
  (* read_directory(time_series=True) is read_files applied to the files sorted
     by numeric step *)
  Theorem C02_read_dir_sorts_then_reads :
    forall ok et n e types (files : table str),
      read_dir V vparse ok et true n e types files
      = read_files_series V vparse ok et n e types (select_steps true files).
  Proof. reflexivity. Qed.

  (* whatever the order of the files handed to read_files: time_steps lists the
     step numbers in that order, and every nodal / elemental series is the stack
     of the single-step readings in that order -- variables, order and ids of
     the first file; slice k = the k-th file's table of the variable with the
     same name *)
  Theorem C02_series_any_file_order :
    forall ok et n e types (f1 : row str) (files : table str) steps nd ed,
      ok = true \/ files <> [] ->
      read_files_series V vparse ok et n e types (f1 :: files) = Ok (Series steps nd ed) ->
      steps = map fst (f1 :: files)
      /\ exists ps,
           Forall2 (fun f p => parse_res V vparse n e types (snd f) = Ok p) (f1 :: files) ps
           /\ is_stack_of V (map (p_nodal V) ps) nd
           /\ is_stack_of V (map (elemental_tables V et) ps) ed.
  Proof. intros. eapply read_files_series_spec; eassumption. Qed.

  (* if every step lists the rows of a variable in the same id order, slice k
     of the series with the series' ids re-attached IS the k-th single-step
     table: every number of every step stays on its id *)
  Theorem C02_series_rows_on_their_ids :
    forall name (steps : list (list (str * table V))) ids fs,
      frames_of V name steps fs ->
      Forall (fun p => forall tb, assoc name p = Some tb -> map fst tb = ids) steps ->
      Forall2 (fun p fr => assoc name p = Some (combine ids fr)) steps fs.
  Proof. intros. eapply frames_rows_on_their_ids; eassumption. Qed.

  (* for elemental variables that premise needs no assumption on the row order
     of the files: the ids femio shows after re-binding are the same for any
     two result tables listing the same element ids (e.g. permuted rows) *)
  Theorem C02_elemental_ids_row_order_free :
    forall et types (tb tb' : table V),
      (forall i, In i (map fst tb) <-> In i (map fst tb')) ->
      map fst (ea_table et (rebind V types tb)) = map fst (ea_table et (rebind V types tb')).
  Proof. intros. apply elemental_ids_row_order_free. assumption. Qed.
End Statement.

(* every elemental value stays attached to the id it was written under,
   whatever the storage order of the element blocks / result rows *)
Theorem C02_elemental_rebind :
  forall V types (tb : table V),
    (forall t tb' id, In (t, tb') (rebind V types tb) -> In id (map fst tb') ->
       lookup id tb' = Some (get id tb) /\ In id (map fst tb)
       /\ exists tids, In (t, tids) types /\ In id tids)
    /\ (forall t tids id, In (t, tids) types -> In id tids -> In id (map fst tb) ->
          exists tb', In (t, tb') (rebind V types tb) /\ In id (map fst tb'))
    /\ (forall t tb', In (t, tb') (rebind V types tb) -> StronglySorted Z.le (map fst tb')).
Proof.
  intros V types tb. split; [|split].
  - intros. apply rebind_sound; assumption.
  - intros. eapply rebind_complete; eassumption.
  - intros. eapply rebind_sorted; eassumption.
Qed.

(* non-vacuity and the numeric (not lexicographic) order: 10 > 5 *)
Definition ex_layout : layout :=
  {| l_header := H2 (S "static_result") (S "1.0E+00"); l_pad := S " "; l_nelem := 3; l_wc := 2; l_w := 5 |}.
Definition ex_content : content str :=
  Build_content
    (Build_section [(S "DISPLACEMENT", 3); (S "NodalSTRESS", 6); (S "E1", 1)]
       [(7%Z, map S ["1.0E+00"; "2.0E+00"; "-3.5E-01"; "4.0E+00"; "5.0E+00"; "6.0E+00"; "7.0E+00"; "8.0E+00"; "9.0E+00"; "1.0E+01"]);
        (3%Z, map S ["0.0E+00"; "0.0E+00"; "0.0E+00"; "1.5E+00"; "2.5E+00"; "3.5E+00"; "4.5E+00"; "5.5E+00"; "6.5E+00"; "7.5E+00"])])
    (Some (Build_section [(S "ElementalSTRAIN", 2)]
       [(30%Z, map S ["3.0E+01"; "3.1E+01"]); (10%Z, map S ["1.0E+01"; "1.1E+01"]); (20%Z, map S ["2.0E+01"; "2.1E+01"])])).
Theorem C02_example :
  wf_layout ex_layout = true /\ wf_content str ex_content = true
  /\ model_roundtrip_ok ex_layout 2 3 [(S "tet", [30%Z; 10%Z]); (S "hex", [20%Z])] ex_content = true
  /\ map fst (select_steps false [(5%Z, [S "a"]); (10%Z, [S "b"]); (9%Z, [S "c"])]) = [10%Z]
  /\ map fst (select_steps true [(5%Z, [S "a"]); (10%Z, [S "b"]); (9%Z, [S "c"]); (100%Z, [])]) = [5%Z; 9%Z; 10%Z; 100%Z].
Proof. vm_compute. repeat split. Qed.

(* non-vacuity of the series theorems: two files handed over in the order
   step 10, step 5, the elemental rows of the second in another order *)
Definition ex_content2 : content str :=
  Build_content
    (Build_section [(S "DISPLACEMENT", 3); (S "NodalSTRESS", 6); (S "E1", 1)]
       [(7%Z, map S ["1.1E+00"; "2.1E+00"; "-3.5E-01"; "4.0E+00"; "5.0E+00"; "6.0E+00"; "7.0E+00"; "8.0E+00"; "9.0E+00"; "1.0E+01"]);
        (3%Z, map S ["0.5E+00"; "0.0E+00"; "0.0E+00"; "1.5E+00"; "2.5E+00"; "3.5E+00"; "4.5E+00"; "5.5E+00"; "6.5E+00"; "7.5E+00"])])
    (Some (Build_section [(S "ElementalSTRAIN", 2)]
       [(10%Z, map S ["1.2E+01"; "1.3E+01"]); (20%Z, map S ["2.2E+01"; "2.3E+01"]); (30%Z, map S ["3.2E+01"; "3.3E+01"])])).
Definition ex_types : list (str * list Z) := [(S "tet", [30%Z; 10%Z]); (S "hex", [20%Z])].
Theorem C02_example_series :
  read_files_series str tparse true [S "tet"; S "hex"] 2 3 ex_types
    [(10%Z, render_res str tprint ex_layout ex_content); (5%Z, render_res str tprint ex_layout ex_content2)]
  = Ok (Series [10%Z; 5%Z]
          [(S "DISPLACEMENT", ([7%Z; 3%Z], [[map S ["1.0E+00"; "2.0E+00"; "-3.5E-01"]; map S ["0.0E+00"; "0.0E+00"; "0.0E+00"]];
                                             [map S ["1.1E+00"; "2.1E+00"; "-3.5E-01"]; map S ["0.5E+00"; "0.0E+00"; "0.0E+00"]]]));
           (S "NodalSTRESS", ([7%Z; 3%Z], [[map S ["4.0E+00"; "5.0E+00"; "6.0E+00"; "7.0E+00"; "8.0E+00"; "9.0E+00"]; map S ["1.5E+00"; "2.5E+00"; "3.5E+00"; "4.5E+00"; "5.5E+00"; "6.5E+00"]];
                                            [map S ["4.0E+00"; "5.0E+00"; "6.0E+00"; "7.0E+00"; "8.0E+00"; "9.0E+00"]; map S ["1.5E+00"; "2.5E+00"; "3.5E+00"; "4.5E+00"; "5.5E+00"; "6.5E+00"]]]));
           (S "E1", ([7%Z; 3%Z], [[[S "1.0E+01"]; [S "7.5E+00"]]; [[S "1.0E+01"]; [S "7.5E+00"]]]))]
          [(S "ElementalSTRAIN", ([10%Z; 20%Z; 30%Z],
              [[map S ["1.0E+01"; "1.1E+01"]; map S ["2.0E+01"; "2.1E+01"]; map S ["3.0E+01"; "3.1E+01"]];
               [map S ["1.2E+01"; "1.3E+01"]; map S ["2.2E+01"; "2.3E+01"]; map S ["3.2E+01"; "3.3E+01"]]]))])
  /\ (ex_types <> [] /\ forall i, In i (map fst [(30%Z, [1]); (10%Z, [2]); (20%Z, [3])]) <-> In i (map fst [(10%Z, [4]); (20%Z, [5]); (30%Z, [6])])).
Proof.
  split; [vm_compute; reflexivity|]. split; [discriminate|]. intros i. simpl. tauto.
Qed.

Print Assumptions C02_res_roundtrip.
Print Assumptions C02_split_series_as_written.
Print Assumptions C02_parse_res_as_written.
Print Assumptions C02_to_fem_attribute_as_written.
Print Assumptions C02_series_variable_sets.
Print Assumptions C02_series_any_file_order.
Print Assumptions C02_elemental_ids_row_order_free.
Print Assumptions C02_steps_sorted_stack.
