From Coq Require Import ZArith String List.
From FV.C04 Require Import Text.
From FV.C02 Require Import Model.
From FV.C02.gen Require Import ResCfg.
(* the header skip constants the model uses are the ones of the tree under test *)
Theorem C02_header_skip : skip_old = 3 /\ skip_new = 11.
Proof. split; reflexivity. Qed.
