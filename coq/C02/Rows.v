(* C02 — how `_parse_res` re-joins the wrapped value lines, as femio writes it:
     ids  = raw_data[0::stride]
     data = StringSeries.connect_all([raw_data[s::stride] for s in range(1, stride)], delimiter=' ')
     formatted_data = ids.connect(data, delimiter=' ')
   (strided column slices, connected column by column) -- and the proof that
   this is, for EVERY list of lines whose length is a multiple of the stride,
   the row formulation of Model.parse_section (`chunks stride`, each chunk
   joined with ' '). *)
From Coq Require Import ZArith String List Ascii Bool Lia.
From FV.C04 Require Import Text Model.
From FV.C02 Require Import Model.
Import ListNotations.

(* l[0::k] (k >= 1) *)
Fixpoint every {A} (fuel k : nat) (l : list A) : list A :=
  match fuel with
  | O => []
  | Datatypes.S f => match l with [] => [] | a :: _ => a :: every f k (skipn k l) end
  end.
(* l[s::k] *)
Definition strided {A} (s k : nat) (l : list A) : list A := every (length l) k (skipn s l).

(* self.str.cat(other, sep=' ') *)
Fixpoint zip_sp (a b : list str) : list str :=
  match a, b with
  | x :: a', y :: b' => (x ++ sp ++ y) :: zip_sp a' b'
  | _, _ => []
  end.
(* StringSeries.connect *)
Definition connect (a b : list str) : result (list str) :=
  match b with
  | [] => Ok a                                       (* len(other) == 0: return self *)
  | _ => if Nat.eqb (length a) (length b) then Ok (zip_sp a b) else Err "Dimension different"
  end.
(* StringSeries.connect_all *)
Definition connect_all (cols : list (list str)) : result (list str) :=
  match cols with
  | [] => Ok []
  | c :: cs => fold_left (fun acc d => do a <- acc; connect a d) cs (Ok c)
  end.

Definition rows_as_written (stride : nat) (raw : list str) : result (list str) :=
  do data <- connect_all (map (fun s => strided s stride raw) (seq 1 (stride - 1)));
  connect (strided 0 stride raw) data.

(* the row formulation of Model.parse_section *)
Definition rows_model (stride : nat) (raw : list str) : list str :=
  map (join sp) (chunks (length raw) stride raw).

(* ------------------------------------------------------------------ proofs *)
Lemma every_fuel {A} : forall k (l : list A) f1 f2, length l <= f1 -> length l <= f2 -> 1 <= k ->
  every f1 k l = every f2 k l.
Proof.
  intros k l f1. revert l. induction f1 as [|f1 IH]; intros l f2 H1 H2 Hk.
  - destruct l; [|simpl in H1; lia]. destruct f2; reflexivity.
  - destruct l as [|a l]; [destruct f2; reflexivity|].
    destruct f2 as [|f2]; [simpl in H2; lia|]. cbn [every chunks]. f_equal.
    assert (length (skipn k (a :: l)) <= length l) as Hs.
    { rewrite skipn_length. cbn [length]. lia. }
    simpl length in H1, H2. apply IH; [lia|lia|exact Hk].
Qed.

Lemma chunks_fuel {A} : forall k (l : list A) f1 f2, length l <= f1 -> length l <= f2 -> 1 <= k ->
  chunks f1 k l = chunks f2 k l.
Proof.
  intros k l f1. revert l. induction f1 as [|f1 IH]; intros l f2 H1 H2 Hk.
  - destruct l; [|simpl in H1; lia]. destruct f2; reflexivity.
  - destruct l as [|a l]; [destruct f2; reflexivity|].
    destruct f2 as [|f2]; [simpl in H2; lia|]. cbn [every chunks]. f_equal.
    assert (length (skipn k (a :: l)) <= length l) as Hs.
    { rewrite skipn_length. cbn [length]. lia. }
    simpl length in H1, H2. apply IH; [lia|lia|exact Hk].
Qed.

(* one row in front: the strided slice s takes its s-th line, then goes on in the rest *)
Lemma skipn_in_row {A} : forall (row rest : list A) s (d : A), s < length row ->
  skipn s (row ++ rest) = nth s row d :: (skipn (Datatypes.S s) row ++ rest).
Proof.
  induction row as [|a row IH]; intros rest s d Hs; [simpl in Hs; lia|].
  destruct s as [|s]; [reflexivity|].
  cbn [app skipn nth]. apply IH. simpl in Hs. lia.
Qed.

Lemma skipn_past_row {A} : forall (row rest : list A) s k (x : A),
  length row = k -> s < k ->
  skipn k (x :: skipn (Datatypes.S s) row ++ rest) = skipn s rest.
Proof.
  intros row rest s k x Hl Hs. destruct k as [|k']; [lia|]. rewrite skipn_cons.
  rewrite skipn_app.
  assert (length (skipn (Datatypes.S s) row) = k' - s) as El by (rewrite skipn_length; lia).
  rewrite El. rewrite (skipn_all2 (skipn (Datatypes.S s) row)) by lia.
  cbn [app]. f_equal. lia.
Qed.

(* one row in front: the strided slice s takes its s-th line, then goes on in the rest *)
Lemma strided_app {A} : forall (row rest : list A) s k (d : A),
  length row = k -> s < k ->
  strided s k (row ++ rest) = nth s row d :: strided s k rest.
Proof.
  intros row rest s k d Hl Hs. unfold strided.
  rewrite (skipn_in_row row rest s d) by lia.
  rewrite app_length. destruct (length row + length rest) as [|f] eqn:Ef; [lia|].
  cbn [every]. f_equal.
  rewrite (skipn_past_row row rest s k _ Hl Hs).
  apply every_fuel; try lia; rewrite skipn_length; lia.
Qed.

Lemma strided_nil {A} : forall s k, strided s k (@nil A) = [].
Proof. intros. unfold strided. reflexivity. Qed.

Lemma zip_sp_length : forall a b, length a = length b -> length (zip_sp a b) = length a.
Proof.
  induction a as [|x a IH]; intros [|y b] H; simpl in *; try reflexivity; try discriminate.
  f_equal. apply IH. lia.
Qed.

(* connecting columns that all start with one more line: the head is joined on its own *)
Lemma fold_connect_cons : forall (cols : list (str * list str)) (x : str) (c : list str),
  Forall (fun col => length (snd col) = length c) cols ->
  fold_left (fun acc d => do a <- acc; connect a d) (map (fun col => fst col :: snd col) cols) (Ok (x :: c))
  = do t <- fold_left (fun acc d => do a <- acc; connect a d) (map snd cols) (Ok c);
    Ok (fold_left (fun a y => a ++ sp ++ y) (map fst cols) x :: t).
Proof.
  induction cols as [|[y col] cols IH]; intros x c HF; simpl.
  - reflexivity.
  - inversion HF as [|? ? Hc HF']; subst. simpl in Hc.
    rewrite Hc, Nat.eqb_refl.
    destruct col as [|z col].
    + (* empty tails everywhere *)
      destruct c; [|discriminate Hc]. simpl.
      exact (IH (x ++ sp ++ y) [] HF').
    + simpl connect. rewrite <- Hc. simpl length. rewrite Nat.eqb_refl.
      apply (IH (x ++ sp ++ y) (zip_sp c (z :: col))).
      clear -HF' Hc. induction HF' as [|col' cols' H _ IH]; constructor; [|exact IH].
      rewrite H. symmetry. apply zip_sp_length. simpl. exact (eq_sym Hc).
Qed.

Lemma fold_connect_length : forall (cols : list (list str)) (c t : list str),
  Forall (fun col => length col = length c) cols ->
  fold_left (fun acc d => do a <- acc; connect a d) cols (Ok c) = Ok t -> length t = length c.
Proof.
  induction cols as [|col cols IH]; intros c t HF H.
  - inversion H. reflexivity.
  - inversion HF as [|? ? Hc HF']; subst. cbn [fold_left bind] in H.
    destruct col as [|z col].
    + cbn [connect] in H. apply IH; assumption.
    + unfold connect in H. rewrite <- Hc, Nat.eqb_refl in H.
      apply IH in H.
      * rewrite H. apply zip_sp_length. exact (eq_sym Hc).
      * clear -HF' Hc. induction HF' as [|col' cols' H' _ IH']; constructor; [|exact IH'].
        rewrite H'. symmetry. apply zip_sp_length. exact (eq_sym Hc).
Qed.

Lemma join_fold : forall (ys : list str) (x : str),
  fold_left (fun a y => a ++ sp ++ y) ys x = join sp (x :: ys).
Proof.
  induction ys as [|y ys IH]; intros x; simpl.
  - reflexivity.
  - rewrite IH. simpl. destruct ys; simpl; rewrite <- ?app_assoc; reflexivity.
Qed.

Lemma strided_length {A} : forall n k (l : list A) s, 1 <= k -> s < k -> length l = n * k ->
  length (strided s k l) = n.
Proof.
  induction n as [|n IH]; intros k l s Hk Hs Hl.
  - destruct l; [reflexivity|discriminate Hl].
  - rewrite <- (firstn_skipn k l).
    destruct l as [|d l']; [simpl in Hl; lia|].
    rewrite (strided_app (firstn k (d :: l')) (skipn k (d :: l')) s k d);
      [|rewrite firstn_length; simpl in *; lia|exact Hs].
    simpl length. f_equal. apply IH; [exact Hk|exact Hs|].
    rewrite skipn_length. rewrite Hl. simpl. lia.
Qed.

Lemma fold_connect_nil : forall (cols : list (list str)),
  Forall (fun c => c = []) cols ->
  fold_left (fun acc d => do a <- acc; connect a d) cols (Ok []) = Ok [].
Proof.
  induction cols as [|c cols IH]; intros HF; [reflexivity|].
  inversion HF; subst. simpl. apply IH. assumption.
Qed.

Lemma nth_seq_row {A} : forall (row : list A) d,
  map (fun s => nth s row d) (seq 0 (length row)) = row.
Proof.
  induction row as [|a row IH]; intros d; [reflexivity|].
  simpl. f_equal. rewrite <- seq_shift, map_map. apply IH.
Qed.

Lemma rows_model_app : forall k (row rest : list str), 1 <= k -> length row = k ->
  rows_model k (row ++ rest) = join sp row :: rows_model k rest.
Proof.
  intros k row rest Hk Hl. unfold rows_model.
  rewrite app_length. destruct (length row + length rest) as [|f] eqn:Ef; [lia|].
  destruct (row ++ rest) as [|a l] eqn:El; [destruct row; [simpl in Hl; lia|discriminate El]|].
  cbn [chunks]. rewrite <- El.
  rewrite <- Hl at 1. rewrite firstn_app, firstn_all, Nat.sub_diag, firstn_O, app_nil_r.
  cbn [map]. f_equal. f_equal.
  rewrite <- Hl. rewrite skipn_app, skipn_all, Nat.sub_diag. cbn [app skipn].
  apply chunks_fuel; lia.
Qed.

Theorem rows_as_written_ok : forall n stride raw,
  1 <= stride -> length raw = n * stride ->
  rows_as_written stride raw = Ok (rows_model stride raw).
Proof.
  induction n as [|n IH]; intros stride raw Hk Hl.
  - destruct raw; [|discriminate Hl]. unfold rows_as_written, connect_all.
    destruct (seq 1 (stride - 1)) as [|s0 ss] eqn:Es; [reflexivity|].
    cbn [map]. rewrite strided_nil.
    rewrite fold_connect_nil; [reflexivity|].
    apply Forall_forall. intros c Hc. apply in_map_iff in Hc. destruct Hc as [s [<- _]]. apply strided_nil.
  - destruct raw as [|d0 raw']; [simpl in Hl; lia|].
    remember (d0 :: raw') as raw eqn:Eraw0. clear Eraw0 raw'.
    assert (length raw = stride + n * stride) as Hl' by (rewrite Hl; reflexivity).
    set (row := firstn stride raw). set (rest := skipn stride raw).
    assert (length row = stride) as Hrow by (unfold row; rewrite firstn_length; lia).
    assert (length rest = n * stride) as Hrest by (unfold rest; rewrite skipn_length; lia).
    assert (raw = row ++ rest) as Eraw by (symmetry; apply firstn_skipn).
    clearbody row rest. subst raw. clear Hl Hl'.
    specialize (IH stride rest Hk Hrest). rewrite rows_model_app by assumption.
    unfold rows_as_written in *.
    rewrite (strided_app row rest 0 stride d0 Hrow) by lia.
    rewrite (map_ext_in _ (fun s => nth s row d0 :: strided s stride rest));
      [|intros s Hs; apply in_seq in Hs; apply strided_app; [exact Hrow|lia]].
    destruct (stride - 1) as [|m] eqn:Em.
    + (* one line per entity: no value columns *)
      assert (stride = 1) as Hs1 by lia. rewrite Hs1 in *. clear Hs1.
      cbn [seq map connect_all bind connect] in *.
      inversion IH as [IH']. rewrite IH'. f_equal. f_equal.
      destruct row as [|x [|? ?]]; try discriminate Hrow. reflexivity.
    + cbn [seq map connect_all] in *.
      set (cols := map (fun s => (nth s row d0, strided s stride rest)) (seq 2 m)).
      replace (map (fun s => nth s row d0 :: strided s stride rest) (seq 2 m))
        with (map (fun col : str * list str => fst col :: snd col) cols)
        by (unfold cols; rewrite map_map; reflexivity).
      replace (map (fun s => strided s stride rest) (seq 2 m)) with (map snd cols) in IH
        by (unfold cols; rewrite map_map; reflexivity).
      rewrite fold_connect_cons.
      2:{ unfold cols. apply Forall_forall. intros col Hc. apply in_map_iff in Hc.
          destruct Hc as [s [<- Hs]]. apply in_seq in Hs. cbn [snd].
          rewrite !(strided_length n stride rest) by (try assumption; lia). reflexivity. }
      destruct (fold_left (fun acc d => do a <- acc; connect a d) (map snd cols) (Ok (strided 1 stride rest)))
        as [t|e] eqn:Ef; [|discriminate IH].
      cbn [bind] in *.
      assert (length (strided 0 stride rest) = n) as L0 by (apply strided_length; [exact Hk|lia|exact Hrest]).
      assert (length t = n) as Ltn.
      { apply fold_connect_length in Ef.
        - rewrite Ef. apply strided_length; [exact Hk|lia|exact Hrest].
        - unfold cols. apply Forall_forall. intros col Hc. apply in_map_iff in Hc.
          destruct Hc as [col' [<- Hc]]. apply in_map_iff in Hc. destruct Hc as [s [<- Hs]].
          apply in_seq in Hs. cbn [snd].
          rewrite !(strided_length n stride rest) by (try assumption; lia). reflexivity. }
      assert (length (strided 0 stride rest) = length t) as Lt by lia.
      assert (zip_sp (strided 0 stride rest) t = rows_model stride rest) as Zt.
      { unfold connect in IH. destruct t as [|t0 t'].
        - injection IH as IH'. rewrite <- IH'. simpl in Lt.
          destruct (strided 0 stride rest); [reflexivity|discriminate Lt].
        - rewrite Lt, Nat.eqb_refl in IH. injection IH as IH'. exact IH'. }
      unfold connect. cbn [length]. rewrite Lt, Nat.eqb_refl. cbn [zip_sp]. rewrite Zt.
      f_equal. f_equal.
      rewrite join_fold.
      unfold cols. rewrite map_map. cbn [fst].
      rewrite <- (nth_seq_row row d0) at 3. rewrite Hrow.
      replace stride with (Datatypes.S (Datatypes.S m)) by lia.
      cbn [seq map]. rewrite <- !seq_shift. rewrite !map_map. cbn [join].
      destruct (map (fun x => nth (Datatypes.S (Datatypes.S x)) row d0) (seq 0 m)); reflexivity.
Qed.

(* _parse_res with the re-joining of the value lines as femio writes it *)
Section Written.
  Variable V : Type.
  Variable vparse : str -> option V.

  Definition parse_section_written (len_data : nat) (lines0 : list str) : result (list (str * table V)) :=
    let lines := map strip lines0 in
    let count_lines := take_while (fun l => negb (is_name_line l)) lines in
    let cne := length count_lines in
    do counts <- mapM parse_ints count_lines;
    let component_nums := concat counts in
    let nv := length component_nums in
    let names := slice cne (cne + nv) lines in
    let raw := skipn (cne + nv) lines in
    if Nat.eqb len_data 0 then Err "division by zero"
    else
      let stride := Nat.div (length raw) len_data in
      if negb (Nat.eqb (stride * len_data) (length raw)) then Err "res file format not supported."
      else if Nat.eqb stride 0 then Err "slice step cannot be zero"
      else
        do formatted <- rows_as_written stride raw;
        read_vars V vparse (map split_sp formatted) 1 (combine names component_nums).

  Theorem parse_section_written_eq : forall len_data lines0,
    parse_section_written len_data lines0 = parse_section V vparse len_data lines0.
  Proof.
    intros len_data lines0. unfold parse_section_written, parse_section.
    destruct (mapM parse_ints _) as [counts|]; [|reflexivity]. cbn [bind].
    destruct (Nat.eqb len_data 0); [reflexivity|].
    set (raw := skipn _ (map strip lines0)).
    destruct (Nat.eqb (length raw / len_data * len_data) (length raw)) eqn:E; [|reflexivity].
    cbn [negb]. destruct (Nat.eqb (length raw / len_data) 0) eqn:E0; [reflexivity|].
    apply Nat.eqb_eq in E. apply Nat.eqb_neq in E0.
    rewrite (rows_as_written_ok len_data (length raw / len_data) raw); [|lia|lia].
    cbn [bind]. unfold rows_model. rewrite map_map. reflexivity.
  Qed.
End Written.
