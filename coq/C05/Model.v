(* C05 — native npy cache.  Part B: directory / save / read / crash model.
   Definitions only; proofs are in Proofs.v, statements in Props.v.
   The ordered file effects of FEMData.save (full and mesh-only branch), the
   sentinel tests of read_directory and the file names read_npy_directory
   looks up are regenerated from /repo by translate/c05_effects.py into
   gen/SaveCfg.v on every run.  (Part A, the key scheme, is in KeyModel.v.) *)
From Coq Require Import Ascii String List Bool Arith ZArith.
Import ListNotations.
Open Scope string_scope.

(* ---------- components of a FEMData as the cache sees them ---------- *)
Inductive comp := CNodes | CElements | CNodal | CElemental | CConstraints | CSettings.

Definition comp_eqb (a b : comp) : bool :=
  match a, b with
  | CNodes, CNodes | CElements, CElements | CNodal, CNodal
  | CElemental, CElemental | CConstraints, CConstraints | CSettings, CSettings => true
  | _, _ => false
  end.

Definition all_comps : list comp :=
  [CNodes; CElements; CNodal; CElemental; CConstraints; CSettings].

Definition mesh_comp (c : comp) : bool :=
  match c with CNodes | CElements => true | _ => false end.

(* A snapshot: the payload of each component, None = the collection is empty
   (FEMAttributes.save / FEMElementalAttribute.save return early on len 0).
   Payloads are opaque content identities. *)
Record snap := Snap { g_nodes : option Z; g_elements : option Z; g_nodal : option Z;
                      g_elemental : option Z; g_constraints : option Z; g_settings : option Z }.

Definition get (c : comp) (d : snap) : option Z :=
  match c with
  | CNodes => g_nodes d | CElements => g_elements d | CNodal => g_nodal d
  | CElemental => g_elemental d | CConstraints => g_constraints d | CSettings => g_settings d
  end.

Definition mk_snap (f : comp -> option Z) : snap :=
  Snap (f CNodes) (f CElements) (f CNodal) (f CElemental) (f CConstraints) (f CSettings).

Definition optZ_eqb (a b : option Z) : bool :=
  match a, b with
  | None, None => true
  | Some x, Some y => Z.eqb x y
  | _, _ => false
  end.

Definition snap_eqb (a b : snap) : bool :=
  forallb (fun c => optZ_eqb (get c a) (get c b)) all_comps.

(* nodes and elements always exist in a FEMData that can be saved *)
Definition wf_snap (d : snap) : bool :=
  match g_nodes d, g_elements d with Some _, Some _ => true | _, _ => false end.

(* what loading a complete save of d must return: everything, or the mesh
   only when save_mesh_only=True *)
Definition img (d : snap) (mesh_only : bool) : snap :=
  mk_snap (fun c => if mesh_only && negb (mesh_comp c) then None else get c d).

(* ---------- directory ---------- *)
Inductive content := Blank | Data (z : Z).
Definition dir := list (string * content).

Fixpoint dget (f : string) (dr : dir) : option content :=
  match dr with
  | [] => None
  | (g, c) :: r => if String.eqb f g then Some c else dget f r
  end.

Fixpoint drm (f : string) (dr : dir) : dir :=
  match dr with
  | [] => []
  | (g, c) :: r => if String.eqb f g then drm f r else (g, c) :: drm f r
  end.

Definition dset (f : string) (c : content) (dr : dir) : dir := (f, c) :: drm f dr.

Definition has (f : string) (dr : dir) : bool :=
  match dget f dr with Some _ => true | None => false end.

(* np.load of an npz file: an empty / blank file carries no data *)
Definition load_file (dr : dir) (f : string) : option Z :=
  match dget f dr with Some (Data z) => Some z | _ => None end.

(* ---------- primitive file effects; a crash point is a prefix of them ---- *)
Inductive prim :=
| PWrite (f : string) (c : content)     (* np.savez creates / replaces f *)
| PTouch (f : string)                   (* Path.touch: creates an empty file, keeps an existing one *)
| PUnlink (f : string).                 (* Path.unlink of an existing file *)

Definition apply1 (p : prim) (dr : dir) : dir :=
  match p with
  | PWrite f c => dset f c dr
  | PTouch f => if has f dr then dr else dset f Blank dr
  | PUnlink f => drm f dr
  end.

Definition apply_all (ps : list prim) (dr : dir) : dir :=
  fold_left (fun d p => apply1 p d) ps dr.

(* ---------- the translated save program ---------- *)
Inductive sstep :=
| SWr (f : string) (c : comp) (skip_empty : bool)
      (* X.save(dir/f): np.savez of component c; when skip_empty, nothing
         happens for an empty collection *)
| STouch (f : string)                   (* (dir/f).touch() *)
| SRm (f : string)                      (* unlink f if it exists *)
| SRmGlob (pre suf : string).           (* for p in dir.glob(pre*suf): p.unlink() *)

Definition suffixb (suf s : string) : bool :=
  let n := String.length s - String.length suf in
  Nat.leb (String.length suf) (String.length s) && String.eqb (substring n (String.length suf) s) suf.

Definition glob_match (pre suf f : string) : bool :=
  prefix pre f && suffixb suf f && Nat.leb (String.length pre + String.length suf) (String.length f).

(* ord: the order in which glob enumerates the matching names (os.scandir
   order, arbitrary): a parameter of the model *)
Definition step_prims (ord : list string -> list string) (d : snap) (s : sstep) (dr : dir)
  : list prim :=
  match s with
  | SWr f c skip =>
      match get c d with
      | Some z => [PWrite f (Data z)]
      | None => if skip then [] else [PWrite f Blank]
      end
  | STouch f => [PTouch f]
  | SRm f => if has f dr then [PUnlink f] else []
  | SRmGlob pre suf => map PUnlink (ord (filter (glob_match pre suf) (map fst dr)))
  end.

(* all primitive effects of running the steps from directory dr *)
Fixpoint trace (ord : list string -> list string) (d : snap) (ss : list sstep) (dr : dir)
  : list prim :=
  match ss with
  | [] => []
  | s :: r => let ps := step_prims ord d s dr in ps ++ trace ord d r (apply_all ps dr)
  end.

Record save_cfg := {
  steps_full : list sstep;               (* FEMData.save(dir) *)
  steps_mesh : list sstep;               (* FEMData.save(dir, save_mesh_only=True) *)
  read_sentinel : string;                (* read_directory: load the cache iff this exists *)
  resave_sentinel : string;              (* read_directory: obj.save(dir) unless this exists *)
  load_names : list (comp * string);     (* files read_npy_directory looks up *)
  resave_mesh_read : bool;               (* read_directory(read_mesh_only=True) also does obj.save(dir)
                                            (of the mesh-only object it parsed) *)
  glob_order : list string -> list string (* enumeration order of Path.glob (not translated:
                                             the theorems hold for every order) *)
}.

Definition with_order (cfg : save_cfg) (ord : list string -> list string) : save_cfg :=
  {| steps_full := steps_full cfg; steps_mesh := steps_mesh cfg;
     read_sentinel := read_sentinel cfg; resave_sentinel := resave_sentinel cfg;
     load_names := load_names cfg; resave_mesh_read := resave_mesh_read cfg; glob_order := ord |}.

(* an enumeration returns exactly the matching names (repetitions are harmless) *)
Definition order_ok (ord : list string -> list string) : Prop :=
  forall l x, In x (ord l) <-> In x l.

Definition steps (cfg : save_cfg) (mesh_only : bool) : list sstep :=
  if mesh_only then steps_mesh cfg else steps_full cfg.

(* crash = None: the save runs to completion; Some k: the process dies after
   k primitive file effects *)
Definition do_save (cfg : save_cfg) (d : snap) (mesh_only : bool) (crash : option nat) (dr : dir) : dir :=
  let tr := trace (glob_order cfg) d (steps cfg mesh_only) dr in
  apply_all (match crash with None => tr | Some k => firstn k tr end) dr.

Definition lookup_name (c : comp) (l : list (comp * string)) : option string :=
  match find (fun x => comp_eqb c (fst x)) l with Some x => Some (snd x) | None => None end.

Definition load_comp (cfg : save_cfg) (dr : dir) (c : comp) : option Z :=
  match lookup_name c (load_names cfg) with
  | Some f => load_file dr f
  | None => None
  end.

(* read_npy_directory: KeyError (None) when nodes or elements are missing *)
Definition load (cfg : save_cfg) (dr : dir) : option snap :=
  match load_comp cfg dr CNodes, load_comp cfg dr CElements with
  | Some _, Some _ => Some (mk_snap (load_comp cfg dr))
  | _, _ => None
  end.

(* read_npy_directory(dir, read_mesh_only=m): nodes and elements only when m *)
Definition load_m (cfg : save_cfg) (m : bool) (dr : dir) : option snap :=
  if m then match load cfg dr with Some x => Some (img x true) | None => None end
  else load cfg dr.

(* ---------- histories ---------- *)
Inductive op :=
| Read (m : bool)                                 (* read_directory(type, dir, read_mesh_only=m) *)
| ReadCrash (m : bool) (k : nat)                  (* ... dying k effects into its obj.save *)
| Save (d : snap) (mesh_only : bool)
| SaveCrash (d : snap) (mesh_only : bool) (k : nat).

Inductive result :=
| RNone                                           (* the op returns nothing *)
| RParsed                                         (* the source files were parsed *)
| RLoaded (r : option snap).                      (* the cache was loaded (None: it raised) *)

(* without sentinel the source is parsed (the mesh only when m) and the parsed
   object is saved with save_mesh_only=False *)
Definition do_read (cfg : save_cfg) (src : snap) (m : bool) (crash : option nat) (dr : dir)
  : result * dir :=
  if has (read_sentinel cfg) dr then (RLoaded (load_m cfg m dr), dr)
  else (RParsed,
        if has (resave_sentinel cfg) dr then dr
        else if m then (if resave_mesh_read cfg then do_save cfg (img src true) false crash dr else dr)
             else do_save cfg src false crash dr).

Definition step (cfg : save_cfg) (src : snap) (o : op) (dr : dir) : result * dir :=
  match o with
  | Read m => do_read cfg src m None dr
  | ReadCrash m k => do_read cfg src m (Some k) dr
  | Save d m => (RNone, do_save cfg d m None dr)
  | SaveCrash d m k => (RNone, do_save cfg d m (Some k) dr)
  end.

(* results of every op and the directory after each op *)
Fixpoint run (cfg : save_cfg) (src : snap) (h : list op) (dr : dir) : list (result * dir) :=
  match h with
  | [] => []
  | o :: r => let '(res, dr') := step cfg src o dr in (res, dr') :: run cfg src r dr'
  end.

Definition wf_op (o : op) : bool :=
  match o with
  | Save d _ | SaveCrash d _ _ => wf_snap d
  | _ => true
  end.

(* ---------- the property, as a checker over (history, results) ----------
   must   : the last thing that happened to the directory is a save that ran
            to completion, so the next read has to load it;
   allowed: the data that were saved completely (or possibly so) since then
            and may therefore legitimately be loaded.
   The checker does not mention the configuration: it is the specification.
   It is evaluated on the model's results (theorem) and on the
   implementation's results (oracle). *)
Record spec := { must : bool; allowed : list snap }.

Definition init_spec : spec := {| must := false; allowed := [] |}.

Definition check_read (src : snap) (m : bool) (r : result) (st : spec) : bool :=
  match r with
  | RLoaded (Some x) => existsb (fun y => snap_eqb x (if m then img y true else y)) (allowed st)
  | RLoaded None => false
  | RParsed => negb (must st)
  | RNone => false
  end.

Definition spec_step (src : snap) (o : op) (r : result) (st : spec) : option spec :=
  match o with
  | Save d m => Some {| must := true; allowed := [img d m] |}
  | SaveCrash d m _ => Some {| must := false; allowed := img d m :: allowed st |}
  (* whatever a read re-saves, only the FULL parse of the source may later be
     served from the cache (a mesh-only read must not leave a mesh-only cache
     that a later full read would load) *)
  | Read m =>
      if check_read src m r st
      then Some (match r with
                 | RParsed => {| must := false; allowed := img src false :: allowed st |}
                 | _ => st
                 end)
      else None
  | ReadCrash m _ =>
      if check_read src m r st
      then Some (match r with
                 | RParsed => {| must := false; allowed := img src false :: allowed st |}
                 | _ => st
                 end)
      else None
  end.

(* index of the first op whose result violates the property *)
Fixpoint spec_run (src : snap) (h : list op) (rs : list result) (st : spec) (i : nat) : option nat :=
  match h, rs with
  | [], _ => None
  | o :: h', r :: rs' =>
      match spec_step src o r st with
      | Some st' => spec_run src h' rs' st' (S i)
      | None => Some i
      end
  | _ :: _, [] => Some i
  end.

Definition conforms (cfg : save_cfg) (src : snap) (h : list op) (dr0 : dir) : bool :=
  match spec_run src h (map fst (run cfg src h dr0)) init_spec 0 with
  | None => true
  | Some _ => false
  end.

(* ---------- the static check of a configuration ---------- *)
Inductive aval := AUnknown | ANone | AMatch (c : comp).
Inductive sstat := SUnknown | SAbsent | SPresent.
Record astate := { a_sent : sstat; a_files : list (string * aval) }.

Definition upd_files (p : string -> bool) (fn : aval -> aval) (l : list (string * aval))
  : list (string * aval) :=
  map (fun x => (fst x, if p (fst x) then fn (snd x) else snd x)) l.

Definition wr_aval (c : comp) (skip : bool) (v : aval) : aval :=
  if skip then
    match v with
    | ANone => AMatch c
    | AMatch c' => if comp_eqb c c' then AMatch c else AUnknown
    | AUnknown => AUnknown
    end
  else AMatch c.

Definition transfer (sent : string) (s : sstep) (a : astate) : astate :=
  match s with
  | SWr f c skip =>
      {| a_sent := if String.eqb f sent then (if skip then SUnknown else SPresent) else a_sent a;
         a_files := upd_files (String.eqb f) (wr_aval c skip) (a_files a) |}
  | STouch f =>
      {| a_sent := if String.eqb f sent then SPresent else a_sent a;
         a_files := a_files a |}
  | SRm f =>
      {| a_sent := if String.eqb f sent then SAbsent else a_sent a;
         a_files := upd_files (String.eqb f) (fun _ => ANone) (a_files a) |}
  | SRmGlob pre suf =>
      {| a_sent := if glob_match pre suf sent then SAbsent else a_sent a;
         a_files := upd_files (glob_match pre suf) (fun _ => ANone) (a_files a) |}
  end.

Definition sent_absent (a : astate) : bool :=
  match a_sent a with SAbsent => true | _ => false end.

(* a step with several primitive effects may be interrupted in its middle *)
Definition mid_ok (s : sstep) (a : astate) : bool :=
  match s with
  | SRmGlob _ _ => sent_absent a
  | _ => true
  end.

Definition aval_eqb (x y : aval) : bool :=
  match x, y with
  | AUnknown, AUnknown | ANone, ANone => true
  | AMatch c, AMatch c' => comp_eqb c c'
  | _, _ => false
  end.

Fixpoint alookup (f : string) (l : list (string * aval)) : aval :=
  match l with
  | [] => AUnknown
  | (g, v) :: r => if String.eqb f g then v else alookup f r
  end.

(* after the last step: sentinel present and every file the loader looks up
   holds the matching component of the data just saved (or nothing, for the
   components a mesh-only save does not write) *)
Definition final_ok (names : list (comp * string)) (mesh_only : bool) (a : astate) : bool :=
  match a_sent a with
  | SPresent =>
      forallb (fun x => aval_eqb (alookup (snd x) (a_files a))
                                 (if mesh_only && negb (mesh_comp (fst x)) then ANone
                                  else AMatch (fst x))) names
  | _ => false
  end.

(* every state strictly inside the save has no sentinel; the state after the
   last step is complete *)
Fixpoint check_from (sent : string) (names : list (comp * string)) (mesh_only : bool)
         (a : astate) (ss : list sstep) : bool :=
  match ss with
  | [] => final_ok names mesh_only a
  | s :: r =>
      let a' := transfer sent s a in
      mid_ok s a
      && match r with
         | [] => final_ok names mesh_only a'
         | _ => sent_absent a' && check_from sent names mesh_only a' r
         end
  end.

Fixpoint nodup_str (l : list string) : bool :=
  match l with
  | [] => true
  | x :: r => negb (existsb (String.eqb x) r) && nodup_str r
  end.

Definition init_astate (names : list (comp * string)) : astate :=
  {| a_sent := SUnknown; a_files := map (fun x => (snd x, AUnknown)) names |}.

Definition steps_ok (sent : string) (names : list (comp * string)) (mesh_only : bool)
           (ss : list sstep) : bool :=
  match ss with
  | [] => false
  | _ => check_from sent names mesh_only (init_astate names) ss
  end.

Definition names_ok (cfg : save_cfg) : bool :=
  forallb (fun c => existsb (fun x => comp_eqb c (fst x)) (load_names cfg)) all_comps
  && nodup_str (map snd (load_names cfg))
  && negb (existsb (String.eqb (read_sentinel cfg)) (map snd (load_names cfg))).

Definition cfg_ok (cfg : save_cfg) : bool :=
  String.eqb (read_sentinel cfg) (resave_sentinel cfg)
  && names_ok cfg
  && steps_ok (read_sentinel cfg) (load_names cfg) false (steps_full cfg)
  && steps_ok (read_sentinel cfg) (load_names cfg) true (steps_mesh cfg)
  && negb (resave_mesh_read cfg).

(* ---------- witness search (used when cfg_ok is false) ---------- *)
(* three reference data sets: A has every component, B has no elemental data
   and no constraints, S (the parsed source) has no constraints *)
Definition snapA : snap := Snap (Some 10%Z) (Some 11%Z) (Some 12%Z) (Some 13%Z) (Some 14%Z) (Some 15%Z).
Definition snapB : snap := Snap (Some 20%Z) (Some 21%Z) (Some 22%Z) None None (Some 25%Z).
Definition snapS : snap := Snap (Some 30%Z) (Some 31%Z) (Some 32%Z) None None (Some 35%Z).

Definition crash_points : list nat := seq 0 12.

Definition base_ops : list op :=
  [Read false; Read true; Save snapA false; Save snapB false; Save snapB true; Save snapA true]
  ++ map (SaveCrash snapA false) crash_points
  ++ map (SaveCrash snapB false) crash_points
  ++ map (SaveCrash snapB true) crash_points
  ++ map (ReadCrash false) crash_points.

Definition histories (n : nat) : list (list op) :=
  (fix go (n : nat) : list (list op) :=
     match n with
     | O => [[Read false]]
     | S k => flat_map (fun o => map (cons o) (go k)) base_ops
     end) n.

(* the first history of at most n+1 ops (the last one a Read) from the empty
   cache that violates the property, shortest first *)
Definition find_violation (cfg : save_cfg) (n : nat) : option (list op) :=
  find (fun h => negb (conforms cfg snapS h []))
       (flat_map histories (seq 0 (S n))).

(* one witness per family of histories, so that distinct causes are reported
   separately *)
Definition family (pre : list op) : list (list op) :=
  map (fun o => (pre ++ [o; Read false])%list) base_ops.

Definition find_in (cfg : save_cfg) (hs : list (list op)) : option (list op) :=
  find (fun h => negb (conforms cfg snapS h [])) hs.

(* ---------- comparison with observations of the implementation ---------- *)
Definition content_eqb (a b : content) : bool :=
  match a, b with
  | Blank, Blank => true
  | Data x, Data y => Z.eqb x y
  | _, _ => false
  end.

Definition sub_dir (a b : dir) : bool :=
  forallb (fun x => match dget (fst x) b with
                    | Some c => content_eqb (snd x) c
                    | None => false
                    end) a.

Definition dir_eqb (a b : dir) : bool := sub_dir a b && sub_dir b a.

Definition result_eqb (a b : result) : bool :=
  match a, b with
  | RNone, RNone | RParsed, RParsed | RLoaded None, RLoaded None => true
  | RLoaded (Some x), RLoaded (Some y) => snap_eqb x y
  | _, _ => false
  end.

Definition is_blank (c : content) : bool := match c with Blank => true | _ => false end.

(* a data file that carries no data is, for every read, the same as no file:
   listings are compared up to such files *)
Definition norm_dir (cfg : save_cfg) (dr : dir) : dir :=
  filter (fun x => negb (is_blank (snd x)
                         && existsb (String.eqb (fst x)) (map snd (load_names cfg)))) dr.

(* When the save program removes files by a glob, which of them are already
   gone after a crash in the middle of that loop depends on the enumeration
   order of the file system.  States without sentinel are then compared by
   the number of remaining files only (the cache is invalid in both). *)
Definition has_glob (cfg : save_cfg) : bool :=
  existsb (fun s => match s with SRmGlob _ _ => true | _ => false end)
          (steps_full cfg ++ steps_mesh cfg).

Definition state_eqb (cfg : save_cfg) (d d' : dir) : bool :=
  dir_eqb (norm_dir cfg d) (norm_dir cfg d')
  || (has_glob cfg && negb (has (read_sentinel cfg) d) && negb (has (read_sentinel cfg) d')
      && Nat.eqb (length d) (length d')).

(* index of the first op after which model and observation differ *)
Fixpoint first_diff (cfg : save_cfg) (i : nat) (m o : list (result * dir)) : option nat :=
  match m, o with
  | [], [] => None
  | (r, d) :: m', (r', d') :: o' =>
      if result_eqb r r' && state_eqb cfg d d'
      then first_diff cfg (S i) m' o' else Some i
  | _, _ => Some i
  end.

Definition agree (cfg : save_cfg) (src : snap) (h : list op) (o : list (result * dir)) : option nat :=
  first_diff cfg 0 (run cfg src h []) o.

(* the property evaluated on observed results *)
Definition oracle (src : snap) (h : list op) (o : list (result * dir)) : option nat :=
  spec_run src h (map fst o) init_spec 0.
