(* C05 — proofs for the directory / save / read / crash model (Model.v). *)
From Coq Require Import Ascii String List Bool Arith ZArith Lia.
Import ListNotations.
From FV.C05 Require Import Model.
Open Scope string_scope.

(* ---------- small facts ---------- *)
Lemma comp_eqb_eq : forall a b, comp_eqb a b = true -> a = b.
Proof. destruct a, b; simpl; intros H; try reflexivity; discriminate. Qed.

Lemma comp_eqb_refl : forall a, comp_eqb a a = true.
Proof. destruct a; reflexivity. Qed.

Lemma optZ_eqb_refl : forall a, optZ_eqb a a = true.
Proof. destruct a; simpl; auto using Z.eqb_refl. Qed.

Lemma snap_eqb_refl : forall a, snap_eqb a a = true.
Proof. intros a. unfold snap_eqb. apply forallb_forall. intros c _. apply optZ_eqb_refl. Qed.

Lemma optZ_eqb_eq : forall a b, optZ_eqb a b = true -> a = b.
Proof.
  destruct a, b; simpl; intros H; try discriminate; auto.
  apply Z.eqb_eq in H. subst. reflexivity.
Qed.

Lemma snap_eqb_eq : forall a b, snap_eqb a b = true -> a = b.
Proof.
  intros a b H. unfold snap_eqb in H. rewrite forallb_forall in H.
  assert (E : forall c, get c a = get c b).
  { intros c. apply optZ_eqb_eq. apply H. destruct c; simpl; tauto. }
  destruct a, b.
  pose proof (E CNodes) as E1. pose proof (E CElements) as E2. pose proof (E CNodal) as E3.
  pose proof (E CElemental) as E4. pose proof (E CConstraints) as E5. pose proof (E CSettings) as E6.
  simpl in *. congruence.
Qed.

Lemma get_mk_snap : forall f c, get c (mk_snap f) = f c.
Proof. intros f c. destruct c; reflexivity. Qed.

Lemma mk_snap_ext : forall f g, (forall c, f c = g c) -> mk_snap f = mk_snap g.
Proof. intros f g H. unfold mk_snap. rewrite !H. reflexivity. Qed.

(* ---------- directory ---------- *)
Lemma dget_drm_eq : forall f dr, dget f (drm f dr) = None.
Proof.
  intros f dr. induction dr as [|[g c] r IH]; simpl; auto.
  destruct (String.eqb f g) eqn:E; simpl; auto. rewrite E. exact IH.
Qed.

Lemma dget_drm_neq : forall f g dr, String.eqb g f = false -> dget g (drm f dr) = dget g dr.
Proof.
  intros f g dr N. induction dr as [|[h c] r IH]; simpl; auto.
  destruct (String.eqb f h) eqn:E.
  - apply String.eqb_eq in E. subst h. rewrite N. exact IH.
  - simpl. destruct (String.eqb g h); auto.
Qed.

Lemma dget_dset : forall f c g dr,
  dget g (dset f c dr) = if String.eqb g f then Some c else dget g dr.
Proof.
  intros. unfold dset. simpl. destruct (String.eqb g f) eqn:E; auto.
  apply dget_drm_neq. exact E.
Qed.

Lemma dget_drm : forall f g dr,
  dget g (drm f dr) = if String.eqb g f then None else dget g dr.
Proof.
  intros. destruct (String.eqb g f) eqn:E.
  - apply String.eqb_eq in E. subst. apply dget_drm_eq.
  - apply dget_drm_neq. exact E.
Qed.

Lemma dget_apply1 : forall p g dr,
  dget g (apply1 p dr) =
  match p with
  | PWrite f c => if String.eqb g f then Some c else dget g dr
  | PTouch f => if String.eqb g f then (match dget g dr with Some x => Some x | None => Some Blank end)
                else dget g dr
  | PUnlink f => if String.eqb g f then None else dget g dr
  end.
Proof.
  intros [f c|f|f] g dr; simpl.
  - apply dget_dset.
  - unfold has. destruct (String.eqb g f) eqn:E.
    + apply String.eqb_eq in E. subst g.
      destruct (dget f dr) eqn:D; auto. rewrite dget_dset, String.eqb_refl. reflexivity.
    + destruct (dget f dr); auto. rewrite dget_dset, E. reflexivity.
  - apply dget_drm.
Qed.

Lemma load_file_apply1 : forall p g dr,
  load_file (apply1 p dr) g =
  match p with
  | PWrite f c => if String.eqb g f then (match c with Data z => Some z | Blank => None end)
                  else load_file dr g
  | PTouch f => load_file dr g
  | PUnlink f => if String.eqb g f then None else load_file dr g
  end.
Proof.
  intros p g dr. unfold load_file. rewrite dget_apply1.
  destruct p as [f c|f|f]; destruct (String.eqb g f); auto;
    try (destruct c; reflexivity); destruct (dget g dr) as [[|z]|]; auto.
Qed.

Lemma has_apply1 : forall p g dr,
  has g (apply1 p dr) =
  match p with
  | PWrite f _ => if String.eqb g f then true else has g dr
  | PTouch f => if String.eqb g f then true else has g dr
  | PUnlink f => if String.eqb g f then false else has g dr
  end.
Proof.
  intros p g dr. unfold has. rewrite dget_apply1.
  destruct p as [f c|f|f]; destruct (String.eqb g f); auto.
  destruct (dget g dr); auto.
Qed.

Lemma apply_all_app : forall a b dr, apply_all (a ++ b) dr = apply_all b (apply_all a dr).
Proof. intros. unfold apply_all. apply fold_left_app. Qed.

Lemma dget_in : forall g dr, dget g dr <> None -> In g (map fst dr).
Proof.
  intros g dr. induction dr as [|[h c] r IH]; simpl; intros H; [congruence|].
  destruct (String.eqb g h) eqn:E.
  - apply String.eqb_eq in E. auto.
  - right. auto.
Qed.

(* unlinking a list of names *)
Lemma dget_unlinks : forall L g dr,
  dget g (apply_all (map PUnlink L) dr) = if existsb (String.eqb g) L then None else dget g dr.
Proof.
  induction L as [|f L IH]; intros g dr; simpl; auto.
  rewrite IH. rewrite dget_drm.
  destruct (String.eqb g f); simpl; auto.
  destruct (existsb (String.eqb g) L); auto.
Qed.

Lemma existsb_eqb_in : forall g L, existsb (String.eqb g) L = true <-> In g L.
Proof.
  intros g L. rewrite existsb_exists. split.
  - intros [x [Hx E]]. apply String.eqb_eq in E. subst. exact Hx.
  - intros H. exists g. split; auto. apply String.eqb_refl.
Qed.

Lemma dget_glob : forall ord, order_ok ord -> forall pre suf g dr,
  dget g (apply_all (map PUnlink (ord (filter (glob_match pre suf) (map fst dr)))) dr)
  = if glob_match pre suf g then None else dget g dr.
Proof.
  intros ord OO pre suf g dr. rewrite dget_unlinks.
  destruct (existsb (String.eqb g) (ord (filter (glob_match pre suf) (map fst dr)))) eqn:E.
  - apply existsb_eqb_in in E. apply (proj1 (OO _ _)) in E. apply filter_In in E. destruct E as [_ E].
    rewrite E. reflexivity.
  - destruct (glob_match pre suf g) eqn:G; auto.
    destruct (dget g dr) eqn:D; auto.
    assert (In g (map fst dr)) by (apply dget_in; congruence).
    assert (In g (filter (glob_match pre suf) (map fst dr))) by (apply filter_In; auto).
    apply (proj2 (OO _ _)) in H0. apply existsb_eqb_in in H0. congruence.
Qed.

Lemma has_unlinks_absent : forall L g dr,
  has g dr = false -> has g (apply_all (map PUnlink L) dr) = false.
Proof.
  intros L g dr H. unfold has in *. rewrite dget_unlinks.
  destruct (existsb (String.eqb g) L); auto.
Qed.

(* ---------- soundness of the static check ---------- *)
Section Static.
Variable sent : string.
Variable names : list (comp * string).
Variable d : snap.
Variable ord : list string -> list string.
Hypothesis OO : order_ok ord.

Definition sound_sent (s : sstat) (dr : dir) : Prop :=
  match s with
  | SUnknown => True
  | SAbsent => has sent dr = false
  | SPresent => has sent dr = true
  end.

Definition sound_v (dr : dir) (f : string) (v : aval) : Prop :=
  match v with
  | AUnknown => True
  | ANone => load_file dr f = None
  | AMatch c => load_file dr f = get c d
  end.

Definition sound (a : astate) (dr : dir) : Prop :=
  sound_sent (a_sent a) dr /\ Forall (fun x => sound_v dr (fst x) (snd x)) (a_files a).

Lemma Forall_upd_files : forall (p : string -> bool) (fn : aval -> aval) (l : list (string * aval))
    (Q : string * aval -> Prop),
  (forall x, In x l -> Q (fst x, if p (fst x) then fn (snd x) else snd x)) ->
  Forall Q (upd_files p fn l).
Proof.
  intros. unfold upd_files. apply Forall_forall. intros y Hy.
  apply in_map_iff in Hy. destruct Hy as [x [E Hx]]. subst y. auto.
Qed.

Lemma transfer_sound : forall s a dr,
  sound a dr -> sound (transfer sent s a) (apply_all (step_prims ord d s dr) dr).
Proof.
  intros s a dr [Hs Hf]. rewrite Forall_forall in Hf.
  destruct s as [f c skip|f|f|pre suf]; simpl.
  - (* SWr *)
    destruct (get c d) as [z|] eqn:G; [|destruct skip]; simpl.
    + split; simpl.
      * rewrite (String.eqb_sym f sent).
        destruct (String.eqb sent f) eqn:E.
        -- destruct skip; simpl; auto.
           unfold has. rewrite dget_dset, E. reflexivity.
        -- destruct (a_sent a); simpl in *; auto; unfold has in *; rewrite dget_dset, E; auto.
      * apply Forall_upd_files. intros [g v] Hx. simpl.
        specialize (Hf _ Hx). simpl in Hf.
        rewrite (String.eqb_sym f g).
        destruct (String.eqb g f) eqn:E.
        -- assert (L : load_file (dset f (Data z) dr) g = get c d).
           { unfold load_file. rewrite dget_dset, E. auto. }
           unfold wr_aval. destruct skip; simpl; auto.
           destruct v as [| |c']; simpl; auto.
           destruct (comp_eqb c c') eqn:C; simpl; auto.
        -- destruct v; simpl in *; auto; unfold load_file in *; rewrite dget_dset, E; auto.
    + (* empty, skipped: nothing happens *)
      split; simpl.
      * destruct (String.eqb f sent); simpl; auto.
      * apply Forall_upd_files. intros [g v] Hx. simpl.
        specialize (Hf _ Hx). simpl in Hf.
        destruct (String.eqb f g) eqn:E; auto.
        unfold wr_aval. destruct v as [| |c']; simpl in *; auto.
        -- congruence.
        -- destruct (comp_eqb c c') eqn:C; simpl; auto.
           apply comp_eqb_eq in C. subst c'. exact Hf.
    + (* empty, written as an empty file *)
      split; simpl.
      * rewrite (String.eqb_sym f sent).
        destruct (String.eqb sent f) eqn:E; simpl.
        -- unfold has. rewrite dget_dset, E. reflexivity.
        -- destruct (a_sent a); simpl in *; auto; unfold has in *; rewrite dget_dset, E; auto.
      * apply Forall_upd_files. intros [g v] Hx. simpl.
        specialize (Hf _ Hx). simpl in Hf.
        rewrite (String.eqb_sym f g).
        destruct (String.eqb g f) eqn:E.
        -- simpl. unfold load_file. rewrite dget_dset, E. auto.
        -- destruct v; simpl in *; auto; unfold load_file in *; rewrite dget_dset, E; auto.
  - (* STouch *)
    split; simpl.
    + rewrite (String.eqb_sym f sent).
      pose proof (has_apply1 (PTouch f) sent dr) as H. simpl in H.
      destruct (String.eqb sent f) eqn:E; simpl.
      * rewrite H. reflexivity.
      * destruct (a_sent a); simpl in *; auto; rewrite H; auto.
    + apply Forall_forall. intros [g v] Hx. specialize (Hf _ Hx). simpl in *.
      pose proof (load_file_apply1 (PTouch f) g dr) as H. simpl in H.
      destruct v; simpl in *; auto; rewrite H; auto.
  - (* SRm *)
    assert (D : forall g, dget g (apply_all (if has f dr then [PUnlink f] else []) dr)
                          = if String.eqb g f then None else dget g dr).
    { intros g. destruct (has f dr) eqn:H; simpl.
      - apply dget_drm.
      - destruct (String.eqb g f) eqn:E; auto.
        apply String.eqb_eq in E. subst. unfold has in H. destruct (dget f dr); congruence. }
    split; simpl.
    + rewrite (String.eqb_sym f sent).
      destruct (String.eqb sent f) eqn:E; simpl.
      * unfold has. rewrite D, E. reflexivity.
      * destruct (a_sent a); simpl in *; auto; unfold has in *; rewrite D, E; auto.
    + apply Forall_upd_files. intros [g v] Hx. simpl.
      specialize (Hf _ Hx). simpl in Hf.
      rewrite (String.eqb_sym f g).
      destruct (String.eqb g f) eqn:E; simpl.
      * unfold load_file. rewrite D, E. reflexivity.
      * destruct v; simpl in *; auto; unfold load_file in *; rewrite D, E; auto.
  - (* SRmGlob *)
    split; simpl.
    + destruct (glob_match pre suf sent) eqn:E; simpl.
      * unfold has. rewrite (dget_glob ord OO), E. reflexivity.
      * destruct (a_sent a); simpl in *; auto; unfold has in *; rewrite (dget_glob ord OO), E; auto.
    + apply Forall_upd_files. intros [g v] Hx. simpl.
      specialize (Hf _ Hx). simpl in Hf.
      destruct (glob_match pre suf g) eqn:E; simpl.
      * unfold load_file. rewrite (dget_glob ord OO), E. reflexivity.
      * destruct v; simpl in *; auto; unfold load_file in *; rewrite (dget_glob ord OO), E; auto.
Qed.

(* interrupting a step in its middle *)
Lemma prims_prefix : forall s a dr k,
  mid_ok s a = true -> sound a dr -> k < length (step_prims ord d s dr) ->
  let dr' := apply_all (firstn k (step_prims ord d s dr)) dr in
  dr' = dr \/ has sent dr' = false.
Proof.
  intros s a dr k M [Hs _] K.
  destruct s as [f c skip|f|f|pre suf]; simpl in *.
  - left. destruct (get c d); [|destruct skip]; simpl in K;
      try (exfalso; lia); (assert (k = 0) by lia); subst; reflexivity.
  - left. assert (k = 0) by lia. subst. reflexivity.
  - left. destruct (has f dr); simpl in K; try (exfalso; lia).
    assert (k = 0) by lia. subst. reflexivity.
  - right. unfold sent_absent in M. destruct (a_sent a); try discriminate.
    simpl in Hs. rewrite firstn_map. apply has_unlinks_absent. exact Hs.
Qed.

Variable mesh_only : bool.

Definition final_state (dr : dir) : Prop :=
  exists a, final_ok names mesh_only a = true /\ sound a dr.

Lemma check_from_prefix : forall ss a dr k,
  check_from sent names mesh_only a ss = true -> sound a dr -> ss <> [] ->
  let dr' := apply_all (firstn k (trace ord d ss dr)) dr in
  dr' = dr \/ has sent dr' = false \/ final_state dr'.
Proof.
  induction ss as [|s r IH]; intros a dr k C S NE; [congruence|].
  simpl in C. apply andb_true_iff in C. destruct C as [M C].
  simpl trace. cbv zeta.
  set (ps := step_prims ord d s dr) in *.
  rewrite firstn_app, apply_all_app.
  destruct (Nat.le_gt_cases (length ps) k) as [L|L].
  - rewrite (firstn_all2 ps L).
    pose proof (transfer_sound s a dr S) as S1. fold ps in S1.
    destruct r as [|s2 r2].
    + right. right. simpl. rewrite firstn_nil. simpl.
      exists (transfer sent s a). auto.
    + apply andb_true_iff in C. destruct C as [A C].
      specialize (IH _ _ (k - length ps) C S1 ltac:(congruence)).
      cbv zeta in IH. destruct IH as [E|[E|E]].
      * right. left. rewrite E. unfold sent_absent in A.
        destruct S1 as [S1 _]. destruct (a_sent (transfer sent s a)); try discriminate. exact S1.
      * right. left. exact E.
      * right. right. exact E.
  - replace (k - length ps) with 0 by lia. simpl firstn at 2. simpl apply_all at 1.
    destruct (prims_prefix s a dr k M S L) as [E|E]; fold ps in E.
    + left. exact E.
    + right. left. exact E.
Qed.

Lemma check_from_full : forall ss a dr,
  check_from sent names mesh_only a ss = true -> sound a dr -> ss <> [] ->
  final_state (apply_all (trace ord d ss dr) dr).
Proof.
  induction ss as [|s r IH]; intros a dr C S NE; [congruence|].
  simpl in C. apply andb_true_iff in C. destruct C as [M C].
  simpl trace. rewrite apply_all_app.
  pose proof (transfer_sound s a dr S) as S1.
  destruct r as [|s2 r2].
  - simpl. exists (transfer sent s a). auto.
  - apply andb_true_iff in C. destruct C as [A C].
    apply (IH _ _ C S1). congruence.
Qed.

Lemma init_sound : forall dr, sound (init_astate names) dr.
Proof.
  intros dr. split; simpl; auto.
  apply Forall_forall. intros x Hx. apply in_map_iff in Hx.
  destruct Hx as [y [E _]]. subst x. simpl. exact I.
Qed.

Lemma alookup_sound : forall l dr f,
  Forall (fun x => sound_v dr (fst x) (snd x)) l -> sound_v dr f (alookup f l).
Proof.
  induction l as [|[g v] r IH]; intros dr f H; simpl; auto.
  inversion H; subst. simpl in *.
  destruct (String.eqb f g) eqn:E; auto.
  apply String.eqb_eq in E. subst. assumption.
Qed.

Lemma aval_eqb_eq : forall x y, aval_eqb x y = true -> x = y.
Proof.
  destruct x, y; simpl; intros H; try discriminate; auto.
  apply comp_eqb_eq in H. subst. reflexivity.
Qed.

Lemma final_state_sent : forall dr, final_state dr -> has sent dr = true.
Proof.
  intros dr [a [F [S _]]]. unfold final_ok in F.
  destruct (a_sent a); try discriminate. exact S.
Qed.

Lemma final_state_file : forall dr c f, final_state dr -> In (c, f) names ->
  load_file dr f = if mesh_only && negb (mesh_comp c) then None else get c d.
Proof.
  intros dr c f [a [F [_ S]]] Hin. unfold final_ok in F.
  destruct (a_sent a); try discriminate.
  rewrite forallb_forall in F. specialize (F _ Hin). simpl in F.
  apply aval_eqb_eq in F.
  pose proof (alookup_sound _ dr f S) as H. rewrite F in H.
  destruct (mesh_only && negb (mesh_comp c)); simpl in H; exact H.
Qed.
End Static.

(* ---------- histories ---------- *)
Lemma existsb_find : forall (A : Type) (p : A -> bool) l,
  existsb p l = true -> exists x, find p l = Some x.
Proof.
  induction l as [|y l IH]; simpl; intros H; [discriminate|].
  destruct (p y); eauto.
Qed.

Section History.
Variable cfg : save_cfg.
Hypothesis OK : cfg_ok cfg = true.
Hypothesis OO : order_ok (glob_order cfg).
Variable src : snap.
Hypothesis WFsrc : wf_snap src = true.

Let sent := read_sentinel cfg.

Lemma ok_parts :
  resave_sentinel cfg = sent /\ names_ok cfg = true
  /\ steps_ok sent (load_names cfg) false (steps_full cfg) = true
  /\ steps_ok sent (load_names cfg) true (steps_mesh cfg) = true
  /\ resave_mesh_read cfg = false.
Proof.
  pose proof OK as H. unfold cfg_ok in H.
  apply andb_true_iff in H. destruct H as [H H5]. apply negb_true_iff in H5.
  apply andb_true_iff in H. destruct H as [H H4].
  apply andb_true_iff in H. destruct H as [H H3].
  apply andb_true_iff in H. destruct H as [H H2].
  apply String.eqb_eq in H. unfold sent. auto.
Qed.

Lemma steps_ok_m : forall m, steps_ok sent (load_names cfg) m (steps cfg m) = true.
Proof. intros m. destruct ok_parts as [_ [_ [F [M _]]]]. destruct m; simpl; assumption. Qed.

Definition complete (d : snap) (m : bool) (dr : dir) : Prop :=
  has sent dr = true /\ load cfg dr = Some (img d m).

Lemma final_complete : forall d m dr, wf_snap d = true ->
  final_state sent (load_names cfg) d m dr -> complete d m dr.
Proof.
  intros d m dr WF F. split; [eapply final_state_sent; eauto|].
  assert (LC : forall c, load_comp cfg dr c = if m && negb (mesh_comp c) then None else get c d).
  { intros c. unfold load_comp, lookup_name.
    destruct ok_parts as [_ [N _]]. unfold names_ok in N.
    apply andb_true_iff in N. destruct N as [N _]. apply andb_true_iff in N. destruct N as [N _].
    rewrite forallb_forall in N.
    assert (Hc : In c all_comps) by (destruct c; simpl; tauto).
    specialize (N c Hc). apply existsb_find in N. destruct N as [[c' f] Fd].
    rewrite Fd. simpl. apply find_some in Fd. destruct Fd as [Hin E]. simpl in E.
    apply comp_eqb_eq in E. subst c'.
    eapply final_state_file; eauto. }
  unfold load. rewrite !LC. simpl. rewrite !andb_false_r.
  unfold wf_snap in WF. simpl.
  destruct (g_nodes d) eqn:GN; try discriminate. destruct (g_elements d) eqn:GE; try discriminate.
  f_equal. unfold img. apply mk_snap_ext. exact LC.
Qed.

Lemma save_complete : forall d m dr, wf_snap d = true ->
  complete d m (do_save cfg d m None dr).
Proof.
  intros d m dr WF. apply final_complete; auto. unfold do_save.
  pose proof (steps_ok_m m) as S. unfold steps_ok in S.
  destruct (steps cfg m) eqn:E; [discriminate|]. rewrite <- E in *.
  eapply check_from_full; eauto using init_sound. congruence.
Qed.

Lemma save_crash : forall d m k dr, wf_snap d = true ->
  let dr' := do_save cfg d m (Some k) dr in
  dr' = dr \/ has sent dr' = false \/ complete d m dr'.
Proof.
  intros d m k dr WF. unfold do_save.
  pose proof (steps_ok_m m) as S. unfold steps_ok in S.
  destruct (steps cfg m) eqn:E; [discriminate|]. rewrite <- E in *.
  destruct (check_from_prefix sent (load_names cfg) d (glob_order cfg) OO m (steps cfg m) _ dr k S (init_sound _ _ _ dr))
    as [H|[H|H]]; [congruence| | |]; auto.
  right. right. apply final_complete; auto.
Qed.

(* the invariant linking the directory to the specification state *)
Definition Inv (st : spec) (dr : dir) : Prop :=
  (has sent dr = true -> exists x, In x (allowed st) /\ load cfg dr = Some x)
  /\ (must st = true -> has sent dr = true).

Lemma inv_grow : forall st dr x,
  Inv st dr -> Inv {| must := false; allowed := x :: allowed st |} dr.
Proof.
  intros st dr x [A _]. split; simpl; [|discriminate].
  intros H. destruct (A H) as [y [Hy L]]. exists y. auto.
Qed.

Lemma inv_after_crash : forall st dr dr' d m,
  Inv st dr -> (dr' = dr \/ has sent dr' = false \/ complete d m dr') ->
  Inv {| must := false; allowed := img d m :: allowed st |} dr'.
Proof.
  intros st dr dr' d m I [E|[E|[E1 E2]]].
  - subst. apply inv_grow. exact I.
  - split; simpl; [|discriminate]. congruence.
  - split; simpl; [|discriminate]. intros _. exists (img d m). auto.
Qed.

Lemma read_step : forall st dr m crash,
  Inv st dr ->
  let '(r, dr') := do_read cfg src m crash dr in
  check_read src m r st = true
  /\ Inv (match r with
          | RParsed => {| must := false; allowed := img src false :: allowed st |}
          | _ => st
          end) dr'.
Proof.
  intros st dr m crash I. unfold do_read. fold sent.
  destruct ok_parts as [RS [_ [_ [_ RM]]]]. rewrite RS, RM.
  destruct (has sent dr) eqn:H.
  - destruct I as [A B]. destruct (A H) as [x [Hx L]]. unfold load_m. rewrite L.
    destruct m; simpl; (split; [|split; auto]);
      apply existsb_exists; exists x; (split; [exact Hx|apply snap_eqb_refl]).
  - simpl. split.
    + destruct I as [_ B]. destruct (must st) eqn:Mu; auto. specialize (B eq_refl). congruence.
    + destruct m; [apply inv_grow; exact I|].
      destruct crash as [k|].
      * apply (inv_after_crash st dr); auto. apply save_crash. exact WFsrc.
      * split; simpl; [|discriminate]. intros _. exists (img src false). split; auto.
        apply (save_complete src false dr WFsrc).
Qed.

Lemma run_conforms : forall h st dr i,
  Inv st dr -> forallb wf_op h = true ->
  spec_run src h (map fst (run cfg src h dr)) st i = None.
Proof.
  induction h as [|o h IH]; intros st dr i I WF; simpl; auto.
  simpl in WF. apply andb_true_iff in WF. destruct WF as [WFo WF].
  destruct o as [rm|rm k|d m|d m k]; simpl.
  - pose proof (read_step st dr rm None I) as R.
    destruct (do_read cfg src rm None dr) as [r dr'] eqn:E. destruct R as [C I'].
    simpl. rewrite C. apply IH; auto.
  - pose proof (read_step st dr rm (Some k) I) as R.
    destruct (do_read cfg src rm (Some k) dr) as [r dr'] eqn:E. destruct R as [C I'].
    simpl. rewrite C. apply IH; auto.
  - apply IH; auto. simpl in WFo.
    destruct (save_complete d m dr WFo) as [C1 C2].
    split; simpl; auto. intros _. exists (img d m). auto.
  - apply IH; auto. simpl in WFo.
    apply (inv_after_crash st dr); auto. apply save_crash. exact WFo.
Qed.

Lemma init_inv : forall dr, has sent dr = false -> Inv init_spec dr.
Proof. intros dr H. split; simpl; congruence. Qed.

Theorem crash_safe_generic : forall h dr0,
  has sent dr0 = false -> forallb wf_op h = true -> conforms cfg src h dr0 = true.
Proof.
  intros h dr0 H WF. unfold conforms.
  rewrite (run_conforms h init_spec dr0 0 (init_inv dr0 H) WF). reflexivity.
Qed.

(* saving then reading loads exactly what was saved, whatever the directory
   held before (sentinel included) *)
Theorem save_then_read_generic : forall d m dr0, wf_snap d = true ->
  map fst (run cfg src [Save d m; Read false] dr0) = [RNone; RLoaded (Some (img d m))].
Proof.
  intros d m dr0 WF. simpl.
  destruct (save_complete d m dr0 WF) as [C1 C2].
  unfold do_read, load_m. fold sent. rewrite C1, C2. reflexivity.
Qed.

(* the second read of a source directory is served from the cache and
   returns what parsing returned *)
Theorem cache_transparent_generic : forall dr0, has sent dr0 = false ->
  map fst (run cfg src [Read false; Read false] dr0) = [RParsed; RLoaded (Some (img src false))].
Proof.
  intros dr0 H. simpl. unfold do_read at 1. fold sent. rewrite H.
  destruct ok_parts as [RS _]. rewrite RS, H. simpl.
  destruct (save_complete src false dr0 WFsrc) as [C1 C2].
  unfold do_read, load_m. fold sent. rewrite C1, C2. reflexivity.
Qed.

(* a mesh-only read of a source directory does not leave a cache that a later
   full read would be served from: the full read parses (and caches) the
   source, and only then reads are served from the cache - the mesh-only ones
   with the mesh part of it *)
Theorem mesh_read_then_full_generic : forall dr0, has sent dr0 = false ->
  map fst (run cfg src [Read true; Read false; Read false; Read true] dr0)
  = [RParsed; RParsed; RLoaded (Some (img src false)); RLoaded (Some (img (img src false) true))].
Proof.
  intros dr0 H. simpl. unfold do_read at 1. fold sent. rewrite H.
  destruct ok_parts as [RS [_ [_ [_ RM]]]]. rewrite RS, H, RM. simpl.
  unfold do_read at 1. fold sent. rewrite H, RS, H. simpl.
  destruct (save_complete src false dr0 WFsrc) as [C1 C2].
  unfold do_read, load_m. fold sent. rewrite C1, C2. simpl. rewrite C1. reflexivity.
Qed.
End History.

(* img of a full save is the data itself *)
Lemma img_full : forall d, img d false = d.
Proof. intros [a b c e f g]. reflexivity. Qed.

Lemma cfg_ok_with_order : forall cfg ord, cfg_ok (with_order cfg ord) = cfg_ok cfg.
Proof. reflexivity. Qed.

Lemma order_ok_id : order_ok (fun l => l).
Proof. intros l x. tauto. Qed.
