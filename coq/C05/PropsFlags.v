(* C05 — the history theorems with read_directory's cache options as part of
   the history: "every sequence of read_directory / save calls" includes calls
   with read_npy=False and / or save=False (FlagModel.v).  Statements only. *)
From Coq Require Import String List ZArith.
Import ListNotations.
From FV.C05 Require Import Model Proofs FlagModel FlagProofs Props.
Open Scope string_scope.

(* C05_crash_safe for histories over
     read_directory(read_mesh_only, read_npy, save) / the same interrupted at any
     file effect of its re-save / save / interrupted save:
   a read with read_npy=True parses (only when no completed save is the last
   event) or loads exactly the image of a completely saved data set; a read
   with read_npy=False always parses and is never served from the cache. *)
Theorem C05_crash_safe_flags :
  forall cfg, cfg_ok cfg = true -> order_ok (glob_order cfg) ->
  forall src h dr0, wf_snap src = true -> forallb wf_fop h = true ->
    has (read_sentinel cfg) dr0 = false ->
    fconforms cfg src h dr0 = true.
Proof. intros cfg OK OO src h dr0 WF WH H. exact (crash_safe_flags cfg OK OO src WF h dr0 H WH). Qed.

(* the development with options extends the one without conservatively: on
   histories with the default options run, specification and verdict coincide *)
Theorem C05_flags_conservative :
  forall cfg src h dr0,
    frun cfg src (map embed h) dr0 = run cfg src h dr0
    /\ fconforms cfg src (map embed h) dr0 = conforms cfg src h dr0.
Proof. intros. split; [apply frun_embed|apply fconforms_embed]. Qed.

(* read_npy=False (with or without save, mesh-only or not) after a completed
   save parses and leaves the cache intact: the next default read loads exactly
   what was saved, whatever the directory held before *)
Theorem C05_forced_parse_keeps_cache :
  forall cfg, cfg_ok cfg = true -> order_ok (glob_order cfg) ->
  forall src d m sv mr dr0, wf_snap d = true ->
    map fst (frun cfg src [FSave d m; FRead mr false sv; FRead false true true] dr0)
    = [RNone; RParsed; RLoaded (Some (img d m))].
Proof. intros cfg OK OO src d m sv mr dr0 WF. exact (forced_parse_keeps_cache cfg OK OO src d m sv mr dr0 WF). Qed.

(* save=False never writes *)
Theorem C05_nosave_read_writes_nothing :
  forall cfg src m npy crash dr, has (read_sentinel cfg) dr = false ->
    do_fread cfg src m npy false crash dr = (RParsed, dr).
Proof. intros cfg src. exact (nosave_read_writes_nothing cfg src). Qed.

(* non-vacuity: on the accepted example configuration a history mixing the
   options; the checker rejects a read_npy=False read that is served from the
   cache and a load after nothing but save=False reads *)
Example C05_example_flags_nontrivial :
  cfg_ok example_cfg = true
  /\ forallb wf_fop [FRead false true false; FRead false true true; FSaveCrash snapA false 3;
                     FRead false false true; FRead true true true] = true
  /\ map fst (frun example_cfg snapS [FRead false true false; FRead false true true; FSaveCrash snapA false 3;
                                      FRead false false true; FRead true true true] [])
     = [RParsed; RParsed; RNone; RParsed; RLoaded (Some (img snapS true))]
  /\ fspec_run snapS [FSave snapA false; FRead false false true]
               [RNone; RLoaded (Some snapA)] init_spec 0 = Some 1
  /\ fspec_run snapS [FRead false true false; FRead false true true]
               [RParsed; RLoaded (Some snapS)] init_spec 0 = Some 1.
Proof. vm_compute. repeat split; reflexivity. Qed.

Print Assumptions C05_crash_safe_flags.
Print Assumptions C05_flags_conservative.
Print Assumptions C05_forced_parse_keeps_cache.
Print Assumptions C05_nosave_read_writes_nothing.
