(* C05 — proofs about histories with read_npy / save options (FlagModel.v). *)
From Coq Require Import String List Bool Arith ZArith.
Import ListNotations.
From FV.C05 Require Import Model Proofs FlagModel.
Set Default Timeout 120.

(* the default options give Model.v's semantics and specification back *)
Lemma do_fread_default : forall cfg src m crash dr,
  do_fread cfg src m true true crash dr = do_read cfg src m crash dr.
Proof. intros. unfold do_fread, do_read. simpl. reflexivity. Qed.

Lemma frun_embed : forall cfg src h dr, frun cfg src (map embed h) dr = run cfg src h dr.
Proof.
  intros cfg src h. induction h as [|o h IH]; intros dr; simpl; auto.
  assert (E : fstep cfg src (embed o) dr = step cfg src o dr).
  { destruct o; simpl; auto using do_fread_default. }
  rewrite E. destruct (step cfg src o dr) as [r dr']. rewrite IH. reflexivity.
Qed.

Lemma fspec_step_embed : forall src o r st,
  fspec_step src (embed o) r st = spec_step src o r st.
Proof.
  intros src o r st. destruct o as [m|m k|d m|d m k]; simpl; auto.
  - unfold check_read, fcheck_read, fafter_read. destruct r as [| |[x|]]; simpl; auto.
    rewrite orb_false_r. destruct (must st); simpl; auto.
  - unfold check_read, fcheck_read, fafter_read. destruct r as [| |[x|]]; simpl; auto.
    rewrite orb_false_r. destruct (must st); simpl; auto.
Qed.

Lemma fspec_run_embed : forall src h rs st i,
  fspec_run src (map embed h) rs st i = spec_run src h rs st i.
Proof.
  intros src h. induction h as [|o h IH]; intros rs st i; simpl; auto.
  destruct rs as [|r rs]; auto. rewrite fspec_step_embed.
  destruct (spec_step src o r st); auto.
Qed.

(* the flagged development extends Model.v's conservatively *)
Theorem fconforms_embed : forall cfg src h dr0,
  fconforms cfg src (map embed h) dr0 = conforms cfg src h dr0.
Proof.
  intros. unfold fconforms, conforms. rewrite frun_embed, fspec_run_embed. reflexivity.
Qed.

Section FlagHistory.
Variable cfg : save_cfg.
Hypothesis OK : cfg_ok cfg = true.
Hypothesis OO : order_ok (glob_order cfg).
Variable src : snap.
Hypothesis WFsrc : wf_snap src = true.

Lemma fread_step : forall st dr m npy sv crash,
  Inv cfg st dr ->
  let '(r, dr') := do_fread cfg src m npy sv crash dr in
  fcheck_read src m npy r st = true /\ Inv cfg (fafter_read src sv r st) dr'.
Proof.
  intros st dr m npy sv crash I. unfold do_fread.
  destruct (ok_parts cfg OK) as [RS [_ [_ [_ RM]]]]. rewrite RS, RM.
  destruct (has (read_sentinel cfg) dr) eqn:H.
  - (* a complete cache is there *)
    destruct npy; simpl.
    + destruct I as [A B]. destruct (A H) as [x [Hx L]]. unfold load_m. rewrite L.
      destruct m; simpl; (split; [|split; auto]);
        apply existsb_exists; exists x; (split; [exact Hx|apply snap_eqb_refl]).
    + (* read_npy=False: parse; the sentinel exists, nothing is written *)
      split; [apply orb_true_r|].
      assert (E : (if negb sv then dr else dr) = dr) by (destruct sv; reflexivity).
      rewrite E. unfold fafter_read.
      destruct (sv && negb (must st)); [apply inv_grow; exact I|exact I].
  - rewrite andb_false_r. simpl.
    assert (Mu : must st = false).
    { destruct I as [_ B]. destruct (must st) eqn:Mu; auto. specialize (B eq_refl). congruence. }
    split; [rewrite Mu; reflexivity|].
    unfold fafter_read. rewrite Mu. simpl. rewrite andb_true_r.
    destruct sv; simpl; [|exact I].
    destruct m; [apply inv_grow; exact I|].
    destruct crash as [k|].
    + apply (inv_after_crash cfg st dr); auto. apply (save_crash cfg OK OO). exact WFsrc.
    + split; simpl; [|discriminate]. intros _. exists (img src false). split; auto.
      apply (save_complete cfg OK OO src false dr WFsrc).
Qed.

Lemma frun_conforms : forall h st dr i,
  Inv cfg st dr -> forallb wf_fop h = true ->
  fspec_run src h (map fst (frun cfg src h dr)) st i = None.
Proof.
  induction h as [|o h IH]; intros st dr i I WF; simpl; auto.
  simpl in WF. apply andb_true_iff in WF. destruct WF as [WFo WF].
  destruct o as [rm npy sv|rm npy sv k|d m|d m k]; simpl.
  - pose proof (fread_step st dr rm npy sv None I) as R.
    destruct (do_fread cfg src rm npy sv None dr) as [r dr'] eqn:E. destruct R as [C I'].
    simpl. rewrite C. apply IH; auto.
  - pose proof (fread_step st dr rm npy sv (Some k) I) as R.
    destruct (do_fread cfg src rm npy sv (Some k) dr) as [r dr'] eqn:E. destruct R as [C I'].
    simpl. rewrite C. apply IH; auto.
  - apply IH; auto. simpl in WFo.
    destruct (save_complete cfg OK OO d m dr WFo) as [C1 C2].
    split; simpl; auto. intros _. exists (img d m). auto.
  - apply IH; auto. simpl in WFo.
    apply (inv_after_crash cfg st dr); auto. apply (save_crash cfg OK OO). exact WFo.
Qed.

Theorem crash_safe_flags : forall h dr0,
  has (read_sentinel cfg) dr0 = false -> forallb wf_fop h = true -> fconforms cfg src h dr0 = true.
Proof.
  intros h dr0 H WF. unfold fconforms.
  rewrite (frun_conforms h init_spec dr0 0 (init_inv cfg dr0 H) WF). reflexivity.
Qed.

(* read_npy=False always parses, and never disturbs a complete cache: the
   next default read still loads exactly what was saved *)
Theorem forced_parse_keeps_cache : forall d m sv mr dr0, wf_snap d = true ->
  map fst (frun cfg src [FSave d m; FRead mr false sv; FRead false true true] dr0)
  = [RNone; RParsed; RLoaded (Some (img d m))].
Proof.
  intros d m sv mr dr0 WF. simpl.
  destruct (save_complete cfg OK OO d m dr0 WF) as [C1 C2].
  destruct (ok_parts cfg OK) as [RS _].
  unfold do_fread at 1. simpl andb. cbv iota.
  rewrite RS, C1.
  assert (E : (if negb sv then do_save cfg d m None dr0 else do_save cfg d m None dr0)
              = do_save cfg d m None dr0) by (destruct sv; reflexivity).
  rewrite E. simpl. unfold do_fread, load_m. simpl andb. rewrite C1, C2. reflexivity.
Qed.

(* save=False never writes: reading a source directory with save=False any
   number of times parses every time and leaves the directory as it was *)
Theorem nosave_read_writes_nothing : forall m npy crash dr,
  has (read_sentinel cfg) dr = false ->
  do_fread cfg src m npy false crash dr = (RParsed, dr).
Proof.
  intros m npy crash dr H. unfold do_fread. rewrite H, andb_false_r. reflexivity.
Qed.
End FlagHistory.
