(* C05 — the two halves put together: what FEMData.save writes into each cache
   file and what read_npy_directory makes of the files it loads, on VALUES.

   Model.v treats the content of a cache file as an opaque identity (Z);
   KeyModel.v treats one npz file as an ordered dictionary key -> array.  Here
   a FEMData is its six components as values, `store` says which dictionary a
   content identity denotes, `comp_dict` is the dictionary FEMData.save hands to
   np.savez for each component, and `vload` is read_npy_directory applied to
   the dictionaries of the loaded files.  Definitions only. *)
From Coq Require Import String List Bool Arith ZArith.
Import ListNotations.
From FV.C05 Require Import Model KeyModel.
Open Scope string_scope.

Section Values.
Variable V : Type.                      (* arrays: opaque *)
Variable vtrue : V.                     (* np.array(True) *)
Variable truthy : V -> bool.            (* bool(v) *)

(* the six components of a FEMData.  nodal_data holds the entry 'NODE' that
   FEMData.__init__ inserts (it is saved and loaded like every other entry). *)
Record fem := Fem {
  v_nodes : attr V;                                (* self.nodes *)
  v_elements : eattr V;                            (* self.elements: type -> attribute *)
  v_nodal : list (string * attr V);                (* self.nodal_data *)
  v_elemental : list (string * eattr V);           (* self.elemental_data *)
  v_constraints : list (string * attr V);          (* self.constraints *)
  v_settings : dict V                              (* self.settings: np.savez(file, **settings) *)
}.

(* the dictionary np.savez receives for each component:
     self.nodes.save(f)           -> FEMAttribute.to_dict()            keys "ids", "data"
     self.elements.save(f)        -> FEMElementalAttribute.to_dict()   keys "<type>/ids", ...
     self.nodal_data.save(f)      -> FEMAttributes.to_dict()           keys "<name>/ids", ...
     self.elemental_data.save(f)  -> FEMAttributes.to_dict()           keys "<name>/<type>/ids", ...
     self.constraints.save(f)     -> FEMAttributes.to_dict()
     np.savez(f, **self.settings)                                       keys = setting names *)
Definition comp_dict (kc : key_cfg) (d : fem) (c : comp) : dict V :=
  match c with
  | CNodes => attr_to_dict vtrue kc None (v_nodes d)
  | CElements => elem_to_dict vtrue kc None (v_elements d)
  | CNodal => attrs_to_dict vtrue kc (v_nodal d)
  | CElemental => eattrs_to_dict vtrue kc (v_elemental d)
  | CConstraints => attrs_to_dict vtrue kc (v_constraints d)
  | CSettings => v_settings d
  end.

(* content identities: store z is the dictionary the identity z denotes.  A
   snapshot s describes the value d when every component identity denotes the
   dictionary of that component, and a component without identity (None: the
   collection is empty, its save() returns early) has the empty dictionary. *)
Variable store : Z -> dict V.

Definition linked (kc : key_cfg) (d : fem) (s : snap) : Prop :=
  forall c, match get c s with
            | Some z => store z = comp_dict kc d c
            | None => comp_dict kc d c = []
            end.

(* the dictionary read_npy_directory gets for a component: np.load of the file
   it looked up, nothing when there is no file / the file carries no data
   (FEMAttributes.load returns an empty collection, the `in dict_files` guards) *)
Definition decode_comp (s : snap) (c : comp) : dict V :=
  match get c s with Some z => store z | None => [] end.

(* read_npy_directory on what the loaded files contain:
     nodes          = FEMAttribute.load('NODE', ...)            -> from_dict
     elements       = FEMElementalAttribute.load('ELEMENT', ...) -> from_dict
     nodal_data     .update(FEMAttributes.load(...))
     elemental_data .update(FEMAttributes.load(..., is_elemental=True))
     constraints    .update(FEMAttributes.load(...))
     settings       .update(dict(np.load(...))) *)
Definition vload (kc : key_cfg) (s : snap) : res fem :=
  bind (attr_from_dict truthy kc (decode_comp s CNodes)) (fun n =>
  bind (elem_from_dict truthy kc (decode_comp s CElements)) (fun e =>
  bind (attrs_from_dict truthy kc (decode_comp s CNodal)) (fun nd =>
  bind (eattrs_from_dict truthy kc (decode_comp s CElemental)) (fun ed =>
  bind (attrs_from_dict truthy kc (decode_comp s CConstraints)) (fun cs =>
  Ok (Fem n e nd ed cs (decode_comp s CSettings))))))).

(* what a read returns, on values *)
Definition vresult (kc : key_cfg) (r : result) : option (res fem) :=
  match r with
  | RLoaded (Some s) => Some (vload kc s)
  | _ => None
  end.

(* well-formed FEMData: element types of the table, distinct; names distinct
   and without '/' *)
Definition wf_fem (kc : key_cfg) (d : fem) : bool :=
  wf_eattr kc (v_elements d)
  && wf_names (map fst (v_nodal d))
  && wf_names (map fst (v_elemental d))
  && forallb (fun ne => wf_eattr kc (snd ne)) (v_elemental d)
  && wf_names (map fst (v_constraints d)).

(* the loaded object has the same entries as the saved one: collections are
   finite maps (same labels, every loaded entry is an entry that was saved) *)
Definition same_attrs (c' c : list (string * attr V)) : Prop :=
  (forall n, In n (map fst c') <-> In n (map fst c)) /\ (forall n a, In (n, a) c' -> In (n, a) c).

Definition same_eattr (e' e : eattr V) : Prop :=
  (forall t, In t (map fst e') <-> In t (map fst e)) /\ (forall t a, In (t, a) e' -> In (t, a) e).

Definition same_eattrs (c' c : list (string * eattr V)) : Prop :=
  (forall n, In n (map fst c') <-> In n (map fst c))
  /\ (forall n e', In (n, e') c' -> exists e, In (n, e) c /\ same_eattr e' e).

Definition same_fem (d' d : fem) : Prop :=
  v_nodes d' = v_nodes d
  /\ same_eattr (v_elements d') (v_elements d)
  /\ same_attrs (v_nodal d') (v_nodal d)
  /\ same_eattrs (v_elemental d') (v_elemental d)
  /\ same_attrs (v_constraints d') (v_constraints d)
  /\ v_settings d' = v_settings d.

(* the mesh part (save_mesh_only=True / read_mesh_only=True) *)
Definition mesh_of (d : fem) : fem :=
  Fem (v_nodes d) (v_elements d) [] [] [] [].
End Values.

Arguments Fem {V}.
Arguments v_nodes {V}.
Arguments v_elements {V}.
Arguments v_nodal {V}.
Arguments v_elemental {V}.
Arguments v_constraints {V}.
Arguments v_settings {V}.
Arguments comp_dict {V}.
Arguments linked {V}.
Arguments decode_comp {V}.
Arguments vload {V}.
Arguments vresult {V}.
Arguments wf_fem {V}.
Arguments same_fem {V}.
Arguments same_attrs {V}.
Arguments same_eattr {V}.
Arguments same_eattrs {V}.
Arguments mesh_of {V}.

(* ---------- comparison with observations of the implementation ----------
   One saved object: the labels of its collections (in iteration order) and,
   for every cache file, the keys np.load lists.  The model's dictionaries of a
   tagged object with these labels must have exactly these keys, in order. *)
Definition tag_attr (i : nat) (ts : bool) : attr nat := (2 * i, 2 * i + 1, ts).

Definition tag_attrs (names : list (string * bool)) : list (string * attr nat) :=
  map (fun it => (fst (snd it), tag_attr (fst it) (snd (snd it))))
      (combine (seq 0 (length names)) names).

Definition tag_eattr (types : list string) (ts : bool) : eattr nat :=
  map (fun it => (snd it, tag_attr (fst it) ts)) (combine (seq 0 (length types)) types).

Definition tagged_fem (nodes_ts : bool) (types : list string) (nodal : list (string * bool))
           (elemental : list (string * list string)) (constraints : list (string * bool))
           (settings : list string) : fem nat :=
  Fem (tag_attr 0 nodes_ts) (tag_eattr types false) (tag_attrs nodal)
      (map (fun ne => (fst ne, tag_eattr (snd ne) false)) elemental)
      (tag_attrs constraints) (map (fun k => (k, 0)) settings).

Definition file_keys_case (kc : key_cfg) (d : fem nat) (c : comp) (keys : list string) : bool :=
  strs_eqb (keys_of (comp_dict 1 kc d c)) keys.
