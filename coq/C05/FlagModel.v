(* C05 — histories in which read_directory is called with ANY combination of
   its cache options:
     read_directory(type, dir, read_mesh_only=m, read_npy=npy, save=sv)
       if read_npy and sentinel.exists():  return read_npy_directory(dir, read_mesh_only=m)
       obj = parse
       if save and not read_mesh_only and not sentinel.exists():  obj.save(dir)
   Model.v fixes read_npy = save = True (the defaults); here both are arguments
   of the op.  Everything else (directory, save program, crash points, load) is
   Model.v's.  Definitions only. *)
From Coq Require Import String List Bool Arith ZArith.
Import ListNotations.
From FV.C05 Require Import Model.

Inductive fop :=
| FRead (m npy sv : bool)                      (* read_mesh_only, read_npy, save *)
| FReadCrash (m npy sv : bool) (k : nat)       (* ... dying k file effects into its obj.save *)
| FSave (d : snap) (mesh_only : bool)
| FSaveCrash (d : snap) (mesh_only : bool) (k : nat).

Definition do_fread (cfg : save_cfg) (src : snap) (m npy sv : bool) (crash : option nat) (dr : dir)
  : result * dir :=
  if npy && has (read_sentinel cfg) dr then (RLoaded (load_m cfg m dr), dr)
  else (RParsed,
        if negb sv then dr
        else if has (resave_sentinel cfg) dr then dr
        else if m then (if resave_mesh_read cfg then do_save cfg (img src true) false crash dr else dr)
             else do_save cfg src false crash dr).

Definition fstep (cfg : save_cfg) (src : snap) (o : fop) (dr : dir) : result * dir :=
  match o with
  | FRead m npy sv => do_fread cfg src m npy sv None dr
  | FReadCrash m npy sv k => do_fread cfg src m npy sv (Some k) dr
  | FSave d m => (RNone, do_save cfg d m None dr)
  | FSaveCrash d m k => (RNone, do_save cfg d m (Some k) dr)
  end.

Fixpoint frun (cfg : save_cfg) (src : snap) (h : list fop) (dr : dir) : list (result * dir) :=
  match h with
  | [] => []
  | o :: r => let '(res, dr') := fstep cfg src o dr in (res, dr') :: frun cfg src r dr'
  end.

Definition wf_fop (o : fop) : bool :=
  match o with
  | FSave d _ | FSaveCrash d _ _ => wf_snap d
  | _ => true
  end.

(* the property as a checker over (history, results); it does not mention the
   configuration.  read_npy=False asks for the source: the read must parse, at
   any time.  With read_npy=True it is Model.check_read.  A parse may re-save
   the source (only when save=True and no completed save is the last event). *)
Definition fcheck_read (src : snap) (m npy : bool) (r : result) (st : spec) : bool :=
  match r with
  | RLoaded (Some x) => npy && existsb (fun y => snap_eqb x (if m then img y true else y)) (allowed st)
  | RLoaded None => false
  | RParsed => negb (must st) || negb npy
  | RNone => false
  end.

Definition fafter_read (src : snap) (sv : bool) (r : result) (st : spec) : spec :=
  match r with
  | RParsed => if sv && negb (must st)
               then {| must := false; allowed := img src false :: allowed st |}
               else st
  | _ => st
  end.

Definition fspec_step (src : snap) (o : fop) (r : result) (st : spec) : option spec :=
  match o with
  | FSave d m => Some {| must := true; allowed := [img d m] |}
  | FSaveCrash d m _ => Some {| must := false; allowed := img d m :: allowed st |}
  | FRead m npy sv | FReadCrash m npy sv _ =>
      if fcheck_read src m npy r st then Some (fafter_read src sv r st) else None
  end.

Fixpoint fspec_run (src : snap) (h : list fop) (rs : list result) (st : spec) (i : nat) : option nat :=
  match h, rs with
  | [], _ => None
  | o :: h', r :: rs' =>
      match fspec_step src o r st with
      | Some st' => fspec_run src h' rs' st' (S i)
      | None => Some i
      end
  | _ :: _, [] => Some i
  end.

Definition fconforms (cfg : save_cfg) (src : snap) (h : list fop) (dr0 : dir) : bool :=
  match fspec_run src h (map fst (frun cfg src h dr0)) init_spec 0 with
  | None => true
  | Some _ => false
  end.

(* Model.v's ops are the ops with the default options *)
Definition embed (o : op) : fop :=
  match o with
  | Read m => FRead m true true
  | ReadCrash m k => FReadCrash m true true k
  | Save d m => FSave d m
  | SaveCrash d m k => FSaveCrash d m k
  end.

(* ---------- comparison with observations of the implementation ---------- *)
Definition fagree (cfg : save_cfg) (src : snap) (h : list fop) (o : list (result * dir)) : option nat :=
  first_diff cfg 0 (frun cfg src h []) o.

Definition foracle (src : snap) (h : list fop) (o : list (result * dir)) : option nat :=
  fspec_run src h (map fst o) init_spec 0.
