(* C05 — proofs about settings through the cache (SetModel.v). *)
From Coq Require Import String List Bool Arith ZArith.
Import ListNotations.
From FV.C05 Require Import SetModel.
Open Scope string_scope.

Lemma slookup_stored : forall k st, slookup k (stored st) = option_map LArr (slookup k st).
Proof.
  intros k st. induction st as [|[x v] r IH]; simpl; auto.
  destruct (String.eqb k x); auto.
Qed.

Lemma slookup_supdate_eq : forall (A : Type) k (v : A) l, slookup k (supdate k v l) = Some v.
Proof.
  intros A k v l. induction l as [|[x w] r IH]; simpl.
  - rewrite String.eqb_refl. reflexivity.
  - destruct (String.eqb k x) eqn:E; simpl; rewrite E; auto.
Qed.

Lemma slookup_supdate_neq : forall (A : Type) k k' (v : A) l, String.eqb k' k = false ->
  slookup k' (supdate k v l) = slookup k' l.
Proof.
  intros A k k' v l N. induction l as [|[x w] r IH]; simpl.
  - rewrite N. reflexivity.
  - destruct (String.eqb k x) eqn:E; simpl.
    + apply String.eqb_eq in E. subst x. rewrite N. reflexivity.
    + destruct (String.eqb k' x); auto.
Qed.

Section Load.
Variable render : pyv -> string.

(* every key of the loaded settings, for every settings dictionary *)
Theorem settings_roundtrip : forall st k,
  slookup k (roundtrip render st) = expected render st k.
Proof.
  intros st k. unfold roundtrip, load_settings, expected.
  rewrite (slookup_stored "solution_type" st).
  destruct (slookup "solution_type" st) as [v|] eqn:S; simpl option_map; cbv iota.
  - rewrite slookup_supdate_eq.
    destruct (String.eqb k "solution_type") eqn:K.
    + apply String.eqb_eq in K. subst k. rewrite slookup_supdate_eq, S.
      unfold is_none_str. destruct (String.eqb (str_of render v) "None"); reflexivity.
    + rewrite slookup_supdate_neq by exact K. apply slookup_stored.
  - rewrite (slookup_stored "solution_type" st), S. simpl option_map. cbv iota.
    destruct (String.eqb k "solution_type") eqn:K.
    + apply String.eqb_eq in K. subst k. rewrite slookup_supdate_eq, S. reflexivity.
    + rewrite slookup_supdate_neq by exact K. apply slookup_stored.
Qed.

(* exactness: a solution type that is None or a string (other than "None")
   comes back as the same Python object; every other setting comes back as the
   array np.savez made of it *)
Theorem settings_exact : forall st, plain_solution_type st = true ->
  slookup "solution_type" (roundtrip render st) = option_map LPy (slookup "solution_type" st)
  /\ forall k, String.eqb k "solution_type" = false ->
       slookup k (roundtrip render st) = option_map LArr (slookup k st).
Proof.
  intros st P. split.
  - rewrite settings_roundtrip. unfold expected, plain_solution_type in *. simpl String.eqb. cbv iota.
    destruct (slookup "solution_type" st) as [[|s|z|sh z]|]; try discriminate; simpl.
    + reflexivity.
    + apply negb_true_iff in P. rewrite P. reflexivity.
  - intros k K. rewrite settings_roundtrip. unfold expected. rewrite K. reflexivity.
Qed.

(* no stored solution type: the loader's default *)
Theorem settings_default : forall st, slookup "solution_type" st = None ->
  slookup "solution_type" (roundtrip render st) = Some (LPy (PStr "STATIC")).
Proof.
  intros st N. rewrite settings_roundtrip. unfold expected. simpl String.eqb. cbv iota.
  rewrite N. reflexivity.
Qed.

(* the one value that does not survive: the STRING "None" comes back as None *)
Theorem settings_none_string_lost :
  slookup "solution_type" (roundtrip render [("solution_type", PStr "None")]) = Some (LPy PNone).
Proof. reflexivity. Qed.
End Load.
