(* C05, part A — the key scheme of the npz files:
     FEMAttribute.to_dict / from_dict                 "<prefix>/ids", "<prefix>/data"
     FEMElementalAttribute.to_dict / from_dict        "<prefix>/<type>/ids|data"
     FEMAttributes.to_dict / from_dict                "<name>/ids|data", "<name>/<type>/ids|data"
   How keys are recognised and grouped on load (substring test or equality on
   a split part) and the table ELEMENT_TYPES are translated from /repo into
   gen/KeyCfg.v.  Definitions only. *)
From Coq Require Import Ascii String List Bool Arith.
Import ListNotations.
Open Scope string_scope.

(* ---------- strings ---------- *)
Definition is_slash (c : ascii) : bool := Ascii.eqb c "/"%char.

Fixpoint no_slash (s : string) : bool :=
  match s with
  | EmptyString => true
  | String c r => negb (is_slash c) && no_slash r
  end.

(* Python: needle in s *)
Fixpoint substrb (needle s : string) : bool :=
  if prefix needle s then true
  else match s with
       | EmptyString => false
       | String _ r => substrb needle r
       end.

(* Python: s.split('/') — never empty *)
Fixpoint split_slash (s : string) : list string :=
  match s with
  | EmptyString => [EmptyString]
  | String c r =>
      if is_slash c then EmptyString :: split_slash r
      else match split_slash r with
           | [] => [String c EmptyString]
           | h :: t => String c h :: t
           end
  end.

Definition first_seg (k : string) : string := hd EmptyString (split_slash k).
Definition last_seg (k : string) : string := last (split_slash k) EmptyString.

(* FEMElementalAttribute._split_dict_data._extract_element_type *)
Definition extract_type (k : string) : option string :=
  match split_slash k with
  | [a; _] => Some a
  | [_; b; _] => Some b
  | _ => None
  end.

(* numpy.unique on a list of strings: sorted, without repetitions *)
Fixpoint insert_u (x : string) (l : list string) : list string :=
  match l with
  | [] => [x]
  | y :: r => match String.compare x y with
              | Eq => l
              | Lt => x :: l
              | Gt => y :: insert_u x r
              end
  end.

Definition uniq_sorted (l : list string) : list string := fold_right insert_u [] l.

(* ---------- configuration (translated) ---------- *)
Inductive ktest :=
| TSub (c : string)        (* c in k *)
| TLastEq (c : string)     (* k.split('/')[-1] == c *)
| TEnds (c : string).      (* k.endswith(c) *)

Inductive kmatch :=
| MSub                     (* cand in k *)
| MEqFirst                 (* cand == k.split('/')[0] *)
| MEqType.                 (* cand == _extract_element_type(k) *)

Record key_cfg := {
  ids_test : ktest;                 (* FEMAttribute.from_dict: first branch *)
  data_test : ktest;                (* FEMAttribute.from_dict: second branch *)
  ts_test : option ktest;           (* ... optional third branch: the stored time_series flag
                                       (then 3 entries are accepted as well as 2) *)
  writes_ts : bool;                 (* FEMAttribute.to_dict stores "<prefix>time_series" for
                                       time-series attributes *)
  elem_group : kmatch;              (* FEMElementalAttribute._split_dict_data *)
  attrs_group : kmatch;             (* FEMAttributes._split_dict_data *)
  element_types : list string       (* FEMElementalAttribute.ELEMENT_TYPES *)
}.

Fixpoint ends_with (s suf : string) : bool :=
  if String.eqb s suf then true
  else match s with
       | EmptyString => false
       | String _ r => ends_with r suf
       end.

Definition ktest_eval (t : ktest) (k : string) : bool :=
  match t with
  | TSub c => substrb c k
  | TLastEq c => String.eqb (last_seg k) c
  | TEnds c => ends_with k c
  end.

Definition kmatch_eval (m : kmatch) (cand k : string) : bool :=
  match m with
  | MSub => substrb cand k
  | MEqFirst => String.eqb cand (first_seg k)
  | MEqType => match extract_type k with Some t => String.eqb cand t | None => false end
  end.

(* ---------- data ---------- *)
Inductive err := ErrLen | ErrKey | ErrUnbound | ErrFormat | ErrTypes.
Inductive res (A : Type) := Ok (a : A) | Err (e : err).
Arguments Ok {A} a.
Arguments Err {A} e.

Definition bind {A B} (r : res A) (f : A -> res B) : res B :=
  match r with Ok a => f a | Err e => Err e end.

Fixpoint mapM {A B} (f : A -> res B) (l : list A) : res (list B) :=
  match l with
  | [] => Ok []
  | x :: r => bind (f x) (fun y => bind (mapM f r) (fun ys => Ok (y :: ys)))
  end.

Section Keys.
Variable V : Type.                      (* arrays: opaque *)
Variable vtrue : V.                     (* np.array(True) *)
Variable truthy : V -> bool.            (* bool(v) *)

Definition dict := list (string * V).   (* an ordered Python dict / npz file *)
Definition attr := (V * V * bool)%type. (* ids, data, time_series *)
Definition a_ids (a : attr) : V := fst (fst a).
Definition a_data (a : attr) : V := snd (fst a).
Definition a_ts (a : attr) : bool := snd a.
Definition eattr := list (string * attr).          (* element type -> attribute *)

Definition pfx (prefix : option string) : string :=
  match prefix with None => EmptyString | Some p => p ++ "/" end.

(* FEMAttribute.to_dict(prefix) *)
Definition attr_to_dict (kc : key_cfg) (prefix : option string) (a : attr) : dict :=
  List.app [(pfx prefix ++ "ids", a_ids a); (pfx prefix ++ "data", a_data a)]
           (if writes_ts kc && a_ts a then [(pfx prefix ++ "time_series", vtrue)] else []).

(* FEMAttribute.from_dict *)
Definition ts_key (kc : key_cfg) (k : string) : bool :=
  match ts_test kc with Some t => ktest_eval t k | None => false end.

Fixpoint attr_scan (kc : key_cfg) (d : dict) (ids data : option V) (ts : bool) : res attr :=
  match d with
  | [] => match ids, data with
          | Some i, Some x => Ok (i, x, ts)
          | _, _ => Err ErrUnbound            (* UnboundLocalError *)
          end
  | (k, v) :: r =>
      if ktest_eval (ids_test kc) k then attr_scan kc r (Some v) data ts
      else if ktest_eval (data_test kc) k then attr_scan kc r ids (Some v) ts
      else if ts_key kc k then attr_scan kc r ids data (truthy v)
      else Err ErrKey
  end.

Definition len_ok (kc : key_cfg) (n : nat) : bool :=
  Nat.eqb n 2 || (match ts_test kc with Some _ => Nat.eqb n 3 | None => false end).

Definition attr_from_dict (kc : key_cfg) (d : dict) : res attr :=
  if len_ok kc (length d) then attr_scan kc d None None false else Err ErrLen.

(* FEMElementalAttribute.to_dict(prefix) *)
Definition elem_to_dict (kc : key_cfg) (prefix : option string) (e : eattr) : dict :=
  flat_map (fun ta => attr_to_dict kc (Some (pfx prefix ++ fst ta)) (snd ta)) e.

Fixpoint mapO {A B} (f : A -> option B) (l : list A) : option (list B) :=
  match l with
  | [] => Some []
  | x :: r => match f x, mapO f r with
              | Some y, Some ys => Some (y :: ys)
              | _, _ => None
              end
  end.

Definition mem_str (x : string) (l : list string) : bool := existsb (String.eqb x) l.

(* FEMElementalAttribute.__init__ -> _validate_keys *)
Definition validate_keys (kc : key_cfg) (e : eattr) : res eattr :=
  if forallb (fun ta => mem_str (fst ta) (element_types kc)) e then Ok e
  else match e with
       | [(_, a)] => Ok [("unknown", a)]
       | _ => Err ErrTypes
       end.

(* FEMElementalAttribute.from_dict *)
Definition elem_from_dict (kc : key_cfg) (d : dict) : res eattr :=
  match mapO (fun kv => extract_type (fst kv)) d with
  | None => Err ErrFormat
  | Some ts =>
      bind (mapM (fun t => bind (attr_from_dict kc
                                   (filter (fun kv => kmatch_eval (elem_group kc) t (fst kv)) d))
                                (fun a => Ok (t, a)))
                 (uniq_sorted ts))
           (validate_keys kc)
  end.

(* FEMAttributes.to_dict for a collection of plain attributes (nodal data,
   constraints) and of elemental attributes (elemental data) *)
Definition attrs_to_dict (kc : key_cfg) (c : list (string * attr)) : dict :=
  flat_map (fun na => attr_to_dict kc (Some (fst na)) (snd na)) c.

Definition eattrs_to_dict (kc : key_cfg) (c : list (string * eattr)) : dict :=
  flat_map (fun ne => elem_to_dict kc (Some (fst ne)) (snd ne)) c.

Definition group_names (d : dict) : list string :=
  uniq_sorted (map (fun kv => first_seg (fst kv)) d).

(* FEMAttributes.from_dict *)
Definition attrs_from_dict (kc : key_cfg) (d : dict) : res (list (string * attr)) :=
  mapM (fun n => bind (attr_from_dict kc
                         (filter (fun kv => kmatch_eval (attrs_group kc) n (fst kv)) d))
                      (fun a => Ok (n, a)))
       (group_names d).

Definition eattrs_from_dict (kc : key_cfg) (d : dict) : res (list (string * eattr)) :=
  mapM (fun n => bind (elem_from_dict kc
                         (filter (fun kv => kmatch_eval (attrs_group kc) n (fst kv)) d))
                      (fun e => Ok (n, e)))
       (group_names d).

Fixpoint lookup {A} (k : string) (l : list (string * A)) : option A :=
  match l with
  | [] => None
  | (x, v) :: r => if String.eqb k x then Some v else lookup k r
  end.
End Keys.

Arguments attr_to_dict {V}.
Arguments attr_from_dict {V}.
Arguments a_ids {V}.
Arguments a_data {V}.
Arguments a_ts {V}.
Arguments elem_to_dict {V}.
Arguments elem_from_dict {V}.
Arguments attrs_to_dict {V}.
Arguments attrs_from_dict {V}.
Arguments eattrs_to_dict {V}.
Arguments eattrs_from_dict {V}.
Arguments validate_keys {V}.

(* ---------- the static check ---------- *)
Definition ktest_good (t : ktest) (c : string) : bool :=
  match t with
  | TLastEq c' => String.eqb c c'
  | _ => false
  end.

Definition key_cfg_ok (kc : key_cfg) : bool :=
  ktest_good (ids_test kc) "ids" && ktest_good (data_test kc) "data"
  && match ts_test kc with Some t => ktest_good t "time_series" | None => false end
  && writes_ts kc
  && match elem_group kc with MEqType => true | _ => false end
  && match attrs_group kc with MEqFirst => true | _ => false end.

Fixpoint nodup_strs (l : list string) : bool :=
  match l with
  | [] => true
  | x :: r => negb (mem_str x r) && nodup_strs r
  end.

(* well-formed names: distinct, without '/' *)
Definition wf_names (l : list string) : bool := nodup_strs l && forallb no_slash l.

Definition wf_eattr (kc : key_cfg) {V} (e : eattr V) : bool :=
  wf_names (map fst e) && forallb (fun t => mem_str t (element_types kc)) (map fst e)
  && negb (Nat.eqb (length e) 0).

(* ---------- executable witness search (when key_cfg_ok is false) ---------- *)
(* executable instance: arrays are numbers, np.array(True) is 1 *)
Definition ntruthy (n : nat) : bool := negb (Nat.eqb n 0).

Definition attr_eqb (a b : attr nat) : bool :=
  Nat.eqb (a_ids a) (a_ids b) && Nat.eqb (a_data a) (a_data b) && Bool.eqb (a_ts a) (a_ts b).

Definition tagged_eattr (types : list string) : eattr nat :=
  map (fun it => (snd it, (2 * fst it, 2 * fst it + 1, false)))
      (combine (seq 0 (length types)) types).

Definition eattr_roundtrip_ok (kc : key_cfg) (prefix : option string) (e : eattr nat) : bool :=
  match elem_from_dict ntruthy kc (elem_to_dict 1 kc prefix e) with
  | Ok e' => forallb (fun ta => match lookup (fst ta) e' with
                                | Some a => attr_eqb a (snd ta)
                                | None => false
                                end) e
             && Nat.eqb (length e') (length e)
  | Err _ => false
  end.

Definition attrs_roundtrip_ok (kc : key_cfg) (c : list (string * attr nat)) : bool :=
  match attrs_from_dict ntruthy kc (attrs_to_dict 1 kc c) with
  | Ok c' => forallb (fun na => match lookup (fst na) c' with
                                | Some a => attr_eqb a (snd na)
                                | None => false
                                end) c
             && Nat.eqb (length c') (length c)
  | Err _ => false
  end.

(* pairs of element types of the table that cannot be stored together *)
Definition colliding_pairs (kc : key_cfg) : list (string * string) :=
  filter (fun p => negb (String.eqb (fst p) (snd p))
                   && negb (eattr_roundtrip_ok kc None (tagged_eattr [fst p; snd p])))
         (list_prod (element_types kc) (element_types kc)).

Definition name_witnesses : list string := ["T"; "fluids"; "ids"; "data"; "metadata"; "x_ids"].

Definition failing_names (kc : key_cfg) : list string :=
  filter (fun n => negb (attrs_roundtrip_ok kc [(n, (0, 1, false))])) name_witnesses.

(* does a time-series attribute survive? *)
Definition ts_roundtrip_ok (kc : key_cfg) : bool :=
  attrs_roundtrip_ok kc [("T", (0, 1, true))].

(* ---------- comparison with observations of the implementation ---------- *)

(* as finite maps: the loaded object is a dict (FEMElementalAttribute iterates
   in ELEMENT_TYPES order whatever the insertion order was) *)
Definition assoc_eqb {A} (eqb : A -> A -> bool) (a b : list (string * A)) : bool :=
  Nat.eqb (length a) (length b)
  && forallb (fun tx => match lookup (fst tx) b with
                        | Some y => eqb (snd tx) y
                        | None => false
                        end) a.

(* ValueError = 0, UnboundLocalError = 1 *)
Definition err_class (e : err) : nat := match e with ErrUnbound => 1 | _ => 0 end.

Definition res_agree {A} (eqb : A -> A -> bool) (m o : res A) : bool :=
  match m, o with
  | Ok x, Ok y => eqb x y
  | Err e, Err e' => Nat.eqb (err_class e) (err_class e')
  | _, _ => false
  end.

Fixpoint strs_eqb (a b : list string) : bool :=
  match a, b with
  | [], [] => true
  | x :: a', y :: b' => String.eqb x y && strs_eqb a' b'
  | _, _ => false
  end.

Definition keys_of {V} (d : dict V) : list string := map fst d.

(* one observed case: the keys to_dict produced and what from_dict returned *)
Definition attr_case (kc : key_cfg) (prefix : option string) (a : attr nat)
           (keys : list string) (o : res (attr nat)) : bool :=
  strs_eqb (keys_of (attr_to_dict 1 kc prefix a)) keys
  && res_agree attr_eqb (attr_from_dict ntruthy kc (attr_to_dict 1 kc prefix a)) o.

Definition elem_case (kc : key_cfg) (e : eattr nat) (keys : list string) (o : res (eattr nat)) : bool :=
  strs_eqb (keys_of (elem_to_dict 1 kc None e)) keys
  && res_agree (assoc_eqb attr_eqb) (elem_from_dict ntruthy kc (elem_to_dict 1 kc None e)) o.

Definition attrs_case (kc : key_cfg) (c : list (string * attr nat)) (keys : list string)
           (o : res (list (string * attr nat))) : bool :=
  strs_eqb (keys_of (attrs_to_dict 1 kc c)) keys
  && res_agree (assoc_eqb attr_eqb) (attrs_from_dict ntruthy kc (attrs_to_dict 1 kc c)) o.

Definition eattrs_case (kc : key_cfg) (c : list (string * eattr nat)) (keys : list string)
           (o : res (list (string * eattr nat))) : bool :=
  strs_eqb (keys_of (eattrs_to_dict 1 kc c)) keys
  && res_agree (assoc_eqb (assoc_eqb attr_eqb)) (eattrs_from_dict ntruthy kc (eattrs_to_dict 1 kc c)) o.
