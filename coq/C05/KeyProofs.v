(* C05, part A — proofs about the key scheme (KeyModel.v). *)
From Coq Require Import Ascii String List Bool Arith Lia.
Import ListNotations.
From FV.C05 Require Import KeyModel.
Open Scope string_scope.

(* ---------- strings ---------- *)
Lemma append_assoc : forall a b c : string, (a ++ b) ++ c = a ++ (b ++ c).
Proof. induction a; simpl; intros; congruence. Qed.

Lemma split_nonempty : forall s, split_slash s <> [].
Proof.
  induction s as [|c r IH]; simpl; try congruence.
  destruct (is_slash c); try congruence.
  destruct (split_slash r); congruence.
Qed.

Lemma split_app : forall a b, split_slash (a ++ String "/" b) = (split_slash a ++ split_slash b)%list.
Proof.
  induction a as [|c a IH]; intros b; simpl.
  - reflexivity.
  - destruct (is_slash c).
    + rewrite IH. reflexivity.
    + rewrite IH. destruct (split_slash a) eqn:E.
      * exfalso. eapply split_nonempty; eauto.
      * reflexivity.
Qed.

Lemma split_noslash : forall s, no_slash s = true -> split_slash s = [s].
Proof.
  induction s as [|c r IH]; simpl; intros H; auto.
  apply andb_true_iff in H. destruct H as [H1 H2].
  destruct (is_slash c); try discriminate. rewrite (IH H2). reflexivity.
Qed.

Definition prefix_ok (prefix : option string) : bool :=
  match prefix with None => true | Some n => no_slash n end.

Definition pre_list (prefix : option string) : list string :=
  match prefix with None => [] | Some n => [n] end.

(* the key "<prefix>/<t>/<s>" splits into its parts *)
Lemma split_key2 : forall prefix s, prefix_ok prefix = true -> no_slash s = true ->
  split_slash (pfx prefix ++ s) = (pre_list prefix ++ [s])%list.
Proof.
  intros [n|] s P S; simpl in *.
  - rewrite append_assoc. simpl. rewrite split_app, (split_noslash n P), (split_noslash s S).
    reflexivity.
  - apply split_noslash. exact S.
Qed.

Lemma split_key3 : forall prefix t s, prefix_ok prefix = true -> no_slash t = true -> no_slash s = true ->
  split_slash (pfx (Some (pfx prefix ++ t)) ++ s) = (pre_list prefix ++ [t; s])%list.
Proof.
  intros prefix t s P T S. simpl. rewrite append_assoc. simpl.
  rewrite split_app, (split_key2 prefix t P T), (split_noslash s S).
  rewrite <- app_assoc. reflexivity.
Qed.

Lemma last_seg_pfx : forall prefix s, no_slash s = true -> last_seg (pfx prefix ++ s) = s.
Proof.
  intros [p|] s S; unfold last_seg; simpl.
  - rewrite append_assoc. simpl. rewrite split_app, (split_noslash s S). apply last_last.
  - rewrite (split_noslash s S). reflexivity.
Qed.

Lemma extract_type_key : forall prefix t s,
  prefix_ok prefix = true -> no_slash t = true -> no_slash s = true ->
  extract_type (pfx (Some (pfx prefix ++ t)) ++ s) = Some t.
Proof.
  intros prefix t s P T S. unfold extract_type. rewrite (split_key3 prefix t s P T S).
  destruct prefix; reflexivity.
Qed.

Lemma first_seg_key : forall n s, no_slash n = true ->
  first_seg (pfx (Some n) ++ s) = n.
Proof.
  intros n s N. unfold first_seg. simpl. rewrite append_assoc. simpl.
  rewrite split_app, (split_noslash n N). reflexivity.
Qed.

(* ---------- numpy.unique ---------- *)
Lemma insert_u_in : forall x l z, In z (insert_u x l) <-> z = x \/ In z l.
Proof.
  intros x l z. induction l as [|y r IH]; simpl.
  - intuition.
  - destruct (String.compare x y) eqn:C.
    + apply String.compare_eq_iff in C. subst y. simpl. intuition.
    + simpl. intuition.
    + simpl. rewrite IH. intuition.
Qed.

Lemma uniq_sorted_in : forall l z, In z (uniq_sorted l) <-> In z l.
Proof.
  induction l as [|x l IH]; intros z; simpl.
  - tauto.
  - rewrite insert_u_in, IH. intuition.
Qed.

(* ---------- lists ---------- *)
Lemma filter_all : forall (A : Type) (f : A -> bool) l,
  (forall x, In x l -> f x = true) -> filter f l = l.
Proof.
  induction l as [|x l IH]; simpl; intros H; auto.
  rewrite (H x (or_introl eq_refl)). f_equal. apply IH. auto.
Qed.

Lemma filter_none : forall (A : Type) (f : A -> bool) l,
  (forall x, In x l -> f x = false) -> filter f l = [].
Proof.
  induction l as [|x l IH]; simpl; intros H; auto.
  rewrite (H x (or_introl eq_refl)). apply IH. auto.
Qed.

Lemma mem_str_in : forall x l, mem_str x l = true <-> In x l.
Proof.
  intros x l. unfold mem_str. rewrite existsb_exists. split.
  - intros [y [Hy E]]. apply String.eqb_eq in E. subst. exact Hy.
  - intros H. exists x. split; auto. apply String.eqb_refl.
Qed.

Lemma nodup_strs_NoDup : forall l, nodup_strs l = true -> NoDup l.
Proof.
  induction l as [|x l IH]; simpl; intros H; constructor.
  - apply andb_true_iff in H. destruct H as [H _]. intros Hin.
    apply mem_str_in in Hin. rewrite Hin in H. discriminate.
  - apply IH. apply andb_true_iff in H. tauto.
Qed.

(* grouping: when the keys of every item are matched by the item's own label
   and by no other label of the collection, filtering the concatenation by a
   label returns that item's sub-dictionary *)
Lemma group_filter : forall (V : Type) (m : string -> string -> bool)
    (items : list (string * list (string * V))),
  (forall l d, In (l, d) items -> forall kv, In kv d ->
     forall l', In l' (map fst items) -> m l' (fst kv) = String.eqb l' l) ->
  NoDup (map fst items) ->
  forall l d, In (l, d) items ->
    filter (fun kv => m l (fst kv)) (flat_map snd items) = d.
Proof.
  intros V m items. induction items as [|[l0 d0] r IH]; intros Hm ND l d Hin; [inversion Hin|].
  simpl. rewrite filter_app. inversion ND as [|? ? Hnot ND']; subst.
  assert (Hl : In l (map fst ((l0, d0) :: r))).
  { apply in_map_iff. exists (l, d). auto. }
  destruct Hin as [E|Hin].
  - inversion E; subst l0 d0. clear E.
    rewrite filter_all.
    2:{ intros kv Hkv. rewrite (Hm l d (or_introl eq_refl) kv Hkv l Hl). apply String.eqb_refl. }
    rewrite filter_none; [apply app_nil_r|].
    intros kv Hkv. apply in_flat_map in Hkv. destruct Hkv as [[l1 d1] [H1 H2]]. simpl in H2.
    rewrite (Hm l1 d1 (or_intror H1) kv H2 l Hl).
    apply String.eqb_neq. intros E. subst l1. apply Hnot. apply in_map_iff. exists (l, d1). auto.
  - rewrite filter_none.
    2:{ intros kv Hkv. rewrite (Hm l0 d0 (or_introl eq_refl) kv Hkv l Hl).
        apply String.eqb_neq. intros E. subst l0. apply Hnot. apply in_map_iff. exists (l, d). auto. }
    simpl. apply IH; auto.
    intros l1 d1 H1 kv Hkv l' Hl'. apply (Hm l1 d1 (or_intror H1) kv Hkv l'). right. exact Hl'.
Qed.

Lemma mapM_rel : forall (A B : Type) (f : A -> res B) (R : A -> B -> Prop) l,
  (forall x, In x l -> exists y, f x = Ok y /\ R x y) ->
  exists ys, mapM f l = Ok ys /\ Forall2 R l ys.
Proof.
  induction l as [|x l IH]; intros H; simpl.
  - exists []. auto.
  - destruct (H x (or_introl eq_refl)) as [y [E Ry]].
    destruct IH as [ys [E2 F]]; [intros; apply H; right; auto|].
    rewrite E, E2. simpl. exists (y :: ys). auto.
Qed.

Lemma mapO_all : forall (A B : Type) (f : A -> option B) (g : A -> B) l,
  (forall x, In x l -> f x = Some (g x)) -> mapO f l = Some (map g l).
Proof.
  induction l as [|x l IH]; intros H; simpl; auto.
  rewrite (H x (or_introl eq_refl)), IH; auto. intros; apply H; right; auto.
Qed.

Lemma Forall2_fst : forall (A : Type) (R : string -> string * A -> Prop) l ys,
  Forall2 R l ys -> (forall x y, R x y -> fst y = x) -> map fst ys = l.
Proof.
  intros A R l ys F H. induction F; simpl; auto. rewrite (H _ _ H0). f_equal. exact IHF.
Qed.

Lemma Forall2_in_r : forall (A B : Type) (R : A -> B -> Prop) l ys y,
  Forall2 R l ys -> In y ys -> exists x, In x l /\ R x y.
Proof.
  intros A B R l ys y F. induction F; intros Hin; [inversion Hin|].
  destruct Hin as [E|Hin].
  - subst. eauto with datatypes.
  - destruct (IHF Hin) as [x' [H1 H2]]. eauto with datatypes.
Qed.

(* ---------- the round trips ---------- *)
Section RoundTrip.
Variable V : Type.
Variable vtrue : V.
Variable truthy : V -> bool.
Hypothesis TRUE : truthy vtrue = true.     (* bool(np.array(True)) *)
Variable kc : key_cfg.
Hypothesis OK : key_cfg_ok kc = true.

Notation attr_to_dict := (attr_to_dict vtrue).
Notation elem_to_dict := (elem_to_dict vtrue).
Notation attrs_to_dict := (attrs_to_dict vtrue).
Notation eattrs_to_dict := (eattrs_to_dict vtrue).
Notation attr_from_dict := (attr_from_dict truthy).
Notation elem_from_dict := (elem_from_dict truthy).
Notation attrs_from_dict := (attrs_from_dict truthy).
Notation eattrs_from_dict := (eattrs_from_dict truthy).

Lemma ok_parts :
  ids_test kc = TLastEq "ids" /\ data_test kc = TLastEq "data"
  /\ elem_group kc = MEqType /\ attrs_group kc = MEqFirst.
Proof.
  pose proof OK as H. unfold key_cfg_ok in H.
  apply andb_true_iff in H. destruct H as [H H4].
  apply andb_true_iff in H. destruct H as [H H3].
  apply andb_true_iff in H. destruct H as [H _].
  apply andb_true_iff in H. destruct H as [H _].
  apply andb_true_iff in H. destruct H as [H1 H2].
  destruct (ids_test kc) as [c|c|c]; cbv beta iota delta [ktest_good] in H1; try discriminate.
  apply String.eqb_eq in H1. subst c.
  destruct (data_test kc) as [c|c|c]; cbv beta iota delta [ktest_good] in H2; try discriminate.
  apply String.eqb_eq in H2. subst c.
  destruct (elem_group kc); try discriminate. destruct (attrs_group kc); try discriminate.
  auto.
Qed.

Lemma ok_ts : ts_test kc = Some (TLastEq "time_series") /\ writes_ts kc = true.
Proof.
  pose proof OK as H. unfold key_cfg_ok in H.
  apply andb_true_iff in H. destruct H as [H _].
  apply andb_true_iff in H. destruct H as [H _].
  apply andb_true_iff in H. destruct H as [H W].
  apply andb_true_iff in H. destruct H as [_ T].
  split; [|exact W].
  destruct (ts_test kc) as [t|]; [|discriminate].
  destruct t as [c|c|c]; cbv beta iota delta [ktest_good] in T; try discriminate.
  apply String.eqb_eq in T. subst c. reflexivity.
Qed.

Lemma attr_roundtrip : forall prefix (a : attr V),
  attr_from_dict kc (attr_to_dict kc prefix a) = Ok a.
Proof.
  intros prefix [[i x] ts]. destruct ok_parts as [E1 [E2 _]]. destruct ok_ts as [E3 W].
  unfold KeyModel.attr_from_dict, KeyModel.attr_to_dict, len_ok, a_ids, a_data, a_ts. simpl.
  rewrite W, E3. destruct ts; simpl; unfold ts_key; rewrite E1, E2, ?E3; simpl;
    rewrite !last_seg_pfx by reflexivity; simpl; rewrite ?TRUE; reflexivity.
Qed.

Definition elem_items (prefix : option string) (e : eattr V) : list (string * dict V) :=
  map (fun ta => (fst ta, attr_to_dict kc (Some (pfx prefix ++ fst ta)) (snd ta))) e.

Lemma elem_to_dict_items : forall prefix e,
  elem_to_dict kc prefix e = flat_map snd (elem_items prefix e).
Proof.
  intros prefix e. unfold KeyModel.elem_to_dict, elem_items. induction e as [|[t a] r IH]; simpl; auto.
  rewrite IH. reflexivity.
Qed.

Lemma map_fst_items : forall prefix e, map fst (elem_items prefix e) = map fst e.
Proof. intros. unfold elem_items. rewrite map_map. reflexivity. Qed.

Lemma attr_keys : forall prefix (a : attr V) kv, In kv (attr_to_dict kc prefix a) ->
  exists s, no_slash s = true /\ fst kv = pfx prefix ++ s.
Proof.
  intros prefix a kv H. unfold KeyModel.attr_to_dict in H. simpl in H.
  destruct H as [H|[H|H]]; [subst; simpl; exists "ids"; auto|subst; simpl; exists "data"; auto|].
  destruct (writes_ts kc && a_ts a); simpl in H; [|contradiction].
  destruct H as [H|[]]. subst. simpl. exists "time_series". auto.
Qed.

Lemma forallb_map_fst : forall (A : Type) (p : string -> bool) (l : list (string * A)),
  forallb p (map fst l) = true -> forall x, In x l -> p (fst x) = true.
Proof.
  intros A p l H x Hx. rewrite forallb_forall in H. apply H. apply in_map. exact Hx.
Qed.

(* mixed element collections: any set of distinct element types of the table *)
Theorem elem_roundtrip : forall prefix (e : eattr V),
  prefix_ok prefix = true -> wf_eattr kc e = true ->
  exists e', elem_from_dict kc (elem_to_dict kc prefix e) = Ok e'
    /\ (forall t, In t (map fst e') <-> In t (map fst e))
    /\ (forall t a, In (t, a) e' -> In (t, a) e).
Proof.
  intros prefix e P WF. destruct ok_parts as [_ [_ [EG _]]].
  unfold wf_eattr in WF. apply andb_true_iff in WF. destruct WF as [WF NE].
  apply andb_true_iff in WF. destruct WF as [WN WT].
  unfold wf_names in WN. apply andb_true_iff in WN. destruct WN as [ND NS].
  apply nodup_strs_NoDup in ND.
  assert (NSt : forall ta, In ta e -> no_slash (fst ta) = true)
    by (apply forallb_map_fst; exact NS).
  (* every key carries the type of its item *)
  assert (KT : forall ta, In ta e -> forall kv,
             In kv (attr_to_dict kc (Some (pfx prefix ++ fst ta)) (snd ta)) ->
             extract_type (fst kv) = Some (fst ta)).
  { intros ta Hta kv Hkv. destruct (attr_keys _ _ _ Hkv) as [s0 [S0 E]]; rewrite E;
      apply extract_type_key; auto. }
  unfold KeyModel.elem_from_dict.
  set (d := elem_to_dict kc prefix e).
  assert (MO : mapO (fun kv => extract_type (fst kv)) d
               = Some (map (fun kv => match extract_type (fst kv) with Some t => t | None => "" end) d)).
  { apply mapO_all. intros kv Hkv. unfold d, KeyModel.elem_to_dict in Hkv.
    apply in_flat_map in Hkv. destruct Hkv as [ta [Hta Hkv]].
    rewrite (KT ta Hta kv Hkv). reflexivity. }
  rewrite MO. clear MO.
  set (ts := map (fun kv => match extract_type (fst kv) with Some t => t | None => "" end) d).
  assert (TS : forall t, In t ts <-> In t (map fst e)).
  { intros t. unfold ts. rewrite in_map_iff. split.
    - intros [kv [E Hkv]]. unfold d, KeyModel.elem_to_dict in Hkv.
      apply in_flat_map in Hkv. destruct Hkv as [ta [Hta Hkv]].
      rewrite (KT ta Hta kv Hkv) in E. subst t. apply in_map. exact Hta.
    - intros Ht. apply in_map_iff in Ht. destruct Ht as [[t' a] [E Hta]]. simpl in E. subst t'.
      exists (pfx (Some (pfx prefix ++ t)) ++ "ids", a_ids a). split.
      + cbv beta iota delta [fst].
        rewrite (extract_type_key prefix t "ids" P (NSt _ Hta) eq_refl). reflexivity.
      + unfold d, KeyModel.elem_to_dict. apply in_flat_map. exists (t, a). split; auto.
        simpl. left. reflexivity. }
  (* decoding of each group *)
  destruct (mapM_rel _ _
              (fun t => bind (attr_from_dict kc
                                (filter (fun kv => kmatch_eval (elem_group kc) t (fst kv)) d))
                             (fun a => Ok (t, a)))
              (fun t (y : string * attr V) => fst y = t /\ In y e)
              (uniq_sorted ts)) as [ys [EM F]].
  { intros t Ht. apply (proj1 (uniq_sorted_in _ _)) in Ht. apply (proj1 (TS _)) in Ht.
    apply in_map_iff in Ht. destruct Ht as [[t' a] [E Hta]]. simpl in E. subst t'.
    exists (t, a). split; [|split; auto].
    assert (G : filter (fun kv => kmatch_eval (elem_group kc) t (fst kv)) d
                = attr_to_dict kc (Some (pfx prefix ++ t)) a).
    { unfold d. rewrite elem_to_dict_items.
      apply (group_filter V (kmatch_eval (elem_group kc)) (elem_items prefix e)).
      - intros l dd Hl kv Hkv l' Hl'. unfold elem_items in Hl. apply in_map_iff in Hl.
        destruct Hl as [ta [E Hta']]. inversion E; subst l dd. clear E.
        rewrite EG. simpl. rewrite (KT ta Hta' kv Hkv). reflexivity.
      - rewrite map_fst_items. exact ND.
      - unfold elem_items. apply in_map_iff. exists (t, a). auto. }
    rewrite G, attr_roundtrip. reflexivity. }
  rewrite EM. simpl.
  assert (FST : map fst ys = uniq_sorted ts).
  { apply (Forall2_fst _ _ _ _ F). intros x y [H _]. exact H. }
  assert (INC : forall y, In y ys -> In y e).
  { intros y Hy. destruct (Forall2_in_r _ _ _ _ _ _ F Hy) as [x [_ [_ H]]]. exact H. }
  unfold validate_keys.
  assert (VT : forallb (fun ta : string * attr V => mem_str (fst ta) (element_types kc)) ys = true).
  { apply forallb_forall. intros y Hy. apply (forallb_map_fst _ _ e WT). apply INC. exact Hy. }
  rewrite VT. exists ys. split; [reflexivity|]. split.
  - intros t. rewrite FST, uniq_sorted_in. apply TS.
  - intros t a H. apply INC. exact H.
Qed.

(* collections of plain attributes (nodal data, constraints): any names *)
Theorem attrs_roundtrip : forall (c : list (string * attr V)),
  wf_names (map fst c) = true ->
  exists c', attrs_from_dict kc (attrs_to_dict kc c) = Ok c'
    /\ (forall n, In n (map fst c') <-> In n (map fst c))
    /\ (forall n a, In (n, a) c' -> In (n, a) c).
Proof.
  intros c WN. destruct ok_parts as [_ [_ [_ AG]]].
  unfold wf_names in WN. apply andb_true_iff in WN. destruct WN as [ND NS].
  apply nodup_strs_NoDup in ND.
  assert (NSn : forall na, In na c -> no_slash (fst na) = true)
    by (apply forallb_map_fst; exact NS).
  set (items := map (fun na : string * attr V => (fst na, attr_to_dict kc (Some (fst na)) (snd na))) c).
  assert (DI : attrs_to_dict kc c = flat_map snd items).
  { unfold KeyModel.attrs_to_dict, items. clear. induction c as [|[n a] r IH]; simpl; auto. rewrite IH. reflexivity. }
  assert (KF : forall na, In na c -> forall kv, In kv (attr_to_dict kc (Some (fst na)) (snd na)) ->
                 first_seg (fst kv) = fst na).
  { intros na Hna kv Hkv. destruct (attr_keys _ _ _ Hkv) as [s0 [S0 E]]; rewrite E;
      apply first_seg_key; auto. }
  unfold KeyModel.attrs_from_dict.
  set (d := attrs_to_dict kc c).
  assert (GN : forall n, In n (group_names V d) <-> In n (map fst c)).
  { intros n. unfold group_names. rewrite uniq_sorted_in, in_map_iff. split.
    - intros [kv [E Hkv]]. unfold d, KeyModel.attrs_to_dict in Hkv. apply in_flat_map in Hkv.
      destruct Hkv as [na [Hna Hkv]]. rewrite (KF na Hna kv Hkv) in E. subst n.
      apply in_map. exact Hna.
    - intros Hn. apply in_map_iff in Hn. destruct Hn as [[n' a] [E Hna]]. simpl in E. subst n'.
      exists (pfx (Some n) ++ "ids", a_ids a). split.
      + cbv beta iota delta [fst]. apply first_seg_key. apply (NSn _ Hna).
      + unfold d, KeyModel.attrs_to_dict. apply in_flat_map. exists (n, a). split; auto. simpl. auto. }
  destruct (mapM_rel _ _
              (fun n => bind (attr_from_dict kc
                                (filter (fun kv => kmatch_eval (attrs_group kc) n (fst kv)) d))
                             (fun a => Ok (n, a)))
              (fun n (y : string * attr V) => fst y = n /\ In y c)
              (group_names V d)) as [ys [EM F]].
  { intros n Hn. apply (proj1 (GN _)) in Hn. apply in_map_iff in Hn.
    destruct Hn as [[n' a] [E Hna]]. simpl in E. subst n'.
    exists (n, a). split; [|split; auto].
    assert (G : filter (fun kv => kmatch_eval (attrs_group kc) n (fst kv)) d
                = attr_to_dict kc (Some n) a).
    { unfold d. rewrite DI.
      apply (group_filter V (kmatch_eval (attrs_group kc)) items).
      - intros l dd Hl kv Hkv l' Hl'. unfold items in Hl. apply in_map_iff in Hl.
        destruct Hl as [na [E Hna']]. inversion E; subst l dd. clear E.
        rewrite AG. simpl. rewrite (KF na Hna' kv Hkv). reflexivity.
      - unfold items. rewrite map_map. exact ND.
      - unfold items. apply in_map_iff. exists (n, a). auto. }
    rewrite G, attr_roundtrip. reflexivity. }
  exists ys. split; [exact EM|]. split.
  - intros n. rewrite (Forall2_fst _ _ _ _ F) by (intros x y [H _]; exact H). apply GN.
  - intros n a H. destruct (Forall2_in_r _ _ _ _ _ _ F H) as [x [_ [_ H2]]]. exact H2.
Qed.

(* collections of elemental attributes (elemental data): any names, any sets
   of element types *)
Theorem eattrs_roundtrip : forall (c : list (string * eattr V)),
  wf_names (map fst c) = true -> forallb (fun ne => wf_eattr kc (snd ne)) c = true ->
  exists c', eattrs_from_dict kc (eattrs_to_dict kc c) = Ok c'
    /\ (forall n, In n (map fst c') <-> In n (map fst c))
    /\ (forall n e', In (n, e') c' -> exists e, In (n, e) c
          /\ (forall t, In t (map fst e') <-> In t (map fst e))
          /\ (forall t a, In (t, a) e' -> In (t, a) e)).
Proof.
  intros c WN WE. destruct ok_parts as [_ [_ [_ AG]]].
  unfold wf_names in WN. apply andb_true_iff in WN. destruct WN as [ND NS].
  apply nodup_strs_NoDup in ND.
  assert (NSn : forall ne, In ne c -> no_slash (fst ne) = true)
    by (apply forallb_map_fst; exact NS).
  rewrite forallb_forall in WE.
  set (items := map (fun ne : string * eattr V => (fst ne, elem_to_dict kc (Some (fst ne)) (snd ne))) c).
  assert (DI : eattrs_to_dict kc c = flat_map snd items).
  { unfold KeyModel.eattrs_to_dict, items. clear. induction c as [|[n a] r IH]; simpl; auto. rewrite IH. reflexivity. }
  assert (KF : forall ne, In ne c -> forall kv, In kv (elem_to_dict kc (Some (fst ne)) (snd ne)) ->
                 first_seg (fst kv) = fst ne).
  { intros ne Hne kv Hkv. unfold KeyModel.elem_to_dict in Hkv. apply in_flat_map in Hkv.
    destruct Hkv as [ta [Hta Hkv]].
    destruct (attr_keys _ _ _ Hkv) as [s0 [S0 E]]; rewrite E; simpl;
      rewrite !append_assoc; simpl; unfold first_seg;
      rewrite split_app, (split_noslash _ (NSn _ Hne)); reflexivity. }
  unfold KeyModel.eattrs_from_dict.
  set (d := eattrs_to_dict kc c).
  assert (GN : forall n, In n (group_names V d) <-> In n (map fst c)).
  { intros n. unfold group_names. rewrite uniq_sorted_in, in_map_iff. split.
    - intros [kv [E Hkv]]. unfold d, KeyModel.eattrs_to_dict in Hkv. apply in_flat_map in Hkv.
      destruct Hkv as [ne [Hne Hkv]]. rewrite (KF ne Hne kv Hkv) in E. subst n.
      apply in_map. exact Hne.
    - intros Hn. apply in_map_iff in Hn. destruct Hn as [[n' e] [E Hne]]. simpl in E. subst n'.
      pose proof (WE _ Hne) as W. simpl in W. unfold wf_eattr in W.
      apply andb_true_iff in W. destruct W as [_ NE].
      destruct e as [|[t a] r]; [discriminate|].
      set (kv := (pfx (Some (pfx (Some n) ++ t)) ++ "ids", a_ids a)).
      assert (Hkv : In kv (elem_to_dict kc (Some n) ((t, a) :: r))) by (simpl; auto).
      exists kv. split.
      + apply (KF (n, (t, a) :: r) Hne kv Hkv).
      + unfold d, KeyModel.eattrs_to_dict. apply in_flat_map. exists (n, (t, a) :: r). split; auto. }
  destruct (mapM_rel _ _
              (fun n => bind (elem_from_dict kc
                                (filter (fun kv => kmatch_eval (attrs_group kc) n (fst kv)) d))
                             (fun e => Ok (n, e)))
              (fun n (y : string * eattr V) => fst y = n /\ exists e, In (n, e) c
                  /\ (forall t, In t (map fst (snd y)) <-> In t (map fst e))
                  /\ (forall t a, In (t, a) (snd y) -> In (t, a) e))
              (group_names V d)) as [ys [EM F]].
  { intros n Hn. apply (proj1 (GN _)) in Hn. apply in_map_iff in Hn.
    destruct Hn as [[n' e] [E Hne]]. simpl in E. subst n'.
    assert (G : filter (fun kv => kmatch_eval (attrs_group kc) n (fst kv)) d
                = elem_to_dict kc (Some n) e).
    { unfold d. rewrite DI.
      apply (group_filter V (kmatch_eval (attrs_group kc)) items).
      - intros l dd Hl kv Hkv l' Hl'. unfold items in Hl. apply in_map_iff in Hl.
        destruct Hl as [ne [E Hne']]. inversion E; subst l dd. clear E.
        rewrite AG. simpl. rewrite (KF ne Hne' kv Hkv). reflexivity.
      - unfold items. rewrite map_map. exact ND.
      - unfold items. apply in_map_iff. exists (n, e). auto. }
    rewrite G.
    destruct (elem_roundtrip (Some n) e (NSn _ Hne) (WE _ Hne)) as [e' [E1 [E2 E3]]].
    rewrite E1. simpl. exists (n, e'). split; auto. split; auto. exists e. auto. }
  exists ys. split; [exact EM|]. split.
  - intros n. rewrite (Forall2_fst _ _ _ _ F) by (intros x y [H _]; exact H). apply GN.
  - intros n e' H. destruct (Forall2_in_r _ _ _ _ _ _ F H) as [x [_ [Hx [e [H1 H2]]]]].
    simpl in Hx. subst x. exists e. auto.
Qed.
End RoundTrip.
