(* C05 — proofs about the value-level composition (ValModel.v). *)
From Coq Require Import String List Bool Arith ZArith.
Import ListNotations.
From FV.C05 Require Import Model Proofs KeyModel KeyProofs ValModel.
Open Scope string_scope.

Section ValRoundTrip.
Variable V : Type.
Variable vtrue : V.
Variable truthy : V -> bool.
Hypothesis TRUE : truthy vtrue = true.
Variable store : Z -> dict V.
Variable kc : key_cfg.
Hypothesis KOK : key_cfg_ok kc = true.

(* a linked snapshot decodes to the dictionaries of the value *)
Lemma decode_linked : forall d s c, linked vtrue store kc d s ->
  decode_comp store s c = comp_dict vtrue kc d c.
Proof.
  intros d s c L. specialize (L c). unfold decode_comp.
  destruct (get c s); [exact L|symmetry; exact L].
Qed.

(* read_npy_directory applied to the files of a complete save of d gives d back *)
Theorem vload_linked : forall d s, wf_fem kc d = true -> linked vtrue store kc d s ->
  exists d', vload truthy store kc s = Ok d' /\ same_fem d' d.
Proof.
  intros d s WF L. unfold wf_fem in WF.
  apply andb_true_iff in WF. destruct WF as [WF WC].
  apply andb_true_iff in WF. destruct WF as [WF WEE].
  apply andb_true_iff in WF. destruct WF as [WF WEN].
  apply andb_true_iff in WF. destruct WF as [WE WN].
  unfold vload. repeat rewrite (decode_linked d s _ L). simpl comp_dict.
  rewrite (attr_roundtrip V vtrue truthy TRUE kc KOK None (v_nodes d)). simpl bind.
  destruct (elem_roundtrip V vtrue truthy TRUE kc KOK None (v_elements d) eq_refl WE)
    as [e' [E1 [E2 E3]]]. rewrite E1. simpl bind.
  destruct (attrs_roundtrip V vtrue truthy TRUE kc KOK (v_nodal d) WN) as [n' [N1 [N2 N3]]].
  rewrite N1. simpl bind.
  destruct (eattrs_roundtrip V vtrue truthy TRUE kc KOK (v_elemental d) WEN WEE) as [x' [X1 [X2 X3]]].
  rewrite X1. simpl bind.
  destruct (attrs_roundtrip V vtrue truthy TRUE kc KOK (v_constraints d) WC) as [c' [C1 [C2 C3]]].
  rewrite C1. simpl bind.
  eexists. split; [reflexivity|].
  unfold same_fem, same_attrs, same_eattr, same_eattrs. simpl.
  split; [reflexivity|].
  split; [split; assumption|].
  split; [split; assumption|].
  split; [split; [assumption|]|].
  - intros n e0 H. destruct (X3 n e0 H) as [e [I [A B]]]. exists e. split; [exact I|]. split; assumption.
  - split; [split; assumption|reflexivity].
Qed.

(* the mesh part of a linked snapshot is linked to the mesh part of the value *)
Lemma linked_mesh : forall d s, linked vtrue store kc d s ->
  linked vtrue store kc (mesh_of d) (img s true).
Proof.
  intros d s L c. unfold img. rewrite get_mk_snap.
  destruct c; simpl; try reflexivity; [exact (L CNodes)|exact (L CElements)].
Qed.

Lemma wf_fem_mesh : forall d : fem V, wf_fem kc d = true -> wf_fem kc (mesh_of d) = true.
Proof.
  intros d WF. unfold wf_fem in *.
  apply andb_true_iff in WF. destruct WF as [WF _].
  apply andb_true_iff in WF. destruct WF as [WF _].
  apply andb_true_iff in WF. destruct WF as [WF _].
  apply andb_true_iff in WF. destruct WF as [WE _].
  simpl. rewrite WE. reflexivity.
Qed.

Section Dir.
Variable cfg : save_cfg.
Hypothesis OK : cfg_ok cfg = true.
Hypothesis OO : order_ok (glob_order cfg).

(* FEMData.save(dir) ; read_directory(dir): for EVERY previous content of the
   directory, the read loads the cache and read_npy_directory rebuilds d *)
Theorem save_load_values : forall src d s m dr0,
  wf_fem kc d = true -> wf_snap s = true -> linked vtrue store kc d s ->
  exists r, map fst (run cfg src [Save s m; Read false] dr0) = [RNone; r]
    /\ exists d', vresult truthy store kc r = Some (Ok d')
         /\ same_fem d' (if m then mesh_of d else d).
Proof.
  intros src d s m dr0 WF WS L.
  exists (RLoaded (Some (img s m))). split.
  - exact (save_then_read_generic cfg OK OO src s m dr0 WS).
  - simpl. destruct m.
    + destruct (vload_linked (mesh_of d) (img s true) (wf_fem_mesh d WF) (linked_mesh d s L))
        as [d' [E S]].
      exists d'. split; [rewrite E; reflexivity|exact S].
    + rewrite img_full. destruct (vload_linked d s WF L) as [d' [E S]].
      exists d'. split; [rewrite E; reflexivity|exact S].
Qed.

(* read_directory twice on a source directory whose parse is the value d: the
   second read is served from the cache and rebuilds d *)
Theorem read_twice_values : forall d s dr0,
  wf_fem kc d = true -> wf_snap s = true -> linked vtrue store kc d s ->
  has (read_sentinel cfg) dr0 = false ->
  exists r, map fst (run cfg s [Read false; Read false] dr0) = [RParsed; r]
    /\ exists d', vresult truthy store kc r = Some (Ok d') /\ same_fem d' d.
Proof.
  intros d s dr0 WF WS L H.
  exists (RLoaded (Some (img s false))). split.
  - exact (cache_transparent_generic cfg OK OO s WS dr0 H).
  - simpl. rewrite img_full. destruct (vload_linked d s WF L) as [d' [E S]].
    exists d'. split; [rewrite E; reflexivity|exact S].
Qed.
End Dir.
End ValRoundTrip.
