(* C05 — the third sentence of the property on values: whatever a read loads
   after any history of saves, interrupted saves and reads is the image of a
   data set that some earlier save (or the re-saving first read) wrote
   COMPLETELY - so read_npy_directory decodes it to that data set, never to a
   mixture.  Proofs; statements in PropsVal.v. *)
From Coq Require Import String List Bool Arith ZArith.
Import ListNotations.
From FV.C05 Require Import Model Proofs KeyModel KeyProofs ValModel ValProofs.


(* the images of the data sets the save ops of a history write *)
Definition saved_of (o : op) : list snap :=
  match o with
  | Save d m | SaveCrash d m _ => [img d m]
  | _ => []
  end.

Definition saved_in (h : list op) : list snap := flat_map saved_of h.

Definition read_flag (o : op) : option bool :=
  match o with
  | Read m | ReadCrash m _ => Some m
  | _ => None
  end.

Section Spec.
Variable src : snap.

Lemma allowed_step : forall o r st st' A,
  spec_step src o r st = Some st' -> In (img src false) A -> incl (allowed st) A ->
  incl (allowed st') (A ++ saved_of o)%list.
Proof.
  intros o r st st' A S I Inc.
  destruct o as [m|m k|d m|d m k]; simpl in S.
  - destruct (check_read src m r st); [|discriminate]. inversion S; subst; clear S.
    destruct r; simpl; try (intros y Hy; apply in_or_app; left; apply Inc; exact Hy).
    intros y [Hy|Hy]; apply in_or_app; left; [subst; exact I|apply Inc; exact Hy].
  - destruct (check_read src m r st); [|discriminate]. inversion S; subst; clear S.
    destruct r; simpl; try (intros y Hy; apply in_or_app; left; apply Inc; exact Hy).
    intros y [Hy|Hy]; apply in_or_app; left; [subst; exact I|apply Inc; exact Hy].
  - inversion S; subst; clear S. simpl. intros y [Hy|[]]. apply in_or_app. right. left. exact Hy.
  - inversion S; subst; clear S. simpl. intros y [Hy|Hy]; apply in_or_app.
    + right. left. exact Hy.
    + left. apply Inc. exact Hy.
Qed.

(* a result list the specification accepts: every loaded snapshot is the image
   of something saved before (or of the parsed source) *)
Lemma spec_loaded : forall h rs st i A,
  spec_run src h rs st i = None -> In (img src false) A -> incl (allowed st) A ->
  forall j o m x, nth_error h j = Some o -> read_flag o = Some m ->
    nth_error rs j = Some (RLoaded (Some x)) ->
    exists y, In y (A ++ saved_in (firstn j h))%list /\ x = (if m then img y true else y).
Proof.
  induction h as [|o h IH]; intros rs st i A SR I Inc j o' m x Hj Hf Hr.
  - destruct j; discriminate.
  - destruct rs as [|r rs]; [simpl in SR; discriminate|]. simpl in SR.
    destruct (spec_step src o r st) as [st'|] eqn:SS; [|discriminate].
    destruct j as [|j]; simpl in Hj, Hr.
    + assert (E1 : o' = o) by congruence. subst o'.
      assert (E2 : r = RLoaded (Some x)) by congruence. subst r. clear Hj Hr.
      simpl. rewrite app_nil_r.
      assert (C : check_read src m (RLoaded (Some x)) st = true).
      { destruct o; simpl in Hf; try discriminate; injection Hf as ->; unfold spec_step in SS;
          (destruct (check_read src m (RLoaded (Some x)) st) eqn:CE; [reflexivity|];
           try rewrite CE in SS; discriminate SS). }
      simpl in C. apply existsb_exists in C. destruct C as [y [Hy E]].
      exists y. split; [apply Inc; exact Hy|apply snap_eqb_eq; exact E].
    + destruct (IH rs st' (S i) (A ++ saved_of o)%list SR (in_or_app _ _ _ (or_introl I))
                   (allowed_step o r st st' A SS I Inc) j o' m x Hj Hf Hr) as [y [Hy E]].
      exists y. split; [|exact E]. simpl. unfold saved_in in *. simpl.
      rewrite <- app_assoc in Hy. exact Hy.
Qed.
End Spec.

Section CrashValues.
Variable V : Type.
Variable vtrue : V.
Variable truthy : V -> bool.
Hypothesis TRUE : truthy vtrue = true.
Variable store : Z -> dict V.
Variable kc : key_cfg.
Hypothesis KOK : key_cfg_ok kc = true.
Variable cfg : save_cfg.
Hypothesis OK : cfg_ok cfg = true.
Hypothesis OO : order_ok (glob_order cfg).

(* every load of every history returns the image of a completely written data
   set: the parsed source or a data set handed to an earlier save op *)
Theorem loaded_is_saved : forall src h dr0,
  wf_snap src = true -> forallb wf_op h = true -> has (read_sentinel cfg) dr0 = false ->
  forall j o m x, nth_error h j = Some o -> read_flag o = Some m ->
    nth_error (map fst (run cfg src h dr0)) j = Some (RLoaded (Some x)) ->
    exists y, In y (img src false :: saved_in (firstn j h)) /\ x = (if m then img y true else y).
Proof.
  intros src h dr0 WS WH H j o m x Hj Hf Hr.
  pose proof (crash_safe_generic cfg OK OO src WS h dr0 H WH) as C. unfold conforms in C.
  destruct (spec_run src h (map fst (run cfg src h dr0)) init_spec 0) eqn:SR; [discriminate|].
  exact (spec_loaded src h _ init_spec 0 [img src false] SR (or_introl eq_refl)
                     (fun y (F : In y []) => match F with end) j o m x Hj Hf Hr).
Qed.

(* ... and read_npy_directory decodes it to the value that snapshot stands
   for: `val` gives, for the source and for every data set handed to a save op,
   the FEMData whose dictionaries its identities denote *)
Theorem crash_safe_values : forall src h dr0 (val : snap -> fem V),
  wf_snap src = true -> forallb wf_op h = true -> has (read_sentinel cfg) dr0 = false ->
  (forall y, In y (img src false :: saved_in h) ->
             wf_fem kc (val y) = true /\ linked vtrue store kc (val y) y) ->
  forall j o m r, nth_error h j = Some o -> read_flag o = Some m ->
    nth_error (map fst (run cfg src h dr0)) j = Some r ->
    r = RParsed
    \/ exists y d', In y (img src false :: saved_in (firstn j h))
         /\ vresult truthy store kc r = Some (Ok d')
         /\ same_fem d' (if m then mesh_of (val y) else val y).
Proof.
  intros src h dr0 val WS WH H VAL j o m r Hj Hf Hr.
  pose proof (crash_safe_generic cfg OK OO src WS h dr0 H WH) as C.
  destruct r as [| |[x|]].
  - (* a read never returns nothing *)
    exfalso. clear VAL. revert C Hj Hf Hr. unfold conforms.
    generalize init_spec, 0, dr0. revert j.
    induction h as [|o' h' IH]; intros j st i dr C Hj Hf Hr; [destruct j; discriminate|].
    simpl in WH. apply andb_true_iff in WH. destruct WH as [_ WH'].
    simpl in C, Hr. destruct (step cfg src o' dr) as [r' dr'] eqn:ST. simpl in C, Hr.
    destruct j as [|j]; simpl in Hj, Hr.
    + assert (E1 : o' = o) by congruence. subst o'.
      assert (E2 : r' = RNone) by congruence. subst r'.
      destruct o; simpl in Hf; try discriminate; simpl in C; discriminate.
    + destruct (spec_step src o' r' st) as [st'|]; [|discriminate].
      exact (IH WH' j st' (S i) dr' C Hj Hf Hr).
  - left. reflexivity.
  - right.
    destruct (loaded_is_saved src h dr0 WS WH H j o m x Hj Hf Hr) as [y [Hy E]].
    assert (Hy' : In y (img src false :: saved_in h)).
    { destruct Hy as [Hy|Hy]; [left; exact Hy|right].
      unfold saved_in in *. apply in_flat_map in Hy. destruct Hy as [o1 [I1 I2]].
      apply in_flat_map. exists o1. split; [|exact I2].
      rewrite <- (firstn_skipn j h). apply in_or_app. left. exact I1. }
    destruct (VAL y Hy') as [WF L].
    exists y. destruct m; subst x.
    + destruct (vload_linked V vtrue truthy TRUE store kc KOK (mesh_of (val y)) (img y true)
                  (wf_fem_mesh V kc (val y) WF) (linked_mesh V vtrue store kc (val y) y L))
        as [d' [E S]].
      exists d'. split; [exact Hy|]. split; [simpl; rewrite E; reflexivity|exact S].
    + destruct (vload_linked V vtrue truthy TRUE store kc KOK (val y) y WF L) as [d' [E S]].
      exists d'. split; [exact Hy|]. split; [simpl; rewrite E; reflexivity|exact S].
  - (* a load that raises is rejected by the specification *)
    exfalso. clear VAL. revert C Hj Hf Hr. unfold conforms.
    generalize init_spec, 0, dr0. revert j.
    induction h as [|o' h' IH]; intros j st i dr C Hj Hf Hr; [destruct j; discriminate|].
    simpl in WH. apply andb_true_iff in WH. destruct WH as [_ WH'].
    simpl in C, Hr. destruct (step cfg src o' dr) as [r' dr'] eqn:ST. simpl in C, Hr.
    destruct j as [|j]; simpl in Hj, Hr.
    + assert (E1 : o' = o) by congruence. subst o'.
      assert (E2 : r' = RLoaded None) by congruence. subst r'.
      destruct o; simpl in Hf; try discriminate; simpl in C; discriminate.
    + destruct (spec_step src o' r' st) as [st'|]; [|discriminate].
      exact (IH WH' j st' (S i) dr' C Hj Hf Hr).
Qed.
End CrashValues.
