(* C05 — settings through the cache.  FEMData.save writes
     np.savez(dir / 'femio_settings', **self.settings)
   and read_npy_directory does
     obj.settings.update(dict(np.load(file, allow_pickle=True)))
     if 'solution_type' in obj.settings:
         if isinstance(obj.settings['solution_type'], np.ndarray):
             obj.settings['solution_type'] = str(obj.settings['solution_type'])
         if obj.settings['solution_type'] == 'None':
             obj.settings['solution_type'] = None
     ...
     if 'solution_type' not in obj.settings:
         obj.settings['solution_type'] = 'STATIC'
   Values are classified, not interpreted: what the user put into the
   dictionary (None / a string / a number / a sequence of some shape) and
   whether the loaded dictionary holds it as an ndarray or as a Python object.
   Definitions only. *)
From Coq Require Import String List Bool Arith ZArith.
Import ListNotations.
Open Scope string_scope.

Inductive pyv :=
| PNone                                  (* None *)
| PStr (s : string)                      (* a str *)
| PNum (z : Z)                           (* an int / float / bool (z: identity of the value) *)
| PSeq (shape : list nat) (z : Z).       (* a list / tuple / ndarray / dict: shape of np.asanyarray(v) *)

Inductive lv :=
| LArr (v : pyv)                         (* an ndarray: np.asanyarray(v), as np.load returns it *)
| LPy (v : pyv).                         (* the Python object v *)

Definition settings := list (string * pyv).      (* an ordered dict; keys distinct *)
Definition lsettings := list (string * lv).

Fixpoint slookup {A} (k : string) (l : list (string * A)) : option A :=
  match l with
  | [] => None
  | (x, v) :: r => if String.eqb k x then Some v else slookup k r
  end.

Fixpoint supdate {A} (k : string) (v : A) (l : list (string * A)) : list (string * A) :=
  match l with
  | [] => [(k, v)]
  | (x, w) :: r => if String.eqb k x then (x, v) :: r else (x, w) :: supdate k v r
  end.

(* np.savez(file, **settings) ; dict(np.load(file)): every value comes back as
   the array np.savez made of it *)
Definition stored (st : settings) : lsettings := map (fun kv => (fst kv, LArr (snd kv))) st.

Section Load.
(* str() of an array that holds neither a str nor None: numpy's rendering *)
Variable render : pyv -> string.

Definition str_of (v : pyv) : string :=
  match v with
  | PStr s => s                  (* str(np.array('HEAT')) == 'HEAT' *)
  | PNone => "None"              (* str(np.array(None, dtype=object)) == 'None' *)
  | _ => render v
  end.

Definition is_none_str (x : lv) : bool :=
  match x with LPy (PStr s) => String.eqb s "None" | _ => false end.

(* the three steps of read_npy_directory on a fresh object (settings = {}) *)
Definition load_settings (file : option lsettings) : lsettings :=
  let s0 : lsettings := match file with Some l => l | None => [] end in
  let s1 := match file, slookup "solution_type" s0 with
            | Some _, Some x =>
                let x1 := match x with LArr v => LPy (PStr (str_of v)) | _ => x end in
                let x2 := if is_none_str x1 then LPy PNone else x1 in
                supdate "solution_type" x2 s0
            | _, _ => s0
            end in
  match slookup "solution_type" s1 with
  | Some _ => s1
  | None => supdate "solution_type" (LPy (PStr "STATIC")) s1
  end.

(* np.savez of an empty dictionary writes a file without entries; the loader
   sees an empty dictionary either way *)
Definition roundtrip (st : settings) : lsettings := load_settings (Some (stored st)).

(* the specification: what each key must hold after save -> load *)
Definition expected (st : settings) (k : string) : option lv :=
  if String.eqb k "solution_type" then
    Some (LPy (match slookup k st with
               | None => PStr "STATIC"
               | Some v => if String.eqb (str_of v) "None" then PNone else PStr (str_of v)
               end))
  else option_map LArr (slookup k st).
End Load.

Fixpoint nodup_keys (l : list string) : bool :=
  match l with
  | [] => true
  | x :: r => negb (existsb (String.eqb x) r) && nodup_keys r
  end.

(* the solution type is None or a string other than the four letters "None" *)
Definition plain_solution_type (st : settings) : bool :=
  match slookup "solution_type" st with
  | Some PNone => true
  | Some (PStr s) => negb (String.eqb s "None")
  | _ => false
  end.

(* ---------- comparison with observations of the implementation ---------- *)
Fixpoint nats_eqb (a b : list nat) : bool :=
  match a, b with
  | [], [] => true
  | x :: a', y :: b' => Nat.eqb x y && nats_eqb a' b'
  | _, _ => false
  end.

Definition pyv_eqb (a b : pyv) : bool :=
  match a, b with
  | PNone, PNone => true
  | PStr s, PStr t => String.eqb s t
  | PNum x, PNum y => Z.eqb x y
  | PSeq s x, PSeq t y => nats_eqb s t && Z.eqb x y
  | _, _ => false
  end.

Definition lv_eqb (a b : lv) : bool :=
  match a, b with
  | LArr x, LArr y | LPy x, LPy y => pyv_eqb x y
  | _, _ => false
  end.

Definition lsettings_eqb (a b : lsettings) : bool :=
  Nat.eqb (length a) (length b)
  && forallb (fun kv => match slookup (fst kv) b with
                        | Some y => lv_eqb (snd kv) y
                        | None => false
                        end) a.

Definition no_render (v : pyv) : string := "?".

(* one observed case: the settings of the saved object and of the loaded one *)
Definition settings_case (st : settings) (obs : lsettings) : bool :=
  lsettings_eqb (roundtrip no_render st) obs.
