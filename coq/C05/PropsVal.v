(* C05 — the first two sentences of the property ON VALUES: the directory
   theorems (Props.v, part B: which file a read loads) composed with the key
   scheme theorems (Props.v, part A: what a file's dictionary decodes to).

   A FEMData is its six components (ValModel.fem); `store z` is the dictionary
   the content identity z denotes; `linked d s`: the snapshot s carries, for
   every component of d, an identity that denotes the dictionary FEMData.save
   hands to np.savez for it (None = empty collection).  `vresult r` is
   read_npy_directory applied to the dictionaries of the files the read loaded.
   Statements only. *)
From Coq Require Import String List ZArith.
Import ListNotations.
From FV.C05 Require Import Model Proofs KeyModel KeyProofs ValModel ValProofs CrashVal SetModel SetProofs Props.
Open Scope string_scope.

(* "Saving a FEMData to a directory and loading it again reproduces nodes,
   elements (per type), nodal data, elemental data, constraints and settings
   exactly": for every accepted save / key configuration, every glob order,
   EVERY previous content of the directory (stale cache files, stale sentinel),
   every array type, every well-formed FEMData d; with save_mesh_only the mesh
   part of d. *)
Theorem C05_save_load_values :
  forall (V : Type) (vtrue : V) (truthy : V -> bool), truthy vtrue = true ->
  forall (store : Z -> dict V) kc, key_cfg_ok kc = true ->
  forall cfg, cfg_ok cfg = true -> order_ok (glob_order cfg) ->
  forall src (d : fem V) s m dr0,
    wf_fem kc d = true -> wf_snap s = true -> linked vtrue store kc d s ->
    exists r, map fst (run cfg src [Save s m; Read false] dr0) = [RNone; r]
      /\ exists d', vresult truthy store kc r = Some (Ok d')
           /\ same_fem d' (if m then mesh_of d else d).
Proof.
  intros V vtrue truthy T store kc KOK cfg OK OO.
  exact (save_load_values V vtrue truthy T store kc KOK cfg OK OO).
Qed.

(* "Reading a source directory a second time (which is served from the cache
   written by the first read) returns the same data as parsing the source
   files": d is what parsing returns. *)
Theorem C05_read_twice_values :
  forall (V : Type) (vtrue : V) (truthy : V -> bool), truthy vtrue = true ->
  forall (store : Z -> dict V) kc, key_cfg_ok kc = true ->
  forall cfg, cfg_ok cfg = true -> order_ok (glob_order cfg) ->
  forall (d : fem V) s dr0,
    wf_fem kc d = true -> wf_snap s = true -> linked vtrue store kc d s ->
    has (read_sentinel cfg) dr0 = false ->
    exists r, map fst (run cfg s [Read false; Read false] dr0) = [RParsed; r]
      /\ exists d', vresult truthy store kc r = Some (Ok d') /\ same_fem d' d.
Proof.
  intros V vtrue truthy T store kc KOK cfg OK OO.
  exact (read_twice_values V vtrue truthy T store kc KOK cfg OK OO).
Qed.

(* "If saving is interrupted at any point, a later read never loads a partial
   cache: it either parses the source files again or loads a complete one":
   in EVERY history of reads, saves, interrupted saves and interrupted reads
   (every crash point), every snapshot a read loads is the image of the parsed
   source or of a data set handed to an EARLIER save op - never a mixture. *)
Theorem C05_loaded_is_saved :
  forall cfg, cfg_ok cfg = true -> order_ok (glob_order cfg) ->
  forall src h dr0,
    wf_snap src = true -> forallb wf_op h = true -> has (read_sentinel cfg) dr0 = false ->
  forall j o m x, nth_error h j = Some o -> read_flag o = Some m ->
    nth_error (map fst (run cfg src h dr0)) j = Some (RLoaded (Some x)) ->
    exists y, In y (img src false :: saved_in (firstn j h)) /\ x = (if m then img y true else y).
Proof. intros cfg OK OO. exact (loaded_is_saved cfg OK OO). Qed.

(* ... on values: every read of every history either parses, or returns a load
   that read_npy_directory decodes to the FEMData `val y` of ONE completely
   written data set y (its mesh part for a mesh-only read).  `val` gives the
   value each snapshot of the history stands for. *)
Theorem C05_crash_safe_values :
  forall (V : Type) (vtrue : V) (truthy : V -> bool), truthy vtrue = true ->
  forall (store : Z -> dict V) kc, key_cfg_ok kc = true ->
  forall cfg, cfg_ok cfg = true -> order_ok (glob_order cfg) ->
  forall src h dr0 (val : snap -> fem V),
    wf_snap src = true -> forallb wf_op h = true -> has (read_sentinel cfg) dr0 = false ->
    (forall y, In y (img src false :: saved_in h) ->
               wf_fem kc (val y) = true /\ linked vtrue store kc (val y) y) ->
  forall j o m r, nth_error h j = Some o -> read_flag o = Some m ->
    nth_error (map fst (run cfg src h dr0)) j = Some r ->
    r = RParsed
    \/ exists y d', In y (img src false :: saved_in (firstn j h))
          /\ vresult truthy store kc r = Some (Ok d')
          /\ same_fem d' (if m then mesh_of (val y) else val y).
Proof.
  intros V vtrue truthy T store kc KOK cfg OK OO.
  exact (crash_safe_values V vtrue truthy T store kc KOK cfg OK OO).
Qed.

(* what read_npy_directory makes of the files of a complete save, without the
   directory: the six from_dict calls invert the six to_dict calls *)
Theorem C05_load_of_saved_dicts :
  forall (V : Type) (vtrue : V) (truthy : V -> bool), truthy vtrue = true ->
  forall (store : Z -> dict V) kc, key_cfg_ok kc = true ->
  forall (d : fem V) s, wf_fem kc d = true -> linked vtrue store kc d s ->
  exists d', vload truthy store kc s = Ok d' /\ same_fem d' d.
Proof.
  intros V vtrue truthy T store kc KOK. exact (vload_linked V vtrue truthy T store kc KOK).
Qed.

(* the premise `linked` only fixes what the identities NAME; it never restricts
   the FEMData: every d has a naming (and then the theorems above apply) *)
Definition canon_comp (z : Z) : comp :=
  match z with
  | 0%Z => CNodes | 1%Z => CElements | 2%Z => CNodal | 3%Z => CElemental
  | 4%Z => CConstraints | _ => CSettings
  end.

Definition canon_snap : snap :=
  Snap (Some 0%Z) (Some 1%Z) (Some 2%Z) (Some 3%Z) (Some 4%Z) (Some 5%Z).

Theorem C05_linked_exists :
  forall (V : Type) (vtrue : V) kc (d : fem V),
    wf_snap canon_snap = true
    /\ linked vtrue (fun z => comp_dict vtrue kc d (canon_comp z)) kc d canon_snap.
Proof. intros V vtrue kc d. split; [reflexivity|]. intros c. destruct c; reflexivity. Qed.

(* hence, with no premise about identities: saving ANY well-formed FEMData and
   reading the directory again gives it back *)
Theorem C05_save_load_any_value :
  forall (V : Type) (vtrue : V) (truthy : V -> bool), truthy vtrue = true ->
  forall kc, key_cfg_ok kc = true ->
  forall cfg, cfg_ok cfg = true -> order_ok (glob_order cfg) ->
  forall (d : fem V), wf_fem kc d = true ->
  exists (store : Z -> dict V) s, linked vtrue store kc d s /\
    forall src m dr0,
    exists r, map fst (run cfg src [Save s m; Read false] dr0) = [RNone; r]
      /\ exists d', vresult truthy store kc r = Some (Ok d')
           /\ same_fem d' (if m then mesh_of d else d).
Proof.
  intros V vtrue truthy T kc KOK cfg OK OO d WF.
  destruct (C05_linked_exists V vtrue kc d) as [WS L].
  exists (fun z => comp_dict vtrue kc d (canon_comp z)), canon_snap. split; [exact L|].
  intros src m dr0.
  exact (C05_save_load_values V vtrue truthy T _ kc KOK cfg OK OO src d canon_snap m dr0 WF WS L).
Qed.

(* non-vacuity: a well-formed FEMData with mixed element types whose names
   contain one another, a time series, elemental data on two types, no
   constraints (empty collection: no identity), string-named settings; a store
   that links it to a snapshot; the model computes the reload. *)
Definition ex_fem : fem nat :=
  tagged_fem false ["tet"; "tet2"; "hexprism"]
             [("NODE", false); ("T", true); ("fluids", false)]
             [("tet_quality", ["tet"; "hexprism"])] [] ["solution_type"; "tag"].

Definition ex_kc : key_cfg := {|
  ids_test := TLastEq "ids"; data_test := TLastEq "data";
  ts_test := Some (TLastEq "time_series"); writes_ts := true;
  elem_group := MEqType; attrs_group := MEqFirst;
  element_types := ["tet"; "tet2"; "hex"; "hexprism"; "prism"] |}.

Definition ex_comp_of (z : Z) : comp :=
  match z with
  | 10%Z => CNodes | 11%Z => CElements | 12%Z => CNodal | 13%Z => CElemental
  | 14%Z => CConstraints | _ => CSettings
  end.

Definition ex_store (z : Z) : dict nat := comp_dict 1 ex_kc ex_fem (ex_comp_of z).

Definition ex_snap : snap := Snap (Some 10%Z) (Some 11%Z) (Some 12%Z) (Some 13%Z) None (Some 15%Z).

Example C05_example_values_nontrivial :
  key_cfg_ok ex_kc = true /\ wf_fem ex_kc ex_fem = true /\ wf_snap ex_snap = true
  /\ linked 1 ex_store ex_kc ex_fem ex_snap
  /\ keys_of (comp_dict 1 ex_kc ex_fem CNodal)
     = ["NODE/ids"; "NODE/data"; "T/ids"; "T/data"; "T/time_series"; "fluids/ids"; "fluids/data"]
  /\ keys_of (comp_dict 1 ex_kc ex_fem CElemental)
     = ["tet_quality/tet/ids"; "tet_quality/tet/data";
        "tet_quality/hexprism/ids"; "tet_quality/hexprism/data"]
  /\ vload ntruthy ex_store ex_kc ex_snap
     = Ok (Fem (v_nodes ex_fem)
               [("hexprism", (4, 5, false)); ("tet", (0, 1, false)); ("tet2", (2, 3, false))]
               [("NODE", (0, 1, false)); ("T", (2, 3, true)); ("fluids", (4, 5, false))]
               [("tet_quality", [("hexprism", (2, 3, false)); ("tet", (0, 1, false))])]
               [] [("solution_type", 0); ("tag", 0)]).
Proof.
  split; [vm_compute; reflexivity|]. split; [vm_compute; reflexivity|].
  split; [vm_compute; reflexivity|].
  split; [intros c; destruct c; vm_compute; reflexivity|].
  vm_compute. repeat split; reflexivity.
Qed.

(* ---------------------------------------------------------------------
   Settings through the cache (SetModel.v): np.savez of the settings, np.load, and
   the solution_type handling of read_npy_directory.  `render` is numpy's str()
   of an array that holds neither a str nor None (external, any function). *)

(* every key of the loaded settings, for EVERY settings dictionary: the
   solution type is a Python object (default 'STATIC' when none is stored),
   every other setting is the array np.savez made of it *)
Theorem C05_settings_roundtrip :
  forall (render : pyv -> string) st k,
    slookup k (roundtrip render st) = expected render st k.
Proof. exact settings_roundtrip. Qed.

(* a solution type that is None or a string other than "None" comes back
   exactly; the others come back as arrays of what was set *)
Theorem C05_settings_exact :
  forall (render : pyv -> string) st, plain_solution_type st = true ->
    slookup "solution_type" (roundtrip render st) = option_map LPy (slookup "solution_type" st)
    /\ forall k, String.eqb k "solution_type" = false ->
         slookup k (roundtrip render st) = option_map LArr (slookup k st).
Proof. exact settings_exact. Qed.

(* the hypothesis of C05_settings_exact cannot be dropped: the string "None"
   is loaded as None (not reported as a finding: no solver has that solution
   type; see notes/C05.md) *)
Theorem C05_settings_none_string_lost :
  forall (render : pyv -> string),
    slookup "solution_type" (roundtrip render [("solution_type", PStr "None")]) = Some (LPy PNone).
Proof. exact settings_none_string_lost. Qed.

Example C05_example_settings_nontrivial :
  plain_solution_type [("solution_type", PNone); ("time_steps", PSeq [1] 7%Z); ("tag", PStr "a b")] = true
  /\ roundtrip no_render [("solution_type", PNone); ("time_steps", PSeq [1] 7%Z); ("tag", PStr "a b")]
     = [("solution_type", LPy PNone); ("time_steps", LArr (PSeq [1] 7%Z)); ("tag", LArr (PStr "a b"))]
  /\ roundtrip no_render [("n", PNum 5%Z)]
     = [("n", LArr (PNum 5%Z)); ("solution_type", LPy (PStr "STATIC"))]
  /\ settings_case [("solution_type", PStr "HEAT"); ("one", PSeq [1] 1%Z)]
                   [("one", LPy (PNum 1%Z)); ("solution_type", LPy (PStr "HEAT"))] = false.
Proof. vm_compute. repeat split; reflexivity. Qed.

(* non-vacuity of C05_crash_safe_values: a history with an interrupted save in
   which a read loads; every snapshot of it stands for ex_fem *)
Example C05_example_crash_values_nontrivial :
  wf_snap ex_snap = true
  /\ forallb wf_op [SaveCrash ex_snap false 4; Read false; Read false] = true
  /\ (forall y, In y (img ex_snap false :: saved_in [SaveCrash ex_snap false 4; Read false; Read false]) ->
                wf_fem ex_kc ex_fem = true /\ linked 1 ex_store ex_kc ex_fem y)
  /\ map fst (run example_cfg ex_snap [SaveCrash ex_snap false 4; Read false; Read false] [])
     = [RNone; RParsed; RLoaded (Some ex_snap)].
Proof.
  split; [vm_compute; reflexivity|]. split; [vm_compute; reflexivity|]. split.
  - intros y Hy. split; [vm_compute; reflexivity|].
    assert (E : y = ex_snap) by (simpl in Hy; destruct Hy as [<-|[<-|[]]]; reflexivity).
    subst y. intros c; destruct c; vm_compute; reflexivity.
  - vm_compute. reflexivity.
Qed.

Print Assumptions C05_save_load_values.
Print Assumptions C05_read_twice_values.
Print Assumptions C05_load_of_saved_dicts.
Print Assumptions C05_settings_roundtrip.
Print Assumptions C05_settings_exact.
Print Assumptions C05_settings_none_string_lost.
Print Assumptions C05_loaded_is_saved.
Print Assumptions C05_crash_safe_values.
Print Assumptions C05_linked_exists.
Print Assumptions C05_save_load_any_value.
