(* C05 — native npy cache: save/load exact, transparent, crash-safe.
   Statements only.  These theorems are generic in the configuration (the
   ordered file effects of FEMData.save, the sentinel tests, the loader's file
   names); the configuration of the tree under test is regenerated into
   gen/SaveCfg.v on every run and the per-run theorems about it are in
   gen/Run.v (either `cfg_ok cfg = true` and the instances of the theorems
   below, or a machine-checked refutation with a witness history). *)
From Coq Require Import String List ZArith.
Import ListNotations.
From FV.C05 Require Import Model Proofs KeyModel KeyProofs.
Open Scope string_scope.

(* For every configuration accepted by the static check, every parsed source,
   every enumeration order of Path.glob,
   every history of read / save / interrupted save / interrupted read (every
   crash point = every prefix of the primitive file effects) and every initial
   directory content without sentinel: each read either parses the source
   (only when no completed save is the last event) or loads exactly the image
   of a data set that was saved completely since the last completed save. *)
Theorem C05_crash_safe :
  forall cfg, cfg_ok cfg = true -> order_ok (glob_order cfg) ->
  forall src h dr0, wf_snap src = true -> forallb wf_op h = true ->
    has (read_sentinel cfg) dr0 = false ->
    conforms cfg src h dr0 = true.
Proof. intros cfg OK OO src h dr0 WF WH H. exact (crash_safe_generic cfg OK OO src WF h dr0 H WH). Qed.

(* save then read loads exactly what was saved, for EVERY previous content of
   the directory (stale files, stale sentinel) *)
Theorem C05_save_then_read :
  forall cfg, cfg_ok cfg = true -> order_ok (glob_order cfg) ->
  forall src d m dr0, wf_snap d = true ->
    map fst (run cfg src [Save d m; Read false] dr0) = [RNone; RLoaded (Some (img d m))].
Proof. intros cfg OK OO src d m dr0 WF. exact (save_then_read_generic cfg OK OO src d m dr0 WF). Qed.

(* the second read of a source directory is served from the cache written by
   the first and returns what parsing returned *)
Theorem C05_cache_transparent :
  forall cfg, cfg_ok cfg = true -> order_ok (glob_order cfg) ->
  forall src dr0, wf_snap src = true -> has (read_sentinel cfg) dr0 = false ->
    map fst (run cfg src [Read false; Read false] dr0) = [RParsed; RLoaded (Some src)].
Proof.
  intros cfg OK OO src dr0 WF H.
  rewrite (cache_transparent_generic cfg OK OO src WF dr0 H), img_full. reflexivity.
Qed.

(* read_mesh_only: a mesh-only read of a source directory leaves nothing that
   a later full read would be served from; once the full read has cached the
   source, mesh-only reads get the mesh part of that cache *)
Theorem C05_mesh_read_then_full_read :
  forall cfg, cfg_ok cfg = true -> order_ok (glob_order cfg) ->
  forall src dr0, wf_snap src = true -> has (read_sentinel cfg) dr0 = false ->
    map fst (run cfg src [Read true; Read false; Read false; Read true] dr0)
    = [RParsed; RParsed; RLoaded (Some src); RLoaded (Some (img src true))].
Proof.
  intros cfg OK OO src dr0 WF H.
  rewrite (mesh_read_then_full_generic cfg OK OO src WF dr0 H), img_full. reflexivity.
Qed.

(* non-vacuity: a configuration that satisfies the static check (the present
   save order preceded by invalidation of the sentinel and removal of stale
   cache files), well-formed data, and a history on which the checker is not
   trivially true *)
Definition example_cfg : save_cfg := {|
  steps_full := [SRm "s.npy"; SRmGlob "femio_" ".npz";
                 SWr "femio_nodes.npz" CNodes false; SWr "femio_elements.npz" CElements true;
                 SWr "femio_nodal_data.npz" CNodal true; SWr "femio_elemental_data.npz" CElemental true;
                 SWr "femio_constraints.npz" CConstraints true; SWr "femio_settings.npz" CSettings false;
                 STouch "s.npy"];
  steps_mesh := [SRm "s.npy"; SRmGlob "femio_" ".npz";
                 SWr "femio_nodes.npz" CNodes false; SWr "femio_elements.npz" CElements true;
                 STouch "s.npy"];
  read_sentinel := "s.npy"; resave_sentinel := "s.npy";
  load_names := [(CNodes, "femio_nodes.npz"); (CElements, "femio_elements.npz");
                 (CNodal, "femio_nodal_data.npz"); (CElemental, "femio_elemental_data.npz");
                 (CConstraints, "femio_constraints.npz"); (CSettings, "femio_settings.npz")];
  resave_mesh_read := false;
  glob_order := fun l => rev l |}.

Example C05_example_cfg_ok : cfg_ok example_cfg = true /\ order_ok (glob_order example_cfg).
Proof.
  split; [vm_compute; reflexivity|]. intros l x. simpl. symmetry. apply in_rev.
Qed.

Example C05_example_nontrivial :
  wf_snap snapA = true /\ wf_snap snapB = true /\ wf_snap snapS = true
  /\ map fst (run example_cfg snapS [Save snapA false; SaveCrash snapB false 5; Read false; Read false] [])
     = [RNone; RNone; RParsed; RLoaded (Some snapS)]
  /\ (* the checker rejects a wrong answer *)
     spec_run snapS [Save snapA false; Save snapB false; Read false]
              [RNone; RNone; RLoaded (Some snapA)] init_spec 0 = Some 2
  /\ (* ... and a full read served from a mesh-only cache of the source *)
     spec_run snapS [Read true; Read false]
              [RParsed; RLoaded (Some (img snapS true))] init_spec 0 = Some 1.
Proof. vm_compute. repeat split; reflexivity. Qed.

(* ---------------------------------------------------------------------
   Part A: the key scheme "<name>/<type>/ids|data|time_series" of the npz files.
   For every key configuration accepted by the static check (keys are
   recognised and grouped by equality on a split part; the time_series flag is
   stored and read back), arrays of any type V, `vtrue` the stored flag value
   and `truthy` Python's bool() with bool(vtrue) = True.  An attribute is
   (ids, data, time_series). *)

(* one attribute, with or without prefix, time series or not *)
Theorem C05_attr_dict_roundtrip :
  forall (V : Type) (vtrue : V) (truthy : V -> bool), truthy vtrue = true ->
  forall kc, key_cfg_ok kc = true ->
  forall prefix (a : attr V), attr_from_dict truthy kc (attr_to_dict vtrue kc prefix a) = Ok a.
Proof. intros V vtrue truthy T kc OK. exact (attr_roundtrip V vtrue truthy T kc OK). Qed.

(* the elements of a mesh: ANY set of distinct element types of the table
   (types whose names contain one another included), under any prefix *)
Theorem C05_elements_dict_roundtrip :
  forall (V : Type) (vtrue : V) (truthy : V -> bool), truthy vtrue = true ->
  forall kc, key_cfg_ok kc = true ->
  forall prefix (e : eattr V), prefix_ok prefix = true -> wf_eattr kc e = true ->
  exists e', elem_from_dict truthy kc (elem_to_dict vtrue kc prefix e) = Ok e'
    /\ (forall t, In t (map fst e') <-> In t (map fst e))
    /\ (forall t a, In (t, a) e' -> In (t, a) e).
Proof. intros V vtrue truthy T kc OK. exact (elem_roundtrip V vtrue truthy T kc OK). Qed.

(* nodal data / constraints: ANY distinct attribute names without '/' *)
Theorem C05_attrs_dict_roundtrip :
  forall (V : Type) (vtrue : V) (truthy : V -> bool), truthy vtrue = true ->
  forall kc, key_cfg_ok kc = true ->
  forall (c : list (string * attr V)), wf_names (map fst c) = true ->
  exists c', attrs_from_dict truthy kc (attrs_to_dict vtrue kc c) = Ok c'
    /\ (forall n, In n (map fst c') <-> In n (map fst c))
    /\ (forall n a, In (n, a) c' -> In (n, a) c).
Proof. intros V vtrue truthy T kc OK. exact (attrs_roundtrip V vtrue truthy T kc OK). Qed.

(* elemental data: any names, each with any set of element types *)
Theorem C05_elemental_data_dict_roundtrip :
  forall (V : Type) (vtrue : V) (truthy : V -> bool), truthy vtrue = true ->
  forall kc, key_cfg_ok kc = true ->
  forall (c : list (string * eattr V)),
    wf_names (map fst c) = true -> forallb (fun ne => wf_eattr kc (snd ne)) c = true ->
  exists c', eattrs_from_dict truthy kc (eattrs_to_dict vtrue kc c) = Ok c'
    /\ (forall n, In n (map fst c') <-> In n (map fst c))
    /\ (forall n e', In (n, e') c' -> exists e, In (n, e) c
          /\ (forall t, In t (map fst e') <-> In t (map fst e))
          /\ (forall t a, In (t, a) e' -> In (t, a) e)).
Proof. intros V vtrue truthy T kc OK. exact (eattrs_roundtrip V vtrue truthy T kc OK). Qed.

Definition example_kcfg : key_cfg := {|
  ids_test := TLastEq "ids"; data_test := TLastEq "data";
  ts_test := Some (TLastEq "time_series"); writes_ts := true;
  elem_group := MEqType; attrs_group := MEqFirst;
  element_types := ["tet"; "tet2"; "hex"; "hexprism"; "prism"] |}.

Example C05_example_keys_nontrivial :
  key_cfg_ok example_kcfg = true
  /\ ntruthy 1 = true
  /\ wf_eattr example_kcfg (tagged_eattr ["tet"; "tet2"; "hex"; "hexprism"]) = true
  /\ wf_names ["fluids"; "tet_quality"; "ids"; "time_series"] = true
  /\ prefix_ok (Some "tet_quality") = true
  /\ keys_of (attrs_to_dict 1 example_kcfg [("T", (0, 1, true)); ("U", (2, 3, false))])
     = ["T/ids"; "T/data"; "T/time_series"; "U/ids"; "U/data"].
Proof. vm_compute. repeat split; reflexivity. Qed.

Print Assumptions C05_crash_safe.
Print Assumptions C05_save_then_read.
Print Assumptions C05_cache_transparent.
Print Assumptions C05_mesh_read_then_full_read.
Print Assumptions C05_attr_dict_roundtrip.
Print Assumptions C05_elements_dict_roundtrip.
Print Assumptions C05_attrs_dict_roundtrip.
Print Assumptions C05_elemental_data_dict_roundtrip.
