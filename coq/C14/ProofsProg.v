(* C14 — the reference program table of Prog.v, interpreted over the reals,
   IS the hand model e2n_call (for every mesh, mode string, flag, weight
   argument, incidence argument, field). *)
From Coq Require Import String ZArith Bool Arith List Lia Reals Lra.
Import ListNotations.
From FV.C13 Require Import Model ProofsMat ProofsInc.
From FV.C14 Require Import Model Proofs Prog.
Open Scope R_scope.

Definition ones : nat -> nat -> R := fun _ _ => 1.

Lemma recip_length {T} (O : Ops T) l : length (recip O l) = length l.
Proof. unfold recip. now rewrite map_length. Qed.
Lemma col_sums_length {T} (O : Ops T) Im f : length (col_sums O (Im, f)) = bnc Im.
Proof. unfold col_sums. now rewrite map_length, seq_length. Qed.
Lemma row_sums_length {T} (O : Ops T) Im f : length (row_sums O (Im, f)) = bnr Im.
Proof. unfold row_sums. now rewrite map_length, seq_length. Qed.

Lemma osum_ext (f g : nat -> R) l :
  (forall j, In j l -> f j = g j) -> osum ROps (map f l) = osum ROps (map g l).
Proof. intros H. rewrite !osum_R. now apply rsum_map_ext. Qed.

(* ------------------------------------------------------- mode='effective' *)
Lemma dot_effective Im v w :
  dot ROps (Im, fun i j => omul ROps (ones i j) (nth j (recip ROps (col_sums ROps (Im, ones))) (o0 ROps))) v w
  = e2n_effective_of ROps Im v w.
Proof.
  unfold dot, e2n_effective_of. cbv zeta.
  apply map_ext_in. intros i Hi. apply map_ext_in. intros c Hc.
  apply osum_ext. intros j Hj. apply in_seq in Hj.
  destruct (nth j (brow Im i) false); [|reflexivity].
  unfold recip, col_sums. rewrite map_map.
  rewrite !(nth_map_seq _ (o0 ROps) (bnc Im) j).
  assert (Hlt : (j <? bnc Im)%nat = true) by (apply Nat.ltb_lt; lia). rewrite Hlt.
  unfold ones. cbn [omul odiv o1 o0 oofnat ROps]. rewrite osum_R.
  rewrite (rsum_indicator_count (fun i => entry Im i j) 1 (seq 0 (bnr Im))).
  fold (col_count Im j). rewrite Rmult_1_r, Rmult_1_l. reflexivity.
Qed.

(* ------------------------------------------------------------ mode='mean' *)
Lemma row_sum_weighted Im (wt : list R) i :
  osum ROps (map (fun j => if nth j (brow Im i) false then omul ROps (ones i j) (nth j wt (o0 ROps))
                           else o0 ROps) (seq 0 (bnc Im)))
  = row_weight ROps Im wt i.
Proof.
  unfold row_weight. cbv zeta. apply osum_ext. intros j _.
  destruct (nth j (brow Im i) false); [|reflexivity]. unfold ones. cbn. lra.
Qed.

Lemma dot_mean Im wt v w :
  dot ROps (Im, fun i j => omul ROps (omul ROps (ones i j) (nth j wt (o0 ROps)))
                                   (nth i (recip ROps (row_sums ROps
                                      (Im, fun i j => omul ROps (ones i j) (nth j wt (o0 ROps))))) (o0 ROps))) v w
  = e2n_mean_of ROps Im wt v w.
Proof.
  unfold dot, e2n_mean_of. cbv zeta.
  apply map_ext_in. intros i Hi. apply in_seq in Hi. apply map_ext_in. intros c Hc.
  apply osum_ext. intros j Hj.
  destruct (nth j (brow Im i) false); [|reflexivity].
  unfold recip, row_sums. rewrite map_map. cbv zeta.
  rewrite (nth_map_seq _ (o0 ROps) (bnr Im) i).
  assert (Hlt : (i <? bnr Im)%nat = true) by (apply Nat.ltb_lt; lia). rewrite Hlt.
  rewrite row_sum_weighted.
  unfold ones. cbn [omul odiv o1 o0 ROps]. ring.
Qed.

Lemma row_sum_ones Im i :
  osum ROps (map (fun j => if nth j (brow Im i) false then ones i j else o0 ROps) (seq 0 (bnc Im)))
  = row_weight ROps Im (repeat (o1 ROps) (bnc Im)) i.
Proof.
  unfold row_weight. cbv zeta. apply osum_ext. intros j Hj. apply in_seq in Hj.
  destruct (nth j (brow Im i) false); [|reflexivity].
  cbn [o1 o0 ROps]. rewrite nth_repeat_1 by lia. reflexivity.
Qed.

Lemma dot_mean_false Im v w :
  dot ROps (Im, fun i j => omul ROps (ones i j) (nth i (recip ROps (row_sums ROps (Im, ones))) (o0 ROps))) v w
  = e2n_mean_of ROps Im (repeat (o1 ROps) (bnc Im)) v w.
Proof.
  unfold dot, e2n_mean_of. cbv zeta.
  apply map_ext_in. intros i Hi. apply in_seq in Hi. apply map_ext_in. intros c Hc.
  apply osum_ext. intros j Hj. apply in_seq in Hj.
  destruct (nth j (brow Im i) false); [|reflexivity].
  unfold recip, row_sums. rewrite map_map. cbv zeta.
  rewrite (nth_map_seq _ (o0 ROps) (bnr Im) i).
  assert (Hlt : (i <? bnr Im)%nat = true) by (apply Nat.ltb_lt; lia). rewrite Hlt.
  rewrite row_sum_ones.
  cbn [omul odiv o1 o0 ROps]. rewrite nth_repeat_1 by lia. unfold ones. ring.
Qed.

(* ------------------------------------------------------------ evaluation *)
Section Eval.
Variable E : env (T := R).

Lemma inc_ref_eval :
  eval_m ROps E (inc_ref (match ev_inc E with Some _ => true | None => false end))
  = option_map (fun Ig => (Ig, ones)) (incidence_in_use (ev_mesh E) (ev_order1 E) (ev_inc E)).
Proof.
  unfold incidence_in_use. destruct (ev_inc E) eqn:H; cbn [inc_ref eval_m]; rewrite ?H; reflexivity.
Qed.

Lemma eval_m_cols_eq m r :
  eval_m ROps E (MScaleCols m r) =
  match eval_m ROps E m, eval_r ROps E r with
  | Some (Ig, f), Some l =>
      if (length l =? bnc Ig)%nat then Some (Ig, fun i j => omul ROps (f i j) (nth j l (o0 ROps))) else None
  | _, _ => None
  end.
Proof. reflexivity. Qed.
Lemma eval_m_rows_eq m c :
  eval_m ROps E (MScaleRows m c) =
  match eval_m ROps E m, eval_c ROps E c with
  | Some (Ig, f), Some l =>
      if (length l =? bnr Ig)%nat then Some (Ig, fun i j => omul ROps (f i j) (nth i l (o0 ROps))) else None
  | _, _ => None
  end.
Proof. reflexivity. Qed.
Lemma eval_r_cs_eq m :
  eval_r ROps E (RRecipColSums m) = option_map (fun M => recip ROps (col_sums ROps M)) (eval_m ROps E m).
Proof. reflexivity. Qed.
Lemma eval_c_rs_eq m :
  eval_c ROps E (CRecipRowSums m) = option_map (fun M => recip ROps (row_sums ROps M)) (eval_m ROps E m).
Proof. reflexivity. Qed.

(* a failing operand makes the normalised product fail *)
Lemma eval_normalise_rows_none m : eval_m ROps E m = None ->
  eval_m ROps E (MScaleRows m (CRecipRowSums m)) = None.
Proof. intros H. rewrite eval_m_rows_eq, H. reflexivity. Qed.
Lemma eval_normalise_cols_none m : eval_m ROps E m = None ->
  eval_m ROps E (MScaleCols m (RRecipColSums m)) = None.
Proof. intros H. rewrite eval_m_cols_eq, H. reflexivity. Qed.
Lemma eval_scale_cols_none_l m r : eval_m ROps E m = None -> eval_m ROps E (MScaleCols m r) = None.
Proof. intros H. rewrite eval_m_cols_eq, H. reflexivity. Qed.
Lemma eval_scale_cols_none_r m r : eval_r ROps E r = None -> eval_m ROps E (MScaleCols m r) = None.
Proof. intros H. rewrite eval_m_cols_eq, H. destruct (eval_m ROps E m) as [[? ?]|]; reflexivity. Qed.

Lemma eval_scale_cols m r Im f l :
  eval_m ROps E m = Some (Im, f) -> eval_r ROps E r = Some l ->
  eval_m ROps E (MScaleCols m r) =
  if (length l =? bnc Im)%nat then Some (Im, fun i j => omul ROps (f i j) (nth j l (o0 ROps))) else None.
Proof. intros Hm Hr. rewrite eval_m_cols_eq. now rewrite Hm, Hr. Qed.

Lemma eval_normalise_rows m Im f :
  eval_m ROps E m = Some (Im, f) ->
  eval_m ROps E (MScaleRows m (CRecipRowSums m)) =
  Some (Im, fun i j => omul ROps (f i j) (nth i (recip ROps (row_sums ROps (Im, f))) (o0 ROps))).
Proof.
  intros Hm. rewrite eval_m_rows_eq, eval_c_rs_eq, Hm. cbn [option_map].
  rewrite recip_length, row_sums_length, Nat.eqb_refl. reflexivity.
Qed.

Lemma eval_normalise_cols m Im f :
  eval_m ROps E m = Some (Im, f) ->
  eval_m ROps E (MScaleCols m (RRecipColSums m)) =
  Some (Im, fun i j => omul ROps (f i j) (nth j (recip ROps (col_sums ROps (Im, f))) (o0 ROps))).
Proof.
  intros Hm. rewrite eval_m_cols_eq, eval_r_cs_eq, Hm. cbn [option_map].
  rewrite recip_length, col_sums_length, Nat.eqb_refl. reflexivity.
Qed.
End Eval.

(* the reference table, interpreted, is the hand model *)
Theorem ref_program_is_model m mode o rn wm inc v w :
  run_e2n_prog ROps e2n_ref m mode o rn wm inc v w = e2n_call ROps m mode o rn wm inc v w.
Proof.
  unfold run_e2n_prog, run_branch, e2n_call, e2n_ref. cbv zeta.
  destruct (String.eqb mode "effective") eqn:Eeff; [|destruct (String.eqb mode "mean") eqn:Emean];
    cbn [br_guards br_res existsb guard_fires ev_v ev_mesh ev_w].
  3:{ destruct (negb _); [reflexivity|]. destruct (incidence_in_use m o inc); reflexivity. }
  all: set (E := mkenv m o rn wm inc v w);
    set (given := match inc with Some _ => true | None => false end);
    rewrite orb_false_r;
    (destruct (negb (length v =? length (elems_of (m_blocks m)))%nat); [reflexivity|]);
    pose proof (inc_ref_eval E) as HI; cbn [ev_inc ev_mesh ev_order1 E] in HI;
    fold given in HI; fold E in HI;
    destruct (incidence_in_use m o inc) as [Im|] eqn:EI; cbn [option_map] in HI.
  - rewrite (eval_normalise_cols E _ Im ones HI). rewrite dot_effective. reflexivity.
  - rewrite (eval_normalise_cols_none E _ HI). reflexivity.
  - destruct wm as [|wt|by_id mu]; cbn [wkind_of].
    + rewrite (eval_normalise_rows E _ Im ones HI). rewrite dot_mean_false. reflexivity.
    + assert (Hr : eval_r ROps E RWeightT = Some wt) by reflexivity.
      pose proof (eval_scale_cols E _ _ Im ones wt HI Hr) as HM.
      destruct (length wt =? bnc Im)%nat; cbn [andb].
      * rewrite (eval_normalise_rows E _ Im _ HM). rewrite (dot_mean Im wt v w). reflexivity.
      * rewrite (eval_normalise_rows_none E _ HM). reflexivity.
    + assert (Hr : eval_r ROps E (RMetricsT BParam) =
                   match implicit_weights by_id mu (m_blocks m) with
                   | Some wt => validate_metric ROps rn wt | None => None end) by reflexivity.
      destruct (implicit_weights by_id mu (m_blocks m)) as [wt0|].
      2:{ rewrite eval_normalise_rows_none; [reflexivity|]. apply eval_scale_cols_none_r. exact Hr. }
      destruct (validate_metric ROps rn wt0) as [wt|].
      2:{ rewrite eval_normalise_rows_none; [reflexivity|]. apply eval_scale_cols_none_r. exact Hr. }
      pose proof (eval_scale_cols E _ _ Im ones wt HI Hr) as HM.
      destruct (length wt =? bnc Im)%nat; cbn [andb].
      * rewrite (eval_normalise_rows E _ Im _ HM). rewrite (dot_mean Im wt v w). reflexivity.
      * rewrite (eval_normalise_rows_none E _ HM). reflexivity.
  - destruct wm; cbn [wkind_of]; rewrite eval_normalise_rows_none;
      try reflexivity; try exact HI; apply eval_scale_cols_none_l; exact HI.
Qed.
