(* C14 — translator validation for convert_nodal2elemental: the interpreter on
   the translated program gen/N2EProg.v, evaluated over Q on the calls the
   implementation ran.  Definitions only. *)
From Coq Require Import String ZArith QArith Bool Arith List.
Import ListNotations.
From FV.C13 Require Import Model.
From FV.C14 Require Import Model Proofs Gather N2EProg.
From FV.C14.gen Require Import N2EProg.
Open Scope nat_scope.

(* the implementation's array with its rows flattened per element (2-D), plus
   whether it was 3-D *)
Definition nval_close (tol : Q) (v : option (nval (T := Q))) (three_d : bool)
           (r : option (list (list Q))) : bool :=
  match v, r with
  | None, None => true
  | Some (V2 f), Some b => negb three_d && rows_close tol f b
  | Some (V3 g), Some b => three_d && rows_close tol (map (@concat Q) g) b
  | _, _ => false
  end.

(* None = keyword left out of the call: the TRANSLATED default *)
Record ncall := mkncall { nq_by_name : bool; nq_ca : option bool; nq_rv : option bool;
                          nq_data : list (list Q); nq_w : nat; nq_3d : bool }.

Definition run_ncall (m : mesh) (q : ncall) : option (nval (T := Q)) :=
  run_n2e_prog QOps n2e_prog m (nq_by_name q)
    (match nq_ca q with Some b => b | None => nd_calc_average n2e_defaults end)
    (match nq_rv q with Some b => b | None => nd_ravel n2e_defaults end)
    (nq_data q) (nq_w q).

Definition check_ncase (m : mesh) (qs : list (ncall * Q * option (list (list Q)))) : list nat :=
  map fst (filter (fun kq : nat * (ncall * Q * option (list (list Q))) =>
                     let '(_, (q, tol, r)) := kq in
                     negb (nval_close tol (run_ncall m q) (nq_3d q) r))
                  (combine (seq 0 (length qs)) qs)).
