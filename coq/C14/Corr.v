(* C14 — what the correspondence evaluates (vm_compute, over Q): the hand model
   e2n_call AND the interpreter on the translated program gen/E2NProg.v, on
   the calls the implementation ran (arguments left out of the call are
   resolved with the TRANSLATED defaults).  Definitions only. *)
From Coq Require Import String ZArith QArith Bool Arith List.
Import ListNotations.
From FV.C13 Require Import Model.
From FV.C14 Require Import Model Proofs Gather Prog.
From FV.C14.gen Require Import E2NProg.
Open Scope nat_scope.

Inductive incsel :=
| IOwn (o : bool)          (* incidence=self.calculate_incidence_matrix(order1_only=o) *)
| IGiven (Ig : bmat).      (* incidence=<this matrix> *)

(* None = the keyword was left out of the call *)
Record callq := mkcall {
  cq_mode : option string; cq_o : option bool; cq_rn : option bool;
  cq_wm : option (wmode (T := Q));
  cq_wimp : wmode (T := Q);            (* the metric table, used when weight is (by default) None *)
  cq_inc : option incsel; cq_v : list (list Q); cq_w : nat }.

Definition resolve_inc (m : mesh) (s : option incsel) : option (option bmat) :=
  match s with
  | None => Some None
  | Some (IGiven Ig) => Some (Some Ig)
  | Some (IOwn o) => option_map Some (incidence m o)     (* None: building the argument raised *)
  end.

Definition dflt {A} (d : A) (x : option A) : A := match x with Some y => y | None => d end.

Definition run_call (use_prog : bool) (m : mesh) (q : callq) : option (list (list Q)) :=
  let d := e2n_defaults in
  let mode := dflt (d_mode d) (cq_mode q) in
  let o := dflt (d_order1_only d) (cq_o q) in
  let rn := dflt (d_raise_negative_volume d) (cq_rn q) in
  let wm := match cq_wm q with
            | Some x => x
            | None => match d_weight d with KFalse => WFalse | _ => cq_wimp q end
            end in
  match resolve_inc m (cq_inc q) with
  | None => None
  | Some inc =>
      if use_prog then run_e2n_prog QOps e2n_prog m mode o rn wm inc (cq_v q) (cq_w q)
      else e2n_call QOps m mode o rn wm inc (cq_v q) (cq_w q)
  end.

Inductive xquery :=
| XN2E (data : list (list Q)) (w : nat)
| XGATHER (data : list (list Q)) (w : nat)   (* calc_average=False (ravel or not): rows flattened *)
| XCALL (c : callq).

(* failing query indices: k = the hand model differs from the implementation,
   1000 + k = the translated program differs; 999 = element order *)
Definition check_xcase (m : mesh) (eids : list Z) (qs : list (xquery * Q * option (list (list Q))))
  : list nat :=
  if negb (list_eqb Z.eqb (map fst (elems_of (m_blocks m))) eids) then [999]
  else
    flat_map (fun kq : nat * (xquery * Q * option (list (list Q))) =>
                let '(k, (q, tol, r)) := kq in
                match q with
                | XN2E data w =>
                    (* the averaged conversion, and the column mean of the gather (Gather.v) *)
                    if res_close tol (n2e QOps m data w) r &&
                       res_close tol (option_map (map (mean_rows QOps w)) (n2e_gather QOps m data w)) r
                    then [] else [k]
                | XGATHER data w => if res_close tol (n2e_ravel QOps m data w) r then [] else [k]
                | XCALL c =>
                    ((if res_close tol (run_call false m c) r then [] else [k]) ++
                     (if res_close tol (run_call true m c) r then [] else [1000 + k]))%list
                end)
             (combine (seq 0 (length qs)) qs).

(* which configurations of the translated table differ from the reference one
   (diagnosis when C14_e2n_program_translated does not check) *)
Definition table_diff : list (string * wkind * bool) :=
  filter (fun c => let '(md, wk, g) := c in negb (branch_eqb (e2n_prog md wk g) (e2n_ref md wk g)))
         (flat_map (fun md => flat_map (fun wk => [(md, wk, false); (md, wk, true)])
                                       [KFalse; KNone; KArr])
                   (e2n_mode_literals ++ ["effective"; "mean"; "<any other string>"]%string)%list).
