(* C14 — convert_nodal2elemental as a PROGRAM (tie T).  translate/c14_n2e.py
   executes the method symbolically for every configuration (data given by
   name / as an array, calc_average, ravel) and writes what it read as a table
   of terms of the language below (coq/C14/gen/N2EProg.v).  This file: the
   language, its interpreter over any Ops, the reference table n2e_ref and the
   proof that its interpretation is the hand model (Model.n2e, Gather.v), for
   EVERY Ops (no field law needed). *)
From Coq Require Import String ZArith Bool Arith List.
Import ListNotations.
From FV.C13 Require Import Model.
From FV.C14 Require Import Model Proofs Gather.
Open Scope nat_scope.
Set Default Timeout 120.

Inductive nsrc :=
| NByName          (* self.nodal_data.get_attribute_data(data) *)
| NArg.            (* the argument itself *)

Inductive nexpr :=
| NGather (s : nsrc)        (* np.array([f[self.nodes.ids2indices(nodes), :] for nodes in self.elements.data]) *)
| NMeanNodes (e : nexpr)    (* np.mean(e, axis=1) *)
| NRavelRows (e : nexpr).   (* np.array([np.ravel(r) for r in e]) *)

Inductive nres := NRaise (exc : string) | NRet (e : nexpr).
(* `if len(nodal_data) != len(self.nodes.ids): raise exc` on the field named *)
Inductive nguard := GLenNodes (s : nsrc) (exc : string).
Record nbranch := mknbranch { nb_guards : list nguard; nb_res : nres }.

(* data is a str? -> calc_average -> ravel -> what the code does *)
Definition nprogram := bool -> bool -> bool -> nbranch.
Record ndefaults := mkndefaults { nd_calc_average : bool; nd_ravel : bool }.

Section Interp.
Context {T : Type} (O : Ops T).

Inductive nval := V3 (g : list (list (list T))) | V2 (f : list (list T)).

(* the field each source denotes in this call (None: not available, e.g. the
   argument is a name, not an array) *)
Record nenv := mknenv { ne_mesh : mesh; ne_named : option (field (T := T));
                        ne_arg : option (field (T := T)); ne_w : nat }.
Variable E : nenv.

Definition src_field (s : nsrc) : option field :=
  match s with NByName => ne_named E | NArg => ne_arg E end.

Fixpoint neval (e : nexpr) : option nval :=
  match e with
  | NGather s => match src_field s with
                 | Some d => option_map V3 (n2e_gather O (ne_mesh E) d (ne_w E))
                 | None => None
                 end
  | NMeanNodes e' => match neval e' with
                     | Some (V3 g) => Some (V2 (map (mean_rows O (ne_w E)) g))
                     | _ => None
                     end
  | NRavelRows e' => match neval e' with
                     | Some (V3 g) => Some (V2 (map (@concat T) g))
                     | _ => None
                     end
  end.

Definition nguard_fires (g : nguard) : bool :=
  match g with
  | GLenNodes s _ => match src_field s with
                     | Some d => negb (length d =? length (m_nodes (ne_mesh E)))
                     | None => true
                     end
  end.

Definition run_nbranch (b : nbranch) : option nval :=
  if existsb nguard_fires (nb_guards b) then None
  else match nb_res b with NRaise _ => None | NRet e => neval e end.
End Interp.

Definition run_n2e_prog {T} (O : Ops T) (P : nprogram) (m : mesh) (by_name calc_average ravel : bool)
           (data : field) (w : nat) : option (nval (T := T)) :=
  run_nbranch O (mknenv m (if by_name then Some data else None)
                        (if by_name then None else Some data) w)
              (P by_name calc_average ravel).

(* the hand model of the whole call (calc_average wins over ravel) *)
Definition n2e_call {T} (O : Ops T) (m : mesh) (calc_average ravel : bool) (data : field) (w : nat)
  : option (nval (T := T)) :=
  if calc_average then option_map V2 (n2e O m data w)
  else if ravel then option_map V2 (n2e_ravel O m data w)
  else option_map V3 (n2e_gather O m data w).

Definition n2e_ref : nprogram := fun by_name calc_average ravel =>
  let s := if by_name then NByName else NArg in
  mknbranch [GLenNodes s "ValueError"]
    (NRet (if calc_average then NMeanNodes (NGather s)
           else if ravel then NRavelRows (NGather s) else NGather s)).
Definition ndefaults_ref : ndefaults := mkndefaults false false.

Lemma gather_len_guard {T} (O : Ops T) m d w :
  negb (length d =? length (m_nodes m)) = true -> n2e_gather O m d w = None.
Proof. intros H. unfold n2e_gather. now rewrite H. Qed.

Theorem ref_n2e_program_is_model {T} (O : Ops T) m by_name ca rv data w :
  run_n2e_prog O n2e_ref m by_name ca rv data w = n2e_call O m ca rv data w.
Proof.
  unfold run_n2e_prog, run_nbranch, n2e_ref, n2e_call. cbv zeta.
  cbn [nb_guards nb_res existsb nguard_fires]. rewrite orb_false_r.
  assert (Hsrc : src_field (mknenv m (if by_name then Some data else None)
                                   (if by_name then None else Some data) w)
                           (if by_name then NByName else NArg) = Some data)
    by (destruct by_name; reflexivity).
  rewrite Hsrc. cbn [ne_mesh].
  destruct (negb (length data =? length (m_nodes m))) eqn:Hg.
  - rewrite (n2e_is_mean_of_gather O). unfold n2e_ravel.
    rewrite (gather_len_guard O m data w Hg). destruct ca, rv; reflexivity.
  - destruct ca; [|destruct rv]; cbn [neval]; rewrite Hsrc; cbn [ne_mesh ne_w].
    + rewrite (n2e_is_mean_of_gather O). destruct (n2e_gather O m data w); reflexivity.
    + unfold n2e_ravel. destruct (n2e_gather O m data w); reflexivity.
    + reflexivity.
Qed.
