(* C14 — the straight-line part of convert_elemental2nodal as a PROGRAM
   (tie T).  translate/c14_e2n.py executes the method symbolically for every
   configuration (mode literal / other, weight False / None / array,
   incidence given / not given), inlines private helpers, and writes what it
   read as a table of terms of the small language below
   (coq/C14/gen/E2NProg.v).  This file: the language, its interpreter over any
   `Ops T`, and the REFERENCE table `e2n_ref`, whose interpretation is proved
   equal to the hand model `e2n_call` (ProofsProg.v).  Props.v checks on every
   run that the table read from the source IS the reference table, so the
   property theorems speak about the expressions the code contains now.
   Definitions only. *)
From Coq Require Import String ZArith Bool Arith List.
Import ListNotations.
From FV.C13 Require Import Model.
From FV.C14 Require Import Model.
Open Scope nat_scope.

(* where a boolean keyword argument of an inner call comes from *)
Inductive barg := BParam | BConst (b : bool).

(* sparse (n_node, n_element) matrices; all of them carry the sparsity
   pattern of the incidence matrix (`multiply` keeps it) *)
Inductive mexpr :=
| MIncArg                              (* the `incidence=` argument *)
| MIncCalc (o : barg)                  (* self.calculate_incidence_matrix(order1_only=o);
                                          BParam = the parameter order1_only *)
| MScaleCols (m : mexpr) (r : rvec)    (* m.multiply(<(1, n_element) row>) *)
| MScaleRows (m : mexpr) (c : cvec)    (* m.multiply(<(n_node, 1) column>) *)
with rvec :=
| RWeightT                             (* weight.T *)
| RMetricsT (rn : barg)                (* self.calculate_element_metrics(raise_negative_metric=rn).T;
                                          BParam = the parameter raise_negative_volume *)
| RRecipColSums (m : mexpr)            (* 1 / m.sum(axis=0) *)
with cvec :=
| CRecipRowSums (m : mexpr).           (* 1 / m.sum(axis=1) *)

Inductive presult :=
| PRaise (exc : string)
| PDot (m : mexpr).                    (* m.dot(elemental_data) *)

(* `if len(elemental_data) != len(self.elements.ids): raise exc` *)
Inductive guard := GLenElems (exc : string).

Record branch := mkbranch { br_guards : list guard; br_res : presult }.

Inductive wkind := KFalse | KNone | KArr.

(* mode string -> kind of `weight` -> `incidence` given? -> what the code does *)
Definition program := string -> wkind -> bool -> branch.

(* defaults of the keyword parameters, as written in the signature *)
Record defaults := mkdefaults {
  d_mode : string; d_order1_only : bool; d_raise_negative_volume : bool;
  d_weight : wkind; d_incidence_given : bool }.

(* ---------------------------------------------------------- decidable = *)
Definition barg_eqb (a b : barg) : bool :=
  match a, b with
  | BParam, BParam => true
  | BConst x, BConst y => Bool.eqb x y
  | _, _ => false
  end.

Fixpoint mexpr_eqb (a b : mexpr) : bool :=
  match a, b with
  | MIncArg, MIncArg => true
  | MIncCalc x, MIncCalc y => barg_eqb x y
  | MScaleCols m r, MScaleCols m' r' => mexpr_eqb m m' && rvec_eqb r r'
  | MScaleRows m c, MScaleRows m' c' => mexpr_eqb m m' && cvec_eqb c c'
  | _, _ => false
  end
with rvec_eqb (a b : rvec) : bool :=
  match a, b with
  | RWeightT, RWeightT => true
  | RMetricsT x, RMetricsT y => barg_eqb x y
  | RRecipColSums m, RRecipColSums m' => mexpr_eqb m m'
  | _, _ => false
  end
with cvec_eqb (a b : cvec) : bool :=
  match a, b with
  | CRecipRowSums m, CRecipRowSums m' => mexpr_eqb m m'
  end.

(* -------------------------------------------------------- interpreter *)
Section Interp.
Context {T : Type} (O : Ops T).

Record env := mkenv {
  ev_mesh : mesh; ev_order1 : bool; ev_raise : bool; ev_wm : wmode (T := T);
  ev_inc : option bmat; ev_v : field (T := T); ev_w : nat }.

Definition bval (p : bool) (a : barg) : bool := match a with BParam => p | BConst b => b end.

(* a sparse matrix: pattern + the stored value at (i, j) *)
Definition smat := (bmat * (nat -> nat -> T))%type.

Definition col_sums (M : smat) : list T :=
  let '(Ig, f) := M in
  map (fun j => osum O (map (fun i => if entry Ig i j then f i j else o0 O) (seq 0 (bnr Ig))))
      (seq 0 (bnc Ig)).
Definition row_sums (M : smat) : list T :=
  let '(Ig, f) := M in
  map (fun i => let ri := brow Ig i in
                osum O (map (fun j => if nth j ri false then f i j else o0 O) (seq 0 (bnc Ig))))
      (seq 0 (bnr Ig)).
Definition recip (l : list T) : list T := map (fun x => odiv O (o1 O) x) l.

Variable E : env.

Fixpoint eval_m (e : mexpr) : option smat :=
  match e with
  | MIncArg => option_map (fun Ig => (Ig, fun _ _ => o1 O)) (ev_inc E)
  | MIncCalc o => option_map (fun Ig => (Ig, fun _ _ => o1 O))
                             (incidence (ev_mesh E) (bval (ev_order1 E) o))
  | MScaleCols m r =>
      match eval_m m, eval_r r with
      | Some (Ig, f), Some l =>
          if length l =? bnc Ig then Some (Ig, fun i j => omul O (f i j) (nth j l (o0 O))) else None
      | _, _ => None
      end
  | MScaleRows m c =>
      match eval_m m, eval_c c with
      | Some (Ig, f), Some l =>
          if length l =? bnr Ig then Some (Ig, fun i j => omul O (f i j) (nth i l (o0 O))) else None
      | _, _ => None
      end
  end
with eval_r (r : rvec) : option (list T) :=
  match r with
  | RWeightT => match ev_wm E with WExplicit wt => Some wt | _ => None end
  | RMetricsT rn =>
      match ev_wm E with
      | WImplicit by_id mu =>
          match implicit_weights by_id mu (m_blocks (ev_mesh E)) with
          | Some wt => validate_metric O (bval (ev_raise E) rn) wt
          | None => None
          end
      | _ => None            (* the model is given no metric table in this configuration *)
      end
  | RRecipColSums m => option_map (fun M => recip (col_sums M)) (eval_m m)
  end
with eval_c (c : cvec) : option (list T) :=
  match c with
  | CRecipRowSums m => option_map (fun M => recip (row_sums M)) (eval_m m)
  end.

Definition dot (M : smat) (v : field) (w : nat) : field :=
  let '(Ig, f) := M in
  map (fun i => let ri := brow Ig i in
         map (fun c => osum O (map (fun j => if nth j ri false then omul O (f i j) (cell O v j c)
                                             else o0 O) (seq 0 (bnc Ig))))
             (seq 0 w))
      (seq 0 (bnr Ig)).

Definition guard_fires (g : guard) : bool :=
  match g with
  | GLenElems _ => negb (length (ev_v E) =? length (elems_of (m_blocks (ev_mesh E))))
  end.

Definition run_branch (b : branch) : option field :=
  if existsb guard_fires (br_guards b) then None
  else match br_res b with
       | PRaise _ => None
       | PDot m => match eval_m m with
                   | Some (Ig, f) => if bnc Ig =? length (ev_v E) then Some (dot (Ig, f) (ev_v E) (ev_w E))
                                    else None
                   | None => None
                   end
       end.
End Interp.

Definition wkind_of {T} (wm : wmode (T := T)) : wkind :=
  match wm with WFalse => KFalse | WExplicit _ => KArr | WImplicit _ _ => KNone end.

Definition run_e2n_prog {T} (O : Ops T) (P : program) (m : mesh) (mode : string)
           (order1_only raise_neg : bool) (wm : wmode) (inc : option bmat) (v : field) (w : nat)
  : option field :=
  run_branch O (mkenv m order1_only raise_neg wm inc v w)
             (P mode (wkind_of wm) (match inc with Some _ => true | None => false end)).

(* ------------------------------------------------- the reference table *)
Definition inc_ref (given : bool) : mexpr := if given then MIncArg else MIncCalc BParam.

Definition e2n_ref : program := fun mode wk given =>
  let Ig := inc_ref given in
  (if String.eqb mode "effective" then
     mkbranch [GLenElems "ValueError"] (PDot (MScaleCols Ig (RRecipColSums Ig)))
   else if String.eqb mode "mean" then
     let M := match wk with
              | KFalse => Ig
              | KNone => MScaleCols Ig (RMetricsT BParam)
              | KArr => MScaleCols Ig RWeightT
              end in
     mkbranch [GLenElems "ValueError"] (PDot (MScaleRows M (CRecipRowSums M)))
   else mkbranch [] (PRaise "ValueError"))%string.
   (* a configuration that raises whatever the data has no guards: the
      translator drops guards that raise the same exception as the body *)

Definition defaults_ref : defaults := mkdefaults "mean" false true KNone false.

(* table equality, decided on the literals the code distinguishes + one other *)
Definition presult_eqb (a b : presult) : bool :=
  match a, b with
  | PRaise x, PRaise y => String.eqb x y
  | PDot m, PDot m' => mexpr_eqb m m'
  | _, _ => false
  end.
Definition guard_eqb (a b : guard) : bool :=
  match a, b with GLenElems x, GLenElems y => String.eqb x y end.
Fixpoint list_eqb' {A} (eq : A -> A -> bool) (a b : list A) : bool :=
  match a, b with
  | [], [] => true
  | x :: a', y :: b' => eq x y && list_eqb' eq a' b'
  | _, _ => false
  end.
Definition branch_eqb (a b : branch) : bool :=
  list_eqb' guard_eqb (br_guards a) (br_guards b) && presult_eqb (br_res a) (br_res b).
