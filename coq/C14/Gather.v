(* C14 — convert_nodal2elemental without averaging: calc_average=False gives,
   per element, the rows of the nodal field at its own nodes (element-local
   node order); ravel=True concatenates them.  Model + proofs (any Ops); the
   averaged conversion of Model.v is the column mean of this gather. *)
From Coq Require Import String ZArith Bool Arith List Lia.
Import ListNotations.
From FV.C13 Require Import Model ProofsMat ProofsInc.
From FV.C14 Require Import Model Proofs.
Open Scope nat_scope.

Section Gather.
Context {T : Type} (O : Ops T).

(* row p of the nodal field, cut / padded to the field width w *)
Definition data_row (data : field (T := T)) (w p : nat) : list T :=
  map (fun c => cell O data p c) (seq 0 w).

(* np.array([nodal_data[self.nodes.ids2indices(nodes), :] for nodes in self.elements.data]) *)
Definition n2e_gather (m : mesh) (data : field) (w : nat) : option (list (list (list T))) :=
  if negb (length data =? length (m_nodes m)) then None
  else
    let es := elems_of (m_blocks m) in
    if negb (all_same (map (fun e : elem => length (snd e)) es)) then None
    else omap (fun e : elem =>
                 option_map (map (data_row data w))
                            (omap (fun nid => index_of nid (m_nodes m)) (snd e)))
              es.

(* ravel=True: np.array([np.ravel(r) for r in elemental_data]) *)
Definition n2e_ravel (m : mesh) (data : field) (w : nat) : option field :=
  option_map (map (@concat T)) (n2e_gather m data w).

(* np.mean(elemental_data, axis=1) *)
Definition mean_rows (w : nat) (rows : list (list T)) : list T :=
  map (fun c => odiv O (osum O (map (fun r => nth c r (o0 O)) rows)) (oofnat O (length rows)))
      (seq 0 w).

(* ------------------------------------------------------------- proofs *)
Lemma omap_ext_in {A B} (f g : A -> option B) l :
  (forall x, In x l -> f x = g x) -> omap f l = omap g l.
Proof.
  induction l as [|a l IH]; intros H; simpl; [reflexivity|].
  rewrite (H a) by (left; reflexivity). rewrite IH; [reflexivity|].
  intros x Hx. apply H. right. exact Hx.
Qed.

Lemma omap_option_map {A B C} (f : A -> option B) (g : B -> C) l :
  omap (fun x => option_map g (f x)) l = option_map (map g) (omap f l).
Proof.
  induction l as [|a l IH]; simpl; [reflexivity|].
  rewrite IH. destruct (f a); simpl; [|reflexivity]. destruct (omap f l); reflexivity.
Qed.

Lemma nth_data_row data w p c : c < w -> nth c (data_row data w p) (o0 O) = cell O data p c.
Proof.
  intros H. unfold data_row. rewrite (nth_map_seq _ (o0 O) w c).
  apply Nat.ltb_lt in H. now rewrite H.
Qed.

(* the averaged conversion is the column mean of the gathered rows *)
Theorem n2e_is_mean_of_gather m data w :
  n2e O m data w = option_map (map (mean_rows w)) (n2e_gather m data w).
Proof.
  unfold n2e, n2e_gather.
  destruct (negb (length data =? length (m_nodes m))); [reflexivity|].
  destruct (negb (all_same _)); [reflexivity|].
  rewrite <- omap_option_map. apply omap_ext_in. intros e _.
  destruct (omap (fun nid => index_of nid (m_nodes m)) (snd e)) as [ps|]; [|reflexivity].
  simpl. f_equal. unfold mean_rows. rewrite map_length.
  apply map_ext_in. intros c Hc. apply in_seq in Hc. f_equal. f_equal.
  rewrite map_map. apply map_ext. intros p. symmetry. apply nth_data_row. lia.
Qed.

(* what is gathered: for the element at position j, local node k, component c:
   the value stored at the storage position of that node *)
Theorem n2e_gather_spec m data w g j e :
  n2e_gather m data w = Some g -> nth_error (elems_of (m_blocks m)) j = Some e ->
  exists ps rows,
    nth_error g j = Some rows /\
    Forall2 (fun nid p => nth_error (m_nodes m) p = Some nid) (snd e) ps /\
    rows = map (data_row data w) ps /\
    length rows = length (snd e) /\
    forall k p c, nth_error ps k = Some p -> c < w ->
      nth c (nth k rows []) (o0 O) = cell O data p c.
Proof.
  unfold n2e_gather. intros H Hj.
  destruct (negb (length data =? length (m_nodes m))); [discriminate|].
  destruct (negb (all_same _)); [discriminate|].
  destruct (omap_nth _ _ _ _ _ H Hj) as [rows [Hrow Hf]].
  destruct (omap (fun nid => index_of nid (m_nodes m)) (snd e)) as [ps|] eqn:Eps; [|discriminate].
  simpl in Hf. inversion Hf; subst rows; clear Hf.
  pose proof (omap_Forall2 _ _ _ Eps) as HF.
  exists ps, (map (data_row data w) ps). split; [exact Hrow|]. split.
  { eapply Forall2_imp; [|exact HF]. intros nid p Hp. now apply index_of_nth. }
  split; [reflexivity|]. split.
  { rewrite map_length. symmetry. eapply Forall2_len; eauto. }
  intros k p c Hk Hc.
  assert (Hn : nth_error (map (data_row data w) ps) k = Some (data_row data w p))
    by (rewrite nth_error_map, Hk; reflexivity).
  rewrite (nth_error_nth _ _ _ Hn). now apply nth_data_row.
Qed.

Theorem n2e_gather_rows m data w g :
  n2e_gather m data w = Some g -> length g = length (elems_of (m_blocks m)).
Proof.
  unfold n2e_gather. destruct (negb _); [discriminate|]. destruct (negb _); [discriminate|].
  intros H. apply omap_Forall2 in H. apply Forall2_len in H. now symmetry.
Qed.
End Gather.
