(* C14 — nodal <-> elemental conversion preserves constants, bounds, totals.
   Statements only (proofs in Proofs.v).  `Im` is the incidence matrix of C13:
   by FV.C13.Props.C13_incidence_spec, `entry Im i j = true` means "the node at
   storage position i belongs to the element at position j of elements.ids".
   Theorems are over the reals (ROps); rounding is modelled as exact. *)
From Coq Require Import String ZArith Bool Arith List Lia Reals QArith.
Import ListNotations.
From FV.C13 Require Import Model ProofsInc Props.
From FV.C14 Require Import Model Proofs Gather Prog ProofsProg.
From FV.C14.gen Require Import E2NProg.
Open Scope nat_scope.

(* ---------------------------------------------------- nodal -> elemental *)
(* for every Ops (no field law is needed): the element at position j gets the
   mean of the values stored at the storage positions of its own nodes *)
Theorem C14_n2e_mean : forall (T : Type) (O : Ops T) m data w res j e c,
  n2e O m data w = Some res -> nth_error (elems_of (m_blocks m)) j = Some e -> c < w ->
  exists ps,
    Forall2 (fun nid p => nth_error (m_nodes m) p = Some nid) (snd e) ps /\
    cell O res j c = odiv O (osum O (map (fun p => cell O data p c) ps))
                            (oofnat O (length (snd e))).
Proof. intros T O. exact (n2e_mean O). Qed.

Theorem C14_n2e_rows : forall (T : Type) (O : Ops T) m data w res,
  n2e O m data w = Some res -> length res = length (elems_of (m_blocks m)).
Proof. intros T O. exact (n2e_rows O). Qed.

(* an affine field a.x + b of the node coordinates (x, y, z by storage
   position) is reproduced at the vertex centroid *)
Theorem C14_n2e_affine : forall m data w res j e c (x y z : nat -> R) a1 a2 a3 b,
  n2e ROps m data w = Some res -> nth_error (elems_of (m_blocks m)) j = Some e -> c < w ->
  snd e <> [] ->
  (forall p, cell ROps data p c = a1 * x p + a2 * y p + a3 * z p + b)%R ->
  exists ps,
    Forall2 (fun nid p => nth_error (m_nodes m) p = Some nid) (snd e) ps /\
    cell ROps res j c =
      (a1 * (rsum (map x ps) / INR (length ps)) + a2 * (rsum (map y ps) / INR (length ps))
       + a3 * (rsum (map z ps) / INR (length ps)) + b)%R.
Proof. exact n2e_affine. Qed.

(* calc_average=False: per element the rows of the field at its own nodes, in
   the element's local node order (ravel=True: concatenated); for every Ops *)
Theorem C14_n2e_gather : forall (T : Type) (O : Ops T) m data w g j e,
  n2e_gather O m data w = Some g -> nth_error (elems_of (m_blocks m)) j = Some e ->
  exists ps rows,
    nth_error g j = Some rows /\
    Forall2 (fun nid p => nth_error (m_nodes m) p = Some nid) (snd e) ps /\
    rows = map (data_row O data w) ps /\
    length rows = length (snd e) /\
    forall k p c, nth_error ps k = Some p -> c < w ->
      nth c (nth k rows []) (o0 O) = cell O data p c.
Proof. intros T O. exact (n2e_gather_spec O). Qed.

(* calc_average=True is the column mean of that gather *)
Theorem C14_n2e_mean_of_gather : forall (T : Type) (O : Ops T) m data w,
  n2e O m data w = option_map (map (mean_rows O w)) (n2e_gather O m data w).
Proof. intros T O. exact (n2e_is_mean_of_gather O). Qed.

(* ------------------------------------------ elemental -> nodal, mode='mean' *)
(* with the weights wt the call uses (ones / the explicit array / the element
   metrics): result_i = sum_{e touching i} w_e v_e / sum_{e touching i} w_e;
   hence constants are preserved and, for positive weights, the result lies
   between the smallest and the largest touching value; every field width *)
Theorem C14_e2n_mean : forall m o rn wm inc v w res,
  e2n_call ROps m "mean" o rn wm inc v w = Some res ->
  exists Im wt, incidence_in_use m o inc = Some Im /\ weights_described ROps m Im rn wm wt /\
    length res = bnr Im /\
    (forall i c, i < bnr Im -> c < w -> wsum Im wt i <> 0%R ->
       cell ROps res i c =
       (rsum (map (fun j => if entry Im i j then nth j wt 0 * cell ROps v j c else 0)
                  (seq 0 (bnc Im))) / wsum Im wt i)%R) /\
    (forall i c k, i < bnr Im -> c < w -> wsum Im wt i <> 0%R ->
       (forall j, j < bnc Im -> entry Im i j = true -> cell ROps v j c = k) ->
       cell ROps res i c = k) /\
    (forall i c lo hi j0, i < bnr Im -> c < w ->
       (forall j, j < bnc Im -> entry Im i j = true -> (0 < nth j wt 0)%R) ->
       j0 < bnc Im -> entry Im i j0 = true ->
       (forall j, j < bnc Im -> entry Im i j = true -> (lo <= cell ROps v j c <= hi)%R) ->
       (lo <= cell ROps res i c <= hi)%R).
Proof. exact e2n_mean_spec. Qed.

(* raise_negative_volume=True: the implicit weights that reach the mean are
   never negative (a negative metric raises instead) *)
Theorem C14_validated_weights_nonneg : forall m Im wt by_id mu,
  weights_described ROps m Im true (WImplicit by_id mu) wt -> forall j, (0 <= nth j wt 0)%R.
Proof. exact weights_validated_nonneg. Qed.

(* the sum of positive touching weights is not zero *)
Theorem C14_weight_sum_positive : forall Im wt i j,
  (forall j, j < bnc Im -> entry Im i j = true -> (0 < nth j wt 0)%R) ->
  j < bnc Im -> entry Im i j = true -> (0 < wsum Im wt i)%R.
Proof. exact wsum_pos. Qed.

(* implicit weights on a one-type mesh are the element metrics, position by
   position (weights proportional to element size) *)
Theorem C14_implicit_weights_uniform : forall (T : Type) by_id (mu : Z -> option T) bs t b wt,
  items bs = [(t, b)] -> implicit_weights by_id mu bs = Some wt ->
  Forall2 (fun (e : elem) x => mu (fst e) = Some x) (elems_of bs) wt.
Proof. intros T. exact (@implicit_weights_uniform_spec T). Qed.

(* with the id-based assignment in the 'mix' branch (by_id = true, the
   proposed fix) this holds for every mesh *)
Theorem C14_implicit_weights_by_id : forall (T : Type) (mu : Z -> option T) bs wt,
  implicit_weights true mu bs = Some wt ->
  Forall2 (fun (e : elem) x => mu (fst e) = Some x) (elems_of bs) wt.
Proof. intros T. exact (@implicit_weights_by_id_spec T). Qed.

(* ... with the assignment of the unchanged tree (by_id = false) the
   full-strength statement "the implicit weight at position j is the metric of
   the element at position j" is FALSE for mixed meshes whose blocks are not
   stored by ascending id (calculate_element_metrics, 'mix' branch);
   replayed on the implementation by the harness: finding *)
Definition blocks_mixed : list block :=
  [("quad", [(10, [1; 2; 3; 4])]); ("tri", [(30, [2; 5; 3]); (20, [5; 6; 3])])]%Z%string.
Definition mu_mixed (eid : Z) : option Q :=
  table_lookup [(10, 4#1); (20, 8#1); (30, 4#1)]%Z%Q eid.
Theorem C14_implicit_weights_mixed_refuted :
  exists wt j e x,
    implicit_weights false mu_mixed blocks_mixed = Some wt /\
    nth_error (elems_of blocks_mixed) j = Some e /\ mu_mixed (fst e) = Some x /\
    nth_error wt j <> Some x.
Proof.
  exists [4#1; 4#1; 8#1]%Q, 1, (20%Z, [5; 6; 3]%Z), (8#1)%Q.
  vm_compute. repeat split; try reflexivity. discriminate.
Qed.

(* ------------------------------------- elemental -> nodal, mode='effective' *)
(* every element's value is split into equal shares among its nodes, so the
   grand total is conserved (each column of the weight matrix sums to one),
   for every field width *)
Theorem C14_e2n_effective : forall m o rn wm inc v w res,
  e2n_call ROps m "effective" o rn wm inc v w = Some res ->
  exists Im, incidence_in_use m o inc = Some Im /\ length res = bnr Im /\
    (forall i c, i < bnr Im -> c < w ->
       cell ROps res i c =
       rsum (map (fun j => if entry Im i j then cell ROps v j c / INR (col_count Im j) else 0)%R
                 (seq 0 (bnc Im)))) /\
    ((forall j, j < bnc Im -> exists i, i < bnr Im /\ entry Im i j = true) ->
     forall c, c < w ->
       rsum (map (fun i => cell ROps res i c) (seq 0 (bnr Im)))
       = rsum (map (fun j => cell ROps v j c) (seq 0 (bnc Im)))).
Proof. exact e2n_effective_spec. Qed.

(* ----------------------------------- the expressions the code contains (T) *)
(* gen/E2NProg.v is written on every run by translate/c14_e2n.py, which executes
   convert_elemental2nodal symbolically (helpers inlined) for every mode
   literal + an unknown mode, weight False / None / array, incidence given /
   not given.  What it read is the reference table ... *)
Theorem C14_e2n_program_translated : forall mode wk given,
  e2n_prog mode wk given = e2n_ref mode wk given.
Proof.
  intros mode wk given. unfold e2n_prog, e2n_ref, inc_ref.
  repeat match goal with |- context [String.eqb mode ?s] => destruct (String.eqb mode s) end;
    destruct wk, given; reflexivity.
Qed.

Theorem C14_e2n_defaults_translated : e2n_defaults = defaults_ref.
Proof. reflexivity. Qed.

(* ... whose interpretation over the reals is the hand model, for every mesh,
   mode string, flags, weight and incidence argument, field and width *)
Theorem C14_e2n_translated_is_model : forall m mode o rn wm inc v w,
  run_e2n_prog ROps e2n_prog m mode o rn wm inc v w = e2n_call ROps m mode o rn wm inc v w.
Proof.
  intros. rewrite <- ref_program_is_model. unfold run_e2n_prog.
  now rewrite C14_e2n_program_translated.
Qed.

(* so the conversion laws hold of the translated program itself *)
Theorem C14_e2n_translated_mean : forall m o rn wm inc v w res,
  run_e2n_prog ROps e2n_prog m "mean" o rn wm inc v w = Some res ->
  exists Im wt, incidence_in_use m o inc = Some Im /\ weights_described ROps m Im rn wm wt /\
    length res = bnr Im /\
    (forall i c, i < bnr Im -> c < w -> wsum Im wt i <> 0%R ->
       cell ROps res i c =
       (rsum (map (fun j => if entry Im i j then nth j wt 0 * cell ROps v j c else 0)
                  (seq 0 (bnc Im))) / wsum Im wt i)%R) /\
    (forall i c lo hi j0, i < bnr Im -> c < w ->
       (forall j, j < bnc Im -> entry Im i j = true -> (0 < nth j wt 0)%R) ->
       j0 < bnc Im -> entry Im i j0 = true ->
       (forall j, j < bnc Im -> entry Im i j = true -> (lo <= cell ROps v j c <= hi)%R) ->
       (lo <= cell ROps res i c <= hi)%R).
Proof.
  intros m o rn wm inc v w res H. rewrite C14_e2n_translated_is_model in H.
  destruct (C14_e2n_mean _ _ _ _ _ _ _ _ H) as [Im [wt [H1 [H2 [H3 [H4 [_ H6]]]]]]].
  exists Im, wt. auto.
Qed.

Theorem C14_e2n_translated_effective : forall m o rn wm inc v w res,
  run_e2n_prog ROps e2n_prog m "effective" o rn wm inc v w = Some res ->
  exists Im, incidence_in_use m o inc = Some Im /\ length res = bnr Im /\
    ((forall j, j < bnc Im -> exists i, i < bnr Im /\ entry Im i j = true) ->
     forall c, c < w ->
       rsum (map (fun i => cell ROps res i c) (seq 0 (bnr Im)))
       = rsum (map (fun j => cell ROps v j c) (seq 0 (bnc Im)))).
Proof.
  intros m o rn wm inc v w res H. rewrite C14_e2n_translated_is_model in H.
  destruct (C14_e2n_effective _ _ _ _ _ _ _ _ H) as [Im [H1 [H2 [_ H4]]]].
  exists Im. auto.
Qed.

(* an unknown mode string, a wrong length, a metric that is negative while
   raise_negative_volume is set: no result *)
Theorem C14_e2n_rejects : forall (T : Type) (O : Ops T) m mode o rn wm inc v w,
  (mode <> "effective"%string /\ mode <> "mean"%string) \/
  length v <> length (elems_of (m_blocks m)) ->
  e2n_call O m mode o rn wm inc v w = None.
Proof.
  intros T O m mode o rn wm inc v w [[H1 H2]|H]; unfold e2n_call.
  - apply String.eqb_neq in H1, H2. rewrite H1, H2.
    destruct (negb _); [reflexivity|]. destruct (incidence_in_use m o inc); reflexivity.
  - apply Nat.eqb_neq in H. rewrite H. reflexivity.
Qed.

(* ---------------------------------------------------------- non-vacuity *)
Definition mesh_c14 : mesh :=
  mkmesh [10; 5; 7; 3; 99; 42]%Z [("tri", [(30, [10; 5; 7]); (20, [5; 7; 3])])]%Z%string.
Example C14_nonvacuous :
  ids_ok mesh_c14 = true /\
  e2n QOps mesh_c14 false false (WExplicit [1#1; 3#1]%Q) [[2#1]; [6#1]]%Q 1
    = Some [[2#1]; [5#1]; [5#1]; [6#1]; [0#1]; [0#1]]%Q /\
  e2n QOps mesh_c14 true false WFalse [[3#1]; [6#1]]%Q 1
    = Some [[1#1]; [3#1]; [3#1]; [2#1]; [0#1]; [0#1]]%Q /\
  n2e QOps mesh_c14 [[3#1]; [6#1]; [0#1]; [9#1]; [1#1]; [1#1]]%Q 1 = Some [[3#1]; [5#1]]%Q /\
  n2e_ravel QOps mesh_c14 [[3#1]; [6#1]; [0#1]; [9#1]; [1#1]; [1#1]]%Q 1
    = Some [[3#1; 6#1; 0#1]; [6#1; 0#1; 9#1]]%Q /\
  (* the translated program computes the same, also with an `incidence=` argument *)
  run_e2n_prog QOps e2n_prog mesh_c14 "mean" false true (WExplicit [1#1; 3#1]%Q) None [[2#1]; [6#1]]%Q 1
    = Some [[2#1]; [5#1]; [5#1]; [6#1]; [0#1]; [0#1]]%Q /\
  run_e2n_prog QOps e2n_prog mesh_c14 "effective" false true WFalse
    (Some (mkb 2 2 [[true; false]; [true; true]])) [[3#1]; [6#1]]%Q 1
    = Some [[3#2]; [15#2]]%Q /\
  (* a negative metric: raises when the flag is set, is used as it is otherwise *)
  e2n_call QOps mesh_c14 "mean" false true
    (WImplicit true (table_lookup [(20, -1#1); (30, 3#1)]%Z%Q)) None [[2#1]; [6#1]]%Q 1 = None /\
  e2n_call QOps mesh_c14 "mean" false false
    (WImplicit true (table_lookup [(20, -1#1); (30, 3#1)]%Z%Q)) None [[2#1]; [6#1]]%Q 1
    = Some [[2#1]; [0#1]; [0#1]; [6#1]; [0#1]; [0#1]]%Q.
Proof. vm_compute. repeat split; reflexivity. Qed.

Print Assumptions C14_n2e_mean.
Print Assumptions C14_n2e_affine.
Print Assumptions C14_e2n_mean.
Print Assumptions C14_e2n_effective.
Print Assumptions C14_e2n_program_translated.
Print Assumptions C14_e2n_translated_is_model.
Print Assumptions C14_e2n_translated_mean.
Print Assumptions C14_e2n_translated_effective.
