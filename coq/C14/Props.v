From FV.C14 Require Import Model.
