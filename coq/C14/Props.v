(* C14 — nodal <-> elemental conversion preserves constants, bounds, totals.
   Statements only (proofs in Proofs.v).  `Im` is the incidence matrix of C13:
   by FV.C13.Props.C13_incidence_spec, `entry Im i j = true` means "the node at
   storage position i belongs to the element at position j of elements.ids".
   Theorems are over the reals (ROps); rounding is modelled as exact. *)
From Coq Require Import String ZArith Bool Arith List Lia Reals QArith.
Import ListNotations.
From FV.C13 Require Import Model ProofsInc Props.
From FV.C14 Require Import Model Proofs.
Open Scope nat_scope.

(* ---------------------------------------------------- nodal -> elemental *)
(* for every Ops (no field law is needed): the element at position j gets the
   mean of the values stored at the storage positions of its own nodes *)
Theorem C14_n2e_mean : forall (T : Type) (O : Ops T) m data w res j e c,
  n2e O m data w = Some res -> nth_error (elems_of (m_blocks m)) j = Some e -> c < w ->
  exists ps,
    Forall2 (fun nid p => nth_error (m_nodes m) p = Some nid) (snd e) ps /\
    cell O res j c = odiv O (osum O (map (fun p => cell O data p c) ps))
                            (oofnat O (length (snd e))).
Proof. intros T O. exact (n2e_mean O). Qed.

Theorem C14_n2e_rows : forall (T : Type) (O : Ops T) m data w res,
  n2e O m data w = Some res -> length res = length (elems_of (m_blocks m)).
Proof. intros T O. exact (n2e_rows O). Qed.

(* an affine field a.x + b of the node coordinates (x, y, z by storage
   position) is reproduced at the vertex centroid *)
Theorem C14_n2e_affine : forall m data w res j e c (x y z : nat -> R) a1 a2 a3 b,
  n2e ROps m data w = Some res -> nth_error (elems_of (m_blocks m)) j = Some e -> c < w ->
  snd e <> [] ->
  (forall p, cell ROps data p c = a1 * x p + a2 * y p + a3 * z p + b)%R ->
  exists ps,
    Forall2 (fun nid p => nth_error (m_nodes m) p = Some nid) (snd e) ps /\
    cell ROps res j c =
      (a1 * (rsum (map x ps) / INR (length ps)) + a2 * (rsum (map y ps) / INR (length ps))
       + a3 * (rsum (map z ps) / INR (length ps)) + b)%R.
Proof. exact n2e_affine. Qed.

(* ------------------------------------------ elemental -> nodal, mode='mean' *)
(* with the weights wt the call uses (ones / the explicit array / the element
   metrics): result_i = sum_{e touching i} w_e v_e / sum_{e touching i} w_e;
   hence constants are preserved and, for positive weights, the result lies
   between the smallest and the largest touching value; every field width *)
Theorem C14_e2n_mean : forall m o wm v w res,
  e2n ROps m false o wm v w = Some res ->
  exists Im wt, incidence m o = Some Im /\ weights_described ROps m Im wm wt /\
    length res = bnr Im /\
    (forall i c, i < bnr Im -> c < w -> wsum Im wt i <> 0%R ->
       cell ROps res i c =
       (rsum (map (fun j => if entry Im i j then nth j wt 0 * cell ROps v j c else 0)
                  (seq 0 (bnc Im))) / wsum Im wt i)%R) /\
    (forall i c k, i < bnr Im -> c < w -> wsum Im wt i <> 0%R ->
       (forall j, j < bnc Im -> entry Im i j = true -> cell ROps v j c = k) ->
       cell ROps res i c = k) /\
    (forall i c lo hi j0, i < bnr Im -> c < w ->
       (forall j, j < bnc Im -> entry Im i j = true -> (0 < nth j wt 0)%R) ->
       j0 < bnc Im -> entry Im i j0 = true ->
       (forall j, j < bnc Im -> entry Im i j = true -> (lo <= cell ROps v j c <= hi)%R) ->
       (lo <= cell ROps res i c <= hi)%R).
Proof. exact e2n_mean_spec. Qed.

(* the sum of positive touching weights is not zero *)
Theorem C14_weight_sum_positive : forall Im wt i j,
  (forall j, j < bnc Im -> entry Im i j = true -> (0 < nth j wt 0)%R) ->
  j < bnc Im -> entry Im i j = true -> (0 < wsum Im wt i)%R.
Proof. exact wsum_pos. Qed.

(* implicit weights on a one-type mesh are the element metrics, position by
   position (weights proportional to element size) *)
Theorem C14_implicit_weights_uniform : forall (T : Type) by_id (mu : Z -> option T) bs t b wt,
  items bs = [(t, b)] -> implicit_weights by_id mu bs = Some wt ->
  Forall2 (fun (e : elem) x => mu (fst e) = Some x) (elems_of bs) wt.
Proof. intros T. exact (@implicit_weights_uniform_spec T). Qed.

(* with the id-based assignment in the 'mix' branch (by_id = true, the
   proposed fix) this holds for every mesh *)
Theorem C14_implicit_weights_by_id : forall (T : Type) (mu : Z -> option T) bs wt,
  implicit_weights true mu bs = Some wt ->
  Forall2 (fun (e : elem) x => mu (fst e) = Some x) (elems_of bs) wt.
Proof. intros T. exact (@implicit_weights_by_id_spec T). Qed.

(* ... with the assignment of the unchanged tree (by_id = false) the
   full-strength statement "the implicit weight at position j is the metric of
   the element at position j" is FALSE for mixed meshes whose blocks are not
   stored by ascending id (calculate_element_metrics, 'mix' branch);
   replayed on the implementation by the harness: finding *)
Definition blocks_mixed : list block :=
  [("quad", [(10, [1; 2; 3; 4])]); ("tri", [(30, [2; 5; 3]); (20, [5; 6; 3])])]%Z%string.
Definition mu_mixed (eid : Z) : option Q :=
  table_lookup [(10, 4#1); (20, 8#1); (30, 4#1)]%Z%Q eid.
Theorem C14_implicit_weights_mixed_refuted :
  exists wt j e x,
    implicit_weights false mu_mixed blocks_mixed = Some wt /\
    nth_error (elems_of blocks_mixed) j = Some e /\ mu_mixed (fst e) = Some x /\
    nth_error wt j <> Some x.
Proof.
  exists [4#1; 4#1; 8#1]%Q, 1, (20%Z, [5; 6; 3]%Z), (8#1)%Q.
  vm_compute. repeat split; try reflexivity. discriminate.
Qed.

(* ------------------------------------- elemental -> nodal, mode='effective' *)
(* every element's value is split into equal shares among its nodes, so the
   grand total is conserved (each column of the weight matrix sums to one),
   for every field width *)
Theorem C14_e2n_effective : forall m o wm v w res,
  e2n ROps m true o wm v w = Some res ->
  exists Im, incidence m o = Some Im /\ length res = bnr Im /\
    (forall i c, i < bnr Im -> c < w ->
       cell ROps res i c =
       rsum (map (fun j => if entry Im i j then cell ROps v j c / INR (col_count Im j) else 0)%R
                 (seq 0 (bnc Im)))) /\
    ((forall j, j < bnc Im -> exists i, i < bnr Im /\ entry Im i j = true) ->
     forall c, c < w ->
       rsum (map (fun i => cell ROps res i c) (seq 0 (bnr Im)))
       = rsum (map (fun j => cell ROps v j c) (seq 0 (bnc Im)))).
Proof. exact e2n_effective_spec. Qed.

(* ---------------------------------------------------------- non-vacuity *)
Definition mesh_c14 : mesh :=
  mkmesh [10; 5; 7; 3; 99; 42]%Z [("tri", [(30, [10; 5; 7]); (20, [5; 7; 3])])]%Z%string.
Example C14_nonvacuous :
  ids_ok mesh_c14 = true /\
  e2n QOps mesh_c14 false false (WExplicit [1#1; 3#1]%Q) [[2#1]; [6#1]]%Q 1
    = Some [[2#1]; [5#1]; [5#1]; [6#1]; [0#1]; [0#1]]%Q /\
  e2n QOps mesh_c14 true false WFalse [[3#1]; [6#1]]%Q 1
    = Some [[1#1]; [3#1]; [3#1]; [2#1]; [0#1]; [0#1]]%Q /\
  n2e QOps mesh_c14 [[3#1]; [6#1]; [0#1]; [9#1]; [1#1]; [1#1]]%Q 1 = Some [[3#1]; [5#1]]%Q.
Proof. vm_compute. repeat split; reflexivity. Qed.

Print Assumptions C14_n2e_mean.
Print Assumptions C14_n2e_affine.
Print Assumptions C14_e2n_mean.
Print Assumptions C14_e2n_effective.
