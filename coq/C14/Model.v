(* C14 — nodal <-> elemental conversion (femio/signal_processor.py), hand model
   (tie H) on top of the incidence model of C13.  Definitions only.
   Values live in an `Ops T` record: R for the theorems, Q for execution. *)
From Coq Require Import String ZArith Bool Arith List.
Import ListNotations.
From FV.C13 Require Import Model.
Open Scope nat_scope.

Record Ops (T : Type) := mkOps {
  o0 : T; o1 : T; oadd : T -> T -> T; omul : T -> T -> T; odiv : T -> T -> T;
  oofnat : nat -> T;
  onegb : T -> bool          (* x < 0, used by _validate_metric only *) }.
Arguments o0 {T}. Arguments o1 {T}. Arguments oadd {T}. Arguments omul {T}.
Arguments odiv {T}. Arguments oofnat {T}. Arguments onegb {T}.

Section Conv.
Context {T : Type} (O : Ops T).

Definition osum (l : list T) : T := fold_right (oadd O) (o0 O) l.
Definition field := list (list T).            (* one row per node / element *)
Definition cell (f : field) (r c : nat) : T := nth c (nth r f []) (o0 O).

(* ------------------------------------------------ convert_nodal2elemental *)
(* calc_average=True.  Rows of `data` are in node STORAGE order; the result
   has one row per position of elements.ids.  np.array([...]) of per-element
   gathers raises when the elements do not all have the same number of nodes
   (numpy >= 1.24), so a mesh mixing arities is rejected. *)
Definition all_same (l : list nat) : bool :=
  match l with [] => true | a :: r => forallb (Nat.eqb a) r end.

Definition n2e (m : mesh) (data : field) (w : nat) : option field :=
  if negb (length data =? length (m_nodes m)) then None     (* ValueError *)
  else
    let es := elems_of (m_blocks m) in
    if negb (all_same (map (fun e : elem => length (snd e)) es)) then None
    else
      omap (fun e : elem =>
              option_map (fun ps =>
                 map (fun c => odiv O (osum (map (fun p => cell data p c) ps))
                                      (oofnat O (length ps)))
                     (seq 0 w))
                (omap (fun nid => index_of nid (m_nodes m)) (snd e)))
           es.

(* ------------------------------------------------ convert_elemental2nodal *)
(* mode='mean': M = I.multiply(w^T); W = M.multiply(1 / M.sum(axis=1));
   W.dot(v).  weight=False is w = 1.  A node in no element has an empty row:
   result 0. *)
Definition row_weight (I : bmat) (wt : list T) (i : nat) : T :=
  let ri := brow I i in
  osum (map (fun j => if nth j ri false then nth j wt (o0 O) else o0 O) (seq 0 (bnc I))).

Definition e2n_mean_of (I : bmat) (wt : list T) (v : field) (w : nat) : field :=
  map (fun i => let ri := brow I i in let s := row_weight I wt i in
         map (fun c => osum (map (fun j => if nth j ri false
                                           then omul O (omul O (nth j wt (o0 O)) (odiv O (o1 O) s))
                                                       (cell v j c)
                                           else o0 O) (seq 0 (bnc I))))
             (seq 0 w))
      (seq 0 (bnr I)).

(* mode='effective': W = I.multiply(1 / I.sum(axis=0)) *)
Definition col_count (I : bmat) (j : nat) : nat :=
  length (filter (fun i => entry I i j) (seq 0 (bnr I))).

Definition e2n_effective_of (I : bmat) (v : field) (w : nat) : field :=
  let inv := map (fun j => odiv O (o1 O) (oofnat O (col_count I j))) (seq 0 (bnc I)) in
  map (fun i => let ri := brow I i in
         map (fun c => osum (map (fun j => if nth j ri false
                                           then omul O (nth j inv (o0 O)) (cell v j c)
                                           else o0 O) (seq 0 (bnc I))))
             (seq 0 w))
      (seq 0 (bnr I)).

(* calculate_element_metrics as used for the implicit weights.  `mu eid` is the
   metric (area/volume) of the element with that id, None when its type is not
   supported.  One type: metrics in block order = elements.ids order.
   Several types ('mix'): metrics[elements.types == k] = metrics of block k IN
   BLOCK STORAGE ORDER, i.e. the positions of type k (ascending id) receive the
   block's values in storage order. *)
Fixpoint pop (t : string) (pools : list (string * list T)) : option (T * list (string * list T)) :=
  match pools with
  | [] => None
  | (k, l) :: r =>
      if String.eqb k t then
        match l with [] => None | x :: l' => Some (x, (k, l') :: r) end
      else option_map (fun xr => (fst xr, (k, l) :: snd xr)) (pop t r)
  end.

Fixpoint scatter (types : list string) (pools : list (string * list T)) : option (list T) :=
  match types with
  | [] => Some []
  | t :: ts => match pop t pools with
               | None => None
               | Some (x, pools') => option_map (cons x) (scatter ts pools')
               end
  end.

Fixpoint type_of_id (eid : Z) (bs : list block) : option string :=
  match bs with
  | [] => None
  | (t, rows) :: r => if zmem eid (map fst rows) then Some t else type_of_id eid r
  end.

Definition implicit_weights_scatter (mu : Z -> option T) (bs : list block) : option (list T) :=
  match items bs with
  | [(_, b)] => omap (fun e : elem => mu (fst e)) b
  | it =>
      match omap (fun tb : block => option_map (fun l => (fst tb, l))
                                      (omap (fun e : elem => mu (fst e)) (snd tb))) it,
            omap (fun e : elem => type_of_id (fst e) it) (elems_of bs) with
      | Some pools, Some types => scatter types pools
      | _, _ => None
      end
  end.

(* `by_id` = which assignment the 'mix' branch contains (detected in the source
   on every run by harness/c14.py, fail-closed):
     false: metrics[self.elements.types == k] = partial_metrics      (unchanged tree)
     true : metrics[self.elements.id2index.loc[e.ids]...] = partial_metrics
            (proposed fix: every element receives its own metric) *)
Definition implicit_weights (by_id : bool) (mu : Z -> option T) (bs : list block)
  : option (list T) :=
  if by_id then omap (fun e : elem => mu (fst e)) (elems_of bs)
  else implicit_weights_scatter mu bs.

Inductive wmode :=
| WFalse                               (* weight=False *)
| WExplicit (wt : list T)              (* weight=array, one per position of elements.ids *)
| WImplicit (by_id : bool) (mu : Z -> option T).   (* weight=None: calculate_element_metrics *)

(* _validate_metric(metrics, raise_negative_metric=raise_negative_volume,
   return_abs_metric=False): ValueError when a metric is negative and the
   flag is set; otherwise the signed metrics are used as they are *)
Definition validate_metric (raise_neg : bool) (wt : list T) : option (list T) :=
  if raise_neg && existsb (onegb O) wt then None else Some wt.

(* the incidence matrix the call works with: the `incidence=` argument when
   given (then order1_only is ignored), else calculate_incidence_matrix *)
Definition incidence_in_use (m : mesh) (order1_only : bool) (inc : option bmat) : option bmat :=
  match inc with Some Ig => Some Ig | None => incidence m order1_only end.

(* the whole call convert_elemental2nodal(v, mode, order1_only,
   raise_negative_volume, weight, incidence); None = an exception *)
Definition e2n_call (m : mesh) (mode : string) (order1_only raise_neg : bool) (wm : wmode)
           (inc : option bmat) (v : field) (w : nat) : option field :=
  if negb (length v =? length (elems_of (m_blocks m))) then None      (* ValueError *)
  else
    match incidence_in_use m order1_only inc with
    | None => None
    | Some Im =>
        if String.eqb mode "effective"%string then
          if bnc Im =? length v then Some (e2n_effective_of Im v w) else None  (* dot: shapes *)
        else if String.eqb mode "mean"%string then
          match wm with
          | WFalse => if bnc Im =? length v then Some (e2n_mean_of Im (repeat (o1 O) (bnc Im)) v w)
                      else None
          | WExplicit wt => if (length wt =? bnc Im) && (bnc Im =? length v)
                            then Some (e2n_mean_of Im wt v w) else None
          | WImplicit by_id mu =>
              match implicit_weights by_id mu (m_blocks m) with
              | None => None
              | Some wt0 =>
                  match validate_metric raise_neg wt0 with
                  | None => None                                      (* ValueError *)
                  | Some wt => if (length wt =? bnc Im) && (bnc Im =? length v)
                               then Some (e2n_mean_of Im wt v w) else None
                  end
              end
          end
        else None                                                     (* ValueError: Invalid mode *)
    end.

(* the call with the defaults raise_negative_volume=True, incidence=None *)
Definition e2n (m : mesh) (effective_mode : bool) (order1_only : bool) (wm : wmode)
           (v : field) (w : nat) : option field :=
  e2n_call m (if effective_mode then "effective" else "mean")%string order1_only true wm None v w.
End Conv.

(* ------------------------------------------------------------ execution *)
From Coq Require Import QArith Qabs.

Definition QOps : Ops Q :=
  mkOps Q 0%Q 1%Q (fun a b => Qred (a + b)) (fun a b => Qred (a * b))
        (fun a b => Qred (a / b)) (fun n => inject_Z (Z.of_nat n))
        (fun a => negb (Qle_bool 0 a)).

Definition close (tol a b : Q) : bool := Qle_bool (Qabs (a - b)) tol.

Fixpoint rows_close (tol : Q) (a b : list (list Q)) : bool :=
  match a, b with
  | [], [] => true
  | ra :: a', rb :: b' =>
      (Nat.eqb (length ra) (length rb)) && forallb (fun p => close tol (fst p) (snd p)) (combine ra rb)
      && rows_close tol a' b'
  | _, _ => false
  end.

Definition res_close (tol : Q) (model impl : option (list (list Q))) : bool :=
  match model, impl with
  | None, None => true
  | Some a, Some b => rows_close tol a b
  | _, _ => false
  end.

Definition table_lookup (tbl : list (Z * Q)) (eid : Z) : option Q :=
  option_map snd (find (fun p => Z.eqb (fst p) eid) tbl).

Inductive cquery :=
| CN2E (data : list (list Q)) (w : nat)
| CE2N (effective_mode order1 : bool) (wm : wmode (T := Q)) (v : list (list Q)) (w : nat).

Definition run_cquery (m : mesh) (q : cquery) : option (list (list Q)) :=
  match q with
  | CN2E data w => n2e QOps m data w
  | CE2N ef o wm v w => e2n QOps m ef o wm v w
  end.

(* failing query indices; `eids` = the implementation's elements.ids, which the
   positional rows of the fields refer to *)
Definition check_ccase (m : mesh) (eids : list Z) (qs : list (cquery * Q * option (list (list Q))))
  : list nat :=
  if negb (list_eqb Z.eqb (map fst (elems_of (m_blocks m))) eids) then [999%nat]
  else
    map fst (filter (fun kq => let '(q, tol, r) := snd kq in negb (res_close tol (run_cquery m q) r))
                    (combine (seq 0 (length qs)) qs)).
