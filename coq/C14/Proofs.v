(* C14 — proofs about the conversion model, over the reals *)
From Coq Require Import String ZArith Bool Arith List Lia Reals Lra.
Import ListNotations.
From FV.C13 Require Import Model ProofsMat ProofsInc.
From FV.C14 Require Import Model.
Open Scope nat_scope.

Definition ROps : Ops R :=
  mkOps R 0%R 1%R Rplus Rmult Rdiv INR (fun x => if Rlt_dec x 0 then true else false).

Definition rsum (l : list R) : R := fold_right Rplus 0%R l.
Lemma osum_R l : osum ROps l = rsum l.
Proof. reflexivity. Qed.

Open Scope R_scope.

(* ------------------------------------------------------------ sums *)
Lemma rsum_app a b : rsum (a ++ b) = rsum a + rsum b.
Proof. induction a; simpl; lra. Qed.

Lemma rsum_map_plus {A} (f g : A -> R) l :
  rsum (map (fun x => f x + g x) l) = rsum (map f l) + rsum (map g l).
Proof. induction l; simpl; lra. Qed.

Lemma rsum_map_scale {A} (f : A -> R) k l :
  rsum (map (fun x => k * f x) l) = k * rsum (map f l).
Proof. induction l; simpl; lra. Qed.

Lemma rsum_map_ext {A} (f g : A -> R) l :
  (forall x, In x l -> f x = g x) -> rsum (map f l) = rsum (map g l).
Proof. induction l; simpl; intros H; [reflexivity|]. rewrite H, IHl; auto. Qed.

Lemma rsum_map_const0 {A} (l : list A) : rsum (map (fun _ => 0) l) = 0.
Proof. induction l; simpl; lra. Qed.

Lemma rsum_swap {A B} (f : A -> B -> R) la lb :
  rsum (map (fun a => rsum (map (fun b => f a b) lb)) la)
  = rsum (map (fun b => rsum (map (fun a => f a b) la)) lb).
Proof.
  induction la as [|a la IH]; simpl.
  - now rewrite rsum_map_const0.
  - rewrite IH. now rewrite <- rsum_map_plus.
Qed.

Lemma rsum_map_le {A} (f g : A -> R) l :
  (forall x, In x l -> f x <= g x) -> rsum (map f l) <= rsum (map g l).
Proof.
  induction l; simpl; intros H; [lra|].
  assert (f a <= g a) by (apply H; auto). assert (rsum (map f l) <= rsum (map g l)) by auto. lra.
Qed.

Lemma rsum_nonneg {A} (f : A -> R) l : (forall x, In x l -> 0 <= f x) -> 0 <= rsum (map f l).
Proof.
  intros H. rewrite <- (rsum_map_const0 l). now apply rsum_map_le.
Qed.

Lemma rsum_pos {A} (f : A -> R) l x :
  (forall y, In y l -> 0 <= f y) -> In x l -> 0 < f x -> 0 < rsum (map f l).
Proof.
  induction l as [|a l IH]; simpl; intros Hnn Hin Hpos; [contradiction|].
  destruct Hin as [->|Hin].
  - assert (0 <= rsum (map f l)) by (apply rsum_nonneg; auto). lra.
  - assert (0 < rsum (map f l)) by (apply IH; auto). assert (0 <= f a) by auto. lra.
Qed.

(* --------------------------------------------------- cells of the results *)
Lemma cell_tab2 (O : Ops R) n w (g : nat -> nat -> R) i c :
  (i < n)%nat -> (c < w)%nat ->
  cell O (map (fun i => let gi := g i in map gi (seq 0 w)) (seq 0 n)) i c = g i c.
Proof.
  intros Hi Hc. unfold cell. rewrite (nth_map_seq _ [] n i).
  apply Nat.ltb_lt in Hi. rewrite Hi. cbv zeta. rewrite (nth_map_seq _ (o0 O) w c).
  apply Nat.ltb_lt in Hc. now rewrite Hc.
Qed.

(* the weight matrix of mode='mean' *)
Definition touching (I : bmat) (i j : nat) : bool := entry I i j.

Definition wsum (I : bmat) (wt : list R) (i : nat) : R :=
  rsum (map (fun j => if entry I i j then nth j wt 0 else 0) (seq 0 (bnc I))).

Lemma row_weight_R I wt i : row_weight ROps I wt i = wsum I wt i.
Proof. reflexivity. Qed.

Lemma e2n_mean_cell I wt v w i c :
  (i < bnr I)%nat -> (c < w)%nat ->
  cell ROps (e2n_mean_of ROps I wt v w) i c =
  rsum (map (fun j => if entry I i j then (nth j wt 0 * (1 / wsum I wt i)) * cell ROps v j c else 0)
            (seq 0 (bnc I))).
Proof.
  intros Hi Hc. unfold e2n_mean_of.
  rewrite (cell_tab2 ROps (bnr I) w
             (fun i => let ri := brow I i in let s := row_weight ROps I wt i in
                fun c => osum ROps (map (fun j => if nth j ri false
                   then omul ROps (omul ROps (nth j wt (o0 ROps)) (odiv ROps (o1 ROps) s)) (cell ROps v j c)
                   else o0 ROps) (seq 0 (bnc I))))) by assumption.
  reflexivity.
Qed.

(* result_i = sum_{e touching i} w_e v_e / sum_{e touching i} w_e *)
Lemma e2n_mean_convex I wt v w i c :
  (i < bnr I)%nat -> (c < w)%nat -> wsum I wt i <> 0 ->
  cell ROps (e2n_mean_of ROps I wt v w) i c =
  rsum (map (fun j => if entry I i j then nth j wt 0 * cell ROps v j c else 0) (seq 0 (bnc I)))
  / wsum I wt i.
Proof.
  intros Hi Hc Hs. rewrite e2n_mean_cell by assumption.
  set (s := wsum I wt i) in *.
  rewrite (rsum_map_ext _ (fun j => (1 / s) * (if entry I i j then nth j wt 0 * cell ROps v j c else 0))).
  - rewrite rsum_map_scale. field. exact Hs.
  - intros j _. destruct (entry I i j); field; exact Hs.
Qed.

Lemma e2n_mean_const I wt v w i c k :
  (i < bnr I)%nat -> (c < w)%nat -> wsum I wt i <> 0 ->
  (forall j, (j < bnc I)%nat -> entry I i j = true -> cell ROps v j c = k) ->
  cell ROps (e2n_mean_of ROps I wt v w) i c = k.
Proof.
  intros Hi Hc Hs Hk. rewrite e2n_mean_convex by assumption.
  rewrite (rsum_map_ext _ (fun j => k * (if entry I i j then nth j wt 0 else 0))).
  - rewrite rsum_map_scale. fold (wsum I wt i). field. exact Hs.
  - intros j Hj. apply in_seq in Hj. destruct (entry I i j) eqn:E; [|lra].
    rewrite (Hk j); [lra|lia|exact E].
Qed.

Lemma wsum_pos I wt i j :
  (forall j, (j < bnc I)%nat -> entry I i j = true -> 0 < nth j wt 0) ->
  (j < bnc I)%nat -> entry I i j = true -> 0 < wsum I wt i.
Proof.
  intros Hw Hj E. unfold wsum.
  apply (rsum_pos (fun j => if entry I i j then nth j wt 0 else 0) _ j).
  - intros y Hy. apply in_seq in Hy. destruct (entry I i y) eqn:Ey; [|lra].
    apply Rlt_le. apply Hw; [lia|exact Ey].
  - apply in_seq. lia.
  - rewrite E. now apply Hw.
Qed.

Lemma e2n_mean_bounds I wt v w i c lo hi j0 :
  (i < bnr I)%nat -> (c < w)%nat ->
  (forall j, (j < bnc I)%nat -> entry I i j = true -> 0 < nth j wt 0) ->
  (j0 < bnc I)%nat -> entry I i j0 = true ->
  (forall j, (j < bnc I)%nat -> entry I i j = true -> lo <= cell ROps v j c <= hi) ->
  lo <= cell ROps (e2n_mean_of ROps I wt v w) i c <= hi.
Proof.
  intros Hi Hc Hw Hj0 E0 Hb.
  assert (Hs : 0 < wsum I wt i) by (eapply wsum_pos; eauto).
  rewrite e2n_mean_convex by (try assumption; lra).
  set (N := rsum (map (fun j => if entry I i j then nth j wt 0 * cell ROps v j c else 0) (seq 0 (bnc I)))).
  assert (Hhi : N <= hi * wsum I wt i).
  { unfold wsum. rewrite <- rsum_map_scale. apply rsum_map_le.
    intros j Hj. apply in_seq in Hj. destruct (entry I i j) eqn:E; [|lra].
    assert (0 < nth j wt 0) by (apply Hw; [lia|exact E]).
    assert (cell ROps v j c <= hi) by (apply Hb; [lia|exact E]). nra. }
  assert (Hlo : lo * wsum I wt i <= N).
  { unfold wsum. rewrite <- rsum_map_scale. apply rsum_map_le.
    intros j Hj. apply in_seq in Hj. destruct (entry I i j) eqn:E; [|lra].
    assert (0 < nth j wt 0) by (apply Hw; [lia|exact E]).
    assert (lo <= cell ROps v j c) by (apply Hb; [lia|exact E]). nra. }
  split.
  - apply Rmult_le_reg_r with (r := wsum I wt i); [exact Hs|].
    unfold Rdiv. rewrite Rmult_assoc, Rinv_l by lra. lra.
  - apply Rmult_le_reg_r with (r := wsum I wt i); [exact Hs|].
    unfold Rdiv. rewrite Rmult_assoc, Rinv_l by lra. lra.
Qed.

(* weight=False is the weight vector of ones *)
Lemma nth_repeat_1 j n : (j < n)%nat -> nth j (repeat 1 n) 0 = 1.
Proof.
  revert j. induction n; intros j H; [lia|]. destruct j; simpl; [reflexivity|]. apply IHn. lia.
Qed.

(* ------------------------------------------------------ mode='effective' *)
Lemma e2n_effective_cell I v w i c :
  (i < bnr I)%nat -> (c < w)%nat ->
  cell ROps (e2n_effective_of ROps I v w) i c =
  rsum (map (fun j => if entry I i j then (1 / INR (col_count I j)) * cell ROps v j c else 0)
            (seq 0 (bnc I))).
Proof.
  intros Hi Hc. unfold e2n_effective_of. cbv zeta.
  set (inv := map (fun j => odiv ROps (o1 ROps) (oofnat ROps (col_count I j))) (seq 0 (bnc I))).
  rewrite (cell_tab2 ROps (bnr I) w
             (fun i => let ri := brow I i in
                fun c => osum ROps (map (fun j => if nth j ri false
                   then omul ROps (nth j inv (o0 ROps)) (cell ROps v j c)
                   else o0 ROps) (seq 0 (bnc I))))) by assumption.
  cbv zeta. rewrite osum_R. apply rsum_map_ext. intros j Hj. apply in_seq in Hj.
  fold (entry I i j). destruct (entry I i j); [|reflexivity].
  unfold inv. rewrite (nth_map_seq _ (o0 ROps) (bnc I) j).
  assert (Hlt : (j <? bnc I)%nat = true) by (apply Nat.ltb_lt; lia). rewrite Hlt. reflexivity.
Qed.

Lemma rsum_indicator_count (p : nat -> bool) x l :
  rsum (map (fun i => if p i then x else 0) l) = INR (length (filter p l)) * x.
Proof.
  induction l as [|a l IH]; simpl; [lra|].
  rewrite IH. destruct (p a); simpl length; [rewrite S_INR|]; lra.
Qed.

(* every column of the weight matrix sums to one, hence totals are conserved *)
Lemma e2n_effective_total I v w c :
  (c < w)%nat -> (forall j, (j < bnc I)%nat -> col_count I j <> 0%nat) ->
  rsum (map (fun i => cell ROps (e2n_effective_of ROps I v w) i c) (seq 0 (bnr I)))
  = rsum (map (fun j => cell ROps v j c) (seq 0 (bnc I))).
Proof.
  intros Hc Hn.
  rewrite (rsum_map_ext _ (fun i => rsum (map (fun j => if entry I i j
              then (1 / INR (col_count I j)) * cell ROps v j c else 0) (seq 0 (bnc I))))).
  2:{ intros i Hi. apply in_seq in Hi. apply e2n_effective_cell; [lia|exact Hc]. }
  rewrite rsum_swap. apply rsum_map_ext. intros j Hj. apply in_seq in Hj.
  rewrite (rsum_indicator_count (fun i => entry I i j)).
  fold (col_count I j).
  assert (INR (col_count I j) <> 0) by (apply not_0_INR; apply Hn; lia).
  field. assumption.
Qed.

(* each element's value is split into equal shares among its nodes *)
Lemma e2n_effective_share I v w i c :
  (i < bnr I)%nat -> (c < w)%nat ->
  cell ROps (e2n_effective_of ROps I v w) i c =
  rsum (map (fun j => if entry I i j then cell ROps v j c / INR (col_count I j) else 0)
            (seq 0 (bnc I))).
Proof.
  intros Hi Hc. rewrite e2n_effective_cell by assumption.
  apply rsum_map_ext. intros j _. destruct (entry I i j); [|reflexivity].
  unfold Rdiv. lra.
Qed.

Close Scope R_scope.

(* ------------------------------------------------------------------ n2e *)
Section N2E.
Context {T : Type} (O : Ops T).

Lemma omap_nth {A B} (f : A -> option B) l ys j x :
  omap f l = Some ys -> nth_error l j = Some x ->
  exists y, nth_error ys j = Some y /\ f x = Some y.
Proof.
  revert ys j. induction l as [|a l IH]; simpl; intros ys j H Hn.
  - destruct j; discriminate.
  - destruct (f a) eqn:Ea; [|discriminate]. destruct (omap f l) eqn:El; [|discriminate].
    inversion H; subst. destruct j; simpl in *.
    + inversion Hn; subst. eauto.
    + eapply IH; eauto.
Qed.

Lemma omap_Forall2 {A B} (f : A -> option B) l ys :
  omap f l = Some ys -> Forall2 (fun x y => f x = Some y) l ys.
Proof.
  revert ys. induction l as [|a l IH]; simpl; intros ys H.
  - inversion H. constructor.
  - destruct (f a) eqn:Ea; [|discriminate]. destruct (omap f l) eqn:El; [|discriminate].
    inversion H; subst. constructor; auto.
Qed.

Lemma Forall2_imp {A B} (P Q : A -> B -> Prop) l l' :
  (forall a b, P a b -> Q a b) -> Forall2 P l l' -> Forall2 Q l l'.
Proof. intros H F. induction F; constructor; auto. Qed.

Lemma Forall2_len {A B} (P : A -> B -> Prop) l l' : Forall2 P l l' -> length l = length l'.
Proof. intros F. induction F; simpl; auto. Qed.

(* each element (position j of elements.ids) gets the mean of the values at
   the storage positions of its own nodes *)
Lemma n2e_mean m data w res j e c :
  n2e O m data w = Some res -> nth_error (elems_of (m_blocks m)) j = Some e -> c < w ->
  exists ps,
    Forall2 (fun nid p => nth_error (m_nodes m) p = Some nid) (snd e) ps /\
    cell O res j c = odiv O (osum O (map (fun p => cell O data p c) ps))
                            (oofnat O (length (snd e))).
Proof.
  unfold n2e. intros H Hj Hc.
  destruct (negb (length data =? length (m_nodes m))); [discriminate|].
  destruct (negb (all_same _)); [discriminate|].
  destruct (omap_nth _ _ _ _ _ H Hj) as [row [Hrow Hf]].
  destruct (omap (fun nid => index_of nid (m_nodes m)) (snd e)) as [ps|] eqn:Eps; [|discriminate].
  simpl in Hf. inversion Hf; subst row; clear Hf.
  exists ps. split.
  - apply omap_Forall2 in Eps. eapply Forall2_imp; [|exact Eps].
    intros nid p Hp. now apply index_of_nth.
  - unfold cell at 1. rewrite (nth_error_nth _ _ _ Hrow).
    rewrite (nth_map_seq _ (o0 O) w c). apply Nat.ltb_lt in Hc. rewrite Hc.
    apply omap_Forall2 in Eps. apply Forall2_len in Eps. now rewrite Eps.
Qed.

Lemma n2e_rows m data w res :
  n2e O m data w = Some res -> length res = length (elems_of (m_blocks m)).
Proof.
  unfold n2e. destruct (negb _); [discriminate|]. destruct (negb _); [discriminate|].
  intros H. apply omap_Forall2 in H. apply Forall2_len in H. now symmetry.
Qed.
End N2E.

(* an affine field of the node coordinates is reproduced at the vertex centroid *)
Open Scope R_scope.
Lemma mean_affine (x y z : nat -> R) a1 a2 a3 b (ps : list nat) :
  ps <> [] ->
  rsum (map (fun p => a1 * x p + a2 * y p + a3 * z p + b) ps) / INR (length ps)
  = a1 * (rsum (map x ps) / INR (length ps)) + a2 * (rsum (map y ps) / INR (length ps))
    + a3 * (rsum (map z ps) / INR (length ps)) + b.
Proof.
  intros Hne.
  assert (Hs : rsum (map (fun p => a1 * x p + a2 * y p + a3 * z p + b) ps)
               = a1 * rsum (map x ps) + a2 * rsum (map y ps) + a3 * rsum (map z ps)
                 + INR (length ps) * b).
  { clear Hne. induction ps as [|p ps IH]; [simpl; lra|].
    simpl map. simpl rsum. rewrite IH. simpl length. rewrite S_INR. lra. }
  rewrite Hs. assert (INR (length ps) <> 0).
  { apply not_0_INR. destruct ps; [congruence|simpl; lia]. }
  field. assumption.
Qed.
Close Scope R_scope.

(* ------------------------------------------------------- implicit weights *)
Lemma implicit_weights_uniform {T} by_id (mu : Z -> option T) bs t b :
  items bs = [(t, b)] ->
  implicit_weights by_id mu bs = omap (fun e : elem => mu (fst e)) (elems_of bs).
Proof.
  intros H. unfold implicit_weights, implicit_weights_scatter. destruct by_id; [reflexivity|].
  rewrite (elems_of_single _ _ _ H), H. reflexivity.
Qed.

(* ---------------------------------------------------------- inversion of e2n *)
Definition weights_described {T} (O : Ops T) (m : mesh) (Im : bmat) (raise_neg : bool)
           (wm : wmode) (wt : list T) : Prop :=
  match wm with
  | WFalse => wt = repeat (o1 O) (bnc Im)
  | WExplicit wt' => wt = wt' /\ length wt' = bnc Im
  | WImplicit by_id mu =>
      implicit_weights by_id mu (m_blocks m) = Some wt /\
      (raise_neg = true -> existsb (onegb O) wt = false)
  end.

Lemma validate_metric_inv {T} (O : Ops T) rn wt0 wt :
  validate_metric O rn wt0 = Some wt -> wt = wt0 /\ (rn = true -> existsb (onegb O) wt = false).
Proof.
  unfold validate_metric. destruct rn; simpl.
  - destruct (existsb (onegb O) wt0) eqn:E; [discriminate|]. intros H; inversion H; subst. auto.
  - intros H; inversion H; subst. split; [reflexivity|discriminate].
Qed.

Lemma e2n_call_inv {T} (O : Ops T) m mode o rn wm inc v w res :
  e2n_call O m mode o rn wm inc v w = Some res ->
  length v = length (elems_of (m_blocks m)) /\
  exists Im, incidence_in_use m o inc = Some Im /\ bnc Im = length v /\
    ((mode = "effective"%string /\ res = e2n_effective_of O Im v w) \/
     (mode = "mean"%string /\
      exists wt, res = e2n_mean_of O Im wt v w /\ weights_described O m Im rn wm wt)).
Proof.
  unfold e2n_call. destruct (Nat.eqb_spec (length v) (length (elems_of (m_blocks m)))); simpl; [|discriminate].
  intros H. split; [assumption|].
  destruct (incidence_in_use m o inc) as [Im|]; [|discriminate]. exists Im. split; [reflexivity|].
  destruct (String.eqb_spec mode "effective").
  { destruct (Nat.eqb_spec (bnc Im) (length v)); [|discriminate]. inversion H. auto. }
  destruct (String.eqb_spec mode "mean"); [|discriminate].
  destruct wm as [|wt'|by_id mu].
  - destruct (Nat.eqb_spec (bnc Im) (length v)); [|discriminate]. inversion H.
    split; [assumption|]. right. split; [assumption|]. eexists. split; reflexivity.
  - destruct (Nat.eqb_spec (length wt') (bnc Im)); [|discriminate].
    destruct (Nat.eqb_spec (bnc Im) (length v)); [|discriminate]. simpl in H. inversion H.
    split; [assumption|]. right. split; [assumption|]. exists wt'. simpl. auto.
  - destruct (implicit_weights by_id mu (m_blocks m)) as [wt0|] eqn:Ei; [|discriminate].
    destruct (validate_metric O rn wt0) as [wt|] eqn:Ev; [|discriminate].
    destruct (Nat.eqb_spec (length wt) (bnc Im)); [|discriminate].
    destruct (Nat.eqb_spec (bnc Im) (length v)); [|discriminate]. simpl in H. inversion H.
    apply validate_metric_inv in Ev. destruct Ev as [-> Hn].
    split; [assumption|]. right. split; [assumption|]. exists wt0. simpl. auto.
Qed.

(* ------------------------------------------------- mesh-level statements *)
Open Scope R_scope.

Lemma e2n_mean_spec m o rn wm inc v w res :
  e2n_call ROps m "mean" o rn wm inc v w = Some res ->
  exists Im wt, incidence_in_use m o inc = Some Im /\ weights_described ROps m Im rn wm wt /\
    length res = bnr Im /\
    (* convex combination *)
    (forall i c, (i < bnr Im)%nat -> (c < w)%nat -> wsum Im wt i <> 0 ->
       cell ROps res i c =
       rsum (map (fun j => if entry Im i j then nth j wt 0 * cell ROps v j c else 0)
                 (seq 0 (bnc Im))) / wsum Im wt i) /\
    (* constants *)
    (forall i c k, (i < bnr Im)%nat -> (c < w)%nat -> wsum Im wt i <> 0 ->
       (forall j, (j < bnc Im)%nat -> entry Im i j = true -> cell ROps v j c = k) ->
       cell ROps res i c = k) /\
    (* bounds *)
    (forall i c lo hi j0, (i < bnr Im)%nat -> (c < w)%nat ->
       (forall j, (j < bnc Im)%nat -> entry Im i j = true -> 0 < nth j wt 0) ->
       (j0 < bnc Im)%nat -> entry Im i j0 = true ->
       (forall j, (j < bnc Im)%nat -> entry Im i j = true -> lo <= cell ROps v j c <= hi) ->
       lo <= cell ROps res i c <= hi).
Proof.
  intros H. apply e2n_call_inv in H. destruct H as [_ [Im [HI [_ [[Hm _]|[_ [wt [-> Hw]]]]]]]].
  { discriminate. }
  exists Im, wt. split; [exact HI|]. split; [exact Hw|]. split.
  { unfold e2n_mean_of. now rewrite map_length, seq_length. }
  split; [|split].
  - intros. now apply e2n_mean_convex.
  - intros. eapply e2n_mean_const; eauto.
  - intros. eapply e2n_mean_bounds; eauto.
Qed.

(* with raise_negative_volume=True the implicit weights in use are >= 0 *)
Lemma weights_validated_nonneg m Im wt by_id mu :
  weights_described ROps m Im true (WImplicit by_id mu) wt -> forall j, 0 <= nth j wt 0.
Proof.
  intros [_ Hn] j. specialize (Hn eq_refl).
  destruct (Nat.lt_ge_cases j (length wt)) as [Hj|Hj].
  - assert (Hin : In (nth j wt 0) wt) by (apply nth_In; exact Hj).
    destruct (Rlt_dec (nth j wt 0) 0) as [Hlt|Hge]; [|lra].
    exfalso. assert (existsb (onegb ROps) wt = true).
    { apply existsb_exists. exists (nth j wt 0). split; [exact Hin|]. simpl.
      destruct (Rlt_dec (nth j wt 0) 0); [reflexivity|contradiction]. }
    congruence.
  - rewrite nth_overflow by exact Hj. lra.
Qed.

Lemma col_count_pos Im i j : (i < bnr Im)%nat -> entry Im i j = true -> col_count Im j <> 0%nat.
Proof.
  intros Hi E. unfold col_count.
  assert (Hin : In i (filter (fun i => entry Im i j) (seq 0 (bnr Im)))).
  { apply filter_In. split; [apply in_seq; lia|exact E]. }
  destruct (filter _ _); [contradiction|simpl; lia].
Qed.

Lemma e2n_effective_spec m o rn wm inc v w res :
  e2n_call ROps m "effective" o rn wm inc v w = Some res ->
  exists Im, incidence_in_use m o inc = Some Im /\ length res = bnr Im /\
    (forall i c, (i < bnr Im)%nat -> (c < w)%nat ->
       cell ROps res i c =
       rsum (map (fun j => if entry Im i j then cell ROps v j c / INR (col_count Im j) else 0)
                 (seq 0 (bnc Im)))) /\
    ((forall j, (j < bnc Im)%nat -> exists i, (i < bnr Im)%nat /\ entry Im i j = true) ->
     forall c, (c < w)%nat ->
       rsum (map (fun i => cell ROps res i c) (seq 0 (bnr Im)))
       = rsum (map (fun j => cell ROps v j c) (seq 0 (bnc Im)))).
Proof.
  intros H. apply e2n_call_inv in H. destruct H as [_ [Im [HI [_ [[_ ->]|[Hm _]]]]]].
  2:{ discriminate. }
  exists Im. split; [exact HI|]. split.
  { unfold e2n_effective_of. cbv zeta. now rewrite map_length, seq_length. }
  split.
  - intros. now apply e2n_effective_share.
  - intros Hcol c Hc. apply e2n_effective_total; [exact Hc|].
    intros j Hj. destruct (Hcol j Hj) as [i [Hi E]]. eapply col_count_pos; eauto.
Qed.

Lemma n2e_affine m data w res j e c (x y z : nat -> R) a1 a2 a3 b :
  n2e ROps m data w = Some res -> nth_error (elems_of (m_blocks m)) j = Some e -> (c < w)%nat ->
  snd e <> [] ->
  (forall p, cell ROps data p c = a1 * x p + a2 * y p + a3 * z p + b) ->
  exists ps,
    Forall2 (fun nid p => nth_error (m_nodes m) p = Some nid) (snd e) ps /\
    cell ROps res j c =
      a1 * (rsum (map x ps) / INR (length ps)) + a2 * (rsum (map y ps) / INR (length ps))
      + a3 * (rsum (map z ps) / INR (length ps)) + b.
Proof.
  intros H Hj Hc Hne Haff.
  destruct (n2e_mean ROps m data w res j e c H Hj Hc) as [ps [HF Hcell]].
  exists ps. split; [exact HF|]. rewrite Hcell.
  assert (Hlen : length (snd e) = length ps) by (eapply Forall2_len; eauto).
  rewrite Hlen. rewrite osum_R.
  rewrite (rsum_map_ext _ (fun p => a1 * x p + a2 * y p + a3 * z p + b)) by (intros; apply Haff).
  apply mean_affine. intros ->. destruct (snd e); [congruence|discriminate].
Qed.

Lemma implicit_weights_uniform_spec {T} by_id (mu : Z -> option T) bs t b wt :
  items bs = [(t, b)] -> implicit_weights by_id mu bs = Some wt ->
  Forall2 (fun (e : elem) x => mu (fst e) = Some x) (elems_of bs) wt.
Proof.
  intros Hi H. rewrite (implicit_weights_uniform by_id mu bs t b Hi) in H. now apply omap_Forall2.
Qed.

Lemma implicit_weights_by_id_spec {T} (mu : Z -> option T) bs wt :
  implicit_weights true mu bs = Some wt ->
  Forall2 (fun (e : elem) x => mu (fst e) = Some x) (elems_of bs) wt.
Proof. unfold implicit_weights. now apply omap_Forall2. Qed.
Close Scope R_scope.
