(* C14 — convert_nodal2elemental: the program read from the source (tie T).
   gen/N2EProg.v is rewritten on every run by translate/c14_n2e.py. *)
From Coq Require Import String ZArith Bool Arith List QArith.
Import ListNotations.
From FV.C13 Require Import Model.
From FV.C14 Require Import Model Proofs Gather N2EProg Props.
From FV.C14.gen Require Import N2EProg.
Open Scope nat_scope.
Set Default Timeout 120.

(* what the translator read IS the reference table, for every configuration
   (data by name / as an array, calc_average, ravel) ... *)
Theorem C14_n2e_program_translated : forall by_name ca rv,
  n2e_prog by_name ca rv = n2e_ref by_name ca rv.
Proof. intros [] [] []; reflexivity. Qed.

Theorem C14_n2e_defaults_translated : n2e_defaults = ndefaults_ref.
Proof. reflexivity. Qed.

(* ... whose interpretation is the hand model, for EVERY Ops, mesh, field, width *)
Theorem C14_n2e_translated_is_model : forall (T : Type) (O : Ops T) m by_name ca rv data w,
  run_n2e_prog O n2e_prog m by_name ca rv data w = n2e_call O m ca rv data w.
Proof.
  intros. rewrite <- ref_n2e_program_is_model with (by_name := by_name).
  unfold run_n2e_prog. now rewrite C14_n2e_program_translated.
Qed.

(* so the law of the property holds of the translated program: with
   calc_average=True (ravel or not, data by name or not) the element at
   position j gets the mean of the values at the storage positions of its own nodes *)
Theorem C14_n2e_translated_mean : forall (T : Type) (O : Ops T) m by_name rv data w v j e c,
  run_n2e_prog O n2e_prog m by_name true rv data w = Some v ->
  nth_error (elems_of (m_blocks m)) j = Some e -> c < w ->
  exists res ps, v = V2 res /\
    Forall2 (fun nid p => nth_error (m_nodes m) p = Some nid) (snd e) ps /\
    cell O res j c = odiv O (osum O (map (fun p => cell O data p c) ps))
                            (oofnat O (length (snd e))).
Proof.
  intros T O m by_name rv data w v j e c H Hj Hc.
  rewrite C14_n2e_translated_is_model in H. unfold n2e_call in H.
  destruct (n2e O m data w) as [res|] eqn:E; [|discriminate]. inversion H; subst v.
  destruct (C14_n2e_mean T O m data w res j e c E Hj Hc) as [ps [H1 H2]].
  exists res, ps. auto.
Qed.

(* calc_average=False: the translated program returns exactly the gathered
   rows (ravel=True: concatenated per element) *)
Theorem C14_n2e_translated_gather : forall (T : Type) (O : Ops T) m by_name rv data w v,
  run_n2e_prog O n2e_prog m by_name false rv data w = Some v ->
  exists g, n2e_gather O m data w = Some g /\
            v = if rv then V2 (map (@concat T) g) else V3 g.
Proof.
  intros T O m by_name rv data w v H.
  rewrite C14_n2e_translated_is_model in H. unfold n2e_call, n2e_ravel in H.
  destruct (n2e_gather O m data w) as [g|]; [|destruct rv; discriminate].
  exists g. split; [reflexivity|]. destruct rv; inversion H; reflexivity.
Qed.

Example C14_n2e_translated_nonvacuous :
  run_n2e_prog QOps n2e_prog mesh_c14 false true false [[3#1]; [6#1]; [0#1]; [9#1]; [1#1]; [1#1]]%Q 1
    = Some (V2 [[3#1]; [5#1]]%Q) /\
  run_n2e_prog QOps n2e_prog mesh_c14 true false true [[3#1]; [6#1]; [0#1]; [9#1]; [1#1]; [1#1]]%Q 1
    = Some (V2 [[3#1; 6#1; 0#1]; [6#1; 0#1; 9#1]]%Q) /\
  run_n2e_prog QOps n2e_prog mesh_c14 false false false [[3#1]; [6#1]; [0#1]; [9#1]; [1#1]; [1#1]]%Q 1
    = Some (V3 [[[3#1]; [6#1]; [0#1]]; [[6#1]; [0#1]; [9#1]]]%Q) /\
  run_n2e_prog QOps n2e_prog mesh_c14 false true false [[3#1]; [6#1]]%Q 1 = None.
Proof. vm_compute. repeat split; reflexivity. Qed.

Print Assumptions C14_n2e_program_translated.
Print Assumptions C14_n2e_translated_is_model.
Print Assumptions C14_n2e_translated_mean.
Print Assumptions C14_n2e_translated_gather.
