(* C19 — proofs about the concrete slot protocol of Slot.v. *)
From Coq Require Import QArith Qabs List Bool Arith ZArith Lia.
Import ListNotations.
From FV.C19 Require Import Slot.

Lemma opts_eqb_eq : forall a b, opts_eqb a b = true -> a = b.
Proof.
  intros [m r s] [m' r' s']. unfold opts_eqb. simpl. intros H.
  apply andb_true_iff in H as [H H3]. apply andb_true_iff in H as [H1 H2].
  apply Nat.eqb_eq in H1. apply Bool.eqb_prop in H2. apply Bool.eqb_prop in H3. subst. reflexivity.
Qed.

Lemma opts_eqb_refl : forall a, opts_eqb a a = true.
Proof.
  intros [m r s]. unfold opts_eqb. simpl. rewrite Nat.eqb_refl, !Bool.eqb_reflx. reflexivity.
Qed.

Lemma Qabs_Qabs : forall x, Qabs (Qabs x) = Qabs x.
Proof. intros [n d]. simpl. rewrite Z.abs_involutive. reflexivity. Qed.

Lemma qneg_Qabs : forall x, qneg (Qabs x) = false.
Proof.
  intros x. unfold qneg. apply negb_false_iff. apply Qle_bool_iff. apply Qabs_nonneg.
Qed.

Lemma any_neg_abs : forall m, any_neg (map Qabs m) = false.
Proof.
  induction m as [|x m IH]; simpl; auto. rewrite qneg_Qabs. exact IH.
Qed.

Lemma map_abs_abs : forall m, map Qabs (map Qabs m) = map Qabs m.
Proof.
  induction m as [|x m IH]; simpl; auto. rewrite Qabs_Qabs, IH. reflexivity.
Qed.

(* re-validation of a validated value gives the value back (the `post`
   hypothesis H_post of the generic machine, for the code as it is) *)
Lemma validate_idempotent : forall o m v, validate o m = Val v -> validate o v = Val v.
Proof.
  intros o m v. unfold validate.
  destruct (o_raise o) eqn:R; simpl.
  - destruct (any_neg m) eqn:N; [discriminate|]. intros H. inversion H; subst; clear H.
    destruct (o_abs o) eqn:A.
    + rewrite any_neg_abs. rewrite map_abs_abs. reflexivity.
    + rewrite N. reflexivity.
  - intros H. inversion H; subst; clear H.
    destruct (o_abs o) eqn:A; [rewrite map_abs_abs|]; reflexivity.
Qed.

(* the answer never depends on the argument's history, only on the options *)
Lemma validate_abs_nonneg : forall o m v, o_abs o = true -> validate o m = Val v -> any_neg v = false.
Proof.
  intros o m v A. unfold validate. rewrite A.
  destruct (o_raise o && any_neg m); [discriminate|]. intros H. inversion H. apply any_neg_abs.
Qed.

Lemma store_slot_keeps_user : forall u v o, e_opts u = None -> store_slot (Some u) v o = Some u.
Proof. intros u v o H. unfold store_slot. rewrite H. reflexivity. Qed.

(* a variable of the slot's name that the library did not store is returned
   (validated) and never replaced, whatever the options *)
Lemma slot_query_user : forall signed u o, e_opts u = None ->
  slot_query signed (Some u) o = (validate o (e_vals u), Some u).
Proof.
  intros signed u o H. unfold slot_query, slot_answers. rewrite H. reflexivity.
Qed.

Lemma user_part_user : forall u, e_opts u = None -> user_part (Some u) = Some u.
Proof. intros u H. unfold user_part. rewrite H. reflexivity. Qed.

Lemma fresh_answer_ext : forall signed t t' o, user_part t = user_part t' ->
  fresh_answer signed t o = fresh_answer signed t' o.
Proof. intros. unfold fresh_answer. rewrite H. reflexivity. Qed.

Lemma slot_compute_pure : forall signed t0 o, user_part t0 = None -> valid_table signed t0 ->
  fst (slot_compute signed t0 o) = validate o (signed (o_mode o)) /\
  valid_table signed (snd (slot_compute signed t0 o)) /\
  user_part (snd (slot_compute signed t0 o)) = None.
Proof.
  intros signed t0 o Hu Hv0. unfold slot_compute.
  destruct (validate o (signed (o_mode o))) as [v|] eqn:E; simpl.
  - split; [reflexivity|].
    assert (Hs : store_slot t0 v o = Some (mkentry v (Some o))).
    { destruct t0 as [e|]; unfold store_slot; [|reflexivity].
      destruct (e_opts e) eqn:Eo; [reflexivity|].
      unfold user_part in Hu. rewrite Eo in Hu. discriminate. }
    rewrite Hs. simpl. split; [exact E|reflexivity].
  - split; [reflexivity|]. split; [exact Hv0|exact Hu].
Qed.

(* one call: the answer is the answer on a fresh equal mesh, the table stays
   valid, the user's part of the table is untouched *)
Lemma slot_query_pure : forall signed t o, valid_table signed t ->
  fst (slot_query signed t o) = fresh_answer signed t o /\
  valid_table signed (snd (slot_query signed t o)) /\
  user_part (snd (slot_query signed t o)) = user_part t.
Proof.
  intros signed t o Hv.
  destruct t as [e|].
  - destruct (e_opts e) as [o'|] eqn:Eo.
    + (* stored by the library *)
      assert (Hu : user_part (Some e) = None) by (unfold user_part; rewrite Eo; reflexivity).
      unfold slot_query, slot_answers. rewrite Eo.
      destruct (opts_eqb o' o) eqn:Eq.
      * apply opts_eqb_eq in Eq. subst o'.
        assert (Hv' : validate o (signed (o_mode o)) = Val (e_vals e)).
        { unfold valid_table in Hv. rewrite Eo in Hv. exact Hv. }
        unfold fresh_answer. rewrite Hu. simpl fst. simpl snd.
        rewrite (validate_idempotent _ _ _ Hv'). rewrite Hv'.
        split; [reflexivity|]. split; [exact Hv|exact Hu].
      * destruct (slot_compute_pure signed (Some e) o Hu Hv) as [A [B C]].
        unfold fresh_answer. rewrite Hu. rewrite C. auto.
    + (* the user's *)
      rewrite (slot_query_user signed e o Eo). simpl.
      unfold fresh_answer. rewrite (user_part_user e Eo). auto.
  - unfold slot_query.
    destruct (slot_compute_pure signed None o eq_refl I) as [A [B C]].
    unfold fresh_answer. simpl user_part. rewrite C. auto.
Qed.

Lemma Forall2_weaken {A B} (P Q : A -> B -> Prop) : (forall a b, P a b -> Q a b) ->
  forall l l', Forall2 P l l' -> Forall2 Q l l'.
Proof. intros H l l' F. induction F; constructor; auto. Qed.

(* histories *)
Lemma slot_run_pure : forall signed h t, valid_table signed t ->
  Forall2 (fun o v => v = fresh_answer signed t o) h (fst (slot_run signed t h)) /\
  valid_table signed (snd (slot_run signed t h)) /\
  user_part (snd (slot_run signed t h)) = user_part t.
Proof.
  intros signed h. induction h as [|o r IH]; intros t Hv; simpl.
  - auto.
  - destruct (slot_query_pure signed t o Hv) as [A [B C]].
    destruct (slot_query signed t o) as [v t'] eqn:E. simpl in A, B, C.
    destruct (IH t' B) as [A' [B' C']].
    destruct (slot_run signed t' r) as [vs t''] eqn:E'. simpl in *.
    split; [|split].
    + constructor; [exact A|].
      eapply Forall2_weaken; [|exact A']. intros o' v' Hq. simpl in Hq. rewrite Hq.
      apply fresh_answer_ext. exact C.
    + exact B'.
    + rewrite C'. exact C.
Qed.

(* history independence: what a call answers after any history equals what it
   answers after any other history (in particular after none) *)
Lemma slot_history_independent : forall signed t h1 h2 o, valid_table signed t ->
  fst (slot_query signed (snd (slot_run signed t h1)) o) =
  fst (slot_query signed (snd (slot_run signed t h2)) o).
Proof.
  intros signed t h1 h2 o Hv.
  destruct (slot_run_pure signed h1 t Hv) as [_ [B1 C1]].
  destruct (slot_run_pure signed h2 t Hv) as [_ [B2 C2]].
  destruct (slot_query_pure signed _ o B1) as [A1 _].
  destruct (slot_query_pure signed _ o B2) as [A2 _].
  rewrite A1, A2. apply fresh_answer_ext. rewrite C1, C2. reflexivity.
Qed.

(* queries never change a variable of the slot's name that the user stored *)
Lemma slot_run_keeps_user : forall signed h u, e_opts u = None ->
  snd (slot_run signed (Some u) h) = Some u.
Proof.
  intros signed h u Hu. induction h as [|o r IH]; [reflexivity|]. cbn [slot_run].
  rewrite (slot_query_user signed u o Hu).
  destruct (slot_run signed (Some u) r) as [vs t''] eqn:E. simpl in *. exact IH.
Qed.

Lemma user_part_idem : forall t, user_part (user_part t) = user_part t.
Proof.
  intros [e|]; simpl; auto. destruct (e_opts e) eqn:E; simpl; auto. rewrite E. reflexivity.
Qed.

Lemma valid_user_part : forall signed t, valid_table signed (user_part t).
Proof.
  intros signed [e|]; simpl; auto. destruct (e_opts e) eqn:E; simpl; auto. rewrite E. exact I.
Qed.

(* an in-place modifier drops the library's entry (FEMData._clear_query_caches pops the names
   whose entry carries options): whatever was asked before, later calls answer what a freshly
   built mesh equal to the MODIFIED one (signed', same user variables) answers *)
Lemma slot_after_modification : forall signed signed' t h o, valid_table signed t ->
  fst (slot_query signed' (drop_slot (snd (slot_run signed t h))) o) = fresh_answer signed' t o.
Proof.
  intros signed signed' t h o Hv. unfold drop_slot.
  destruct (slot_run_pure signed h t Hv) as [_ [_ C]].
  destruct (slot_query_pure signed' _ o (valid_user_part signed' (snd (slot_run signed t h)))) as [A _].
  rewrite A. apply fresh_answer_ext. rewrite user_part_idem. exact C.
Qed.

Lemma spec_m_ext : forall h signed t t', user_part t = user_part t' -> spec_m signed t h = spec_m signed t' h.
Proof.
  induction h as [|[o|s] r IH]; intros signed t t' H; simpl; auto.
  rewrite (fresh_answer_ext signed t t' o H). rewrite (IH signed t t' H). reflexivity.
Qed.

(* histories that mix calls (any options) and in-place modifications (each may change what the
   kernels compute): every answer is the answer of a freshly built mesh equal to the current
   one, and the user's part of the table is the same at the end *)
Lemma run_m_pure : forall h signed t, valid_table signed t ->
  fst (run_m signed t h) = spec_m signed t h /\
  user_part (snd (run_m signed t h)) = user_part t.
Proof.
  induction h as [|[o|s] r IH]; intros signed t Hv; simpl.
  - auto.
  - destruct (slot_query_pure signed t o Hv) as [A [B C]].
    destruct (slot_query signed t o) as [v t'] eqn:E. simpl in A, B, C.
    destruct (IH signed t' B) as [A' C'].
    destruct (run_m signed t' r) as [vs t''] eqn:E'. simpl in *.
    split.
    + rewrite A, A'. rewrite (spec_m_ext r signed t' t C). reflexivity.
    + rewrite C'. exact C.
  - destruct (IH s (drop_slot t) (valid_user_part s t)) as [A C]. unfold drop_slot in *.
    split.
    + rewrite A. apply spec_m_ext. apply user_part_idem.
    + rewrite C. apply user_part_idem.
Qed.

(* a variable named like a slot that the user stored survives every history of queries AND
   in-place modifications, unchanged *)
Lemma run_m_keeps_user : forall h signed u, e_opts u = None -> snd (run_m signed (Some u) h) = Some u.
Proof.
  induction h as [|[o|s] r IH]; intros signed u Hu; [reflexivity| |].
  - cbn [run_m]. rewrite (slot_query_user signed u o Hu).
    specialize (IH signed u Hu). destruct (run_m signed (Some u) r) as [vs t''] eqn:E. simpl in *. exact IH.
  - cbn [run_m]. unfold drop_slot. rewrite (user_part_user u Hu). apply IH. exact Hu.
Qed.

(* non-vacuity: a mesh with one inverted element; absolute values, then signed
   values, then raising; a user's variable with a negative entry survives *)
Definition ex_signed (m : nat) : list Q := match m with 0%nat => [1#2; -(1#3); 2#1] | _ => [1#2; -(1#4); 2#1] end.
Definition ex_hist : list opts :=
  [mkopts 0 false true; mkopts 0 false false; mkopts 1 false false; mkopts 0 true false; mkopts 0 false true].
Example ex_run :
  fst (slot_run ex_signed None ex_hist) =
    [Val [1#2; 1#3; 2#1]; Val [1#2; -(1#3); 2#1]; Val [1#2; -(1#4); 2#1]; Raise; Val [1#2; 1#3; 2#1]]
  /\ valid_table ex_signed (snd (slot_run ex_signed None ex_hist)).
Proof. split; vm_compute; reflexivity. Qed.
Definition ex_user : entry := mkentry [5#1; -(7#1); 3#1] None.
Example ex_user_kept :
  slot_run ex_signed (Some ex_user) ex_hist =
    ([Val [5#1; 7#1; 3#1]; Val [5#1; -(7#1); 3#1]; Val [5#1; -(7#1); 3#1]; Raise; Val [5#1; 7#1; 3#1]],
     Some ex_user).
Proof. vm_compute. reflexivity. Qed.

(* non-vacuity with modifications: an inverted element repaired in between (signed changes),
   a user's variable with a negative entry kept throughout *)
Definition ex_signed' (m : nat) : list Q := [1#2; 1#3; 2#1].
Definition ex_mhist : list mop :=
  [MCall (mkopts 0 false false); MModify ex_signed'; MCall (mkopts 0 true false); MCall (mkopts 0 false true)].
Example ex_run_m :
  run_m ex_signed None ex_mhist =
    ([Val [1#2; -(1#3); 2#1]; Val [1#2; 1#3; 2#1]; Val [1#2; 1#3; 2#1]],
     Some (mkentry [1#2; 1#3; 2#1] (Some (mkopts 0 false true))))
  /\ snd (run_m ex_signed (Some ex_user) ex_mhist) = Some ex_user.
Proof. split; vm_compute; reflexivity. Qed.
