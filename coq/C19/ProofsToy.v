(* C19 — the section hypotheses of the purity theorems are jointly
   satisfiable by a non-constant semantics, for every inventory: the toy
   semantics of Model.v (a version counter per field; a query returns its
   name, its relevant arguments and the versions of the fields it reads;
   effects and by-products bump what they list as written). *)
From Coq Require Import String List Bool Arith.
Import ListNotations.
From FV.C19 Require Import Model Proofs.
Open Scope string_scope.
Open Scope list_scope.

Lemma find_map_same : forall (P : field * nat -> bool) (g : field * nat -> field * nat) l,
  (forall e, P (g e) = P e) -> (forall e, P e = true -> snd (g e) = snd e) ->
  match find P (map g l) with Some e => snd e | None => 0 end =
  match find P l with Some e => snd e | None => 0 end.
Proof.
  intros P g l H1 H2. induction l as [|e r IH]; [reflexivity|].
  simpl. rewrite H1. destruct (P e) eqn:E; auto.
Qed.

Lemma tget_tbump : forall ps x f, pats_match ps f = false -> tget f (tbump ps x) = tget f x.
Proof.
  intros ps x f Hf. unfold tget, tbump. apply find_map_same.
  - intros e. destruct (pats_match ps (fst e)); reflexivity.
  - intros [[t k] n] E. simpl in E. apply andb_true_iff in E as [E1 E2].
    apply String.eqb_eq in E1, E2. destruct f as [t' k']. simpl in *. subst.
    rewrite Hf. reflexivity.
Qed.

Section Toy.
  Variable cfg : config.

  Lemma toy_reads : forall q qc a x y, find_q cfg q = Some qc ->
    (forall f, pats_match (q_reads qc) f = true -> tget f x = tget f y) ->
    tsem cfg q a x = tsem cfg q a y.
  Proof.
    intros q qc a x y Hq H. unfold tsem. rewrite Hq. f_equal.
    apply map_ext_in. intros f Hf. apply filter_In in Hf as [_ Hf]. auto.
  Qed.

  Lemma toy_relevant : forall q qc a a' x, find_q cfg q = Some qc ->
    proj (q_relevant qc) a = proj (q_relevant qc) a' -> tsem cfg q a x = tsem cfg q a' x.
  Proof. intros q qc a a' x Hq H. unfold tsem. rewrite Hq. rewrite H. auto. Qed.

  Lemma toy_qeff : forall q qc (a : argv) x f, find_q cfg q = Some qc ->
    pats_match (q_writes qc) f = false -> tget f (tbump (twrites_q cfg q) x) = tget f x.
  Proof. intros q qc a x f Hq H. unfold twrites_q. rewrite Hq. apply tget_tbump. auto. Qed.

  Lemma toy_esem : forall e ec (vs : list (option tvalue)) x f, find_e cfg e = Some ec ->
    pats_match (e_writes ec) f = false -> tget f (tbump (twrites_e cfg e) x) = tget f x.
  Proof. intros e ec vs x f He H. unfold twrites_e. rewrite He. apply tget_tbump. auto. Qed.

  Lemma toy_dpeff : forall d dc x f, find_d cfg d = Some dc ->
    pats_match (dv_parent_writes dc) f = false -> tget f (tbump (twrites_d cfg d) x) = tget f x.
  Proof. intros d dc x f Hd H. unfold twrites_d. rewrite Hd. apply tget_tbump. auto. Qed.

  (* purity of the toy machine for every accepted inventory, every nested-call
     selection, every store decision, every derivation semantics *)
  Theorem toy_purity : cfg_ok cfg = true ->
    forall depsel stores epre dsem (h : list op) o q a qc ob,
    let run := exec cfg tmesh tvalue (fun q a x _ => tsem cfg q a x) depsel (fun _ _ v => v) stores
                    (fun q _ x => tbump (twrites_q cfg q) x) epre
                    (fun e _ x => tbump (twrites_e cfg e) x) dsem
                    (fun d x => tbump (twrites_d cfg d) x) tfresh h (init tmesh tvalue) in
    world tmesh tvalue run o = Some ob -> find_q cfg q = Some qc ->
    snd (step cfg tmesh tvalue (fun q a x _ => tsem cfg q a x) depsel (fun _ _ v => v) stores
              (fun q _ x => tbump (twrites_q cfg q) x) epre
              (fun e _ x => tbump (twrites_e cfg e) x) dsem
              (fun d x => tbump (twrites_d cfg d) x) tfresh run (Query o q a))
    = Some (tsem cfg q a (o_mesh tmesh ob)).
  Proof.
    intros Hok depsel stores epre dsem h o q a qc ob run Hw Hq.
    eapply (purity_generic cfg tmesh tvalue nat tget (tsem cfg)); eauto.
    - apply toy_reads.
    - apply toy_relevant.
    - intros. eapply toy_reads; eauto.
    - intros. eapply toy_qeff; eauto.
    - intros. eapply toy_esem; eauto.
    - apply toy_dpeff.
  Qed.
End Toy.
