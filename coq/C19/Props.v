(* C19 — analysis queries are pure and independent of call history.
   Statements only.  The theorems are generic in the inventory `cfg` and in
   what the queries compute; the inventory of /repo is regenerated on every
   run into gen/CacheCfg.v and the per-run obligation (cfg_ok of it, or the
   refutation with the model's witness histories) is stated in gen/Status.v,
   which the harness writes after evaluating `failures CacheCfg.cfg`. *)
From Coq Require Import String List Bool.
Import ListNotations.
From FV.C19 Require Import Model Proofs ProofsToy Slot SlotProofs.
Open Scope string_scope.

Section Statement.
  Variable cfg : config.
  Variables mesh value fval : Type.
  Variable get : field -> mesh -> fval.
  Variable sem : string -> argv -> mesh -> value.
  Variable comb : string -> argv -> mesh -> list value -> value.
  Variable depsel : string -> argv -> list (string * argv * bool).
  Variable post : string -> argv -> value -> value.
  Variable stores : string -> argv -> value -> bool.
  Variable qeff : string -> argv -> mesh -> mesh.
  Variable epre : string -> list (string * argv * bool).
  Variable esem : string -> list (option value) -> mesh -> mesh.
  Variable dsem : string -> list (option value) -> mesh -> mesh.
  Variable dpeff : string -> mesh -> mesh.
  Variable fresh : oid -> mesh.

  (* the inventory is accepted by the static check ... *)
  Hypothesis Hok : cfg_ok cfg = true.
  (* ... and describes the method bodies: a query's value on a fresh object
     depends only on the fields it lists as read and on its relevant
     arguments; its body computes that value from valid nested results;
     re-validation of a slot value is idempotent; by-products and effects
     touch only the fields they list as written *)
  Hypothesis H_reads : forall q qc a x y, find_q cfg q = Some qc ->
    (forall f, pats_match (q_reads qc) f = true -> get f x = get f y) -> sem q a x = sem q a y.
  Hypothesis H_relevant : forall q qc a a' x, find_q cfg q = Some qc ->
    proj (q_relevant qc) a = proj (q_relevant qc) a' -> sem q a x = sem q a' x.
  Hypothesis H_post : forall q a x, post q a (sem q a x) = sem q a x.
  Hypothesis H_comb : forall q qc a x x', find_q cfg q = Some qc ->
    (forall f, pats_match (q_reads qc) f = true -> get f x' = get f x) ->
    comb q a x' (map (fun d => sem (fst (fst d)) (snd (fst d)) x) (sel_deps depsel qc q a)) = sem q a x.
  Hypothesis H_qeff : forall q qc a x f, find_q cfg q = Some qc ->
    pats_match (q_writes qc) f = false -> get f (qeff q a x) = get f x.
  Hypothesis H_esem : forall e ec vs x f, find_e cfg e = Some ec ->
    pats_match (e_writes ec) f = false -> get f (esem e vs x) = get f x.
  Hypothesis H_dpeff : forall d dc x f, find_d cfg d = Some dc ->
    pats_match (dv_parent_writes dc) f = false -> get f (dpeff d x) = get f x.

  Notation run h := (exec cfg mesh value comb depsel post stores qeff epre esem dsem dpeff fresh h
                          (init mesh value)).
  Notation stepq st p := (step cfg mesh value comb depsel post stores qeff epre esem dsem dpeff fresh st p).

  (* After every finite history of object creations, queries (with nested
     memoised calls, lru eviction, slot hits), in-place modifications, writes
     and derivations over any number of live objects, every query on every
     live object returns what the same query returns on a freshly built
     mesh equal to the object's current mesh. *)
  Theorem C19_purity : forall (h : list op) o q a qc ob,
    world mesh value (run h) o = Some ob -> find_q cfg q = Some qc ->
    snd (stepq (run h) (Query o q a)) = Some (sem q a (o_mesh mesh ob)).
  Proof.
    exact (purity_generic cfg mesh value fval get sem comb depsel post stores qeff epre esem dsem
             dpeff fresh Hok H_reads H_relevant H_post H_comb H_qeff H_esem H_dpeff).
  Qed.

  (* Queries and writers leave every protected field of every live object
     unchanged ... *)
  Theorem C19_queries_preserve : forall (h : list op) o q a o' ob f,
    world mesh value (run h) o' = Some ob -> protected cfg f ->
    exists ob', world mesh value (fst (stepq (run h) (Query o q a))) o' = Some ob' /\
                get f (o_mesh mesh ob') = get f (o_mesh mesh ob).
  Proof.
    exact (query_preserves_generic cfg mesh value fval get sem comb depsel post stores qeff epre esem
             dsem dpeff fresh Hok H_reads H_relevant H_post H_comb H_qeff H_esem H_dpeff).
  Qed.

  Theorem C19_writers_preserve : forall (h : list op) o e ec o' ob f,
    find_e cfg e = Some ec -> e_is_writer ec = true ->
    world mesh value (run h) o' = Some ob -> protected cfg f ->
    exists ob', world mesh value (fst (stepq (run h) (Effect o e))) o' = Some ob' /\
                get f (o_mesh mesh ob') = get f (o_mesh mesh ob).
  Proof.
    exact (writer_preserves_generic cfg mesh value fval get sem comb depsel post stores qeff epre esem
             dsem dpeff fresh Hok H_reads H_relevant H_post H_comb H_qeff H_esem H_dpeff).
  Qed.
End Statement.

(* ... where protected covers node ids, coordinates, connectivity and every
   variable whose name the inventory does not list as a derived by-product *)
Theorem C19_protected_core : forall cfg, cfg_ok cfg = true ->
  forall k, protected cfg ("nodes", k) /\ protected cfg ("elements", k).
Proof.
  intros cfg Hok k. split; apply (protected_core cfg Hok); simpl; auto.
Qed.

Theorem C19_protected_user_variables : forall cfg, cfg_ok cfg = true ->
  forall t k, In t var_tables -> ~ In (t, Some k) (soft cfg ++ writer_writes cfg) -> protected cfg (t, k).
Proof. intros cfg Hok. exact (protected_user cfg Hok). Qed.

(* Non-vacuity: an inventory with an lru-cached query, a slot keyed by the
   option its value depends on, a nested call, a modifier that clears both, a
   writer that adds a settings key and a derivation with its own table passes
   the check; the machine (toy semantics) then answers like the memory-less
   machine on a history that mixes all of them; dropping the clears, the slot
   key, or sharing the table is rejected. *)
Definition good_cfg : config := mkcfg
  [ mkq "incidence" 0 (Some (Some 1)) None ["order1_only"] [("nodes", None); ("elements", None)] [] [];
    mkq "adjacency" 1 (Some (Some 2)) None ["mode"] [("nodes", None); ("elements", None)]
        [("elemental_data", Some "degree")] [mkdep "incidence" false];
    mkq "volumes" 0 None (Some ("volume", ["mode"])) ["mode"] [("nodes", None); ("elements", None)] [] [] ]
  [ mke "remove_useless_nodes" false [] [("nodes", None); ("nodal_data", None)]
        ["incidence"; "adjacency"] ["volumes"];
    mke "make_positive" false ["volumes"] [("elements", None)] ["incidence"; "adjacency"] ["volumes"];
    mke "write_fistr" true [] [("settings", Some "solution_type")] [] [] ]
  [ mkd "to_surface" ["adjacency"] false [] [] ].

Example good_cfg_ok : cfg_ok good_cfg = true.
Proof. vm_compute. reflexivity. Qed.

Definition good_history : list op :=
  [New 0; New 1; Query 0 "adjacency" [("mode", "nodal")]; Query 0 "volumes" [("mode", "linear")];
   Query 1 "adjacency" [("mode", "nodal")]; Query 0 "volumes" [("mode", "centroid")];
   Effect 0 "remove_useless_nodes"; Query 0 "adjacency" [("mode", "nodal")]; Effect 0 "make_positive";
   Query 0 "volumes" [("mode", "centroid")]; Derive 0 2 "to_surface"; Query 2 "volumes" [("mode", "centroid")];
   Effect 1 "write_fistr"; Query 1 "adjacency" [("mode", "nodal")]; Query 0 "incidence" []].

Example good_cfg_history_independent :
  tdiffers good_cfg good_history = false /\ length (trun good_cfg good_history) = 9.
Proof. vm_compute. split; reflexivity. Qed.

Definition bad_cfg_no_clear : config := mkcfg (queries good_cfg)
  [ mke "remove_useless_nodes" false [] [("nodes", None); ("nodal_data", None)] [] [] ] (derivs good_cfg).
Definition bad_cfg_slot_key : config := mkcfg
  [ mkq "volumes" 0 None (Some ("volume", [])) ["mode"] [("nodes", None); ("elements", None)] [] [] ] [] [].
Definition bad_cfg_share : config := mkcfg (queries good_cfg) (effects good_cfg)
  [ mkd "to_polyhedron" [] true [] ["elemental_data"; "nodal_data"] ].

Example bad_cfgs_rejected :
  cfg_ok bad_cfg_no_clear = false /\ cfg_ok bad_cfg_slot_key = false /\ cfg_ok bad_cfg_share = false /\
  tdiffers bad_cfg_no_clear [New 0; Query 0 "incidence" []; Effect 0 "remove_useless_nodes"; Query 0 "incidence" []] = true /\
  tdiffers bad_cfg_slot_key [New 0; Query 0 "volumes" [("mode", "linear")]; Query 0 "volumes" [("mode", "centroid")]] = true.
Proof. vm_compute. repeat split; reflexivity. Qed.

(* A writer that changes the connectivity in place (the translator lists a
   stored array changed through a view / a helper parameter / out= as a write
   of that field) and a query that changes a stored variable in place (listed
   as a write of the whole table: never a by-product) are rejected, by the
   clause FProtected. *)
Definition bad_cfg_writer_inplace : config := mkcfg (queries good_cfg)
  [ mke "write_fistr" true [] [("elements", None); ("settings", Some "solution_type")] [] [] ] (derivs good_cfg).
Definition bad_cfg_query_inplace : config := mkcfg
  [ mkq "volumes" 0 None (Some ("volume", ["mode"])) ["mode"] [("nodes", None); ("elements", None)]
        [("elemental_data", None)] [] ] [] [].
Example bad_cfgs_inplace_rejected :
  cfg_ok bad_cfg_writer_inplace = false /\ In (FProtected "write_fistr") (failures bad_cfg_writer_inplace) /\
  cfg_ok bad_cfg_query_inplace = false /\ In (FProtected "volumes") (failures bad_cfg_query_inplace).
Proof. vm_compute. repeat split; auto. Qed.

(* The section hypotheses are jointly satisfiable by a non-constant semantics,
   for every accepted inventory: the toy semantics of Model.v (versions of the
   fields read + relevant arguments) with arbitrary nested-call selection,
   store decisions and derivation semantics is pure. *)
Theorem C19_hypotheses_satisfiable : forall cfg, cfg_ok cfg = true ->
  forall depsel stores epre dsem (h : list op) o q a qc ob,
  let run := exec cfg tmesh tvalue (fun q a x _ => tsem cfg q a x) depsel (fun _ _ v => v) stores
                  (fun q _ x => tbump (twrites_q cfg q) x) epre
                  (fun e _ x => tbump (twrites_e cfg e) x) dsem
                  (fun d x => tbump (twrites_d cfg d) x) tfresh h (init tmesh tvalue) in
  world tmesh tvalue run o = Some ob -> find_q cfg q = Some qc ->
  snd (step cfg tmesh tvalue (fun q a x _ => tsem cfg q a x) depsel (fun _ _ v => v) stores
            (fun q _ x => tbump (twrites_q cfg q) x) epre
            (fun e _ x => tbump (twrites_e cfg e) x) dsem
            (fun d x => tbump (twrites_d cfg d) x) tfresh run (Query o q a))
  = Some (tsem cfg q a (o_mesh tmesh ob)).
Proof. exact toy_purity. Qed.

(* ------------------------------------------------------------------------
   The in-mesh result slots (elemental_data['area' | 'volume' | 'metric']),
   concretely: Slot.v is an executable model over exact rationals of
   _validate_metric / _slot_answers / _store_slot and of the slot branch and
   store tail of calculate_element_areas / _volumes / _metrics; it is tied to
   the implementation on every run by evaluating slot_trace inside Coq on the
   option sequences the implementation ran on (harness/c19_slots.py).
   What the generic machine assumes about slots (H_post: re-validation is
   idempotent; the slot key decides) is proved here for the code as it is. *)

(* re-validating a validated result returns it *)
Theorem C19_slot_revalidation_idempotent : forall o m v,
  validate o m = Val v -> validate o v = Val v.
Proof. exact validate_idempotent. Qed.

(* Every call of every history of calls with arbitrary options, on a table in
   any state the protocol produces (empty, a library entry, or a variable of
   that name the user stored), answers what the same call answers on a
   freshly built equal mesh; the table stays valid and the user's part of it
   is unchanged. *)
Theorem C19_slot_history_pure : forall signed h t, valid_table signed t ->
  Forall2 (fun o v => v = fresh_answer signed t o) h (fst (slot_run signed t h)) /\
  valid_table signed (snd (slot_run signed t h)) /\
  user_part (snd (slot_run signed t h)) = user_part t.
Proof. exact slot_run_pure. Qed.

Theorem C19_slot_history_independent : forall signed t h1 h2 o, valid_table signed t ->
  fst (slot_query signed (snd (slot_run signed t h1)) o) =
  fst (slot_query signed (snd (slot_run signed t h2)) o).
Proof. exact slot_history_independent. Qed.

(* queries never change (nor replace) a variable named like a slot that the
   user stored, whatever options they are called with *)
Theorem C19_slot_user_variable_kept : forall signed h u, e_opts u = None ->
  snd (slot_run signed (Some u) h) = Some u.
Proof. exact slot_run_keeps_user. Qed.

(* after an in-place modification (which drops the entry the library stored and
   keeps a user's variable of that name) later calls answer what a freshly
   built mesh equal to the modified one answers, whatever was asked before *)
Theorem C19_slot_reflects_modification : forall signed signed' t h o, valid_table signed t ->
  fst (slot_query signed' (drop_slot (snd (slot_run signed t h))) o) = fresh_answer signed' t o.
Proof. exact slot_after_modification. Qed.

(* every history that mixes calls (any options) and in-place modifications
   (each may change what the kernels compute): all answers are those of
   freshly built equal meshes, the user's part of the table is unchanged *)
Theorem C19_slot_histories_with_modifiers_pure : forall h signed t, valid_table signed t ->
  fst (run_m signed t h) = spec_m signed t h /\
  user_part (snd (run_m signed t h)) = user_part t.
Proof. exact run_m_pure. Qed.

(* a variable named area / volume / metric that the user stored survives every
   history of queries AND in-place modifications, unchanged *)
Theorem C19_slot_user_variable_survives_modifiers : forall h signed u, e_opts u = None ->
  snd (run_m signed (Some u) h) = Some u.
Proof. exact run_m_keeps_user. Qed.

(* non-vacuity: SlotProofs.ex_run (absolute, signed, other mode, raising and
   absolute again on a mesh with an inverted element: the table is valid and
   the answers differ from one another) and ex_user_kept (a user's variable
   with a negative entry survives all of them) *)
Example C19_slot_nonvacuous :
  valid_table ex_signed (snd (slot_run ex_signed None ex_hist)) /\
  snd (slot_run ex_signed (Some ex_user) ex_hist) = Some ex_user /\
  nth 0 (fst (slot_run ex_signed None ex_hist)) Raise <> nth 1 (fst (slot_run ex_signed None ex_hist)) Raise /\
  snd (run_m ex_signed (Some ex_user) ex_mhist) = Some ex_user /\
  nth 0 (fst (run_m ex_signed None ex_mhist)) Raise <> nth 1 (fst (run_m ex_signed None ex_mhist)) Raise.
Proof.
  split; [exact (proj2 ex_run)|]. split; [vm_compute; reflexivity|].
  split; [vm_compute; discriminate|]. split; [exact (proj2 ex_run_m)|vm_compute; discriminate].
Qed.

Print Assumptions C19_purity.
Print Assumptions C19_queries_preserve.
Print Assumptions C19_writers_preserve.
Print Assumptions C19_slot_revalidation_idempotent.
Print Assumptions C19_slot_history_pure.
Print Assumptions C19_slot_history_independent.
Print Assumptions C19_slot_user_variable_kept.
Print Assumptions C19_slot_reflects_modification.
Print Assumptions C19_slot_histories_with_modifiers_pure.
Print Assumptions C19_slot_user_variable_survives_modifiers.
