(* C19 — proofs about the cache machine of Model.v. *)
From Coq Require Import String List Bool Arith Lia.
Import ListNotations.
From FV.C19 Require Import Model.
Open Scope string_scope.
Open Scope list_scope.

(* ------------------------------------------------------------ basics *)
Lemma argv_eqb_eq : forall a b, argv_eqb a b = true -> a = b.
Proof.
  induction a as [|[k v] r IH]; destruct b as [|[k' v'] s]; simpl; intros H; try discriminate; auto.
  apply andb_true_iff in H as [H H3]. apply andb_true_iff in H as [H1 H2].
  apply String.eqb_eq in H1, H2. subst. f_equal. auto.
Qed.

Lemma key_eqb_eq : forall k k', key_eqb k k' = true -> k = k'.
Proof.
  intros [o a] [o' a']. unfold key_eqb. simpl. intros H.
  apply andb_true_iff in H as [H1 H2]. apply Nat.eqb_eq in H1. apply argv_eqb_eq in H2. subst. auto.
Qed.

Lemma ostr_eqb_eq : forall a b, ostr_eqb a b = true -> a = b.
Proof.
  destruct a, b; simpl; intros H; try discriminate; auto. apply String.eqb_eq in H. subst. auto.
Qed.

Lemma olist_eqb_eq : forall a b, olist_eqb a b = true -> a = b.
Proof.
  induction a; destruct b; simpl; intros H; try discriminate; auto.
  apply andb_true_iff in H as [H1 H2]. apply ostr_eqb_eq in H1. subst. f_equal. auto.
Qed.

Lemma smem_In : forall s l, smem s l = true <-> In s l.
Proof.
  intros. unfold smem. rewrite existsb_exists. split.
  - intros [x [Hx He]]. apply String.eqb_eq in He. subst. auto.
  - intros H. exists s. split; auto. apply String.eqb_refl.
Qed.

Lemma proj_incl : forall ks ks' a a',
  (forall k, In k ks -> In k ks') -> proj ks' a = proj ks' a' -> proj ks a = proj ks a'.
Proof.
  intros ks ks' a a' Hi He. unfold proj in *.
  apply map_ext_in. intros k Hk. apply Hi in Hk.
  assert (forall l, In k l -> map (fun k => assoc k a) l = map (fun k => assoc k a') l ->
                    assoc k a = assoc k a') as G.
  { induction l; simpl; intros Hin Hm; [tauto|]. inversion Hm. destruct Hin; subst; auto. }
  eapply G; eauto.
Qed.

Lemma concat_map_nil : forall (A B : Type) (f : A -> list B) l,
  concat (map f l) = [] -> forall x, In x l -> f x = [].
Proof.
  induction l; simpl; intros H x Hx; [tauto|].
  apply app_eq_nil in H as [H1 H2]. destruct Hx; subst; auto.
Qed.

Lemma map_nil : forall (A B : Type) (f : A -> B) l, map f l = [] -> l = [].
Proof. destruct l; simpl; intros; auto; discriminate. Qed.

Lemma filter_nil : forall (A : Type) (f : A -> bool) l,
  filter f l = [] -> forall x, In x l -> f x = false.
Proof.
  induction l; simpl; intros H x Hx; [tauto|].
  destruct (f a) eqn:E; [discriminate|]. destruct Hx; subst; auto.
Qed.

Lemma In_firstn : forall (A : Type) n (l : list A) x, In x (firstn n l) -> In x l.
Proof.
  induction n; destruct l; simpl; intros; auto; try tauto. destruct H; auto.
Qed.

Lemma pats_match_overlap : forall ps ps' f,
  pats_match ps f = true -> pats_match ps' f = true -> pats_overlap ps ps' = true.
Proof.
  intros ps ps' f H H'. unfold pats_match, pats_overlap in *.
  apply existsb_exists in H as [p [Hp Hm]]. apply existsb_exists in H' as [p' [Hp' Hm']].
  apply existsb_exists. exists p. split; auto. apply existsb_exists. exists p'. split; auto.
  unfold pat_match, pat_overlap in *.
  apply andb_true_iff in Hm as [A B]. apply andb_true_iff in Hm' as [A' B'].
  apply String.eqb_eq in A, A'. apply andb_true_iff. split.
  - apply String.eqb_eq. congruence.
  - destruct (snd p), (snd p'); auto. apply String.eqb_eq in B, B'. apply String.eqb_eq. congruence.
Qed.

Lemma pats_match_app : forall a b f, pats_match (a ++ b) f = pats_match a f || pats_match b f.
Proof. intros. unfold pats_match. apply existsb_app. Qed.

Lemma pats_match_concat : forall (A : Type) (g : A -> list fpat) l f,
  pats_match (concat (map g l)) f = true -> exists x, In x l /\ pats_match (g x) f = true.
Proof.
  induction l; simpl; intros f H; [discriminate|].
  rewrite pats_match_app in H. apply orb_true_iff in H as [H|H].
  - exists a. auto.
  - destruct (IHl _ H) as [x [Hx Hm]]. exists x. auto.
Qed.

Lemma pats_match_concat_false : forall (A : Type) (g : A -> list fpat) l f x,
  pats_match (concat (map g l)) f = false -> In x l -> pats_match (g x) f = false.
Proof.
  induction l; simpl; intros f x H Hx; [tauto|].
  rewrite pats_match_app in H. apply orb_false_iff in H as [H1 H2]. destruct Hx; subst; eauto.
Qed.

Lemma find_q_In : forall cfg q qc, find_q cfg q = Some qc -> In qc (queries cfg) /\ q_name qc = q.
Proof.
  unfold find_q. intros cfg q qc H. apply find_some in H as [H1 H2]. apply String.eqb_eq in H2. auto.
Qed.
Lemma find_e_In : forall cfg e ec, find_e cfg e = Some ec -> In ec (effects cfg) /\ e_name ec = e.
Proof.
  unfold find_e. intros cfg q qc H. apply find_some in H as [H1 H2]. apply String.eqb_eq in H2. auto.
Qed.
Lemma find_d_In : forall cfg d dc, find_d cfg d = Some dc -> In dc (derivs cfg) /\ dv_name dc = d.
Proof.
  unfold find_d. intros cfg q qc H. apply find_some in H as [H1 H2]. apply String.eqb_eq in H2. auto.
Qed.

Lemma rank_lt_fuel0 : forall cfg qc, In qc (queries cfg) -> q_rank qc < fuel0 cfg.
Proof.
  intros cfg qc H. unfold fuel0.
  assert (forall l, In qc l -> q_rank qc <= fold_right Nat.max 0 (map q_rank l)) as G.
  { induction l; simpl; intros Hin; [tauto|]. destruct Hin; subst; [lia|]. apply IHl in H0. lia. }
  apply G in H. lia.
Qed.

Lemma pats_cover_match : forall big small f,
  pats_cover big small = true -> pats_match small f = true -> pats_match big f = true.
Proof.
  intros big small f Hc Hm. unfold pats_cover in Hc. rewrite forallb_forall in Hc.
  unfold pats_match in *. apply existsb_exists in Hm as [p [Hp Hpm]].
  specialize (Hc p Hp). apply existsb_exists in Hc as [p' [Hp' Hcv]].
  apply existsb_exists. exists p'. split; auto.
  unfold pat_covers in Hcv. unfold pat_match in *.
  apply andb_true_iff in Hcv as [A B]. apply andb_true_iff in Hpm as [C D].
  apply String.eqb_eq in A, C. apply andb_true_iff. split.
  - apply String.eqb_eq. congruence.
  - destruct (snd p'); auto. destruct (snd p); [|discriminate].
    apply String.eqb_eq in B, D. apply String.eqb_eq. congruence.
Qed.

Lemma pats_overlap_false : forall ps ps' f,
  pats_overlap ps ps' = false -> pats_match ps f = true -> pats_match ps' f = false.
Proof.
  intros ps ps' f H Hm. destruct (pats_match ps' f) eqn:E; auto.
  rewrite (pats_match_overlap _ _ _ Hm E) in H. discriminate.
Qed.

Lemma In_dep_cfgs : forall cfg qc dd qd, In dd (q_deps qc) -> find_q cfg (d_query dd) = Some qd ->
  In qd (dep_cfgs cfg qc).
Proof.
  intros cfg qc dd qd Hd Hf. unfold dep_cfgs. apply in_concat.
  exists [qd]. split; [|simpl; auto]. apply in_map_iff. exists dd. rewrite Hf. auto.
Qed.

(* ------------------------------------------------------------ what cfg_ok gives *)
Section Clauses.
  Variable cfg : config.
  Hypothesis Hok : cfg_ok cfg = true.

  Lemma failures_nil : failures cfg = [].
  Proof. unfold cfg_ok in Hok. destruct (failures cfg); auto; discriminate. Qed.

  Ltac split_fail :=
    pose proof failures_nil as F; unfold failures in F;
    repeat (apply app_eq_nil in F; let F1 := fresh "F" in destruct F as [F1 F]).

  Lemma ok_deps : forall qc d, In qc (queries cfg) -> In d (q_deps qc) ->
    exists qd, find_q cfg (d_query d) = Some qd /\ q_rank qd < q_rank qc.
  Proof.
    intros qc d Hq Hd. split_fail.
    pose proof (concat_map_nil _ _ _ _ F2 qc Hq) as G. simpl in G.
    pose proof (concat_map_nil _ _ _ _ G d Hd) as G2. simpl in G2.
    destruct (find_q cfg (d_query d)) as [qd|]; [|discriminate].
    exists qd. split; auto. destruct (Nat.ltb (q_rank qd) (q_rank qc)) eqn:E; [|discriminate].
    apply Nat.ltb_lt in E. auto.
  Qed.

  Lemma ok_slotkeys : forall qc a, In qc (queries cfg) -> has_slot qc = true ->
    In a (q_relevant qc) -> In a (slot_keys qc).
  Proof.
    intros qc a Hq Hs Ha. split_fail.
    pose proof (concat_map_nil _ _ _ _ F3 qc Hq) as G. simpl in G. rewrite Hs in G.
    apply map_nil in G. pose proof (filter_nil _ _ _ G a Ha) as G2.
    apply negb_false_iff in G2. apply smem_In in G2. auto.
  Qed.

  Lemma ok_effect : forall ec qc, In ec (effects cfg) -> In qc (queries cfg) ->
    pats_overlap (q_reads qc) (e_writes ec) = true ->
    (has_lru qc = true -> smem (q_name qc) (e_clears ec) = true) /\
    (has_slot qc = true -> smem (q_name qc) (e_clears_slots ec) = true).
  Proof.
    intros ec qc He Hq Hov. split_fail.
    pose proof (concat_map_nil _ _ _ _ F4 ec He) as G. simpl in G.
    pose proof (concat_map_nil _ _ _ _ G qc Hq) as G2. simpl in G2. rewrite Hov in G2.
    apply app_eq_nil in G2 as [A B]. split; intros Hh; rewrite Hh in *; simpl in *.
    - destruct (smem (q_name qc) (e_clears ec)); auto; discriminate.
    - destruct (smem (q_name qc) (e_clears_slots ec)); auto; discriminate.
  Qed.

  Lemma ok_share : forall dc, any_slot cfg = true -> In dc (derivs cfg) -> dv_shares dc = false.
  Proof.
    intros dc Ha Hd. split_fail. rewrite Ha in F5. apply map_nil in F5.
    apply (filter_nil _ _ _ F5 dc Hd).
  Qed.

  Lemma F6_parts :
    concat (map (fun qc =>
     if memoised qc then
       concat (map (fun qw =>
         if pats_overlap (q_reads qc) (q_writes qw) then [FWriteRead (q_name qw) (q_name qc)] else [])
         (queries cfg)) ++
       concat (map (fun dc =>
         if pats_overlap (q_reads qc) (dv_parent_writes dc) then [FWriteRead (dv_name dc) (q_name qc)] else [])
         (derivs cfg))
     else []) (queries cfg)) = [] /\
    concat (map (fun qc =>
     concat (map (fun qd2 =>
       (if pats_overlap (q_reads qc) (q_writes qd2) then [FWriteRead (q_name qd2) (q_name qc)] else []) ++
       concat (map (fun qd1 =>
         if pats_overlap (q_reads qd1) (q_writes qd2) then [FWriteRead (q_name qd2) (q_name qd1)] else [])
         (dep_cfgs cfg qc))) (dep_cfgs cfg qc))) (queries cfg)) = [] /\
    concat (map (fun qc =>
     concat (map (fun qd =>
       if pats_cover (q_writes qc) (q_writes qd) then []
       else [FStructure ("by-products of nested call not listed for the caller " ++ q_name qc ++ " -> " ++ q_name qd)%string])
       (dep_cfgs cfg qc))) (queries cfg)) = [].
  Proof.
    split_fail. apply app_eq_nil in F6 as [A B]. apply app_eq_nil in B as [B C]. auto.
  Qed.

  Lemma ok_memo_reads : forall qc f, In qc (queries cfg) -> memoised qc = true ->
    pats_match (q_reads qc) f = true -> pats_match (soft cfg) f = false.
  Proof.
    intros qc f Hq Hmemo Hm. destruct F6_parts as [FA _].
    pose proof (concat_map_nil _ _ _ _ FA qc Hq) as G. simpl in G. rewrite Hmemo in G.
    apply app_eq_nil in G as [G1 G2].
    destruct (pats_match (soft cfg) f) eqn:E; auto. exfalso.
    unfold soft in E. rewrite pats_match_app in E. apply orb_true_iff in E as [E|E].
    - apply pats_match_concat in E as [qw [Hw Hmw]].
      pose proof (concat_map_nil _ _ _ _ G1 qw Hw) as G3. simpl in G3.
      rewrite (pats_match_overlap _ _ _ Hm Hmw) in G3. discriminate.
    - apply pats_match_concat in E as [dc [Hd Hmd]].
      pose proof (concat_map_nil _ _ _ _ G2 dc Hd) as G3. simpl in G3.
      rewrite (pats_match_overlap _ _ _ Hm Hmd) in G3. discriminate.
  Qed.

  Lemma ok_dep_caller : forall qc qd, In qc (queries cfg) -> In qd (dep_cfgs cfg qc) ->
    pats_overlap (q_reads qc) (q_writes qd) = false.
  Proof.
    intros qc qd Hq Hd. destruct F6_parts as [_ [FC _]].
    pose proof (concat_map_nil _ _ _ _ FC qc Hq) as G. simpl in G.
    pose proof (concat_map_nil _ _ _ _ G qd Hd) as G2. simpl in G2. apply app_eq_nil in G2 as [G2 _].
    destruct (pats_overlap (q_reads qc) (q_writes qd)); auto; discriminate.
  Qed.

  Lemma ok_dep_sibling : forall qc qd1 qd2, In qc (queries cfg) ->
    In qd1 (dep_cfgs cfg qc) -> In qd2 (dep_cfgs cfg qc) ->
    pats_overlap (q_reads qd1) (q_writes qd2) = false.
  Proof.
    intros qc qd1 qd2 Hq H1 H2. destruct F6_parts as [_ [FC _]].
    pose proof (concat_map_nil _ _ _ _ FC qc Hq) as G. simpl in G.
    pose proof (concat_map_nil _ _ _ _ G qd2 H2) as G2. simpl in G2. apply app_eq_nil in G2 as [_ G2].
    pose proof (concat_map_nil _ _ _ _ G2 qd1 H1) as G3. simpl in G3.
    destruct (pats_overlap (q_reads qd1) (q_writes qd2)); auto; discriminate.
  Qed.

  Lemma ok_dep_cover : forall qc qd, In qc (queries cfg) -> In qd (dep_cfgs cfg qc) ->
    pats_cover (q_writes qc) (q_writes qd) = true.
  Proof.
    intros qc qd Hq Hd. destruct F6_parts as [_ [_ FI]].
    pose proof (concat_map_nil _ _ _ _ FI qc Hq) as G. simpl in G.
    pose proof (concat_map_nil _ _ _ _ G qd Hd) as G2. simpl in G2.
    destruct (pats_cover (q_writes qc) (q_writes qd)); auto; discriminate.
  Qed.

  Lemma ok_derived : forall p, In p (soft cfg ++ writer_writes cfg) -> derived_pat p = true.
  Proof.
    intros p Hp. split_fail.
    apply in_app_or in Hp as [Hp|Hp]; [unfold soft in Hp; apply in_app_or in Hp as [Hp|Hp]|].
    - apply in_concat in Hp as [l [Hl Hp]]. apply in_map_iff in Hl as [qc [E Hq]]. subst.
      pose proof (concat_map_nil _ _ _ _ F7 qc Hq) as G. simpl in G.
      destruct (forallb derived_pat (q_writes qc)) eqn:E; [|discriminate].
      rewrite forallb_forall in E. auto.
    - apply in_concat in Hp as [l [Hl Hp]]. apply in_map_iff in Hl as [dc [E Hd]]. subst.
      pose proof (concat_map_nil _ _ _ _ F8 dc Hd) as G. simpl in G.
      destruct (forallb derived_pat (dv_parent_writes dc)) eqn:E; [|discriminate].
      rewrite forallb_forall in E. auto.
    - unfold writer_writes in Hp.
      apply in_concat in Hp as [l [Hl Hp]]. apply in_map_iff in Hl as [ec [E He]]. subst.
      pose proof (concat_map_nil _ _ _ _ F9 ec He) as G. simpl in G.
      destruct (forallb derived_pat (e_writes ec)) eqn:E; [|discriminate].
      rewrite forallb_forall in E. auto.
  Qed.
End Clauses.

(* ------------------------------------------------------------ the machine *)
Section MachineProofs.
  Variable cfg : config.
  Variables mesh value fval : Type.
  Variable get : field -> mesh -> fval.
  Variable sem : string -> argv -> mesh -> value.
  Variable comb : string -> argv -> mesh -> list value -> value.
  Variable depsel : string -> argv -> list (string * argv * bool).
  Variable post : string -> argv -> value -> value.
  Variable stores : string -> argv -> value -> bool.
  Variable qeff : string -> argv -> mesh -> mesh.
  Variable epre : string -> list (string * argv * bool).
  Variable esem : string -> list (option value) -> mesh -> mesh.
  Variable dsem : string -> list (option value) -> mesh -> mesh.
  Variable dpeff : string -> mesh -> mesh.
  Variable fresh : oid -> mesh.

  Hypothesis Hok : cfg_ok cfg = true.
  (* the inventory describes what the bodies read, write and depend on *)
  Hypothesis H_reads : forall q qc a x y, find_q cfg q = Some qc ->
    (forall f, pats_match (q_reads qc) f = true -> get f x = get f y) -> sem q a x = sem q a y.
  Hypothesis H_relevant : forall q qc a a' x, find_q cfg q = Some qc ->
    proj (q_relevant qc) a = proj (q_relevant qc) a' -> sem q a x = sem q a' x.
  Hypothesis H_post : forall q a x, post q a (sem q a x) = sem q a x.
  Hypothesis H_comb : forall q qc a x x', find_q cfg q = Some qc ->
    (forall f, pats_match (q_reads qc) f = true -> get f x' = get f x) ->
    comb q a x' (map (fun d => sem (fst (fst d)) (snd (fst d)) x) (sel_deps depsel qc q a)) = sem q a x.
  Hypothesis H_qeff : forall q qc a x f, find_q cfg q = Some qc ->
    pats_match (q_writes qc) f = false -> get f (qeff q a x) = get f x.
  Hypothesis H_esem : forall e ec vs x f, find_e cfg e = Some ec ->
    pats_match (e_writes ec) f = false -> get f (esem e vs x) = get f x.
  Hypothesis H_dpeff : forall d dc x f, find_d cfg d = Some dc ->
    pats_match (dv_parent_writes dc) f = false -> get f (dpeff d x) = get f x.

  Arguments world {mesh value}. Arguments caches {mesh value}. Arguments slots {mesh value}.
  Arguments o_mesh {mesh}. Arguments o_tab {mesh}. Arguments mkobj {mesh}.
  Arguments lru_store {mesh value}. Arguments slot_store {mesh value}. Arguments set_mesh {mesh value}.
  Arguments set_cache {mesh value}. Arguments set_slot {mesh value}.
  Arguments clear_caches {mesh value}. Arguments clear_slots {mesh value}. Arguments slot_hit {mesh value}.
  Arguments lru_put {value}. Arguments lru_remove {value}. Arguments lru_find {value}.
  Arguments all_some {value}. Arguments eval_list {mesh value}. Arguments mkst {mesh value}.
  Notation state := (state mesh value).
  Notation obj := (obj mesh).
  Notation ev := (eval cfg mesh value comb depsel post stores qeff).
  Notation stp := (step cfg mesh value comb depsel post stores qeff epre esem dsem dpeff fresh).
  Notation exe := (exec cfg mesh value comb depsel post stores qeff epre esem dsem dpeff fresh).

  Definition meq_w (W : list fpat) (x y : mesh) : Prop :=
    forall f, pats_match W f = false -> get f x = get f y.
  Definition meq : mesh -> mesh -> Prop := meq_w (soft cfg).

  Lemma meq_w_refl : forall W x, meq_w W x x.
  Proof. intros W x f _. auto. Qed.
  Lemma meq_w_trans : forall W x y z, meq_w W x y -> meq_w W y z -> meq_w W x z.
  Proof. intros W x y z A B f Hf. rewrite (A f Hf). auto. Qed.
  Lemma meq_w_weaken : forall W W' x y,
    (forall f, pats_match W f = true -> pats_match W' f = true) -> meq_w W x y -> meq_w W' x y.
  Proof.
    intros W W' x y H A f Hf. apply A. destruct (pats_match W f) eqn:E; auto.
    apply H in E. congruence.
  Qed.
  Lemma meq_refl : forall x, meq x x.
  Proof. apply meq_w_refl. Qed.
  Lemma meq_trans : forall x y z, meq x y -> meq y z -> meq x z.
  Proof. apply meq_w_trans. Qed.

  (* by-products a call of q may add *)
  Definition writes_of (q : string) : list fpat :=
    match find_q cfg q with Some qc => q_writes qc | None => [] end.

  Lemma pats_match_concat_true : forall (A : Type) (g : A -> list fpat) l x f,
    In x l -> pats_match (g x) f = true -> pats_match (concat (map g l)) f = true.
  Proof.
    intros A g l x f Hx Hm. destruct (pats_match (concat (map g l)) f) eqn:E; auto.
    rewrite (pats_match_concat_false _ _ _ _ _ E Hx) in Hm. discriminate.
  Qed.

  Lemma qwrites_soft : forall qc f, In qc (queries cfg) ->
    pats_match (q_writes qc) f = true -> pats_match (soft cfg) f = true.
  Proof.
    intros qc f Hq Hm. unfold soft. rewrite pats_match_app.
    rewrite (pats_match_concat_true _ q_writes _ _ _ Hq Hm). auto.
  Qed.

  Lemma writes_soft : forall q f, pats_match (writes_of q) f = true -> pats_match (soft cfg) f = true.
  Proof.
    intros q f. unfold writes_of. destruct (find_q cfg q) as [qc|] eqn:Hq; [|simpl; discriminate].
    apply qwrites_soft. apply (proj1 (find_q_In _ _ _ Hq)).
  Qed.

  (* the value of a memoised query survives by-products *)
  Lemma sem_meq : forall q qc a x y, find_q cfg q = Some qc -> memoised qc = true ->
    meq x y -> sem q a x = sem q a y.
  Proof.
    intros q qc a x y Hq Hmemo Hm. eapply H_reads; eauto. intros f Hf. apply Hm.
    apply find_q_In in Hq as [Hq _]. eapply ok_memo_reads; eauto.
  Qed.

  Lemma qeff_meq : forall q qc a x, find_q cfg q = Some qc -> meq x (qeff q a x).
  Proof.
    intros q qc a x Hq f Hf. symmetry. eapply H_qeff; eauto.
    unfold soft in Hf. rewrite pats_match_app in Hf. apply orb_false_iff in Hf as [Hf _].
    apply find_q_In in Hq as [Hq _]. eapply pats_match_concat_false in Hf; eauto.
  Qed.

  Lemma dpeff_meq : forall d dc x, find_d cfg d = Some dc -> meq x (dpeff d x).
  Proof.
    intros d dc x Hd f Hf. symmetry. eapply H_dpeff; eauto.
    unfold soft in Hf. rewrite pats_match_app in Hf. apply orb_false_iff in Hf as [_ Hf].
    apply find_d_In in Hd as [Hd _]. eapply pats_match_concat_false in Hf; eauto.
  Qed.

  Lemma any_slot_of : forall q qc, find_q cfg q = Some qc -> has_slot qc = true -> any_slot cfg = true.
  Proof.
    intros q qc Hq Hs. unfold any_slot. apply existsb_exists. exists qc.
    apply find_q_In in Hq as [Hq _]. auto.
  Qed.

  Record Inv (st : state) : Prop := mkInv {
    I_cache : forall q k v, In (k, v) (caches st q) ->
      exists qc ob, find_q cfg q = Some qc /\ has_lru qc = true /\
                    world st (fst k) = Some ob /\ v = sem q (snd k) (o_mesh ob);
    I_slot : forall o ob q a v, world st o = Some ob -> slots st (o_tab ob) q = Some (a, v) ->
      exists qc, find_q cfg q = Some qc /\ has_slot qc = true /\ v = sem q a (o_mesh ob);
    I_share : any_slot cfg = false \/
      forall o o' ob ob', world st o = Some ob -> world st o' = Some ob' ->
                          o_tab ob = o_tab ob' -> o = o';
    I_tab : forall o ob, world st o = Some ob -> world st (o_tab ob) <> None }.

  Definition ext_w (W : list fpat) (st st' : state) : Prop :=
    forall o, match world st o, world st' o with
              | Some ob, Some ob' => o_tab ob = o_tab ob' /\ meq_w W (o_mesh ob) (o_mesh ob')
              | None, None => True
              | _, _ => False
              end.
  Definition ext : state -> state -> Prop := ext_w (soft cfg).

  Lemma ext_w_refl : forall W st, ext_w W st st.
  Proof. intros W st o. destruct (world st o); auto. split; auto. apply meq_w_refl. Qed.

  Lemma ext_w_trans : forall W a b c, ext_w W a b -> ext_w W b c -> ext_w W a c.
  Proof.
    intros W a b c A B o. specialize (A o). specialize (B o).
    destruct (world a o), (world b o), (world c o); try tauto.
    destruct A, B. split; [congruence|]. eapply meq_w_trans; eauto.
  Qed.

  Lemma ext_w_weaken : forall W W' a b,
    (forall f, pats_match W f = true -> pats_match W' f = true) -> ext_w W a b -> ext_w W' a b.
  Proof.
    intros W W' a b H A o. specialize (A o). destruct (world a o), (world b o); try tauto.
    destruct A. split; auto. eapply meq_w_weaken; eauto.
  Qed.

  Lemma ext_refl : forall st, ext st st.
  Proof. apply ext_w_refl. Qed.
  Lemma ext_trans : forall a b c, ext a b -> ext b c -> ext a c.
  Proof. apply ext_w_trans. Qed.

  Lemma Inv_init : Inv (@init mesh value).
  Proof.
    constructor; simpl; intros; try tauto; try discriminate.
    right. intros. discriminate.
  Qed.

  (* --- state updates preserve the invariant --- *)
  Lemma lru_put_In : forall ms k (v : value) l e, In e (lru_put ms k v l) -> e = (k, v) \/ In e l.
  Proof.
    intros ms k v l e H. unfold lru_put in H.
    assert (In e ((k, v) :: lru_remove k l) -> e = (k, v) \/ In e l) as G.
    { intros [A|A]; auto. right. unfold lru_remove in A. apply filter_In in A as [A _]. auto. }
    destruct ms; [apply In_firstn in H|]; auto.
  Qed.

  Lemma lru_find_In : forall k l (v : value), lru_find k l = Some v -> In (k, v) l.
  Proof.
    induction l as [|[k' v'] r IH]; simpl; intros v H; [discriminate|].
    destruct (key_eqb k k') eqn:E.
    - apply key_eqb_eq in E. inversion H. subst. auto.
    - auto.
  Qed.

  Lemma Inv_lru_store : forall st qc q o a v ob,
    Inv st -> find_q cfg q = Some qc -> world st o = Some ob ->
    (has_lru qc = true -> v = sem q a (o_mesh ob)) ->
    Inv (lru_store st qc q o a v).
  Proof.
    intros st qc q o a v ob I Hq Hw Hv'. unfold lru_store.
    destruct (q_lru qc) as [ms|] eqn:El; auto.
    assert (v = sem q a (o_mesh ob)) as Hv by (apply Hv'; unfold has_lru; rewrite El; auto).
    destruct I as [Ic Is Ish It]. constructor; simpl; auto.
    intros q' k v' Hin. destruct (String.eqb q' q) eqn:E.
    - apply String.eqb_eq in E. subst q'. apply lru_put_In in Hin as [Hin|Hin].
      + inversion Hin. subst. exists qc, ob. simpl. repeat split; auto.
        unfold has_lru. rewrite El. auto.
      + eauto.
    - eauto.
  Qed.

  Lemma Inv_slot_store : forall st qc q o a v ob,
    Inv st -> find_q cfg q = Some qc -> world st o = Some ob ->
    (has_slot qc = true -> v = sem q a (o_mesh ob)) ->
    Inv (slot_store st qc q (o_tab ob) a v).
  Proof.
    intros st qc q o a v ob I Hq Hw Hv'. unfold slot_store.
    destruct (q_slot qc) as [sl|] eqn:El; auto.
    assert (has_slot qc = true) as Hs by (unfold has_slot; rewrite El; auto).
    pose proof (Hv' Hs) as Hv.
    destruct I as [Ic Is Ish It]. constructor; simpl; auto.
    intros o' ob' q' a' v' Hw' Hsl.
    destruct (Nat.eqb (o_tab ob') (o_tab ob) && String.eqb q' q) eqn:E.
    - apply andb_true_iff in E as [E1 E2]. apply Nat.eqb_eq in E1. apply String.eqb_eq in E2. subst q'.
      inversion Hsl. subst a' v'. exists qc. repeat split; auto.
      destruct Ish as [Ish|Ish].
      + rewrite (any_slot_of _ _ Hq Hs) in Ish. discriminate.
      + assert (o' = o) by (eapply Ish; eauto). subst o'. rewrite Hw in Hw'. inversion Hw'. subst. auto.
    - eauto.
  Qed.

  Lemma Inv_set_mesh : forall st o ob x,
    Inv st -> world st o = Some ob -> meq (o_mesh ob) x -> Inv (set_mesh st o x).
  Proof.
    intros st o ob x [Ic Is Ish It] Hw Hm. constructor; simpl.
    - intros q k v Hin. destruct (Ic _ _ _ Hin) as [qc [ob' [A [B [C D]]]]].
      destruct (Nat.eqb (fst k) o) eqn:E.
      + apply Nat.eqb_eq in E. rewrite E in *. rewrite Hw in C. inversion C. subst ob'.
        rewrite Hw. exists qc, (mkobj x (o_tab ob)). simpl. repeat split; auto.
        rewrite D. eapply sem_meq; eauto. unfold memoised. rewrite B. auto.
      + exists qc, ob'. auto.
    - intros o' ob' q a v Hw' Hsl. destruct (Nat.eqb o' o) eqn:E.
      + apply Nat.eqb_eq in E. subst o'. rewrite Hw in Hw'. inversion Hw'. subst ob'. simpl in *.
        destruct (Is _ _ _ _ _ Hw Hsl) as [qc [A [B C]]]. exists qc. repeat split; auto.
        rewrite C. eapply sem_meq; eauto. unfold memoised. rewrite B. apply orb_true_r.
      + eauto.
    - destruct Ish as [Ish|Ish]; auto. right. intros o1 o2 ob1 ob2 H1 H2 Ht.
      assert (forall o' ob', (if Nat.eqb o' o then match world st o' with
                 | Some ob0 => Some (mkobj x (o_tab ob0)) | None => None end
                 else world st o') = Some ob' ->
              exists ob0, world st o' = Some ob0 /\ o_tab ob0 = o_tab ob') as G.
      { intros o' ob' H. destruct (Nat.eqb o' o).
        - destruct (world st o') as [ob0|]; [|discriminate]. inversion H. exists ob0. auto.
        - exists ob'. auto. }
      apply G in H1 as [a1 [A1 B1]]. apply G in H2 as [a2 [A2 B2]]. eapply Ish; eauto. congruence.
    - intros o' ob' H.
      assert (exists ob0, world st o' = Some ob0 /\ o_tab ob0 = o_tab ob') as [ob0 [A B]].
      { destruct (Nat.eqb o' o).
        - destruct (world st o') as [ob0|]; [|discriminate]. inversion H. exists ob0. auto.
        - exists ob'. auto. }
      rewrite <- B. pose proof (It _ _ A) as T.
      destruct (Nat.eqb (o_tab ob0) o); auto.
      destruct (world st (o_tab ob0)); [discriminate|tauto].
  Qed.

  Lemma ext_w_set_mesh : forall W st o ob x,
    world st o = Some ob -> meq_w W (o_mesh ob) x -> ext_w W st (set_mesh st o x).
  Proof.
    intros W st o ob x Hw Hm o'. simpl. destruct (Nat.eqb o' o) eqn:E.
    - apply Nat.eqb_eq in E. subst o'. rewrite Hw. simpl. auto.
    - destruct (world st o'); auto. split; auto. apply meq_w_refl.
  Qed.

  Lemma ext_w_same_world : forall W (st st' : state), (forall o, world st' o = world st o) -> ext_w W st st'.
  Proof.
    intros W st st' H o. rewrite H. destruct (world st o); auto. split; auto. apply meq_w_refl.
  Qed.
  Lemma world_lru_store : forall (st : state) qc q o a v o', world (lru_store st qc q o a v) o' = world st o'.
  Proof. intros. unfold lru_store. destruct (q_lru qc); auto. Qed.
  Lemma world_slot_store : forall (st : state) qc q t a v o', world (slot_store st qc q t a v) o' = world st o'.
  Proof. intros. unfold slot_store. destruct (q_slot qc); auto. Qed.
  Lemma ext_w_lru_store : forall W st qc q o a v, ext_w W st (lru_store st qc q o a v).
  Proof. intros. apply ext_w_same_world. intros. apply world_lru_store. Qed.
  Lemma ext_w_slot_store : forall W st qc q t a v, ext_w W st (slot_store st qc q t a v).
  Proof. intros. apply ext_w_same_world. intros. apply world_slot_store. Qed.

  (* --- one call --- *)
  Definition ranked (n : nat) (q : string) : Prop :=
    forall qc, find_q cfg q = Some qc -> q_rank qc < n.

  Definition ev_ok (f : state -> oid -> string -> argv -> bool -> state * option value) (n : nat) : Prop :=
    forall st o q a force, Inv st -> ranked n q ->
      Inv (fst (f st o q a force)) /\ ext_w (writes_of q) st (fst (f st o q a force)) /\
      (forall qc ob, find_q cfg q = Some qc -> world st o = Some ob ->
                     snd (f st o q a force) = Some (sem q a (o_mesh ob))).

  Definition Wds (ds : list (string * argv * bool)) : list fpat :=
    concat (map (fun d => writes_of (fst (fst d))) ds).

  (* no call of the list writes what another one reads *)
  Definition indep (ds : list (string * argv * bool)) : Prop :=
    forall d1 d2 qd1 qd2, In d1 ds -> In d2 ds ->
      find_q cfg (fst (fst d1)) = Some qd1 -> find_q cfg (fst (fst d2)) = Some qd2 ->
      pats_overlap (q_reads qd1) (q_writes qd2) = false.

  Lemma eval_list_ok : forall f n, ev_ok f n -> forall ds st o, Inv st ->
    Forall (fun d => ranked n (fst (fst d))) ds ->
    Inv (fst (eval_list f st o ds)) /\ ext_w (Wds ds) st (fst (eval_list f st o ds)) /\
    (forall ob, world st o = Some ob ->
       Forall (fun d => find_q cfg (fst (fst d)) <> None) ds -> indep ds ->
       snd (eval_list f st o ds) = map (fun d => Some (sem (fst (fst d)) (snd (fst d)) (o_mesh ob))) ds).
  Proof.
    intros f n Hf. induction ds as [|[[q a] fl] r IH]; intros st o I Hr.
    - simpl. split; [auto|split; [apply ext_w_refl|intros; auto]].
    - simpl. inversion Hr as [|? ? Hr1 Hr2]. subst. simpl in Hr1.
      destruct (Hf st o q a fl I Hr1) as [I1 [E1 V1]].
      destruct (f st o q a fl) as [st1 v] eqn:Ef. simpl in *.
      destruct (IH st1 o I1 Hr2) as [I2 [E2 V2]].
      destruct (eval_list f st1 o r) as [st2 vs] eqn:El. simpl in *.
      split; [auto|split].
      + unfold Wds. simpl. fold (Wds r). eapply ext_w_trans.
        * eapply ext_w_weaken; [|exact E1]. intros f0 H0. rewrite pats_match_app. rewrite H0. auto.
        * eapply ext_w_weaken; [|exact E2]. intros f0 H0. rewrite pats_match_app. rewrite H0.
          apply orb_true_r.
      + intros ob Hw Hfound Hind. inversion Hfound as [|? ? Hf1 Hf2]. subst. simpl in Hf1.
        destruct (find_q cfg q) as [qc|] eqn:Hq; [|tauto].
        rewrite (V1 qc ob eq_refl Hw). f_equal.
        pose proof (E1 o) as Eo. rewrite Hw in Eo.
        destruct (world st1 o) as [ob1|] eqn:Hw1; [|tauto]. destruct Eo as [_ Hm].
        assert (indep r) as Hind2.
        { intros d1 d2 qd1 qd2 H1 H2. apply Hind; simpl; auto. }
        rewrite (V2 ob1 eq_refl Hf2 Hind2). apply map_ext_in. intros [[q' a'] f'] Hin. simpl.
        rewrite Forall_forall in Hf2. pose proof (Hf2 _ Hin) as Hq'. simpl in Hq'.
        destruct (find_q cfg q') as [qc'|] eqn:Hq''; [|tauto].
        f_equal. eapply H_reads; eauto. intros f0 Hf0. symmetry. apply Hm.
        unfold writes_of. rewrite Hq.
        eapply pats_overlap_false; [|exact Hf0].
        apply (Hind (q', a', f') (q, a, fl) qc' qc); simpl; auto.
  Qed.

  Lemma all_some_map : forall (A : Type) (g : A -> value) l,
    all_some (map (fun d => Some (g d)) l) = Some (map g l).
  Proof. induction l; simpl; auto. rewrite IHl. auto. Qed.

  Lemma sel_deps_props : forall q qc a n, find_q cfg q = Some qc -> q_rank qc < S n ->
    Forall (fun d => ranked n (fst (fst d)) /\
                     exists qd, find_q cfg (fst (fst d)) = Some qd /\ In qd (dep_cfgs cfg qc))
           (sel_deps depsel qc q a).
  Proof.
    intros q qc a n Hq Hr. apply Forall_forall. intros d Hd. unfold sel_deps in Hd.
    apply filter_In in Hd as [_ Hd]. unfold dep_allowed in Hd.
    apply existsb_exists in Hd as [dd [Hdd Hm]]. apply andb_true_iff in Hm as [Hm _].
    apply String.eqb_eq in Hm. apply find_q_In in Hq as [Hq _].
    destruct (ok_deps cfg Hok qc dd Hq Hdd) as [qd [Hfd Hlt]].
    pose proof (In_dep_cfgs cfg qc dd qd Hdd Hfd) as Hin. rewrite Hm in Hfd.
    split.
    - intros qc' Hq'. rewrite Hfd in Hq'. inversion Hq'. subst. lia.
    - exists qd. auto.
  Qed.

  Lemma eval_ok : forall n, ev_ok (ev n) n.
  Proof.
    induction n as [|n IHn]; intros st o q a force I Hr.
    - simpl. split; [auto|split; [apply ext_w_refl|]].
      intros qc ob Hq _. apply Hr in Hq. lia.
    - simpl. destruct (find_q cfg q) as [qc|] eqn:Hq;
        [|simpl; split; [auto|split; [apply ext_w_refl|intros; discriminate]]].
      destruct (world st o) as [ob|] eqn:Hw;
        [|simpl; split; [auto|split; [apply ext_w_refl|intros; discriminate]]].
      pose proof (Hr qc Hq) as Hrank.
      pose proof (proj1 (find_q_In _ _ _ Hq)) as Hqin.
      destruct (if has_lru qc then lru_find (o, a) (caches st q) else None) as [v|] eqn:Hl.
      { (* lru hit *)
        destruct (has_lru qc) eqn:Hh; [|discriminate].
        apply lru_find_In in Hl. destruct (I_cache _ I _ _ _ Hl) as [qc' [ob' [A [B [C D]]]]].
        simpl in C, D. rewrite Hw in C. inversion C. subst ob'. simpl.
        split; [|split].
        - eapply Inv_lru_store; eauto.
        - apply ext_w_lru_store.
        - intros qc0 ob0 H1 H2. inversion H2. subst. auto. }
      destruct (if force then None else slot_hit st ob qc q a) as [v0|] eqn:Hs.
      { (* slot hit *)
        destruct force; [discriminate|]. unfold slot_hit in Hs.
        destruct (q_slot qc) as [[sn ks]|] eqn:Esl; [|discriminate].
        destruct (slots st (o_tab ob) q) as [[a0 v0']|] eqn:Est; [|discriminate].
        destruct (olist_eqb (proj ks a0) (proj ks a)) eqn:Eo; [|discriminate].
        inversion Hs. subst v0'. apply olist_eqb_eq in Eo.
        destruct (I_slot _ I _ _ _ _ _ Hw Est) as [qc' [A [B C]]].
        assert (has_slot qc = true) as Hhs by (unfold has_slot; rewrite Esl; auto).
        assert (proj (q_relevant qc) a0 = proj (q_relevant qc) a) as Hp.
        { eapply proj_incl; [|exact Eo]. intros k Hk.
          pose proof (ok_slotkeys cfg Hok qc k Hqin Hhs Hk) as G.
          unfold slot_keys in G. rewrite Esl in G. auto. }
        assert (post q a v0 = sem q a (o_mesh ob)) as Hv.
        { rewrite C. rewrite (H_relevant q qc a0 a (o_mesh ob) Hq Hp). apply H_post. }
        simpl. split; [|split].
        - eapply Inv_lru_store; eauto.
        - apply ext_w_lru_store.
        - intros qc0 ob0 H1 H2. inversion H2. subst. rewrite Hv. auto. }
      (* computed *)
      set (ds := sel_deps depsel qc q a) in *.
      pose proof (sel_deps_props q qc a n Hq Hrank) as Hds. fold ds in Hds.
      assert (Forall (fun d => ranked n (fst (fst d))) ds) as Hds1.
      { eapply Forall_impl; [|exact Hds]. simpl. tauto. }
      assert (Forall (fun d => find_q cfg (fst (fst d)) <> None) ds) as Hds2.
      { eapply Forall_impl; [|exact Hds]. simpl. intros d [_ [qd [Hqd _]]]. rewrite Hqd. discriminate. }
      assert (forall d qd, In d ds -> find_q cfg (fst (fst d)) = Some qd -> In qd (dep_cfgs cfg qc)) as Hdc.
      { intros d qd Hd Hqd. rewrite Forall_forall in Hds. destruct (Hds d Hd) as [_ [qd' [A B]]].
        rewrite A in Hqd. inversion Hqd. subst. auto. }
      assert (indep ds) as Hind.
      { intros d1 d2 qd1 qd2 H1 H2 Q1 Q2. eapply ok_dep_sibling; eauto. }
      assert (forall f, pats_match (Wds ds) f = true -> pats_match (q_writes qc) f = true) as Hcov.
      { intros f Hf. unfold Wds in Hf. apply pats_match_concat in Hf as [d [Hd Hm]].
        unfold writes_of in Hm. destruct (find_q cfg (fst (fst d))) as [qd|] eqn:Hqd; [|simpl in Hm; discriminate].
        eapply pats_cover_match; [|exact Hm]. eapply ok_dep_cover; eauto. }
      assert (forall f, pats_match (q_reads qc) f = true -> pats_match (Wds ds) f = false) as Hrd.
      { intros f Hf. destruct (pats_match (Wds ds) f) eqn:E; auto. exfalso.
        unfold Wds in E. apply pats_match_concat in E as [d [Hd Hm]].
        unfold writes_of in Hm. destruct (find_q cfg (fst (fst d))) as [qd|] eqn:Hqd; [|simpl in Hm; discriminate].
        pose proof (ok_dep_caller cfg Hok qc qd Hqin (Hdc d qd Hd Hqd)) as Hov.
        rewrite (pats_overlap_false _ _ _ Hov Hf) in Hm. discriminate. }
      assert (forall f, pats_match (q_writes qc) f = true -> pats_match (soft cfg) f = true) as Hqs.
      { intros f. apply qwrites_soft. auto. }
      destruct (eval_list_ok _ _ IHn ds st o I Hds1) as [I1 [E1 V1]].
      destruct (eval_list (ev n) st o ds) as [st1 vs] eqn:El. simpl in *.
      specialize (V1 ob Hw Hds2 Hind). subst vs. rewrite all_some_map.
      pose proof (E1 o) as Eo. rewrite Hw in Eo.
      destruct (world st1 o) as [ob1|] eqn:Hw1; [|tauto]. destruct Eo as [Et Hm].
      assert (comb q a (o_mesh ob1)
                (map (fun d => sem (fst (fst d)) (snd (fst d)) (o_mesh ob)) ds)
              = sem q a (o_mesh ob)) as Hv.
      { unfold ds. eapply H_comb; eauto. intros f Hf. symmetry. apply Hm. auto. }
      rewrite Hv.
      set (x2 := qeff q a (o_mesh ob1)) in *.
      assert (meq_w (q_writes qc) (o_mesh ob1) x2) as Hm2.
      { intros f Hf. symmetry. unfold x2. eapply H_qeff; eauto. }
      assert (meq (o_mesh ob1) x2) as Hm2s by (eapply meq_w_weaken; [exact Hqs|exact Hm2]).
      pose proof (Inv_set_mesh st1 o ob1 _ I1 Hw1 Hm2s) as I2.
      set (st2 := set_mesh st1 o x2) in *.
      assert (ext_w (q_writes qc) st st2) as E2.
      { eapply ext_w_trans.
        - eapply ext_w_weaken; [exact Hcov|exact E1].
        - unfold st2. eapply ext_w_set_mesh; eauto. }
      assert (world st2 o = Some (mkobj x2 (o_tab ob1))) as Hw2.
      { unfold st2. simpl. rewrite Nat.eqb_refl. rewrite Hw1. auto. }
      assert (memoised qc = true -> sem q a (o_mesh ob) = sem q a x2) as Hv2.
      { intros Hmemo. eapply sem_meq; eauto. eapply meq_trans; [|exact Hm2s].
        eapply meq_w_weaken; [|exact Hm]. intros f Hf. auto. }
      unfold writes_of. rewrite Hq.
      destruct (stores q a (sem q a (o_mesh ob))).
      + assert (Inv (slot_store st2 qc q (o_tab ob1) a (sem q a (o_mesh ob)))) as I3.
        { apply (Inv_slot_store st2 qc q o a _ (mkobj x2 (o_tab ob1)) I2 Hq Hw2).
          intros Hh. simpl. apply Hv2. unfold memoised. rewrite Hh. apply orb_true_r. }
        assert (world (slot_store st2 qc q (o_tab ob1) a (sem q a (o_mesh ob))) o
                = Some (mkobj x2 (o_tab ob1))) as Hw3 by (rewrite world_slot_store; auto).
        assert (Inv (lru_store (slot_store st2 qc q (o_tab ob1) a (sem q a (o_mesh ob))) qc q o a
                               (sem q a (o_mesh ob)))) as I4.
        { apply (Inv_lru_store _ qc q o a _ (mkobj x2 (o_tab ob1)) I3 Hq Hw3).
          intros Hh. simpl. apply Hv2. unfold memoised. rewrite Hh. auto. }
        simpl. split; [auto|split].
        * eapply ext_w_trans; [exact E2|].
          eapply ext_w_trans; [apply ext_w_slot_store|apply ext_w_lru_store].
        * intros qc0 ob0 H1 H2. inversion H2. subst. auto.
      + simpl. split; [auto|split].
        * exact E2.
        * intros qc0 ob0 H1 H2. inversion H2. subst. auto.
  Qed.

  (* --- whole operations --- *)
  Lemma fuel_ranked : forall q, ranked (fuel0 cfg) q.
  Proof. intros q qc Hq. apply rank_lt_fuel0. apply find_q_In in Hq. tauto. Qed.

  Opaque fuel0.

  Lemma pre_ok : forall ds st o, Inv st ->
    Inv (fst (eval_list (ev (fuel0 cfg)) st o ds)) /\ ext st (fst (eval_list (ev (fuel0 cfg)) st o ds)).
  Proof.
    intros ds st o I.
    destruct (eval_list_ok _ _ (eval_ok (fuel0 cfg)) ds st o I) as [A [B _]].
    - apply Forall_forall. intros d _. apply fuel_ranked.
    - split; auto. eapply ext_w_weaken; [|exact B].
      intros f Hf. unfold Wds in Hf. apply pats_match_concat in Hf as [d [_ Hm]].
      eapply writes_soft; eauto.
  Qed.

  Definition dom_eq (st st' : state) : Prop :=
    forall o, match world st o, world st' o with
              | Some ob, Some ob' => o_tab ob = o_tab ob'
              | None, None => True
              | _, _ => False
              end.

  Lemma dom_eq_share_tab : forall st st', dom_eq st st' ->
    (any_slot cfg = false \/
      forall o o' ob ob', world st o = Some ob -> world st o' = Some ob' -> o_tab ob = o_tab ob' -> o = o') ->
    (forall o ob, world st o = Some ob -> world st (o_tab ob) <> None) ->
    (any_slot cfg = false \/
      forall o o' ob ob', world st' o = Some ob -> world st' o' = Some ob' -> o_tab ob = o_tab ob' -> o = o') /\
    (forall o ob, world st' o = Some ob -> world st' (o_tab ob) <> None).
  Proof.
    intros st st' D Ish It. split.
    - destruct Ish as [Ish|Ish]; auto. right. intros o1 o2 ob1 ob2 H1 H2 Ht.
      pose proof (D o1) as D1. pose proof (D o2) as D2. rewrite H1 in D1. rewrite H2 in D2.
      destruct (world st o1) as [a1|] eqn:A1; [|tauto]. destruct (world st o2) as [a2|] eqn:A2; [|tauto].
      eapply Ish; eauto. congruence.
    - intros o ob H. pose proof (D o) as D1. rewrite H in D1.
      destruct (world st o) as [a1|] eqn:A1; [|tauto]. rewrite <- D1.
      pose proof (It _ _ A1) as T. pose proof (D (o_tab a1)) as D2.
      destruct (world st (o_tab a1)); [|tauto]. destruct (world st' (o_tab a1)); [discriminate|tauto].
  Qed.

  Lemma dom_eq_set_mesh : forall (st : state) o x, dom_eq st (set_mesh st o x).
  Proof.
    intros st o x o'. simpl. destruct (Nat.eqb o' o); destruct (world st o'); auto.
  Qed.

  Lemma Inv_effect : forall st o ob e ec x',
    Inv st -> find_e cfg e = Some ec -> world st o = Some ob ->
    (forall f, pats_match (e_writes ec) f = false -> get f x' = get f (o_mesh ob)) ->
    Inv (clear_slots (clear_caches (set_mesh st o x') (e_clears ec)) (o_tab ob) (e_clears_slots ec)).
  Proof.
    intros st o ob e ec x' I He Hw Hfr.
    pose proof (proj1 (find_e_In _ _ _ He)) as Hein.
    assert (forall q qc a, find_q cfg q = Some qc ->
              (has_lru qc = true /\ smem q (e_clears ec) = false \/
               has_slot qc = true /\ smem q (e_clears_slots ec) = false) ->
              sem q a (o_mesh ob) = sem q a x') as Hsem.
    { intros q qc a Hq Hc. eapply H_reads; eauto. intros f Hf. symmetry. apply Hfr.
      destruct (pats_match (e_writes ec) f) eqn:E; auto. exfalso.
      pose proof (pats_match_overlap _ _ _ Hf E) as Hov.
      destruct (find_q_In _ _ _ Hq) as [Hqin Hn].
      destruct (ok_effect cfg Hok ec qc Hein Hqin Hov) as [A B]. rewrite Hn in A, B.
      destruct Hc as [[C1 C2]|[C1 C2]]; [rewrite (A C1) in C2|rewrite (B C1) in C2]; discriminate. }
    destruct I as [Ic Is Ish It].
    destruct (dom_eq_share_tab st (set_mesh st o x') (dom_eq_set_mesh st o x') Ish It) as [Ish' It'].
    constructor; simpl; auto.
    - intros q [o' a'] v Hin. simpl.
      destruct (smem q (e_clears ec)) eqn:Ec; [simpl in Hin; tauto|].
      destruct (Ic _ _ _ Hin) as [qc [ob' [A [B [C D]]]]]. simpl in C, D.
      destruct (Nat.eqb o' o) eqn:E.
      + apply Nat.eqb_eq in E. subst o'. rewrite Hw in C. inversion C. subst ob'. rewrite Hw.
        exists qc, (mkobj x' (o_tab ob)). simpl. split; auto. split; auto. split; auto.
        rewrite D. eapply Hsem; eauto.
      + exists qc, ob'. auto.
    - intros o' ob' q a v Hw' Hsl.
      destruct (Nat.eqb (o_tab ob') (o_tab ob) && smem q (e_clears_slots ec)) eqn:Ecl; [discriminate|].
      destruct (Nat.eqb o' o) eqn:E.
      + apply Nat.eqb_eq in E. subst o'. rewrite Hw in Hw'. inversion Hw'. subst ob'. simpl in *.
        rewrite Nat.eqb_refl in Ecl. simpl in Ecl.
        destruct (Is _ _ _ _ _ Hw Hsl) as [qc [A [B C]]]. exists qc. split; auto. split; auto.
        rewrite C. eapply Hsem; eauto.
      + eauto.
  Qed.

  Lemma Inv_add : forall (st : state) o' x t sl',
    Inv st -> world st o' = None ->
    (t = o' \/ (any_slot cfg = false /\ exists o ob, world st o = Some ob /\ o_tab ob = t)) ->
    (forall t' q, t' <> o' -> sl' t' q = slots st t' q) ->
    (t = o' -> forall q, sl' o' q = None) ->
    Inv (mkst (fun y => if Nat.eqb y o' then Some (mkobj x t) else world st y) (caches st) sl').
  Proof.
    intros st o' x t sl' [Ic Is Ish It] Hn Ht Hsl1 Hsl2.
    assert (forall o ob, world st o = Some ob -> o_tab ob <> o') as Htab.
    { intros o ob H E. apply It in H. rewrite E in H. tauto. }
    assert (forall o ob, world st o = Some ob -> Nat.eqb o o' = false) as Hne.
    { intros o ob H. apply Nat.eqb_neq. intros E. subst. congruence. }
    constructor; simpl.
    - intros q k v Hin. destruct (Ic _ _ _ Hin) as [qc [ob [A [B [C D]]]]].
      exists qc, ob. rewrite (Hne _ _ C). auto.
    - intros o ob q a v Hw Hs. destruct (Nat.eqb o o') eqn:E.
      + inversion Hw. subst ob. simpl in *. destruct Ht as [Ht|[Hf [o0 [ob0 [A B]]]]].
        * subst t. rewrite Hsl2 in Hs; auto. discriminate.
        * subst t. rewrite Hsl1 in Hs by (eapply Htab; eauto).
          destruct (Is _ _ _ _ _ A Hs) as [qc [Q1 [Q2 _]]].
          rewrite (any_slot_of _ _ Q1 Q2) in Hf. discriminate.
      + rewrite Hsl1 in Hs by (eapply Htab; eauto). eauto.
    - destruct Ht as [Ht|[Hf _]]; [|left; auto]. destruct Ish as [Ish|Ish]; [left; auto|right].
      intros o1 o2 ob1 ob2 H1 H2 He.
      destruct (Nat.eqb o1 o') eqn:E1; destruct (Nat.eqb o2 o') eqn:E2.
      + apply Nat.eqb_eq in E1, E2. congruence.
      + inversion H1. subst ob1. simpl in He. exfalso. eapply Htab; eauto. congruence.
      + inversion H2. subst ob2. simpl in He. exfalso. eapply Htab; eauto. congruence.
      + eapply Ish; eauto.
    - intros o ob Hw. destruct (Nat.eqb o o') eqn:E.
      + inversion Hw. subst ob. simpl. destruct (Nat.eqb t o') eqn:E2; [discriminate|].
        destruct Ht as [Ht|[_ [o0 [ob0 [A B]]]]].
        * subst t. rewrite Nat.eqb_refl in E2. discriminate.
        * subst t. eapply It; eauto.
      + destruct (Nat.eqb (o_tab ob) o'); [discriminate|]. eapply It; eauto.
  Qed.

  Lemma step_Inv : forall st p, Inv st -> Inv (fst (stp st p)).
  Proof.
    intros st p I. destruct p as [o|o q a|o e|o o' d]; simpl.
    - destruct (world st o) eqn:Hw; simpl; auto.
      apply Inv_add; auto.
      + intros t' q Hne. apply Nat.eqb_neq in Hne. rewrite Hne. auto.
      + intros _ q. rewrite Nat.eqb_refl. auto.
    - apply (eval_ok (fuel0 cfg) st o q a false I (fuel_ranked q)).
    - destruct (find_e cfg e) as [ec|] eqn:He; simpl; auto.
      destruct (world st o) as [ob|] eqn:Hw; simpl; auto.
      destruct (pre_ok (sel_pre epre (e_pre ec) e) st o I) as [I1 E1].
      destruct (eval_list (ev (fuel0 cfg)) st o (sel_pre epre (e_pre ec) e)) as [st1 vs]. simpl in *.
      destruct (world st1 o) as [ob1|] eqn:Hw1; simpl; auto.
      eapply Inv_effect; eauto; intros f Hf; eapply H_esem; eauto.
    - destruct (find_d cfg d) as [dc|] eqn:Hd; simpl; auto.
      destruct (world st o) as [ob|] eqn:Hw; simpl; auto.
      destruct (world st o') as [ob'|] eqn:Hw'; simpl; auto.
      destruct (pre_ok (sel_pre epre (dv_pre dc) d) st o I) as [I1 E1].
      destruct (eval_list (ev (fuel0 cfg)) st o (sel_pre epre (dv_pre dc) d)) as [st1 vs]. simpl in *.
      destruct (world st1 o) as [ob1|] eqn:Hw1; simpl; auto.
      pose proof (E1 o') as Eo'. rewrite Hw' in Eo'.
      destruct (world st1 o') eqn:Hw1'; [tauto|].
      pose proof (Inv_set_mesh st1 o ob1 _ I1 Hw1 (dpeff_meq d dc (o_mesh ob1) Hd)) as I2.
      assert (world (set_mesh st1 o (dpeff d (o_mesh ob1))) o' = None) as Hn2.
      { simpl. destruct (Nat.eqb o' o); rewrite Hw1'; auto. }
      apply (Inv_add _ o' _ _ _ I2 Hn2).
      + destruct (dv_shares dc) eqn:Es; auto. right. split.
        * destruct (any_slot cfg) eqn:Ea; auto.
          rewrite (ok_share cfg Hok dc Ea (proj1 (find_d_In _ _ _ Hd))) in Es. discriminate.
        * exists o, (mkobj (dpeff d (o_mesh ob1)) (o_tab ob1)). simpl.
          rewrite Nat.eqb_refl. rewrite Hw1. auto.
      + intros t' q Hne. apply Nat.eqb_neq in Hne. rewrite Hne. destruct (dv_shares dc); auto.
      + intros Ht q. destruct (dv_shares dc) eqn:Es.
        * exfalso. pose proof (I_tab _ I1 _ _ Hw1) as T. rewrite Ht in T. tauto.
        * rewrite Nat.eqb_refl. auto.
  Qed.

  Lemma exec_Inv : forall h st, Inv st -> Inv (exe h st).
  Proof. induction h; simpl; intros; auto. apply IHh. apply step_Inv. auto. Qed.

  (* every reachable state: a query returns what a fresh equal mesh returns *)
  Theorem purity_generic : forall h o q a qc ob,
    world (exe h (@init mesh value)) o = Some ob -> find_q cfg q = Some qc ->
    snd (stp (exe h (@init mesh value)) (Query o q a)) = Some (sem q a (o_mesh ob)).
  Proof.
    intros h o q a qc ob Hw Hq. simpl.
    pose proof (exec_Inv h _ Inv_init) as I.
    destruct (eval_ok (fuel0 cfg) _ o q a false I (fuel_ranked q)) as [_ [_ V]]. eauto.
  Qed.

  (* fields no query / writer / derivation lists as a by-product *)
  Definition protected (f : field) : Prop := pats_match (soft cfg ++ writer_writes cfg) f = false.

  Lemma protected_soft : forall f, protected f -> pats_match (soft cfg) f = false.
  Proof.
    unfold protected. intros f H. rewrite pats_match_app in H. apply orb_false_iff in H. tauto.
  Qed.

  Lemma ext_protected : forall st st' o ob f, ext st st' -> world st o = Some ob -> protected f ->
    exists ob', world st' o = Some ob' /\ get f (o_mesh ob') = get f (o_mesh ob).
  Proof.
    intros st st' o ob f E Hw Hp. specialize (E o). rewrite Hw in E.
    destruct (world st' o) as [ob'|]; [|tauto]. exists ob'. split; auto.
    destruct E as [_ Hm]. symmetry. apply Hm. apply protected_soft. auto.
  Qed.

  Theorem query_preserves_generic : forall h o q a o' ob f,
    world (exe h (@init mesh value)) o' = Some ob -> protected f ->
    exists ob', world (fst (stp (exe h (@init mesh value)) (Query o q a))) o' = Some ob' /\
                get f (o_mesh ob') = get f (o_mesh ob).
  Proof.
    intros h o q a o' ob f Hw Hp.
    pose proof (exec_Inv h _ Inv_init) as I. simpl.
    destruct (eval_ok (fuel0 cfg) _ o q a false I (fuel_ranked q)) as [_ [E _]].
    eapply ext_protected; eauto. eapply ext_w_weaken; [|exact E]. apply writes_soft.
  Qed.

  Theorem writer_preserves_generic : forall h o e ec o' ob f,
    find_e cfg e = Some ec -> e_is_writer ec = true ->
    world (exe h (@init mesh value)) o' = Some ob -> protected f ->
    exists ob', world (fst (stp (exe h (@init mesh value)) (Effect o e))) o' = Some ob' /\
                get f (o_mesh ob') = get f (o_mesh ob).
  Proof.
    intros h o e ec o' ob f He Hwr Hw Hp.
    pose proof (exec_Inv h _ Inv_init) as I. set (st := exe h (@init mesh value)) in *.
    simpl. rewrite He. destruct (world st o) as [ob0|] eqn:Hw0; simpl; [|eauto].
    destruct (pre_ok (sel_pre epre (e_pre ec) e) st o I) as [I1 E1].
    destruct (eval_list (ev (fuel0 cfg)) st o (sel_pre epre (e_pre ec) e)) as [st1 vs]. simpl in *.
    destruct (ext_protected _ _ _ _ _ E1 Hw Hp) as [ob1' [A B]].
    destruct (world st1 o) as [ob1|] eqn:Hw1; simpl; [|eauto].
    destruct (Nat.eqb o' o) eqn:E.
    - apply Nat.eqb_eq in E. subst o'. rewrite Hw1 in *. inversion A. subst ob1'.
      eexists. split; eauto. simpl. rewrite <- B. eapply H_esem; eauto.
      unfold protected in Hp. rewrite pats_match_app in Hp. apply orb_false_iff in Hp as [_ Hp].
      unfold writer_writes in Hp. eapply pats_match_concat_false in Hp; eauto.
      apply filter_In. split; auto. apply (proj1 (find_e_In _ _ _ He)).
    - eauto.
  Qed.

  (* node ids / coordinates / connectivity are protected, and so is every
     variable whose name no query / writer / derivation lists as derived *)
  Lemma protected_core : forall t k, In t core_tables -> protected (t, k).
  Proof.
    intros t k Ht. unfold protected, pats_match.
    destruct (existsb _ _) eqn:E; auto. exfalso.
    apply existsb_exists in E as [p [Hp Hm]]. pose proof (ok_derived cfg Hok p Hp) as D.
    unfold derived_pat in D. apply andb_true_iff in D as [D _]. apply negb_true_iff in D.
    unfold pat_match in Hm. apply andb_true_iff in Hm as [Hm _]. apply String.eqb_eq in Hm.
    simpl in Hm. rewrite Hm in D. apply smem_In in Ht. congruence.
  Qed.

  Lemma protected_user : forall t k, In t var_tables ->
    ~ In (t, Some k) (soft cfg ++ writer_writes cfg) -> protected (t, k).
  Proof.
    intros t k Hv Hn. unfold protected, pats_match.
    destruct (existsb _ _) eqn:E; auto. exfalso.
    apply existsb_exists in E as [[pt pk] [Hp Hm]]. pose proof (ok_derived cfg Hok _ Hp) as D.
    unfold derived_pat in D. apply andb_true_iff in D as [_ D]. cbn [fst snd] in D.
    unfold pat_match in Hm. simpl in Hm. apply andb_true_iff in Hm as [Hm1 Hm2].
    apply String.eqb_eq in Hm1. subst pt. destruct pk as [k'|].
    - apply String.eqb_eq in Hm2. subst k'. auto.
    - apply negb_true_iff in D. apply smem_In in Hv. congruence.
  Qed.
End MachineProofs.
