(* C19 — analysis queries are pure and independent of call history.
   Definitions only (proofs: Proofs.v, statements: Props.v).

   A generic *cache machine*: a world of live mesh objects; for each memoised
   method a process-wide LRU list keyed by (object identity, arguments) that
   nothing invalidates unless an effect says so (functools.lru_cache on bound
   methods); per variable table (elemental_data dict, possibly shared between
   a parent and a derived object) the in-mesh result slots ('area', 'volume',
   'metric') that a later call returns as-is.  What the queries compute (sem),
   how nested results are combined (comb), which nested calls are made
   (depsel), when a result is stored (stores: a raising call stores nothing)
   are Section variables: the theorems are parametric in them.  The
   *inventory* (cfg: which method is memoised how, reads/writes, nested calls,
   which modifier clears what, which derivation shares the table) is
   regenerated from /repo by translate/c19_caches.py into gen/CacheCfg.v. *)
From Coq Require Import String List Bool Arith.
Import ListNotations.
Open Scope string_scope.
Open Scope list_scope.

Definition oid := nat.
Definition argv := list (string * string).          (* argument name -> printed value *)
Definition field := (string * string)%type.          (* (table, key); nodes/elements use key "" *)
Definition fpat := (string * option string)%type.    (* (table, Some key) or every key of the table *)

(* ------------------------------------------------------------ inventory *)
Record dep := mkdep { d_query : string; d_bypass : bool }.
   (* d_bypass: the nested call passes elements=..., i.e. skips the slot test *)

Record qcfg := mkq {
  q_name : string;
  q_rank : nat;                                (* nesting depth: deps have smaller rank *)
  q_lru : option (option nat);                 (* None: not memoised; Some None: unbounded;
                                                  Some (Some n): lru_cache(maxsize=n) *)
  q_slot : option (string * list string);      (* in-mesh slot name, arguments in the slot key *)
  q_relevant : list string;                    (* arguments the computed value may depend on *)
  q_reads : list fpat;                         (* fields read, nested calls included *)
  q_writes : list fpat;                        (* derived variables it stores (slots excluded) *)
  q_deps : list dep }.

Record ecfg := mke {                            (* in-place modifiers and writers *)
  e_name : string;
  e_is_writer : bool;
  e_pre : list string;                         (* queries it calls first *)
  e_writes : list fpat;
  e_clears : list string;                      (* queries whose lru cache it clears *)
  e_clears_slots : list string }.              (* queries whose in-mesh slot it removes *)

Record dcfg := mkd {                            (* derivations: a new object from a live one *)
  dv_name : string;
  dv_pre : list string;
  dv_shares : bool;                            (* child uses the parent's elemental_data object
                                                  (the table that holds the result slots) *)
  dv_parent_writes : list fpat;                (* what it stores into the parent's table *)
  dv_shared_tables : list string }.            (* every table object the child shares with the parent *)

Record config := mkcfg { queries : list qcfg; effects : list ecfg; derivs : list dcfg }.

(* ------------------------------------------------------------ patterns *)
Definition pat_match (p : fpat) (f : field) : bool :=
  String.eqb (fst p) (fst f) &&
  match snd p with None => true | Some k => String.eqb k (snd f) end.
Definition pats_match (ps : list fpat) (f : field) : bool := existsb (fun p => pat_match p f) ps.
Definition pat_overlap (p p' : fpat) : bool :=
  String.eqb (fst p) (fst p') &&
  match snd p, snd p' with Some k, Some k' => String.eqb k k' | _, _ => true end.
Definition pats_overlap (ps ps' : list fpat) : bool :=
  existsb (fun p => existsb (pat_overlap p) ps') ps.

Definition smem (s : string) (l : list string) : bool := existsb (String.eqb s) l.
Definition sincl (a b : list string) : bool := forallb (fun s => smem s b) a.

Fixpoint assoc (k : string) (a : argv) : option string :=
  match a with
  | [] => None
  | (k', v) :: r => if String.eqb k k' then Some v else assoc k r
  end.
Definition proj (ks : list string) (a : argv) : list (option string) := map (fun k => assoc k a) ks.

Definition ostr_eqb (a b : option string) : bool :=
  match a, b with Some x, Some y => String.eqb x y | None, None => true | _, _ => false end.
Fixpoint olist_eqb (a b : list (option string)) : bool :=
  match a, b with
  | [], [] => true
  | x :: r, y :: s => ostr_eqb x y && olist_eqb r s
  | _, _ => false
  end.
Fixpoint argv_eqb (a b : argv) : bool :=
  match a, b with
  | [], [] => true
  | (k, v) :: r, (k', v') :: s => String.eqb k k' && String.eqb v v' && argv_eqb r s
  | _, _ => false
  end.
Definition key_eqb (k k' : oid * argv) : bool := Nat.eqb (fst k) (fst k') && argv_eqb (snd k) (snd k').

(* ------------------------------------------------------------ lookups *)
Definition find_q (cfg : config) (q : string) : option qcfg :=
  find (fun c => String.eqb (q_name c) q) (queries cfg).
Definition find_e (cfg : config) (e : string) : option ecfg :=
  find (fun c => String.eqb (e_name c) e) (effects cfg).
Definition find_d (cfg : config) (d : string) : option dcfg :=
  find (fun c => String.eqb (dv_name c) d) (derivs cfg).

Definition has_lru (qc : qcfg) : bool := match q_lru qc with Some _ => true | None => false end.
Definition has_slot (qc : qcfg) : bool := match q_slot qc with Some _ => true | None => false end.
Definition memoised (qc : qcfg) : bool := has_lru qc || has_slot qc.
Definition slot_keys (qc : qcfg) : list string := match q_slot qc with Some (_, ks) => ks | None => [] end.
Definition slot_name (qc : qcfg) : list string := match q_slot qc with Some (s, _) => [s] | None => [] end.

(* fields that queries / derivations may add to a table as a by-product *)
Definition soft (cfg : config) : list fpat :=
  concat (map q_writes (queries cfg)) ++ concat (map dv_parent_writes (derivs cfg)).
Definition writer_writes (cfg : config) : list fpat :=
  concat (map e_writes (filter e_is_writer (effects cfg))).
Definition any_slot (cfg : config) : bool := existsb has_slot (queries cfg).

(* the inventory entries of the nested calls of a query *)
Definition dep_cfgs (cfg : config) (qc : qcfg) : list qcfg :=
  concat (map (fun d => match find_q cfg (d_query d) with Some qd => [qd] | None => [] end) (q_deps qc)).
Definition pat_covers (p' p : fpat) : bool :=
  String.eqb (fst p') (fst p) &&
  match snd p' with
  | None => true
  | Some k' => match snd p with Some k => String.eqb k' k | None => false end
  end.
Definition pats_cover (big small : list fpat) : bool :=
  forallb (fun p => existsb (fun p' => pat_covers p' p) big) small.

Definition fuel0 (cfg : config) : nat := S (fold_right Nat.max 0 (map q_rank (queries cfg))).

(* ------------------------------------------------------------ the static check *)
(* a by-product pattern is harmless: it names one key of a variable table or
   of the settings, never node ids / coordinates / connectivity and never a
   whole variable table (which could hit a variable the user stored) *)
Definition core_tables : list string := ["nodes"; "elements"].
Definition var_tables : list string := ["nodal_data"; "elemental_data"].
Definition derived_pat (p : fpat) : bool :=
  negb (smem (fst p) core_tables) &&
  match snd p with Some _ => true | None => negb (smem (fst p) var_tables) end.

Inductive failure :=
| FStaleLru (q e : string)        (* effect e changes what q reads but keeps q's lru entries *)
| FStaleSlot (q e : string)       (* ... but keeps q's in-mesh slot *)
| FSlotKey (q arg : string)       (* q's value depends on arg, its slot does not record arg *)
| FShare (d : string)             (* derivation shares the slot table with its parent *)
| FWriteRead (w q : string)       (* by-product of w (query / derivation) is read by q *)
| FProtected (w : string)         (* query / writer / derivation may overwrite core data or a user variable *)
| FShareTable (d t e : string)    (* child of d shares table t, which effect e rewrites in place:
                                     modifying one object changes the other *)
| FStructure (what : string).     (* ranks / names / nested calls not well formed *)

Definition dups (l : list string) : list string :=
  (fix go (l : list string) : list string :=
     match l with [] => [] | x :: r => if smem x r then x :: go r else go r end) l.

Definition failures (cfg : config) : list failure :=
  (* structure *)
  map (fun s => FStructure ("duplicate query " ++ s)%string) (dups (map q_name (queries cfg))) ++
  map (fun s => FStructure ("slot shared by two queries " ++ s)%string)
      (dups (concat (map slot_name (queries cfg)))) ++
  concat (map (fun qc =>
    concat (map (fun d =>
      match find_q cfg (d_query d) with
      | Some qd => if Nat.ltb (q_rank qd) (q_rank qc) then []
                   else [FStructure ("rank of nested call " ++ q_name qc ++ " -> " ++ d_query d)%string]
      | None => [FStructure ("unknown nested call " ++ q_name qc ++ " -> " ++ d_query d)%string]
      end) (q_deps qc))) (queries cfg)) ++
  (* every slot key contains every relevant argument *)
  concat (map (fun qc =>
    if has_slot qc
    then map (FSlotKey (q_name qc)) (filter (fun a => negb (smem a (slot_keys qc))) (q_relevant qc))
    else []) (queries cfg)) ++
  (* every effect clears every cache / slot whose query reads a field it writes *)
  concat (map (fun ec =>
    concat (map (fun qc =>
      if pats_overlap (q_reads qc) (e_writes ec) then
        (if has_lru qc && negb (smem (q_name qc) (e_clears ec))
         then [FStaleLru (q_name qc) (e_name ec)] else []) ++
        (if has_slot qc && negb (smem (q_name qc) (e_clears_slots ec))
         then [FStaleSlot (q_name qc) (e_name ec)] else [])
      else []) (queries cfg))) (effects cfg)) ++
  (* derived objects do not share the slot table *)
  (if any_slot cfg
   then map (fun dc => FShare (dv_name dc)) (filter dv_shares (derivs cfg)) else []) ++
  (* by-products: (A) never read by a memoised query (its stored value must survive them);
     (C) a nested call never writes what its caller or a sibling nested call reads;
     (I) what a nested call writes is listed for its caller too *)
  (concat (map (fun qc =>
     if memoised qc then
       concat (map (fun qw =>
         if pats_overlap (q_reads qc) (q_writes qw) then [FWriteRead (q_name qw) (q_name qc)] else [])
         (queries cfg)) ++
       concat (map (fun dc =>
         if pats_overlap (q_reads qc) (dv_parent_writes dc) then [FWriteRead (dv_name dc) (q_name qc)] else [])
         (derivs cfg))
     else []) (queries cfg)) ++
   concat (map (fun qc =>
     concat (map (fun qd2 =>
       (if pats_overlap (q_reads qc) (q_writes qd2) then [FWriteRead (q_name qd2) (q_name qc)] else []) ++
       concat (map (fun qd1 =>
         if pats_overlap (q_reads qd1) (q_writes qd2) then [FWriteRead (q_name qd2) (q_name qd1)] else [])
         (dep_cfgs cfg qc))) (dep_cfgs cfg qc))) (queries cfg)) ++
   concat (map (fun qc =>
     concat (map (fun qd =>
       if pats_cover (q_writes qc) (q_writes qd) then []
       else [FStructure ("by-products of nested call not listed for the caller " ++ q_name qc ++ " -> " ++ q_name qd)%string])
       (dep_cfgs cfg qc))) (queries cfg))) ++
  (* queries, writers and derivations only add derived keys *)
  concat (map (fun qc => if forallb derived_pat (q_writes qc) then [] else [FProtected (q_name qc)])
              (queries cfg)) ++
  concat (map (fun dc => if forallb derived_pat (dv_parent_writes dc) then [] else [FProtected (dv_name dc)])
              (derivs cfg)) ++
  concat (map (fun ec => if forallb derived_pat (e_writes ec) then [] else [FProtected (e_name ec)])
              (filter e_is_writer (effects cfg))) ++
  (* an effect acts on one object only: no derivation shares a table that an effect rewrites *)
  concat (map (fun dc =>
    concat (map (fun t =>
      concat (map (fun ec =>
        if pats_overlap [(t, None)] (e_writes ec) then [FShareTable (dv_name dc) t (e_name ec)] else [])
        (effects cfg))) (dv_shared_tables dc))) (derivs cfg)).

Definition cfg_ok (cfg : config) : bool :=
  match failures cfg with [] => true | _ => false end.

(* ------------------------------------------------------------ the machine *)
Inductive op :=
| New (o : oid)                               (* build a fresh object from raw arrays *)
| Query (o : oid) (q : string) (a : argv)
| Effect (o : oid) (e : string)               (* in-place modifier or writer *)
| Derive (o o' : oid) (d : string).           (* o' := o.d() *)

Section Machine.
  Variable cfg : config.
  Variables mesh value fval : Type.
  Variable get : field -> mesh -> fval.
  Variable sem : string -> argv -> mesh -> value.          (* what a fresh object returns *)
  Variable comb : string -> argv -> mesh -> list value -> value.  (* body, given nested results *)
  Variable depsel : string -> argv -> list (string * argv * bool).  (* nested calls really made *)
  Variable post : string -> argv -> value -> value.        (* re-validation applied on a slot hit *)
  Variable stores : string -> argv -> value -> bool.       (* false: the call raised *)
  Variable qeff : string -> argv -> mesh -> mesh.          (* by-product of computing q *)
  Variable epre : string -> list (string * argv * bool).   (* queries an effect/derivation calls *)
  Variable esem : string -> list (option value) -> mesh -> mesh.
  Variable dsem : string -> list (option value) -> mesh -> mesh.   (* child mesh *)
  Variable dpeff : string -> mesh -> mesh.                 (* by-product on the parent *)
  Variable fresh : oid -> mesh.                            (* what New o builds *)

  Record obj := mkobj { o_mesh : mesh; o_tab : oid }.
  Record state := mkst {
    world : oid -> option obj;
    caches : string -> list ((oid * argv) * value);
    slots : oid -> string -> option (argv * value) }.

  Definition init : state := mkst (fun _ => None) (fun _ => []) (fun _ _ => None).

  Fixpoint lru_find (k : oid * argv) (l : list ((oid * argv) * value)) : option value :=
    match l with
    | [] => None
    | (k', v) :: r => if key_eqb k k' then Some v else lru_find k r
    end.
  Definition lru_remove (k : oid * argv) (l : list ((oid * argv) * value)) :=
    filter (fun e => negb (key_eqb k (fst e))) l.
  Definition lru_put (ms : option nat) (k : oid * argv) (v : value) (l : list ((oid * argv) * value)) :=
    let l' := (k, v) :: lru_remove k l in
    match ms with None => l' | Some n => firstn n l' end.

  Definition set_cache (st : state) (q : string) (l : list ((oid * argv) * value)) : state :=
    mkst (world st) (fun q' => if String.eqb q' q then l else caches st q') (slots st).
  Definition set_mesh (st : state) (o : oid) (x : mesh) : state :=
    mkst (fun o' => if Nat.eqb o' o
                    then match world st o' with Some ob => Some (mkobj x (o_tab ob)) | None => None end
                    else world st o')
         (caches st) (slots st).
  Definition set_slot (st : state) (t : oid) (q : string) (e : option (argv * value)) : state :=
    mkst (world st) (caches st)
         (fun t' q' => if Nat.eqb t' t && String.eqb q' q then e else slots st t' q').

  Definition lru_store (st : state) (qc : qcfg) (q : string) (o : oid) (a : argv) (v : value) : state :=
    match q_lru qc with
    | None => st
    | Some ms => set_cache st q (lru_put ms (o, a) v (caches st q))
    end.
  Definition slot_store (st : state) (qc : qcfg) (q : string) (t : oid) (a : argv) (v : value) : state :=
    match q_slot qc with
    | None => st
    | Some _ => set_slot st t q (Some (a, v))
    end.
  Definition slot_hit (st : state) (ob : obj) (qc : qcfg) (q : string) (a : argv) : option value :=
    match q_slot qc with
    | None => None
    | Some (_, ks) =>
        match slots st (o_tab ob) q with
        | Some (a0, v0) => if olist_eqb (proj ks a0) (proj ks a) then Some v0 else None
        | None => None
        end
    end.

  Definition dep_allowed (qc : qcfg) (d : string * argv * bool) : bool :=
    existsb (fun dd => String.eqb (d_query dd) (fst (fst d)) && Bool.eqb (d_bypass dd) (snd d)) (q_deps qc).
  Definition sel_deps (qc : qcfg) (q : string) (a : argv) : list (string * argv * bool) :=
    filter (dep_allowed qc) (depsel q a).
  Definition sel_pre (names : list string) (e : string) : list (string * argv * bool) :=
    filter (fun d => smem (fst (fst d)) names && negb (snd d)) (epre e).

  Fixpoint all_some (l : list (option value)) : option (list value) :=
    match l with
    | [] => Some []
    | Some v :: r => match all_some r with Some vs => Some (v :: vs) | None => None end
    | None :: _ => None
    end.

  Fixpoint eval_list (ev : state -> oid -> string -> argv -> bool -> state * option value)
           (st : state) (o : oid) (ds : list (string * argv * bool)) : state * list (option value) :=
    match ds with
    | [] => (st, [])
    | (q, a, f) :: r =>
        let '(st1, v) := ev st o q a f in
        let '(st2, vs) := eval_list ev st1 o r in
        (st2, v :: vs)
    end.

  (* one call of q on o with keyword arguments a; force = the call passes elements=... (no slot test) *)
  Fixpoint eval (fuel : nat) (st : state) (o : oid) (q : string) (a : argv) (force : bool)
    : state * option value :=
    match fuel with
    | O => (st, None)
    | S n =>
      match find_q cfg q, world st o with
      | Some qc, Some ob =>
        match (if has_lru qc then lru_find (o, a) (caches st q) else None) with
        | Some v => (lru_store st qc q o a v, Some v)          (* hit: moved to the front *)
        | None =>
          match (if force then None else slot_hit st ob qc q a) with
          | Some v0 => let v := post q a v0 in (lru_store st qc q o a v, Some v)
          | None =>
            let '(st1, vs) := eval_list (eval n) st o (sel_deps qc q a) in
            match all_some vs, world st1 o with
            | Some vals, Some ob1 =>
                let v := comb q a (o_mesh ob1) vals in
                let st2 := set_mesh st1 o (qeff q a (o_mesh ob1)) in
                if stores q a v
                then (lru_store (slot_store st2 qc q (o_tab ob1) a v) qc q o a v, Some v)
                else (st2, Some v)
            | _, _ => (st1, None)
            end
          end
        end
      | _, _ => (st, None)
      end
    end.

  Definition clear_caches (st : state) (qs : list string) : state :=
    mkst (world st) (fun q => if smem q qs then [] else caches st q) (slots st).
  Definition clear_slots (st : state) (t : oid) (qs : list string) : state :=
    mkst (world st) (caches st)
         (fun t' q => if Nat.eqb t' t && smem q qs then None else slots st t' q).

  Definition step (st : state) (p : op) : state * option value :=
    match p with
    | New o =>
        match world st o with
        | Some _ => (st, None)
        | None => (mkst (fun o' => if Nat.eqb o' o then Some (mkobj (fresh o) o) else world st o')
                        (caches st)
                        (fun t q => if Nat.eqb t o then None else slots st t q), None)
        end
    | Query o q a => eval (fuel0 cfg) st o q a false
    | Effect o e =>
        match find_e cfg e, world st o with
        | Some ec, Some _ =>
            let '(st1, vs) := eval_list (eval (fuel0 cfg)) st o (sel_pre (e_pre ec) e) in
            match world st1 o with
            | Some ob1 =>
                let st2 := set_mesh st1 o (esem e vs (o_mesh ob1)) in
                (clear_slots (clear_caches st2 (e_clears ec)) (o_tab ob1) (e_clears_slots ec), None)
            | None => (st1, None)
            end
        | _, _ => (st, None)
        end
    | Derive o o' d =>
        match find_d cfg d, world st o, world st o' with
        | Some dc, Some _, None =>
            let '(st1, vs) := eval_list (eval (fuel0 cfg)) st o (sel_pre (dv_pre dc) d) in
            match world st1 o with
            | Some ob1 =>
                let child := dsem d vs (o_mesh ob1) in
                let st2 := set_mesh st1 o (dpeff d (o_mesh ob1)) in
                let t := if dv_shares dc then o_tab ob1 else o' in
                (mkst (fun x => if Nat.eqb x o' then Some (mkobj child t) else world st2 x)
                      (caches st2)
                      (fun t' q => if dv_shares dc then slots st2 t' q
                                   else if Nat.eqb t' o' then None else slots st2 t' q), None)
            | None => (st1, None)
            end
        | _, _, _ => (st, None)
        end
    end.

  Fixpoint exec (h : list op) (st : state) : state :=
    match h with
    | [] => st
    | p :: r => exec r (fst (step st p))
    end.

  (* answers of the Query ops of a history, in order *)
  Fixpoint answers (h : list op) (st : state) : list (option value) :=
    match h with
    | [] => []
    | p :: r => let '(st', v) := step st p in
                match p with Query _ _ _ => v :: answers r st' | _ => answers r st' end
    end.
End Machine.

(* ------------------------------------------------------------ a toy semantics
   used to *run* the machine inside Coq (witness histories, non-vacuity):
   a mesh is a version counter per field; an effect bumps the fields it
   writes; a query returns its name, its relevant arguments and the versions
   of what it reads. *)
Definition tmesh := list (field * nat).
Definition tget (f : field) (x : tmesh) : nat :=
  match find (fun e => String.eqb (fst (fst e)) (fst f) && String.eqb (snd (fst e)) (snd f)) x with
  | Some e => snd e | None => 0 end.
Definition tbump (ps : list fpat) (x : tmesh) : tmesh :=
  map (fun e => if pats_match ps (fst e) then (fst e, S (snd e)) else e) x.
Definition tvalue := (string * list (option string) * list nat)%type.

Definition tfields : list field :=
  [("nodes", ""); ("elements", ""); ("nodal_data", "user"); ("elemental_data", "user");
   ("nodal_data", "NODE"); ("elemental_data", "face"); ("settings", "solution_type")].
Definition tfresh (o : oid) : tmesh := map (fun f => (f, 0)) tfields.

Definition tsem (cfg : config) (q : string) (a : argv) (x : tmesh) : tvalue :=
  match find_q cfg q with
  | Some qc => (q, proj (q_relevant qc) a,
                map (fun f => tget f x) (filter (pats_match (q_reads qc)) tfields))
  | None => (q, [], [])
  end.
Definition twrites_e (cfg : config) (e : string) : list fpat :=
  match find_e cfg e with Some ec => e_writes ec | None => [] end.
Definition twrites_q (cfg : config) (q : string) : list fpat :=
  match find_q cfg q with Some qc => q_writes qc | None => [] end.
Definition twrites_d (cfg : config) (d : string) : list fpat :=
  match find_d cfg d with Some dc => dv_parent_writes dc | None => [] end.

Definition trun (cfg : config) (h : list op) : list (option tvalue) :=
  answers cfg tmesh tvalue
    (fun q a x _ => tsem cfg q a x)          (* comb: recomputes from the mesh *)
    (fun _ _ => [])                          (* no nested calls *)
    (fun _ _ v => v) (fun _ _ _ => true)
    (fun q _ x => tbump (twrites_q cfg q) x)
    (fun _ => [])
    (fun e _ x => tbump (twrites_e cfg e) x)
    (fun d _ x => tbump [("elements", None)] x)
    (fun d x => tbump (twrites_d cfg d) x)
    tfresh h (init tmesh tvalue).

(* the same inventory without any memory: trivially history independent *)
Definition no_memo (cfg : config) : config :=
  mkcfg (map (fun qc => mkq (q_name qc) (q_rank qc) None None (q_relevant qc) (q_reads qc)
                            (q_writes qc) (q_deps qc)) (queries cfg))
        (effects cfg)
        (map (fun dc => mkd (dv_name dc) (dv_pre dc) false (dv_parent_writes dc) (dv_shared_tables dc))
             (derivs cfg)).

Fixpoint olist_t_eqb (a b : list nat) : bool :=
  match a, b with
  | [], [] => true
  | x :: r, y :: s => Nat.eqb x y && olist_t_eqb r s
  | _, _ => false
  end.
Definition tvalue_eqb (a b : option tvalue) : bool :=
  match a, b with
  | Some (q, p, r), Some (q', p', r') => String.eqb q q' && olist_eqb p p' && olist_t_eqb r r'
  | None, None => true
  | _, _ => false
  end.
(* does the model itself answer differently with and without memory? *)
Definition tdiffers (cfg : config) (h : list op) : bool :=
  let a := trun cfg h in let b := trun (no_memo cfg) h in
  negb (Nat.eqb (length a) (length b)) ||
  existsb (fun p => negb (tvalue_eqb (fst p) (snd p))) (combine a b).

Definition slot_queries (cfg : config) : list string :=
  map q_name (filter has_slot (queries cfg)).

(* witness history of a failure (objects 0 and 1) *)
Definition witness (cfg : config) (f : failure) : list op :=
  match f with
  | FStaleLru q e | FStaleSlot q e => [New 0; Query 0 q []; Effect 0 e; Query 0 q []]
  | FSlotKey q arg => [New 0; Query 0 q [(arg, "A")]; Query 0 q [(arg, "B")]]
  | FShare d => [New 0] ++ map (fun q => Query 0 q []) (slot_queries cfg) ++ [Derive 0 1 d]
                ++ map (fun q => Query 1 q []) (slot_queries cfg)
  | FWriteRead w q => [New 0; Query 0 q []; Query 0 w []; Derive 0 1 w; Query 0 q []]
  | FProtected w => []
  | FShareTable d t e => [New 0; Derive 0 1 d; Effect 0 e]
  | FStructure _ => []
  end.
Definition confirmed (cfg : config) : list (failure * bool) :=
  map (fun f => (f, tdiffers cfg (witness cfg f))) (failures cfg).
