(* C19 — the in-mesh result slots, concretely.

   Model of the protocol femio uses for elemental_data['area' | 'volume' | 'metric']
   (geometry_processor.py: _validate_metric, _slot_answers, _store_slot and the
   slot branch / store tail of calculate_element_areas / _volumes / _metrics
   called with elements=None, update=True).  The generic cache machine of
   Model.v treats this as an abstract slot with a `post` re-validation that is
   assumed idempotent (hypothesis H_post) and a slot key; here the protocol is
   executable over exact rationals and the properties are proved:
   SlotProofs.v.  Definitions only. *)
From Coq Require Import QArith Qabs List Bool Arith.
Import ListNotations.

(* the options a call is made with; for 'metric' the mode is constant *)
Record opts := mkopts { o_mode : nat; o_raise : bool; o_abs : bool }.
Definition opts_eqb (a b : opts) : bool :=
  Nat.eqb (o_mode a) (o_mode b) && Bool.eqb (o_raise a) (o_raise b) && Bool.eqb (o_abs a) (o_abs b).

Inductive res := Val (v : list Q) | Raise.

Definition qneg (x : Q) : bool := negb (Qle_bool 0 x).
Definition any_neg (m : list Q) : bool := existsb qneg m.

(* _validate_metric: raise on a negative entry if asked to, absolute values if asked to *)
Definition validate (o : opts) (m : list Q) : res :=
  if o_raise o && any_neg m then Raise
  else Val (if o_abs o then map Qabs m else m).

(* an entry of the variable table under the slot's name; e_opts = None: not
   stored by the calculate_element_* methods (the user's variable, or one
   read from a file) *)
Record entry := mkentry { e_vals : list Q; e_opts : option opts }.

(* _slot_answers *)
Definition slot_answers (e : entry) (o : opts) : bool :=
  match e_opts e with None => true | Some o' => opts_eqb o' o end.

(* _store_slot: a variable of that name the library did not store is left alone *)
Definition store_slot (t : option entry) (v : list Q) (o : opts) : option entry :=
  match t with
  | Some e => match e_opts e with None => t | Some _ => Some (mkentry v (Some o)) end
  | None => Some (mkentry v (Some o))
  end.

(* one call; signed m = what the geometry kernels compute on the current mesh in mode m *)
Definition slot_compute (signed : nat -> list Q) (t : option entry) (o : opts) : res * option entry :=
  match validate o (signed (o_mode o)) with
  | Raise => (Raise, t)
  | Val v => (Val v, store_slot t v o)
  end.
Definition slot_query (signed : nat -> list Q) (t : option entry) (o : opts) : res * option entry :=
  match t with
  | Some e => if slot_answers e o then (validate o (e_vals e), t) else slot_compute signed t o
  | None => slot_compute signed t o
  end.

(* a history of calls on one object: answers and final table *)
Fixpoint slot_run (signed : nat -> list Q) (t : option entry) (h : list opts) : list res * option entry :=
  match h with
  | [] => ([], t)
  | o :: r => let '(v, t') := slot_query signed t o in
              let '(vs, t'') := slot_run signed t' r in (v :: vs, t'')
  end.

(* what the same call answers on a freshly built equal mesh (equal = same
   nodes / elements / user variables; results the library stored are not part
   of a mesh) *)
Definition user_part (t : option entry) : option entry :=
  match t with Some e => match e_opts e with None => t | Some _ => None end | None => None end.
(* an in-place modifier (FEMData._clear_query_caches, _elements_changed, _nodes_changed) pops
   the three names - but only entries the calculate_element_* methods stored (they carry
   options); a variable of that name the user stored is data and stays *)
Definition drop_slot (t : option entry) : option entry := user_part t.
Definition fresh_answer (signed : nat -> list Q) (t0 : option entry) (o : opts) : res :=
  match user_part t0 with
  | Some u => validate o (e_vals u)
  | None => validate o (signed (o_mode o))
  end.

(* the table is in a state the protocol itself produces on this mesh *)
Definition valid_table (signed : nat -> list Q) (t : option entry) : Prop :=
  match t with
  | None => True
  | Some e => match e_opts e with
              | None => True
              | Some o => validate o (signed (o_mode o)) = Val (e_vals e)
              end
  end.

(* histories of calls and in-place modifications; a modification drops the
   library's entry and may change what the kernels compute (signed) *)
Inductive mop := MCall (o : opts) | MModify (signed' : nat -> list Q).
Fixpoint run_m (signed : nat -> list Q) (t : option entry) (h : list mop) : list res * option entry :=
  match h with
  | [] => ([], t)
  | MCall o :: r => let '(v, t') := slot_query signed t o in
                    let '(vs, t'') := run_m signed t' r in (v :: vs, t'')
  | MModify s :: r => run_m s (drop_slot t) r
  end.
(* the answers of freshly built equal meshes along the same history *)
Fixpoint spec_m (signed : nat -> list Q) (t0 : option entry) (h : list mop) : list res :=
  match h with
  | [] => []
  | MCall o :: r => fresh_answer signed t0 o :: spec_m signed t0 r
  | MModify s :: r => spec_m s t0 r
  end.

(* executable comparison helpers for the correspondence check *)
Fixpoint qlist_eqb (a b : list Q) : bool :=
  match a, b with
  | [], [] => true
  | x :: r, y :: s => Qeq_bool x y && qlist_eqb r s
  | _, _ => false
  end.
Definition res_eqb (a b : res) : bool :=
  match a, b with Val x, Val y => qlist_eqb x y | Raise, Raise => true | _, _ => false end.
Definition oopts_eqb (a b : option opts) : bool :=
  match a, b with Some x, Some y => opts_eqb x y | None, None => true | _, _ => false end.
Definition entry_eqb (a b : option entry) : bool :=
  match a, b with
  | Some x, Some y => qlist_eqb (e_vals x) (e_vals y) && oopts_eqb (e_opts x) (e_opts y)
  | None, None => true
  | _, _ => false
  end.
(* trace of a history: (answer, table after the call) per call *)
Fixpoint slot_trace (signed : nat -> list Q) (t : option entry) (h : list opts) : list (res * option entry) :=
  match h with
  | [] => []
  | o :: r => let p := slot_query signed t o in p :: slot_trace signed (snd p) r
  end.
Fixpoint trace_eqb (a b : list (res * option entry)) : bool :=
  match a, b with
  | [], [] => true
  | (v, t) :: r, (v', t') :: s => res_eqb v v' && entry_eqb t t' && trace_eqb r s
  | _, _ => false
  end.

(* histories with in-place modifications in between (correspondence check):
   Drop = a modifier that leaves the values as they are (remove_useless_nodes),
   Mod s = one after which the kernels compute s (connectivity assignment) *)
Inductive sop := Call (o : opts) | Drop | Mod (s : nat -> list Q).
Fixpoint slot_trace_ops (signed : nat -> list Q) (t : option entry) (h : list sop) : list (res * option entry) :=
  match h with
  | [] => []
  | Call o :: r => let p := slot_query signed t o in p :: slot_trace_ops signed (snd p) r
  | Drop :: r => (Val [], drop_slot t) :: slot_trace_ops signed (drop_slot t) r
  | Mod s :: r => (Val [], drop_slot t) :: slot_trace_ops s (drop_slot t) r
  end.
