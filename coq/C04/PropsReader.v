(* C04 -- statements about the reader parametrised by its line / column arithmetic (ReadParam.v).
   Statements only.  The harness instantiates `o` with the offsets translated from
   femio/formats/ucd/ucd.py of the tree under test (gen/UcdOffsets.v) and discharges `agree o` on
   every run (C04_reader_offsets_agree), which yields C04_ucd_roundtrip_translated_reader: the round
   trip stated directly over the translated offsets. *)
From Coq Require Import ZArith String List Ascii Bool Arith.
Import ListNotations.
From FV.C04 Require Import Text Model Proofs Corr Offsets ReadParam.
From FV.C04.gen Require Import UcdCfg.

Section Statement.
  Variable V : Type.
  Variable vprint : V -> str.
  Variable vparse : str -> option V.
  Hypothesis vparse_vprint : forall v, vparse (vprint v) = Some v.
  Hypothesis vprint_token : forall v, tokenb (vprint v) = true.

  (* A reader that takes every line index, slice bound and column start from `o` is the modelled
     reader, on EVERY file (well-formed or not), as soon as `o` agrees with the model's positions on
     the header counts a reader can see. *)
  Theorem C04_reader_at_is_reader :
    forall o : offs, agree o ->
    forall lines, read_ucd_at V vparse element_types o lines = read_ucd V vparse element_types lines.
  Proof. intros o Ho lines. apply read_ucd_at_agree. exact Ho. Qed.

  (* Full statement of the property for that reader. *)
  Theorem C04_ucd_roundtrip_reader_at :
    forall o : offs, agree o ->
    cfg_ok UcdCfg.cfg = true ->
    forall m : mesh V, wf V element_types m = true ->
      roundtrip_at V vprint vparse element_types o UcdCfg.cfg m = Ok (first_order V element_types m).
  Proof. intros o Ho Hc m Hwf. apply roundtrip_at_ok; auto. Qed.
End Statement.

(* non-vacuity: the model's own positions agree (so the hypothesis `agree o` is satisfiable), a
   record that reads the nodal names one line early does NOT, and the parametrised reader really
   depends on `o`: with the shifted record the round trip of the example mesh fails *)
Theorem C04_agree_model : agree model_offs.
Proof. exact agree_model. Qed.

Definition shifted_offs : offs :=
  {| o_nodal_header_line := o_nodal_header_line model_offs;
     o_elemental_header_line := o_elemental_header_line model_offs;
     o_nodes_lo := o_nodes_lo model_offs; o_nodes_hi := o_nodes_hi model_offs;
     o_elems_lo := o_elems_lo model_offs; o_elems_hi := o_elems_hi model_offs;
     o_nnames_lo := fun N E DN DE ND NE => o_nnames_lo model_offs N E DN DE ND NE - 1;
     o_nnames_hi := fun N E DN DE ND NE => o_nnames_hi model_offs N E DN DE ND NE - 1;
     o_nrows_lo := o_nrows_lo model_offs; o_nrows_hi := o_nrows_hi model_offs;
     o_enames_lo := o_enames_lo model_offs; o_enames_hi := o_enames_hi model_offs;
     o_erows_lo := o_erows_lo model_offs; o_erows_hi := o_erows_hi model_offs;
     o_node_first_col := o_node_first_col model_offs; o_elem_type_col := o_elem_type_col model_offs;
     o_elem_first_col := o_elem_first_col model_offs; o_data_first_col := o_data_first_col model_offs |}.

Definition ex_mesh : mesh str :=
  Build_mesh
    [(5%Z, [S "0.0"; S "-0.0"; S "NaN"]); (3%Z, [S "1e+308"; S "5e-324"; S "0.1"])]
    [(S "line", [(30%Z, [5%Z; 3%Z]); (10%Z, [3%Z; 5%Z])])]
    [Build_nvar (S "t") true [(3%Z, [S "2.5"]); (5%Z, [S "1.5"])]]
    [Build_evar (S "p") true [(S "line", [(10%Z, [S "10.0"]); (30%Z, [S "30.0"])])]].
Definition by_id_cfg : wcfg := {| nodal_by_id := true; elemental_by_id := true |}.

Theorem C04_reader_at_example :
  wf str element_types ex_mesh = true
  /\ res_agree ucd_eqb (roundtrip_at str tprint tparse element_types model_offs by_id_cfg ex_mesh)
       (Some (first_order str element_types ex_mesh)) = true
  /\ res_agree ucd_eqb (roundtrip_at str tprint tparse element_types shifted_offs by_id_cfg ex_mesh)
       (Some (first_order str element_types ex_mesh)) = false
  /\ ~ agree shifted_offs.
Proof.
  split; [vm_compute; reflexivity|]. split; [vm_compute; reflexivity|]. split; [vm_compute; reflexivity|].
  intros H. destruct (H 1 1 1 0 1 0) as (_ & _ & _ & _ & _ & _ & A & _); [auto | auto |].
  vm_compute in A. discriminate A.
Qed.

Print Assumptions C04_reader_at_is_reader.
Print Assumptions C04_ucd_roundtrip_reader_at.
Print Assumptions C04_reader_at_example.
